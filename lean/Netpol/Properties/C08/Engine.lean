import Netpol.Proofs.PermLayer
import Netpol.Proofs.PermErrors
import Netpol.Proofs.PermIngress
import Netpol.Proofs.PermRules

/-! # C08 (engine part) — the modelled analysis does not depend on the order of the input

In the Go code pods, namespaces and policies live in Go maps (random iteration order) and the
input documents come in any order and file layout. The model keeps Go maps as association lists in
insertion order (`Netpol.Model.Engine`), so "the result does not depend on map iteration order nor
on document order" is: for `objs.Perm objs'`, the analysis of `objs'` gives what the analysis of
`objs` gives. Only the property statements are here; the proofs are in `Netpol.Proofs.PermLayer`
(and `Netpol.Proofs.PermErrors`), on top of C01/C02 (`EngineLayer`, `NPLayer`), C05/C19
(`Structure`), C11 (`ConnSet`) and C17.

Vocabulary (`Netpol.PermLayer`).
* `podsIn objs` — the pods the objects contribute (Pod objects, and the one or two pods generated
  per workload manifest); `nssIn objs` — the Namespace objects as stored.
* `DistinctKeys objs` — no two of these pods share `namespace/name`, no two Namespace objects share
  a name (otherwise the later one replaces the earlier one: counterexamples 1, 2, 3 below).
* `PodsReal objs` — no pod is the representative pod of the exposure analysis (the parser never
  produces one).
* `PodPortsValid objs`, `NPRulesValid objs`, `PoliciesValid objs` — API validation: container ports
  and rule ports are port numbers, no empty rule peer (`NPRulesValid`, the NetworkPolicy clause of
  `PoliciesValid`); admin rules have peers and valid ports, no `Pass` in the BANP. Without valid
  ports the union of connection sets is order-sensitive ("all connections" is only recognised on
  the exact range 1-65535); without valid rules two different evaluation errors can be present and
  the first one met is reported. Since `getPoliciesSelectingPod` visits the selecting policies in
  the order of their names (`Engine.policiesSelecting` = `sortByName` of the selecting policies)
  neither depends on the order of the *documents* any more (`list_order_independent_keys_only`;
  examples 5, 7, 8 below, former counterexamples); both still depend on the order of the rules
  *inside* one policy (counterexamples 7i, 8i and `Netpol.PermRules.Findings`), and the proof for the
  ingress-controller lines (`PermIngress`) still goes through the denotational reading of the
  connection sets, which needs them.
* `WellFormed objs` — `DistinctKeys`, `PodsReal`, `PodPortsValid`, `PoliciesValid` together. All are
  decidable and invariant under permutation.
* `Engine.Equiv e e'` — the two engines hold the same objects: namespaces, pods, NetworkPolicies are
  permutations of each other with unique keys; the sorted ANP slice and the BANP are equal.
* `IngressWF objs` (`Netpol.PermIngress`) — needed for the ingress-controller lines only: two
  *effective* Service documents (non-empty selector selecting some pod) with the same namespace and
  name are the same document (`lookupSvc` keeps the last one met; counterexamples in
  `Netpol.PermIngress.Cx`).

`createPodOwnersMap` walks the pods in the order of their keys (`Engine.sortedPods`), so the pod
standing for a workload is the one with the greatest key, whatever the order of the pod map: the
workload peers, the peers list and the peers × peers loop of two equivalent engines are *equal*,
not only equal up to order. Before that repair the report depended on the order of the pod map
whenever two pods of one workload differed in something the analysis reads (container ports: the
former counterexample 4, now example 4 below), and the theorems needed the hypothesis that such
pods are interchangeable (`PermLayer.UniformPods`, still used by the general lemmas on similar
peers, no longer by the theorems here). -/
namespace Netpol.Properties.C08.Engine
open Netpol Netpol.Engine Netpol.Structure Netpol.PermLayer

/-! ### A. `build`: acceptance, the engine, the error -/

/-- acceptance does not depend on the order: `build` fails on one order iff it fails on the
other. No hypothesis. -/
theorem build_accepts_order_independent {objs objs' : List Obj} (hp : objs.Perm objs') :
    (Netpol.Engine.build objs).isOk = (Netpol.Engine.build objs').isOk := by
  have key : ∀ l : List Obj, (Netpol.Engine.build l).isOk = true ↔ ∃ e, Netpol.Engine.build l = .ok e := by
    intro l
    cases Netpol.Engine.build l with
    | error err => simp [Except.isOk, Except.toBool]
    | ok e => simp [Except.isOk, Except.toBool]
  rw [Bool.eq_iff_iff, key, key]
  exact build_isOk_perm hp

/-- `build` succeeds exactly on conflict-free inputs with valid, pairwise distinct ANP priorities
(C19 gives one direction); all clauses speak about the multiset of objects -/
theorem build_ok_iff (objs : List Obj) :
    (∃ e, Netpol.Engine.build objs = .ok e) ↔ ConflictFree objs ∧
      ((anpsOf objs).map (·.prio)).Nodup ∧ ∀ a ∈ anpsOf objs, 0 ≤ a.prio ∧ a.prio ≤ 1000 :=
  PermLayer.build_ok_iff objs

/-- with distinct keys, the engine built from a reordered input holds the same objects -/
theorem build_order_independent {objs objs' : List Obj} (hp : objs.Perm objs')
    (hk : DistinctKeys objs) {e : Netpol.Engine} (h : Netpol.Engine.build objs = .ok e) :
    ∃ e', Netpol.Engine.build objs' = .ok e' ∧ e.Equiv e' :=
  build_perm hp hk h

/-- on equivalent engines the namespace lookup agrees -/
theorem equiv_findNs {e e' : Netpol.Engine} (h : e.Equiv e') (n : String) : e.findNs n = e'.findNs n :=
  h.findNs n

/-- the error `build` reports names a kind of conflict that is present in the input
(`ErrClause err objs`, a property of the multiset of objects) -/
theorem build_error_names_present_conflict {objs : List Obj} {err : Err}
    (h : Netpol.Engine.build objs = .error err) : ErrClause err objs :=
  build_error_clause h

/-- hence, when only one kind of conflict is present, every order reports the same error. (With
two kinds the first conflict met wins: counterexample 6.) -/
theorem build_error_order_independent {objs objs' : List Obj} (hp : objs.Perm objs') {err : Err}
    (h : Netpol.Engine.build objs = .error err)
    (hsingle : ∀ err', ErrClause err' objs → err' = err) : Netpol.Engine.build objs' = .error err :=
  build_error_perm hp h hsingle

/-! ### B. workload peers and IP peers -/

/-- `createPodOwnersMap` fails (always with `ownerLabels`) on one order of the pod map iff it fails
on the other: the check "all pods of an owner carry the same labels" compares every pod with the
first one met, and label equality is symmetric and transitive -/
theorem owners_check_order_independent {e e' : Netpol.Engine} (hp : e.pods.Perm e'.pods) :
    (∃ r, e.podOwnersMap = .ok r) ↔ (∃ r, e'.podOwnersMap = .ok r) :=
  podOwnersMap_isOk_perm hp

/-- the IP peers (the partition induced by all `ipBlock`s) do not depend on the policy order -/
theorem ip_peers_order_independent {e e' : Netpol.Engine} (hp : e.netpols.Perm e'.netpols) :
    e.disjointIPBlocks = e'.disjointIPBlocks :=
  disjointIPBlocks_perm hp

/-- **the workload peers and the pods standing for them do not depend on the order of the pod
map**: `createPodOwnersMap` visits the pods in sorted key order -/
theorem owners_order_independent {e e' : Netpol.Engine} (hp : e.pods.Perm e'.pods)
    (hn : (e.pods.map podKey).Nodup) : e.podOwnersMap = e'.podOwnersMap :=
  podOwnersMap_perm hp hn

/-- equivalent engines list the same peers, in the same order, standing on the same pods -/
theorem peers_order_independent {e e' : Netpol.Engine} (h : e.Equiv e') :
    e.peersList = e'.peersList :=
  peersList_equiv h

/-- in particular the sorted peer names — the `peers` line of the report — are equal -/
theorem peer_names_order_independent {e e' : Netpol.Engine} (h : e.Equiv e')
    {peers peers' : List LPeer} (hpl : e.peersList = .ok peers) (hpl' : e'.peersList = .ok peers') :
    WorldDriver.sortStrs (peers.map (·.str)) = WorldDriver.sortStrs (peers'.map (·.str)) := by
  rw [peersList_equiv h, hpl'] at hpl
  cases hpl
  rfl

/-! ### C. one pair of peers -/

/-- the NetworkPolicy layer: the union over the selecting policies does not depend on their
order — `ConnSet.union` is commutative, associative and idempotent on the canonical, name-free
values the policies produce (C11), and on valid rules all failures are `namedPortOnIP` -/
theorem netpol_layer_order_free {e e' : Netpol.Engine} (hp : e.netpols.Perm e'.netpols)
    (hv : NPValid e.netpols) (src dst : KPeer) (hd : dst.DstOK) (isIngress : Bool) :
    e.netpolConns src dst isIngress = e'.netpolConns src dst isIngress :=
  netpolConns_perm hp hv src dst hd isIngress

/-- one pair on two equivalent engines: the same connection set or the same error -/
theorem pair_order_independent {e e' : Netpol.Engine} (h : e.Equiv e') (hv : NPValid e.netpols)
    (src dst : KPeer) (hd : dst.DstOK) : e.peerConns src dst = e'.peerConns src dst :=
  peerConns_equiv h hv src dst hd

/-- … also when the two ends stand on different but similar pods (replicas) -/
theorem pair_order_independent_sim {e e' : Netpol.Engine} (h : e.Equiv e') (hv : NPValid e.netpols)
    {ks ks' kd kd' : KPeer} (hs : KSim ks ks') (hd : KSim kd kd') (hok : kd.DstOK)
    (h1 : isPodToItself ks kd = false) (h2 : isPodToItself ks' kd' = false) :
    e.peerConns ks kd = e'.peerConns ks' kd' :=
  peerConns_sim h hv hs hd hok h1 h2

/-- without empty rule peers, `ruleSelectsPeer` is an `any` over the rule peers: it never fails
and is order-free in the peers of a rule -/
theorem rule_peers_order_free (np : NetPol) (k : KPeer) {peers peers' : List NPPeer}
    (hp : peers.Perm peers') (hne : ∀ rp ∈ peers, rp ≠ .sel none none) :
    np.ruleSelectsPeer peers k = np.ruleSelectsPeer peers' k := by
  rw [ruleSelectsPeer_any np k peers hne,
    ruleSelectsPeer_any np k peers' (fun rp h => hne rp (hp.mem_iff.mpr h)), hp.isEmpty_eq,
    hp.any_eq]

/-! ### D. the computed relation -/

/-- the peers × peers loop on two equivalent engines: the same entries in the same order, or the
same error (`LPeer.DstOK`: the workload peers stand on real pods with legal container ports) -/
theorem loop_order_independent {e e' : Netpol.Engine} (h : e.Equiv e') (hv : NPValid e.netpols)
    (focus : String) (peers : List LPeer) (hok : ∀ d ∈ peers, d.DstOK) :
    e.connsBetweenPeers peers focus = e'.connsBetweenPeers peers focus :=
  connsBetweenPeers_equiv h hv focus peers hok

/-- on an input with distinct keys, real pods, valid ports and valid NetworkPolicy rules, and any
reordering of it: the same peers list, the same owner map, and the peers × peers loop returns the
same entries in the same order, or the same error -/
theorem list_relation_order_independent {objs objs' : List Obj} (hp : objs.Perm objs')
    (hk : DistinctKeys objs) (hr : PodsReal objs) (hpp : PodPortsValid objs)
    (hv : NPRulesValid objs) {e e' : Netpol.Engine} (hb : Netpol.Engine.build objs = .ok e)
    (hb' : Netpol.Engine.build objs' = .ok e') (focus : String) :
    e.peersList = e'.peersList ∧ e.podOwnersMap = e'.podOwnersMap ∧
    ∀ peers, e.peersList = .ok peers →
      e.connsBetweenPeers peers focus = e'.connsBetweenPeers peers focus :=
  list_relation_perm hp hk hr hpp hv hb hb' focus

/-! ### E. the report -/

/-- **C08, part 1: the `list` report does not depend on the order of the objects.** On a
well-formed input that `build` accepts, every reordering of the objects (document order, file
layout, Go map iteration order) yields the same report: peers, connection lines,
ingress-controller lines and blocked workloads — or the same evaluation error. -/
theorem list_order_independent {objs objs' : List Obj} (hp : objs.Perm objs')
    (hw : WellFormed objs) (hi : PermIngress.IngressWF objs)
    (hok : (Netpol.Engine.build objs).isOk = true) (focus : String) :
    WorldDriver.runList objs focus = WorldDriver.runList objs' focus := by
  refine PermIngress.runList_perm hp hw hi ?_ focus
  cases h : Netpol.Engine.build objs with
  | error err => rw [h] at hok; simp [Except.isOk, Except.toBool] at hok
  | ok e => exact ⟨e, rfl⟩

/-- the well-formedness of the input does not depend on the order either (so the theorem can be
chained) -/
theorem wellFormed_order_independent {objs objs' : List Obj} (hp : objs.Perm objs')
    (hw : WellFormed objs) (hi : PermIngress.IngressWF objs) :
    WellFormed objs' ∧ PermIngress.IngressWF objs' :=
  ⟨hw.perm hp, hi.perm hp⟩

/-- inputs without Ingress / Route targets (`IngressA.targets objs = []`) need no hypothesis on
Services nor on admin policies -/
theorem list_order_independent_no_ingress {objs objs' : List Obj} (hp : objs.Perm objs')
    (hk : DistinctKeys objs) (hr : PodsReal objs) (hpp : PodPortsValid objs)
    (hv : NPRulesValid objs) (hok : (Netpol.Engine.build objs).isOk = true)
    (htg : IngressA.targets objs = []) (focus : String) :
    WorldDriver.runList objs focus = WorldDriver.runList objs' focus := by
  refine runList_perm_noIngress hp hk hr hpp hv ?_ htg focus
  cases h : Netpol.Engine.build objs with
  | error err => rw [h] at hok; simp [Except.isOk, Except.toBool] at hok
  | ok e => exact ⟨e, rfl⟩

/-- … and from distinct keys alone: `getPoliciesSelectingPod` visits the selecting policies in the
order of their names and `createPodOwnersMap` the pods in the order of their keys, so the two runs
are the same computation — whatever the rules, the ports and the pods (the former counterexamples
5, 7, 8 are instances) -/
theorem list_order_independent_keys_only {objs objs' : List Obj} (hp : objs.Perm objs')
    (hk : DistinctKeys objs) (hok : (Netpol.Engine.build objs).isOk = true)
    (htg : IngressA.targets objs = []) (focus : String) :
    WorldDriver.runList objs focus = WorldDriver.runList objs' focus := by
  refine runList_perm_noIngress' hp hk ?_ htg focus
  cases h : Netpol.Engine.build objs with
  | error err => rw [h] at hok; simp [Except.isOk, Except.toBool] at hok
  | ok e => exact ⟨e, rfl⟩

/-- the failing case: when `build` rejects the input and only the kind of conflict it names is
present, every order prints the same error; in general every order prints *an* error
(`build_accepts_order_independent`) that names a conflict present in the input -/
theorem list_error_order_independent {objs objs' : List Obj} (hp : objs.Perm objs') {err : Err}
    (h : Netpol.Engine.build objs = .error err)
    (hsingle : ∀ err', ErrClause err' objs → err' = err) (focus : String) :
    WorldDriver.runList objs focus = WorldDriver.runList objs' focus := by
  have h' := build_error_perm hp h hsingle
  unfold WorldDriver.runList
  rw [h, h']

/-! ### F. inside a NetworkPolicy: rules, peers, ports, policyTypes

`PermRules.ObjSim o o'`: the same object, where a NetworkPolicy may have its `policyTypes`, its
ingress and egress rule lists, and the peers and ports inside each rule permuted
(`PermRules.NpSim`); `PermRules.Forall₂ ObjSim objs objs'`: object by object, so any number of
policies may change at once. `NPRulesValid`: rule ports are port numbers, no empty rule peer.
`PodsReal`: no pod is the representative pod of the exposure analysis (the parser never produces
one). All decidable.

`allowedConns` examines every rule of a policy (it used to stop at the first rule that made the
result "all connections"), so a policy fails on a pair iff some rule that selects the peer fails to
evaluate, whatever the rule order; the former hypothesis `NoNamedPorts` (no named port in an egress
rule that can select an IP block) is gone, and the former counterexample is an instance of the
theorem (`np_rule_order_repaired`). What `NPRulesValid` still excludes — rules the API server
rejects —: with an empty rule peer (`emptyRulePeer`) the *peer* order can mask the failure
(`ruleSelectsPeer` returns at the first matching peer), and with two different failing rules in
one policy the *kind* of error reported is that of the first one, which depends on the *rule*
order (examples in `Netpol.PermRules.Findings`). -/

/-- **C08, part 2: the report does not depend on the order of rules, rule peers, rule ports and
`policyTypes` of NetworkPolicies.** No assumption on keys, Services, admin policies; `build` may
fail (then with the same error). -/
theorem np_inner_order_independent {objs objs' : List Obj}
    (h : PermRules.Forall₂ PermRules.ObjSim objs objs') (hv : NPRulesValid objs)
    (hr : PodsReal objs) (hpp : PodPortsValid objs)
    (focus : String) : WorldDriver.runList objs focus = WorldDriver.runList objs' focus :=
  PermRules.runList_rules_perm h hv hr hpp focus

/-- the former sharp form ("equal, or one of the two reports is `(err namedPortOnIP)`"), kept for
its name: it is now a weakening of `np_inner_order_independent` -/
theorem np_inner_order_independent_or {objs objs' : List Obj}
    (h : PermRules.Forall₂ PermRules.ObjSim objs objs') (hv : NPRulesValid objs)
    (hr : PodsReal objs) (hpp : PodPortsValid objs) (focus : String) :
    WorldDriver.runList objs focus = WorldDriver.runList objs' focus ∨
      WorldDriver.runList objs focus = WorldDriver.errSx .namedPortOnIP ∨
      WorldDriver.runList objs' focus = WorldDriver.errSx .namedPortOnIP :=
  Or.inl (np_inner_order_independent h hv hr hpp focus)

/-- parts 1 and 2 together: reorder the objects, then reorder inside the NetworkPolicies -/
theorem list_order_independent_both {objs mid objs' : List Obj} (hp : objs.Perm mid)
    (h : PermRules.Forall₂ PermRules.ObjSim mid objs') (hw : WellFormed objs)
    (hi : PermIngress.IngressWF objs)
    (hok : (Netpol.Engine.build objs).isOk = true) (focus : String) :
    WorldDriver.runList objs focus = WorldDriver.runList objs' focus := by
  rw [list_order_independent hp hw hi hok focus]
  have hw' := hw.perm hp
  exact np_inner_order_independent h hw'.policies.1 hw'.real hw'.ports focus

/-- the former counterexample (on the model and on the Go code): one pod, one policy with the
egress rules `[⟨[], []⟩, ⟨[ipBlock 10.0.0.0/8], [named port "http"]⟩]` gave a report, the same
policy with the two rules swapped gave `(err namedPortOnIP)`. Now both orders give the same
report … -/
theorem np_rule_order_repaired (focus : String) :
    WorldDriver.runList PermRules.Findings.worldOK focus =
      WorldDriver.runList PermRules.Findings.worldErr focus :=
  np_inner_order_independent (by decide) (by decide) (by decide) (by decide) focus

/-- … namely the error -/
theorem np_rule_order_repaired_value :
    WorldDriver.runList PermRules.Findings.worldOK "" = WorldDriver.errSx .namedPortOnIP ∧
    WorldDriver.runList PermRules.Findings.worldErr "" = WorldDriver.errSx .namedPortOnIP :=
  ⟨PermRules.Findings.report_err', PermRules.Findings.report_err⟩

/-! (`Decidable` instances for `DistinctKeys`, `WellFormed`, `ConflictFree`, `IngressWF` and the
predicates of part F are in `Netpol.Proofs.PermIngress` / `Netpol.Proofs.PermRules`.) -/

/-! ### non-vacuity: a world with every kind of object -/
namespace Examples
attribute [local instance] Netpol.Engine.decEqExcept

def selAll : Selector := ⟨[], []⟩
def nsDefault : NsObj := ⟨"default", [("team", "a")]⟩
/-- three replicas requested: two pods `web-1`, `web-2` share the workload name
`default/web[Deployment]` -/
def web : Workload :=
  ⟨"Deployment", "default", "web", some 3, [("app", "web")], [⟨"http", .TCP, 8080⟩]⟩
/-- two Pod objects of one ReplicaSet, in a namespace without Namespace object -/
def db1 : Pod :=
  { ns := "prod", name := "db-x1", labels := [("app", "db")], ports := [⟨"pg", .TCP, 5432⟩],
    ownerKind := "ReplicaSet", ownerName := "db" }
def db2 : Pod := { db1 with name := "db-x2", hostIP := "10.0.0.7" }
def client : Pod := { ns := "default", name := "client", labels := [("app", "client")], ports := [] }

/-- `10.0.0.0/8` except `10.1.0.0/16` -/
def blk : NPPeer := .ip ⟨0x0A000000, 8⟩ [⟨0x0A010000, 16⟩]

/-- selects `web`: ingress from `client` on the named port `http`; egress to `blk` on TCP 443 and
to `db` in `prod` on 5432 -/
def npWeb : NetPol :=
  { ns := "default", name := "web", podSel := ⟨[("app", "web")], []⟩, types := [],
    ingress := [⟨[.sel (some ⟨[("app", "client")], []⟩) none], [⟨none, .name "http"⟩]⟩],
    egress := [⟨[blk], [⟨none, .num 443 none⟩]⟩,
      ⟨[.sel (some ⟨[("app", "db")], []⟩) (some selAll)], [⟨none, .num 5432 none⟩]⟩] }
/-- a second policy selecting `web` (the union of the two is what the NP layer computes) -/
def npWeb2 : NetPol :=
  { ns := "default", name := "web-metrics", podSel := ⟨[("app", "web")], []⟩, types := [.ingress],
    ingress := [⟨[], [⟨none, .num 9090 (some 9100)⟩]⟩], egress := [] }
/-- selects `db` in `prod`: ingress from `web` pods of namespaces labelled `team=a` on the named
port `pg` -/
def npDb : NetPol :=
  { ns := "prod", name := "db", podSel := ⟨[("app", "db")], []⟩, types := [.ingress],
    ingress := [⟨[.sel (some ⟨[("app", "web")], []⟩) (some ⟨[("team", "a")], []⟩)],
      [⟨none, .name "pg"⟩]⟩], egress := [] }
def anp1 : ANP :=
  { name := "deny-dns", prio := 9, subject := .nss selAll,
    ingress := [⟨"deny-dns", .Deny, [.nss selAll], some [.num (some .UDP) 53]⟩], egress := [] }
def anp2 : ANP :=
  { name := "pass-metrics", prio := 5, subject := .nss selAll,
    ingress := [⟨"pass", .Pass, [.nss selAll], some [.range none 9090 9100]⟩], egress := [] }
def banp : BANP :=
  { name := "default", subject := .nss selAll,
    ingress := [⟨"deny-9000", .Deny, [.nss selAll], some [.range none 9000 9100]⟩], egress := [] }

def objs : List Obj :=
  [.ns nsDefault, .wl web, .pod db1, .pod client, .np npWeb, .anp anp1, .pod db2, .np npDb,
    .banp banp, .anp anp2, .np npWeb2]

/-- the hypotheses of the theorems hold -/
example : WellFormed objs := by decide
example : (Netpol.Engine.build objs).isOk = true := by decide
example : IngressA.targets objs = [] := by decide
/-- … and are not trivially true -/
example : (podsIn objs).map podKey =
    ["default/web-1", "default/web-2", "prod/db-x1", "default/client", "prod/db-x2"] := by decide
example : (podsIn objs).map workloadName =
    ["default/web[Deployment]", "default/web[Deployment]", "prod/db[ReplicaSet]",
      "default/client[Pod]", "prod/db[ReplicaSet]"] := by decide

example : PermIngress.IngressWF objs := by decide

/-- the theorem at work: the report of the reversed input -/
example (focus : String) :
    WorldDriver.runList objs focus = WorldDriver.runList objs.reverse focus :=
  list_order_independent (List.reverse_perm objs).symm (by decide) (by decide) (by decide) focus

/-- a world with Services, an Ingress and a Route (`Netpol.PermIngress.Ex.objs`: two workloads, one
with two replicas, two Services plus a selector-less Service of the same name, a NetworkPolicy) -/
example (focus : String) :
    WorldDriver.runList PermIngress.Ex.objs focus = WorldDriver.runList PermIngress.Ex.objs.reverse focus :=
  list_order_independent (List.reverse_perm _).symm (by decide) (by decide) (by decide) focus

/-- part F on `Netpol.PermRules.Example.objs` / `objs'` (policyTypes, both rule lists, peers and
ports permuted) -/
example (focus : String) :
    WorldDriver.runList PermRules.Example.objs focus = WorldDriver.runList PermRules.Example.objs' focus :=
  np_inner_order_independent (by decide) (by decide) (by decide) (by decide) focus

/-- what `build` makes of the two orders: different association lists, the same objects -/
example : (Netpol.Engine.build objs).map (fun e => e.pods.map podKey) =
    .ok ["default/web-1", "default/web-2", "prod/db-x1", "default/client", "prod/db-x2"] := by
  decide
example : (Netpol.Engine.build objs.reverse).map (fun e => e.pods.map podKey) =
    .ok ["prod/db-x2", "default/client", "prod/db-x1", "default/web-1", "default/web-2"] := by
  decide
example : (Netpol.Engine.build objs).map (fun e => e.netpols.map (·.name)) =
    .ok ["web", "db", "web-metrics"] := by decide
example : (Netpol.Engine.build objs.reverse).map (fun e => e.netpols.map (·.name)) =
    .ok ["web-metrics", "db", "web"] := by decide
/-- the workload peers and their standing pods do not depend on the order: the pod with the
greatest key stands for its workload (`web-2`, `db-x2`). `podOwnersMapD` is `podOwnersMap` with the
`mergeSort` of `sortedPods` replaced by an insertion sort that `decide` can run; on the engine
`build` returns they are equal (`PermLayer.podOwnersMap_build`). -/
example : ((Netpol.Engine.build objs).bind podOwnersMapD).map (fun o => o.map fun x => (x.1, x.2.name)) =
    .ok [("default/client[Pod]", "client"), ("default/web[Deployment]", "web-2"),
      ("prod/db[ReplicaSet]", "db-x2")] := by decide
example : ((Netpol.Engine.build objs.reverse).bind podOwnersMapD).map (fun o => o.map fun x => (x.1, x.2.name)) =
    .ok [("default/client[Pod]", "client"), ("default/web[Deployment]", "web-2"),
      ("prod/db[ReplicaSet]", "db-x2")] := by decide
example {l : List Obj} {e : Netpol.Engine} (h : Netpol.Engine.build l = .ok e) :
    e.podOwnersMap = podOwnersMapD e := podOwnersMap_build h

end Examples

/-! ### counterexamples: why each hypothesis is there

Each world below (except 4, which the sorted iteration of `createPodOwnersMap` repaired, and 5, 7,
8, which the name order of `getPoliciesSelectingPod` repaired — they are kept as equalities, with
their inner-order variants 7i, 8i, which remain) is a fixed set of objects whose report depends on
the order in which the objects are met. Since document order, file layout and Go map iteration
order all feed that order, these are candidate order dependences / nondeterminisms of the Go tool
(1–3 need the input to hold two objects with the same key in different documents; 7i, 8i are about
the order of the rules written in one policy, on inputs the API server would reject). The `runList` outputs in the comments were obtained with `#eval` (`decide` cannot
unfold the `mergeSort`s inside `runList`); the `example`s check the decisive intermediate values,
with `podOwnersMapD` for `podOwnersMap` (equal on the engine `build` returns,
`PermLayer.podOwnersMap_build`). -/
namespace Counterexamples
attribute [local instance] Netpol.Engine.decEqExcept

/-- the entries between the workload peers (no IP peers), as `list` prints them -/
def podEntries (objs : List Obj) : Except Err (List (String × String × ConnSet)) := do
  let e ← Netpol.Engine.build objs
  let owners ← podOwnersMapD e
  let entries ← e.connsBetweenPeers (owners.map fun (n, p) => LPeer.wl n p) ""
  pure (entries.map entryKey)

def podB : Pod := { ns := "default", name := "b", labels := [], ports := [] }

/-! 1. two Pod objects with the same namespace/name and different labels: the later one wins.
`runList ce1 ""` has the line `default/b[Pod] default/a[Pod] All_Connections`, `runList ce1' ""`
has not (6 lines against 4). -/
def podA1 : Pod := { ns := "default", name := "a", labels := [("app", "x")], ports := [] }
def podA2 : Pod := { ns := "default", name := "a", labels := [("app", "y")], ports := [] }
/-- selects `app=x`, no ingress allowed -/
def npX : NetPol :=
  { ns := "default", name := "np", podSel := ⟨[("app", "x")], []⟩, types := [.ingress],
    ingress := [], egress := [] }
def ce1 : List Obj := [.pod podA1, .pod podA2, .pod podB, .np npX]
def ce1' : List Obj := [.pod podA2, .pod podA1, .pod podB, .np npX]
example : ce1.Perm ce1' := List.Perm.swap _ _ _
example : ¬ DistinctKeys ce1 := by decide
example : (Netpol.Engine.build ce1).map (·.pods) = .ok [podA2, podB] ∧
    (Netpol.Engine.build ce1').map (·.pods) = .ok [podA1, podB] := by decide
example : podEntries ce1 = .ok [("default/a[Pod]", "default/b[Pod]", ConnSet.mk' true),
      ("default/b[Pod]", "default/a[Pod]", ConnSet.mk' true)] ∧
    podEntries ce1' = .ok [("default/a[Pod]", "default/b[Pod]", ConnSet.mk' true)] := by decide

/-! 2. two Namespace objects with the same name and different labels: the later one wins.
`runList ce2 ""` has 2 lines (only towards the IP range), `runList ce2' ""` has 4. -/
def ns1 : NsObj := ⟨"default", [("t", "1")]⟩
def ns2 : NsObj := ⟨"default", [("t", "2")]⟩
/-- every pod of `default`: ingress only from namespaces labelled `t=1` -/
def npNs : NetPol :=
  { ns := "default", name := "np", podSel := ⟨[], []⟩, types := [.ingress],
    ingress := [⟨[.sel none (some ⟨[("t", "1")], []⟩)], []⟩], egress := [] }
def ce2 : List Obj := [.ns ns1, .ns ns2, .pod podA1, .pod podB, .np npNs]
def ce2' : List Obj := [.ns ns2, .ns ns1, .pod podA1, .pod podB, .np npNs]
example : ce2.Perm ce2' := List.Perm.swap _ _ _
example : ¬ DistinctKeys ce2 := by decide
example : (Netpol.Engine.build ce2).map (fun e => e.namespaces.map (·.labels.get? "t")) = .ok [some "2"] ∧
    (Netpol.Engine.build ce2').map (fun e => e.namespaces.map (·.labels.get? "t")) = .ok [some "1"] := by
  decide
example : podEntries ce2 = .ok [] ∧
    podEntries ce2' = .ok [("default/a[Pod]", "default/b[Pod]", ConnSet.mk' true),
      ("default/b[Pod]", "default/a[Pod]", ConnSet.mk' true)] := by decide

/-! 3. a Pod object named like the pod generated from a workload (`web-1`): the peers themselves
differ — `default/web-1[Pod]` against `default/web[Deployment]`. -/
def wlWeb : Workload := ⟨"Deployment", "default", "web", some 1, [("app", "web")], []⟩
def podWeb1 : Pod := { ns := "default", name := "web-1", labels := [("app", "other")], ports := [] }
def ce3 : List Obj := [.wl wlWeb, .pod podWeb1, .pod podB]
def ce3' : List Obj := [.pod podWeb1, .wl wlWeb, .pod podB]
example : ce3.Perm ce3' := List.Perm.swap _ _ _
example : ¬ DistinctKeys ce3 := by decide
example : ((Netpol.Engine.build ce3).bind podOwnersMapD).map (fun o => o.map (·.1)) =
      .ok ["default/b[Pod]", "default/web-1[Pod]"] ∧
    ((Netpol.Engine.build ce3').bind podOwnersMapD).map (fun o => o.map (·.1)) =
      .ok ["default/b[Pod]", "default/web[Deployment]"] := by decide

/-! 4. **(repaired — now an equality)** two pods of one owner with the same labels and different
container ports. `createPodOwnersMap` accepts the input (it compares labels only). Before the
repair the report was computed on the pod met last in the pod map, and a named port resolves on
that pod's container ports: the model printed `default/b[Pod] default/rs[ReplicaSet] TCP_8080` for
`ce4` and `… TCP_80` for `ce4'`, and the Go tool printed `TCP 80` in 4 of 30 runs on this input and
`TCP 8080` in 26 (Go map iteration). Now the pod with the greatest key, `default/o2`, stands for the
workload in every order. -/
def podO1 : Pod :=
  { ns := "default", name := "o1", labels := [("app", "o")], ports := [⟨"http", .TCP, 80⟩],
    ownerKind := "ReplicaSet", ownerName := "rs" }
def podO2 : Pod :=
  { ns := "default", name := "o2", labels := [("app", "o")], ports := [⟨"http", .TCP, 8080⟩],
    ownerKind := "ReplicaSet", ownerName := "rs" }
/-- selects `app=o`: ingress on the named port `http` -/
def npNamed : NetPol :=
  { ns := "default", name := "np", podSel := ⟨[("app", "o")], []⟩, types := [.ingress],
    ingress := [⟨[], [⟨none, .name "http"⟩]⟩], egress := [] }
def ce4 : List Obj := [.pod podO1, .pod podO2, .pod podB, .np npNamed]
def ce4' : List Obj := [.pod podO2, .pod podO1, .pod podB, .np npNamed]
example : ce4.Perm ce4' := List.Perm.swap _ _ _
/-- every hypothesis holds; the two pods are not interchangeable -/
example : WellFormed ce4 ∧ PermIngress.IngressWF ce4 ∧ ¬ UniformPods (podsIn ce4) := by decide
/-- the report is the same in both orders, by the theorem … -/
theorem ce4_repaired (focus : String) :
    WorldDriver.runList ce4 focus = WorldDriver.runList ce4' focus :=
  list_order_independent (List.Perm.swap _ _ _) (by decide) (by decide) (by decide) focus
/-- … and by evaluation: `TCP 8080` in both -/
example : podEntries ce4 = .ok [
      ("default/b[Pod]", "default/rs[ReplicaSet]", ⟨false, some ⟨[⟨8080, 8080⟩], [], []⟩, none, none⟩),
      ("default/rs[ReplicaSet]", "default/b[Pod]", ConnSet.mk' true)] ∧
    podEntries ce4' = podEntries ce4 := by
  decide

/-! 5. **(repaired — now an equality)** two different evaluation errors are present in two policies
selecting the same pod (a named port towards an IP block, a rule peer with neither selector nor
ipBlock): the NetworkPolicy layer reports the first one it meets. Before
`getPoliciesSelectingPod` visited the policies in the order of their names that depended on the
order of the policies map — `runList ce5 ""` was `(err namedPortOnIP)`, `runList ce5' ""` was
`(err emptyRulePeer)` —; now the policy `n1` is visited first in both. (Inside ONE policy the first
failing rule still decides, so the inner theorem keeps `NPRulesValid`:
`Netpol.PermRules.Findings`.) -/
def podA : Pod := { ns := "default", name := "a", labels := [("app", "a")], ports := [] }
def podB' : Pod := { ns := "default", name := "b", labels := [("app", "b")], ports := [] }
def npNamedIP : NetPol :=
  { ns := "default", name := "n1", podSel := ⟨[("app", "a")], []⟩, types := [.egress], ingress := [],
    egress := [⟨[], [⟨none, .name "http"⟩]⟩] }
def npEmptyPeer : NetPol :=
  { ns := "default", name := "n2", podSel := ⟨[("app", "a")], []⟩, types := [.egress], ingress := [],
    egress := [⟨[.sel none none], []⟩] }
def ce5 : List Obj := [.pod podA, .pod podB', .np npNamedIP, .np npEmptyPeer]
def ce5' : List Obj := [.pod podA, .pod podB', .np npEmptyPeer, .np npNamedIP]
example : ce5.Perm ce5' := ((List.Perm.swap _ _ _).cons _).cons _
example : DistinctKeys ce5 ∧ ¬ NPRulesValid ce5 := by decide
theorem ce5_repaired (focus : String) :
    WorldDriver.runList ce5 focus = WorldDriver.runList ce5' focus :=
  list_order_independent_keys_only (((List.Perm.swap _ _ _).cons _).cons _) (by decide) (by decide)
    (by decide) focus
/-- the loop over the whole address space as IP peer and the two pods, in the two orders -/
def loop5 (objs : List Obj) : Except Err (List (String × String × ConnSet)) := do
  let e ← Netpol.Engine.build objs
  let owners ← podOwnersMapD e
  let entries ← e.connsBetweenPeers (LPeer.ip ⟨0, ipMax⟩ :: owners.map fun (n, p) => LPeer.wl n p) ""
  pure (entries.map entryKey)
example : loop5 ce5 = .error .namedPortOnIP ∧ loop5 ce5' = .error .namedPortOnIP := by decide

/-! 6. `build`: two kinds of conflict are present, the first one met is reported.
`runList ce6 ""` is `(err dupNetpol)`, `runList ce6' ""` is `(err dupANP)`. -/
def npP : NetPol := ⟨"default", "p", ⟨[], []⟩, [], [], []⟩
def anpA : ANP := ⟨"a", 5, .nss ⟨[], []⟩, [], []⟩
def anpA' : ANP := ⟨"a", 6, .nss ⟨[], []⟩, [], []⟩
def ce6 : List Obj := [.np npP, .np npP, .anp anpA, .anp anpA']
def ce6' : List Obj := [.anp anpA, .anp anpA', .np npP, .np npP]
example : ce6.Perm ce6' :=
  List.perm_append_comm (l₁ := [Obj.np npP, Obj.np npP]) (l₂ := [Obj.anp anpA, Obj.anp anpA'])
example : (Netpol.Engine.build ce6).map (fun _ => ()) = .error .dupNetpol ∧
    (Netpol.Engine.build ce6').map (fun _ => ()) = .error .dupANP := by decide
/-- both kinds of conflict are present, as `build_error_names_present_conflict` says -/
example : ErrClause .dupNetpol ce6 ∧ ErrClause .dupANP ce6 := by
  constructor <;> (simp only [ErrClause]; decide)

/-! 6b. Since `insertAdminNetworkPolicy` examines the priorities at insertion, a priority conflict is
a kind of conflict like the others — reported by the object that brings it, whether or not the
input holds other conflicts (it used to be reported by the final sort, hence only on inputs the
insertion fold accepts; the `anpPriority` clause of `ErrClause` said `ConflictFree objs` then, and
with that clause `build_error_names_present_conflict` is false for `ce6b`). A repeated name and a
repeated priority: the first one met is reported. -/
def anpB : ANP := ⟨"b", 5, .nss ⟨[], []⟩, [], []⟩
def ce6b : List Obj := [.anp anpA, .anp anpB, .anp anpA']
def ce6b' : List Obj := [.anp anpA, .anp anpA', .anp anpB]
example : ce6b.Perm ce6b' := (List.Perm.swap _ _ _).cons _
example : (Netpol.Engine.build ce6b).map (fun _ => ()) = .error .anpPriority ∧
    (Netpol.Engine.build ce6b').map (fun _ => ()) = .error .dupANP := by decide
example : ErrClause .anpPriority ce6b ∧ ErrClause .dupANP ce6b ∧ ¬ ConflictFree ce6b := by
  refine ⟨?_, ?_, ?_⟩ <;> (try simp only [ErrClause]) <;> decide

/-! 7. **(repaired across policies; still a counterexample inside one policy) a rule port outside
1..65535** (the API server rejects it, a YAML file can hold it): the union of connection sets
recognises "all connections" only on the exact range 1-65535, so whether the stray port 70000 is
absorbed depends on the order of the unions. Across policies that order used to be the order of the
policies map (`runList ce7 "b"` had `default/b[Pod] default/a[Pod] All_Connections`, `runList ce7' "b"`
had `… SCTP_1-65535,TCP_1-65535,70000,UDP_1-65535`); now the policies are visited in the order of
their names and both orders give `All_Connections`. -/
def sa : Selector := ⟨[("app", "a")], []⟩
def fullPort (pr : Proto) : NPPort := ⟨some pr, .num 1 (some 65535)⟩
def npX1 : NetPol :=
  { ns := "default", name := "x1", podSel := sa, types := [.ingress],
    ingress := [⟨[], [fullPort .TCP, fullPort .UDP]⟩], egress := [] }
def npX2 : NetPol :=
  { ns := "default", name := "x2", podSel := sa, types := [.ingress],
    ingress := [⟨[], [fullPort .SCTP]⟩], egress := [] }
def npY : NetPol :=
  { ns := "default", name := "y", podSel := sa, types := [.ingress],
    ingress := [⟨[], [⟨none, .num 70000 none⟩]⟩], egress := [] }
def ce7 : List Obj := [.pod podA, .pod podB', .np npX1, .np npX2, .np npY]
def ce7' : List Obj := [.pod podA, .pod podB', .np npY, .np npX1, .np npX2]
theorem ce7_perm : ce7.Perm ce7' :=
  (List.perm_append_comm (l₁ := [Obj.np npX1, Obj.np npX2]) (l₂ := [Obj.np npY])).append_left
    [Obj.pod podA, Obj.pod podB']
example : DistinctKeys ce7 ∧ PodsReal ce7 ∧ PodPortsValid ce7 ∧ ¬ NPRulesValid ce7 := by
  decide
theorem ce7_repaired (focus : String) :
    WorldDriver.runList ce7 focus = WorldDriver.runList ce7' focus :=
  list_order_independent_keys_only ce7_perm (by decide) (by decide) (by decide) focus
def fullSet : PortSet := ⟨[⟨1, 65535⟩], [], []⟩
example : podEntries ce7 = .ok [("default/a[Pod]", "default/b[Pod]", ConnSet.mk' true),
      ("default/b[Pod]", "default/a[Pod]", ConnSet.mk' true)] ∧
    podEntries ce7' = podEntries ce7 := by
  decide

/-- inside ONE policy the rules are examined in the order they are written, so the same stray port
still makes the report depend on the *rule* order: the hypothesis `NPRulesValid` of
`np_inner_order_independent` (`runList ce7i "b"` has `… default/a[Pod] All_Connections`,
`runList ce7i' "b"` has `… SCTP_1-65535,TCP_1-65535,70000,UDP_1-65535`) -/
def npOne (rules : List NPRule) : NetPol :=
  { ns := "default", name := "one", podSel := sa, types := [.ingress], ingress := rules, egress := [] }
def rTU : NPRule := ⟨[], [fullPort .TCP, fullPort .UDP]⟩
def rS : NPRule := ⟨[], [fullPort .SCTP]⟩
def r7 : NPRule := ⟨[], [⟨none, .num 70000 none⟩]⟩
def ce7i : List Obj := [.pod podA, .pod podB', .np (npOne [rTU, rS, r7])]
def ce7i' : List Obj := [.pod podA, .pod podB', .np (npOne [r7, rTU, rS])]
example : PermRules.Forall₂ PermRules.ObjSim ce7i ce7i' := by decide
example : PodsReal ce7i ∧ PodPortsValid ce7i ∧ ¬ NPRulesValid ce7i := by decide
example : podEntries ce7i = .ok [("default/a[Pod]", "default/b[Pod]", ConnSet.mk' true),
      ("default/b[Pod]", "default/a[Pod]", ConnSet.mk' true)] ∧
    podEntries ce7i' = .ok [("default/a[Pod]", "default/b[Pod]", ConnSet.mk' true),
      ("default/b[Pod]", "default/a[Pod]",
        ⟨false, some ⟨[⟨1, 65535⟩, ⟨70000, 70000⟩], [], []⟩, some fullSet, some fullSet⟩)] := by
  decide

/-! 8. the same through a **container port outside 1..65535** that a named rule port resolves to:
repaired across policies like 7 (`ce8_repaired`), still order-dependent inside one policy
(`PodPortsValid` of the inner theorem). -/
def podA8 : Pod := { podA with ports := [⟨"big", .TCP, 70000⟩] }
def npYNamed : NetPol := { npY with ingress := [⟨[], [⟨none, .name "big"⟩]⟩] }
def ce8 : List Obj := [.pod podA8, .pod podB', .np npX1, .np npX2, .np npYNamed]
def ce8' : List Obj := [.pod podA8, .pod podB', .np npYNamed, .np npX1, .np npX2]
theorem ce8_perm : ce8.Perm ce8' :=
  (List.perm_append_comm (l₁ := [Obj.np npX1, Obj.np npX2]) (l₂ := [Obj.np npYNamed])).append_left
    [Obj.pod podA8, Obj.pod podB']
example : DistinctKeys ce8 ∧ PodsReal ce8 ∧ PoliciesValid ce8 ∧ ¬ PodPortsValid ce8 := by
  decide
theorem ce8_repaired (focus : String) :
    WorldDriver.runList ce8 focus = WorldDriver.runList ce8' focus :=
  list_order_independent_keys_only ce8_perm (by decide) (by decide) (by decide) focus
def r8 : NPRule := ⟨[], [⟨none, .name "big"⟩]⟩
def ce8i : List Obj := [.pod podA8, .pod podB', .np (npOne [rTU, rS, r8])]
def ce8i' : List Obj := [.pod podA8, .pod podB', .np (npOne [r8, rTU, rS])]
example : PermRules.Forall₂ PermRules.ObjSim ce8i ce8i' := by decide
example : PodsReal ce8i ∧ NPRulesValid ce8i ∧ ¬ PodPortsValid ce8i := by decide
example : podEntries ce8i = .ok [("default/a[Pod]", "default/b[Pod]", ConnSet.mk' true),
      ("default/b[Pod]", "default/a[Pod]", ConnSet.mk' true)] ∧
    podEntries ce8i' = .ok [("default/a[Pod]", "default/b[Pod]", ConnSet.mk' true),
      ("default/b[Pod]", "default/a[Pod]",
        ⟨false, some ⟨[⟨1, 65535⟩, ⟨70000, 70000⟩], [], []⟩, some fullSet, some fullSet⟩)] := by
  decide

end Counterexamples

end Netpol.Properties.C08.Engine
