import Netpol.Model.Cache
namespace Netpol.Properties.C03
open Netpol

end Netpol.Properties.C03
