import Netpol.Proofs.EvalLayer
import Netpol.Properties.C11
import Netpol.Properties.C15
import Std.Data.String.ToInt
/-! # C03 — `eval` answers agree with `list` (and with the semantics) for every query

The Go code answers "is this connection allowed?" twice: `list` computes, per pair of peers, the
*set* of allowed connections (`Engine.peerConns`, connection-set algebra), `eval` /
`CheckIfAllowed` walks the rules for *one* (protocol, port) (`EState.checkIfAllowed`, model of
`check_eval.go`, with the LRU cache of `eval_cache.go` in front). `Netpol.Proofs.EngineLayer` shows
that the first computes the pointwise specification `Spec.allowed`; `Netpol.Proofs.EvalLayer` shows
the same for the second (`EState.verdict_spec`), and that the second answers whenever the first
does (`EState.verdict_total`). Here the consequences:

* `eval_eq_list` — the two paths agree at every in-range point;
* `eval_answers_when_list_does` — `eval` fails on no query `list` has an answer for;
* `eval_self` — a pod may always talk to itself (the check precedes everything, cache included);
* `eval_spec_exact` — after any consistent history of inserts / deletes / queries the answer of
  `CheckIfAllowed` is `Spec.allowed` at the queried point (cache transparency C15 + `verdict_spec`).

The query strings enter through `EState.Parses proto port pr n`: `proto` is a protocol name
(case-insensitive) for `pr`, `port` is the decimal integer `n`. String parsing is not evaluated. -/
namespace Netpol.Properties.C03
open Netpol EState Engine

/-! ### A. the two paths agree -/

/-- **C03, agreement.** For a valid engine, concrete peers (a real pod with its namespace, or one
address), a destination with legal container ports, not the pod-to-itself pair: if `list` returns
the set `c` for the pair and `eval` returns `v` for the in-range point `(pr, n)`, then `v` says
whether `c` contains the point. -/
theorem eval_eq_list (e : Engine) (hv : e.Valid) (sp dp : KPeer) (a b : Int)
    (hs : sp.Concrete a) (hd : dp.Concrete b) (hdok : dp.DstOK)
    (hne : isPodToItself sp dp = false) {proto port : String} {pr : Proto} {n : Int}
    (hq : Parses proto port pr n) (hn : inRange n) {c : ConnSet} {v : Bool}
    (hl : e.peerConns sp dp = .ok c) (he : verdict e sp dp proto port = .ok v) :
    v = c.contains pr n := by
  obtain ⟨hw, hden⟩ := (peerConns_spec e hv sp dp a b hs hd hdok hne).1 c hl
  have hvs := (verdict_spec e hv sp dp a b hs hd hq hn).1 v he
  rw [Bool.eq_iff_iff, C11.contains_iff hw hn, hden, hvs]

/-- `ConnectionSet.Contains(port, protocol string)` on strings that parse -/
theorem containsStr_eq (c : ConnSet) {proto port : String} {pr : Proto} {n : Int}
    (hq : Parses proto port pr n) : c.containsStr port proto = c.contains pr n := by
  unfold ConnSet.containsStr ConnSet.contains
  rw [hq.hport, hq.hproto]
  cases c.allowAll <;> rfl

/-- the same with the string-level `Contains` of the Go connection set: what `eval` answers is
what `Contains` answers on the set `list` reports -/
theorem eval_eq_list_str (e : Engine) (hv : e.Valid) (sp dp : KPeer) (a b : Int)
    (hs : sp.Concrete a) (hd : dp.Concrete b) (hdok : dp.DstOK)
    (hne : isPodToItself sp dp = false) {proto port : String} {pr : Proto} {n : Int}
    (hq : Parses proto port pr n) (hn : inRange n) {c : ConnSet} {v : Bool}
    (hl : e.peerConns sp dp = .ok c) (he : verdict e sp dp proto port = .ok v) :
    v = c.containsStr port proto := by
  rw [containsStr_eq c hq]
  exact eval_eq_list e hv sp dp a b hs hd hdok hne hq hn hl he

/-- **C03, `eval` answers whenever `list` does.** If `list` returns a set for the pair, `eval`
returns an answer for every in-range point: `list` examines every rule of every selecting policy
(no exit on All Connections any more), so no selecting rule fails; and a named port towards an IP
block that `list` never looked at because the admin policies decide everything is not reached by
the walk of `eval` either. (`list` now fails in more cases than before — a failing rule behind a
rule that allows everything —, `eval` still stops at the first rule that allows the point: the
converse fails in more cases, see the examples.) -/
theorem eval_answers_when_list_does (e : Engine) (hv : e.Valid) (sp dp : KPeer) (a b : Int)
    (hs : sp.Concrete a) (hd : dp.Concrete b) (hdok : dp.DstOK) {proto port : String} {pr : Proto}
    {n : Int} (hq : Parses proto port pr n) (hn : inRange n) {c : ConnSet}
    (hl : e.peerConns sp dp = .ok c) :
    ∃ v, verdict e sp dp proto port = .ok v :=
  verdict_total e hv sp dp a b hs hd hdok hq hn c hl

/-- both together: when `list` has an answer, `eval` has the same -/
theorem eval_is_list (e : Engine) (hv : e.Valid) (sp dp : KPeer) (a b : Int)
    (hs : sp.Concrete a) (hd : dp.Concrete b) (hdok : dp.DstOK)
    (hne : isPodToItself sp dp = false) {proto port : String} {pr : Proto} {n : Int}
    (hq : Parses proto port pr n) (hn : inRange n) {c : ConnSet}
    (hl : e.peerConns sp dp = .ok c) :
    verdict e sp dp proto port = .ok (c.contains pr n) := by
  obtain ⟨v, hv'⟩ := eval_answers_when_list_does e hv sp dp a b hs hd hdok hq hn hl
  rw [hv', eval_eq_list e hv sp dp a b hs hd hdok hne hq hn hl hv']

/-- the converse fails only one way: `eval` may answer where `list` fails (`namedPortOnIP` in a
rule the walk does not reach for this point); when `eval` fails, so does `list`, with the same
error -/
theorem list_fails_when_eval_does (e : Engine) (hv : e.Valid) (sp dp : KPeer) (a b : Int)
    (hs : sp.Concrete a) (hd : dp.Concrete b) (hdok : dp.DstOK) {proto port : String} {pr : Proto}
    {n : Int} (hq : Parses proto port pr n) (hn : inRange n) {err : Err}
    (he : verdict e sp dp proto port = .error err) :
    err = .namedPortOnIP ∧ e.peerConns sp dp = .error .namedPortOnIP := by
  obtain ⟨h1, h2, h3⟩ := (verdict_spec e hv sp dp a b hs hd hq hn).2 err he
  refine ⟨h1, ?_⟩
  cases hl : e.peerConns sp dp with
  | ok c =>
    obtain ⟨v, hv'⟩ := eval_answers_when_list_does e hv sp dp a b hs hd hdok hq hn hl
    rw [hv'] at he
    cases he
  | error err' =>
    have hne : isPodToItself sp dp = false := by
      cases sp with
      | ip r => rfl
      | pod p ns =>
        cases dp with
        | ip r => rfl
        | pod q ms => cases h2
    rw [((peerConns_spec e hv sp dp a b hs hd hdok hne).2 err' hl).1]

/-! ### B. the self pair -/

/-- **C03, self.** When source and destination resolve to the same pod, `CheckIfAllowed` answers
`true` and leaves the state (cache included) untouched — whatever the policies, the strings, the
cache. -/
theorem eval_self (s : EState) (src dst proto port : String) {sp dp : KPeer}
    (hsp : getPeer s.eng src = .ok sp) (hdp : getPeer s.eng dst = .ok dp)
    (h : isPodToItself sp dp = true) :
    s.checkIfAllowed src dst proto port = (.ok true, s) := by
  rw [checkIfAllowed_eq, hsp, hdp]
  simp [h]

/-- `list` agrees: the pair gets All Connections, which contains every point -/
theorem list_self (e : Engine) (sp dp : KPeer) (h : isPodToItself sp dp = true) (pr : Proto)
    (n : Int) : ∃ c, e.peerConns sp dp = .ok c ∧ c.contains pr n = true :=
  ⟨ConnSet.mk' true, peerConns_self e sp dp h, rfl⟩

/-! ### C. the answer of `CheckIfAllowed` is the specification -/

/-- the cache-less answer of any state, for resolved concrete peers -/
theorem uncached_spec (s : EState) (hv : s.eng.Valid) (src dst : String) {sp dp : KPeer}
    (hsp : getPeer s.eng src = .ok sp) (hdp : getPeer s.eng dst = .ok dp) (a b : Int)
    (hs : sp.Concrete a) (hd : dp.Concrete b) (hne : isPodToItself sp dp = false)
    {proto port : String} {pr : Proto} {n : Int} (hq : Parses proto port pr n) (hn : inRange n) :
    (∀ v, s.uncached src dst proto port = .ok v →
      v = Spec.allowed s.eng.toView (sp.toEnd a) (dp.toEnd b) pr n) ∧
    (∀ err, s.uncached src dst proto port = .error err →
      err = .namedPortOnIP ∧ dp.isPod = false ∧ sp.isPod = true) := by
  rw [uncached_eq, hsp, hdp]
  simp only [hne, Bool.false_eq_true, if_false]
  exact verdict_spec s.eng hv sp dp a b hs hd hq hn

/-- the validity of the rules held by an engine (what the API server guarantees); the fourth
clause of `Engine.Valid`, the order of the admin policies, is an invariant of the engine -/
def RulesValid (e : Engine) : Prop :=
  (∀ np ∈ e.netpols, (∀ r ∈ np.ingress, r.Valid) ∧ (∀ r ∈ np.egress, r.Valid)) ∧
  (∀ a ∈ e.anps, ARule.ListValid a.ingress ∧ ARule.ListValid a.egress) ∧
  Engine.banpOK e.banp

/-- in every reachable state validity of the rules is validity of the engine -/
theorem valid_of_reachable (n : Nat) (ops : List HOp)
    (h : RulesValid (EState.run { cache := { cap := n } } ops).eng) :
    (EState.run { cache := { cap := n } } ops).eng.Valid :=
  (Engine.valid_iff _).mpr ⟨h.1, h.2.1, h.2.2, C15.anps_sorted_invariant n ops⟩

/-- **C03, exactness.** After any history `ops` of inserts, deletes, queries and clears that is
consistent in the sense of C15 (`OpsConsistent`: pods with one owner key are interchangeable, the
cache key splits in one way), with valid rules in the engine, a query whose ends resolve to
concrete peers other than one pod twice, with strings that parse to an in-range point, is
answered by `Spec.allowed` at that point — cached or not. The only possible failure is
`namedPortOnIP`, for an IP destination. -/
theorem eval_spec_exact (attrs : String → Labels × List CPort) (nsOf : String → String)
    (n : Nat) (ops : List HOp) (src dst proto port : String)
    (h : OpsConsistent attrs nsOf (ops ++ [.q src dst proto port]))
    (hrv : RulesValid (EState.run { cache := { cap := n } } ops).eng) {sp dp : KPeer}
    (hsp : getPeer (EState.run { cache := { cap := n } } ops).eng src = .ok sp)
    (hdp : getPeer (EState.run { cache := { cap := n } } ops).eng dst = .ok dp) (a b : Int)
    (hs : sp.Concrete a) (hd : dp.Concrete b) (hne : isPodToItself sp dp = false)
    {pr : Proto} {x : Int} (hq : Parses proto port pr x) (hx : inRange x) :
    (∀ v, ((EState.run { cache := { cap := n } } ops).checkIfAllowed src dst proto port).1 = .ok v →
      v = Spec.allowed (EState.run { cache := { cap := n } } ops).eng.toView
        (sp.toEnd a) (dp.toEnd b) pr x) ∧
    (∀ err, ((EState.run { cache := { cap := n } } ops).checkIfAllowed src dst proto port).1
        = .error err → err = .namedPortOnIP ∧ dp.isPod = false ∧ sp.isPod = true) := by
  rw [C15.cache_transparent attrs nsOf n ops src dst proto port h]
  exact uncached_spec _ (valid_of_reachable n ops hrv) src dst hsp hdp a b hs hd hne hq hx

/-- the two cases in one statement: the answer of `CheckIfAllowed` is "the same pod, or allowed by
the specification" -/
theorem eval_spec_exact_or_self (attrs : String → Labels × List CPort) (nsOf : String → String)
    (n : Nat) (ops : List HOp) (src dst proto port : String)
    (h : OpsConsistent attrs nsOf (ops ++ [.q src dst proto port]))
    (hrv : RulesValid (EState.run { cache := { cap := n } } ops).eng) {sp dp : KPeer}
    (hsp : getPeer (EState.run { cache := { cap := n } } ops).eng src = .ok sp)
    (hdp : getPeer (EState.run { cache := { cap := n } } ops).eng dst = .ok dp) (a b : Int)
    (hs : sp.Concrete a) (hd : dp.Concrete b)
    {pr : Proto} {x : Int} (hq : Parses proto port pr x) (hx : inRange x) (v : Bool)
    (hv : ((EState.run { cache := { cap := n } } ops).checkIfAllowed src dst proto port).1 = .ok v) :
    v = (isPodToItself sp dp ||
      Spec.allowed (EState.run { cache := { cap := n } } ops).eng.toView
        (sp.toEnd a) (dp.toEnd b) pr x) := by
  cases hself : isPodToItself sp dp
  · rw [Bool.false_or]
    exact (eval_spec_exact attrs nsOf n ops src dst proto port h hrv hsp hdp a b hs hd hself hq hx).1
      v hv
  · rw [eval_self _ src dst proto port hsp hdp hself] at hv
    cases hv
    rfl

/-- **C03, exactness for two pods** (the case the cache serves): the answer *is* the
specification, there is no failure -/
theorem eval_spec_exact_pods (attrs : String → Labels × List CPort) (nsOf : String → String)
    (n : Nat) (ops : List HOp) (src dst proto port : String)
    (h : OpsConsistent attrs nsOf (ops ++ [.q src dst proto port]))
    (hrv : RulesValid (EState.run { cache := { cap := n } } ops).eng)
    {p q : Pod} {ns ms : NsObj}
    (hsp : getPeer (EState.run { cache := { cap := n } } ops).eng src = .ok (.pod p (some ns)))
    (hdp : getPeer (EState.run { cache := { cap := n } } ops).eng dst = .ok (.pod q (some ms)))
    (hp : p.isRepresentative = false) (hq' : q.isRepresentative = false)
    (hne : (p.name == q.name && p.ns == q.ns && p.fake == q.fake) = false)
    {pr : Proto} {x : Int} (hq : Parses proto port pr x) (hx : inRange x) :
    ((EState.run { cache := { cap := n } } ops).checkIfAllowed src dst proto port).1 =
      .ok (Spec.allowed (EState.run { cache := { cap := n } } ops).eng.toView
        (.pod p ns.labels) (.pod q ms.labels) pr x) := by
  obtain ⟨h1, h2⟩ := eval_spec_exact attrs nsOf n ops src dst proto port h hrv hsp hdp 0 0
    (show (KPeer.pod p (some ns)).Concrete 0 from hp) (show (KPeer.pod q (some ms)).Concrete 0 from hq')
    hne hq hx
  cases hc : ((EState.run { cache := { cap := n } } ops).checkIfAllowed src dst proto port).1 with
  | ok v => rw [h1 v hc]; rfl
  | error err =>
    obtain ⟨_, hh, _⟩ := h2 err hc
    cases hh

/-! ## non-vacuity: concrete engines and queries

The walk on a parsed point (`EState.verdictP`, equal to `EState.verdict` on strings that parse by
`EState.verdict_eq_parsed`) evaluates in the kernel. That concrete port strings parse
(`"8080".toInt? = some 8080`) is taken from the toolchain's `Std.Data.String.ToInt`
(`Nat.toInt?_repr`), used in this section only; `getPeer` on the strings `"n/a"`, `"n/b"` is
unrolled in `Properties/C15.lean`. -/
namespace Example
attribute [local instance] Engine.decEqExcept

theorem toInt_nat (k : Nat) : (Nat.repr k).toInt? = some (k : Int) := Nat.toInt?_repr k

theorem parses_tcp_8080 : Parses "TCP" "8080" .TCP 8080 :=
  ⟨by decide +kernel, toInt_nat 8080⟩
theorem parses_lower_tcp_8081 : Parses "tcp" "8081" .TCP 8081 :=
  ⟨by decide +kernel, toInt_nat 8081⟩
theorem parses_udp_53 : Parses "UDP" "53" .UDP 53 :=
  ⟨by decide +kernel, toInt_nat 53⟩
theorem parses_tcp_80 : Parses "TCP" "80" .TCP 80 :=
  ⟨by decide +kernel, toInt_nat 80⟩
theorem parses_tcp_81 : Parses "TCP" "81" .TCP 81 :=
  ⟨by decide +kernel, toInt_nat 81⟩

def nsN : NsObj := ⟨"n", [("kubernetes.io/metadata.name", "n")]⟩
def podA : Pod :=
  { ns := "n", name := "a", labels := [("app", "a")], ports := [], ownerKind := "ReplicaSet",
    ownerName := "ra", variant := "map[app:a]" }
def podB : Pod :=
  { ns := "n", name := "b", labels := [("app", "b")], ports := [⟨"http", .TCP, 8080⟩],
    ownerKind := "ReplicaSet", ownerName := "rb", variant := "map[app:b]" }
def A : KPeer := .pod podA (some nsN)
def B : KPeer := .pod podB (some nsN)
/-- 10.0.0.1 -/
def ipIn : Int := 167772161
def X : KPeer := .ip [⟨ipIn, ipIn⟩]

/-- ingress to `b`: from `app=a` on the named port `http`; from anywhere on UDP 53 -/
def toB : NetPol :=
  { ns := "n", name := "to-b", podSel := ⟨[("app", "b")], []⟩, types := [.ingress],
    ingress := [⟨[.sel (some ⟨[("app", "a")], []⟩) none], [⟨none, .name "http"⟩]⟩,
                ⟨[], [⟨some .UDP, .num 53 none⟩]⟩],
    egress := [] }

def eng1 : Engine := { namespaces := [nsN], pods := [podA, podB], netpols := [toB] }

/-! the hypotheses of the theorems hold -/
example : eng1.Valid := by decide
example : A.Concrete 0 ∧ B.Concrete 0 ∧ B.DstOK ∧ X.Concrete ipIn ∧ X.DstOK := by decide
example : isPodToItself A B = false ∧ isPodToItself A A = true := by decide
example : inRange 8080 ∧ inRange 53 ∧ ¬ inRange 0 ∧ ¬ inRange 65536 := by decide

/-! `list`, `eval` and the specification on `a → b` -/
def connAB : ConnSet := ⟨false, some ⟨[⟨8080, 8080⟩], [], []⟩, some ⟨[⟨53, 53⟩], [], []⟩, none⟩

theorem list_AB : eng1.peerConns A B = .ok connAB := by decide

example : verdictP eng1 A B (some .TCP) 8080 = .ok true ∧
    verdictP eng1 A B (some .TCP) 8081 = .ok false ∧
    verdictP eng1 A B (some .UDP) 53 = .ok true ∧
    verdictP eng1 A B (some .UDP) 8080 = .ok false := by decide

/-- the string-level walk, computed -/
example : verdict eng1 A B "TCP" "8080" = .ok true ∧ verdict eng1 A B "tcp" "8081" = .ok false ∧
    verdict eng1 A B "UDP" "53" = .ok true := by
  rw [verdict_eq_parsed _ _ _ parses_tcp_8080, verdict_eq_parsed _ _ _ parses_lower_tcp_8081,
    verdict_eq_parsed _ _ _ parses_udp_53]
  decide

example : connAB.contains .TCP 8080 = true ∧ connAB.contains .TCP 8081 = false ∧
    connAB.contains .UDP 53 = true := by decide

/-- (`Spec.anpVerdict` sorts with `mergeSort`, which `decide` does not unfold;
`Engine.anpVerdict_sorted` removes it on the engine's sorted list) -/
example : Spec.allowed eng1.toView (A.toEnd 0) (B.toEnd 0) .TCP 8080 = true ∧
    Spec.allowed eng1.toView (A.toEnd 0) (B.toEnd 0) .TCP 8081 = false := by
  simp only [Spec.allowed, Spec.allowedDir_eq, Engine.anpVerdict_sorted eng1 (by decide)]
  decide

/-- the theorem at work: the answer of `eval` obtained from the report of `list` -/
example : verdict eng1 A B "TCP" "8080" = .ok true :=
  eval_is_list eng1 (by decide) A B 0 0 (by decide) (by decide) (by decide) (by decide)
    parses_tcp_8080 (by decide) list_AB

/-! egress towards an address: All Connections and the named port -/

/-- egress from `a`: `rules` -/
def fromA (rules : List NPRule) : NetPol :=
  { ns := "n", name := "from-a", podSel := ⟨[("app", "a")], []⟩, types := [.egress],
    ingress := [], egress := rules }
def toBlock : NPRule := ⟨[.ip ⟨0x0A000000, 8⟩ []], []⟩
def namedDns : NPRule := ⟨[], [⟨none, .name "dns"⟩]⟩
def port80 : NPRule := ⟨[], [⟨none, .num 80 none⟩]⟩
def engE (rules : List NPRule) : Engine :=
  { namespaces := [nsN], pods := [podA, podB], netpols := [fromA rules] }

example : (engE [toBlock, namedDns]).Valid ∧ (engE [namedDns, toBlock]).Valid ∧
    (engE [port80, namedDns]).Valid := by decide

/-- everything to 10.0.0.0/8 first: `eval` stops at the first rule and answers; `list` examines
every rule (no early exit on All Connections any more) and fails on the named port, as it does in
the other order of the two rules — the converse of `eval_answers_when_list_does` fails here too -/
example : (engE [toBlock, namedDns]).peerConns A X = .error .namedPortOnIP ∧
    verdictP (engE [toBlock, namedDns]) A X (some .TCP) 80 = .ok true := by decide

/-- the named port first: both fail, with the same error (`list_fails_when_eval_does`) -/
example : (engE [namedDns, toBlock]).peerConns A X = .error .namedPortOnIP ∧
    verdictP (engE [namedDns, toBlock]) A X (some .TCP) 80 = .error .namedPortOnIP := by decide

example : verdict (engE [namedDns, toBlock]) A X "TCP" "80" = .error .namedPortOnIP := by
  rw [verdict_eq_parsed _ _ _ parses_tcp_80]
  decide

/-- the converse of `eval_answers_when_list_does` fails: `list` evaluates the rule with the named
port (port 80 alone is not everything) and fails; `eval` answers for the point the first rule
allows, and fails for another -/
example : (engE [port80, namedDns]).peerConns A X = .error .namedPortOnIP ∧
    verdictP (engE [port80, namedDns]) A X (some .TCP) 80 = .ok true ∧
    verdictP (engE [port80, namedDns]) A X (some .TCP) 81 = .error .namedPortOnIP := by decide

/-! admin policies in front: `Pass` hands over to the NetworkPolicy, `Deny` decides -/
def anpPassDeny : ANP :=
  { name := "anp", prio := 10, subject := .nss ⟨[], []⟩,
    ingress := [⟨"pass-http", .Pass, [.nss ⟨[], []⟩], some [.named "http"]⟩,
                ⟨"deny-udp", .Deny, [.nss ⟨[], []⟩], some [.num (some .UDP) 53]⟩],
    egress := [] }
def eng2 : Engine := { eng1 with anps := [anpPassDeny], anpNames := ["anp"] }

example : eng2.Valid := by decide
example : eng2.peerConns A B = .ok ⟨false, some ⟨[⟨8080, 8080⟩], [], []⟩, none, none⟩ ∧
    verdictP eng2 A B (some .TCP) 8080 = .ok true ∧
    verdictP eng2 A B (some .UDP) 53 = .ok false := by decide

/-! the self pair and the full statement, through `CheckIfAllowed` -/
open C15.Example (getPeer_na getPeer_nb run_append)

def init : EState := { cache := { cap := 10 } }
def setup : List HOp := [.ins (.ns nsN), .ins (.pod podA), .ins (.pod podB), .ins (.np toB)]
def query : HOp := .q "n/a" "n/b" "TCP" "8080"

theorem setup_eng : (init.run setup).eng = eng1 := by rfl

theorem peer_a (s : EState) (h : s.eng = eng1) : getPeer s.eng "n/a" = .ok A := by
  rw [getPeer_na, h]; rfl
theorem peer_b (s : EState) (h : s.eng = eng1) : getPeer s.eng "n/b" = .ok B := by
  rw [getPeer_nb, h]; rfl

/-- a pod to itself: allowed, whatever the strings -/
example : (init.run setup).checkIfAllowed "n/b" "n/b" "no-protocol" "no-port" =
    (.ok true, init.run setup) :=
  eval_self _ _ _ _ _ (peer_b _ setup_eng) (peer_b _ setup_eng) (by decide)

def exAttrs (k : String) : Labels × List CPort :=
  if k = "n/ra/map[app:a]" then ([("app", "a")], []) else ([("app", "b")], [⟨"http", .TCP, 8080⟩])
def exNsOf (_ : String) : String := "n"

/-- the history is consistent, also with the query asked twice (the second time from the cache) -/
theorem hist_consistent : OpsConsistent exAttrs exNsOf (setup ++ [query]) := by
  constructor <;> decide
theorem hist_consistent' : OpsConsistent exAttrs exNsOf ((setup ++ [query]) ++ [query]) := by
  constructor <;> decide

theorem rulesValid_eng1 : RulesValid eng1 := by
  refine ⟨by decide, by decide, ?_⟩
  exact (by decide : Engine.banpOK eng1.banp)

theorem spec_AB : Spec.allowed eng1.toView (.pod podA nsN.labels) (.pod podB nsN.labels) .TCP 8080
    = true := by
  simp only [Spec.allowed, Spec.allowedDir_eq, Engine.anpVerdict_sorted eng1 (by decide)]
  decide

/-- `eval_spec_exact_pods` applied: the first query (computed) … -/
example : ((init.run setup).checkIfAllowed "n/a" "n/b" "TCP" "8080").1 = .ok true := by
  have h := eval_spec_exact_pods exAttrs exNsOf 10 setup "n/a" "n/b" "TCP" "8080" hist_consistent
    (by rw [show (EState.run { cache := { cap := 10 } } setup).eng = eng1 from setup_eng]
        exact rulesValid_eng1)
    (peer_a _ setup_eng) (peer_b _ setup_eng) (by decide) (by decide) (by decide)
    parses_tcp_8080 (by decide)
  rw [show (EState.run { cache := { cap := 10 } } setup).eng = eng1 from setup_eng, spec_AB] at h
  exact h

theorem setup_query_eng : (init.run (setup ++ [query])).eng = eng1 := by
  rw [run_append]
  show ((init.run setup).checkIfAllowed "n/a" "n/b" "TCP" "8080").2.eng = eng1
  rw [checkIfAllowed_eng, setup_eng]

/-- … and the same query asked again, now served by the cache: still the specification -/
example : ((init.run (setup ++ [query])).checkIfAllowed "n/a" "n/b" "TCP" "8080").1 = .ok true := by
  have h := eval_spec_exact_pods exAttrs exNsOf 10 (setup ++ [query]) "n/a" "n/b" "TCP" "8080"
    hist_consistent'
    (by rw [show (EState.run { cache := { cap := 10 } } (setup ++ [query])).eng = eng1
          from setup_query_eng]
        exact rulesValid_eng1)
    (peer_a _ setup_query_eng) (peer_b _ setup_query_eng) (by decide) (by decide) (by decide)
    parses_tcp_8080 (by decide)
  rw [show (EState.run { cache := { cap := 10 } } (setup ++ [query])).eng = eng1
    from setup_query_eng, spec_AB] at h
  exact h

end Example

end Netpol.Properties.C03
