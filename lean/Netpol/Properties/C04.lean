import Netpol.Proofs.DiffLayer

/-! C04: the diff of two connectivity reports is pointwise exact.

`Diff.compute` (model of `computeDiffFromConnlistResults`, `pkg/netpol/diff/diff.go`) refines the
two reports to common disjoint IP blocks, builds the map keyed by `src;dst`, merges the IP ends
again per group (other peer; connection 1; connection 2) and classifies. A report is a list of
`P2P` (source peer, destination peer, exported connection view); `diffReports` is `compute` on
such lists (`compute_eq`). A *point* is a pair of workload names, or a workload name and one
external address (in one of the two directions, `b`: the address is the source). What a report
holds for a point is `lookup` (two names) / `DiffLayer.lookupIP` (a name and an address: the entry
whose IP range contains the address). `expected` is the specified entry of a point: none when
neither report holds a connection, otherwise unchanged / changed / added / removed with the two
connection strings and the new/lost flags.

Theorems.
* A `diff_pointwise_wl` (+ `diff_wl_mem_iff`, `diff_wl_unique`): the entries of the diff named by two
  workload names are exactly `expected`.
* B `diff_self_unchanged`, `compute_self_unchanged`: the diff of a report with itself has only
  `unchanged` entries (no hypothesis, IP entries included).
* C `lookup_refine`, `refines_left/right`, `refined_cover`: refinement is lossless.
* D `mergeRanges_den`, `mergeRanges_canon`, `mergeRanges_owner_unique`; the merged map at a point is
  `DiffLayer.merge_point` / `DiffLayer.point_ip`.
* E `diff_pointwise_ip`: for a workload and an address, the diff has no entry named by the workload
  and a range containing the address when neither report holds a connection; otherwise exactly
  one such range `r` carries an entry, that entry is `expected`, and `r` is the maximal range around
  the address on which the pair of connection strings is constant.
  `diff_entries_shape`: the diff has no other entries than those of points.
* F `diff_swap_wl`, `diff_swap_ip`: point by point, `diff(R2,R1)` is `diff(R1,R2)` with added/removed
  and the two sides exchanged (`swapEntry`).

Hypotheses.
* `NoSemi`: names contain no semicolon (the map key is the string `src;dst`; true of Kubernetes
  names; proved for IP-range names and for connection strings).
* `NotIP`: workload names are not IP-range strings (proved for the names the analyzer builds:
  `Structure.workloadName_ne_ipRange`).
* `DiffLayer.ReportWF` (for the points with an address): what property C05 guarantees of a report —
  no two entries with the same names, no IP–IP entries, IP peers are valid ranges, the ranges of
  one report are pairwise disjoint, distinct workloads have distinct names.
* `DiffLayer.ConnStrInj` (for the points with an address): within a report the connection string
  determines the exported connection view. Needed because the code groups the refined entries by
  the connection *strings* and lets the first entry of a group stand for all of them; true of the
  canonical views the analyzer exports (not proved here). -/
namespace Netpol.Properties.C04
open Netpol Netpol.Engine Netpol.Diff Netpol.DiffLayer

deriving instance DecidableEq for Netpol.Diff.DEntry

/-- the diff of two reports as `compute` does it: refinement to the common disjoint blocks, then
`diffLists` -/
def diffReports (R1 R2 : List P2P) (peers1 peers2 : List String) : List DEntry :=
  let dis := disjointBlocks (ipBlocksOf R1) (ipBlocksOf R2)
  diffLists (refine R1 dis) (refine R2 dis) peers1 peers2

/-- the workload names of a peer list -/
def peerNames (l : List LPeer) : List String :=
  l.filterMap fun p => match p with | .wl n _ => some n | _ => none

theorem compute_eq (e1 e2 : List Entry) (peers1 peers2 : List LPeer) :
    compute e1 e2 peers1 peers2 =
      diffReports (e1.map ofEntry) (e2.map ofEntry) (peerNames peers1) (peerNames peers2) := rfl

/-- what a report holds for a pair of names -/
def lookup (R : List P2P) (s d : String) : Option P2P :=
  R.find? fun p => p.src.str == s && p.dst.str == d

/-- the specified diff entry of a point with names `s`, `d`, given what the two reports hold -/
def expected (s d : String) (o1 o2 : Option P2P) (peers1 peers2 : List String) : Option DEntry :=
  match o1, o2 with
  | none, none => none
  | some a, some b =>
    some ⟨if a.all = b.all ∧ a.ports = b.ports then "unchanged" else "changed", s, d,
      a.connStr, b.connStr, false, false⟩
  | some a, none =>
    some ⟨"removed", s, d, a.connStr, noConns, isWorkloadAbsent a.src peers2, isWorkloadAbsent a.dst peers2⟩
  | none, some b =>
    some ⟨"added", s, d, noConns, b.connStr, isWorkloadAbsent b.src peers1, isWorkloadAbsent b.dst peers1⟩

/-- the new/lost flag of a workload: its name is absent from the other report's peer list (the
ingress-controller pseudo peer is never flagged) -/
theorem isWorkloadAbsent_wl (n : String) (pod : Pod) (names : List String)
    (h : ¬ (pod.fake = true ∧ pod.name = "ingress-controller")) :
    isWorkloadAbsent (.wl n pod) names = !names.contains n := by
  unfold isWorkloadAbsent
  have : (pod.fake && pod.name == "ingress-controller") = false := by
    rw [Bool.eq_false_iff]
    simpa using h
  simp [this]

theorem isWorkloadAbsent_ip (r : Iv) (names : List String) : isWorkloadAbsent (.ip r) names = false := rfl

/-! ## A. pairs of workloads -/

/-- the names of the entries of a report are pairwise distinct -/
def NamesNodup (R : List P2P) : Prop := (R.map fun p => (p.src.str, p.dst.str)).Nodup

theorem filter_key_lookup {R : List P2P} (hnd : NamesNodup R) (hns : ∀ p ∈ R, NoSemi p.src.str)
    {s d : String} (hs : NoSemi s) :
    R.filter (fun c => c.key == pkey s d) = (lookup R s d).toList := by
  have hcongr : ∀ p ∈ R, (p.key == pkey s d) = (p.src.str == s && p.dst.str == d) := by
    intro p hp
    rw [Bool.eq_iff_iff]
    simp only [Bool.and_eq_true, beq_iff_eq, key_eq]
    constructor
    · intro h; exact pkey_inj (hns p hp) hs h
    · rintro ⟨rfl, rfl⟩; rfl
  rw [List.filter_congr hcongr]
  unfold lookup
  apply filter_unique_of_pairwise
  unfold NamesNodup at hnd
  rw [List.nodup_iff_pairwise_ne, List.pairwise_map] at hnd
  refine hnd.imp ?_
  intro a b hab ⟨ha, hb⟩
  simp only [Bool.and_eq_true, beq_iff_eq] at ha hb
  apply hab
  rw [ha.1, ha.2, hb.1, hb.2]

/-- **Workload–workload points.** For two workload names `s`, `d`: the entries of the diff with
these names are exactly the specified entry — none when neither report holds a connection for
the pair, otherwise one entry, `unchanged` / `changed` / `added` / `removed`, carrying the two
connection strings and the new/lost flags. -/
theorem diff_pointwise_wl {R1 R2 : List P2P} (peers1 peers2 : List String) {s d : String}
    (hnd1 : NamesNodup R1) (hnd2 : NamesNodup R2)
    (hns1 : ∀ p ∈ R1, NoSemi p.src.str) (hns2 : ∀ p ∈ R2, NoSemi p.src.str)
    (hs : NoSemi s) (hsip : NotIP s) (hdip : NotIP d) :
    (diffReports R1 R2 peers1 peers2).filter (fun e => e.src == s && e.dst == d) =
      (expected s d (lookup R1 s d) (lookup R2 s d) peers1 peers2).toList := by
  unfold diffReports
  simp only
  have h1 := (refine_filter_wl (dis := disjointBlocks (ipBlocksOf R1) (ipBlocksOf R2)) hns1 hs hsip hdip).trans
    (filter_key_lookup hnd1 hns1 hs)
  have h2 := (refine_filter_wl (dis := disjointBlocks (ipBlocksOf R1) (ipBlocksOf R2)) hns2 hs hsip hdip).trans
    (filter_key_lookup hnd2 hns2 hs)
  rw [diffLists_filter_wl peers1 peers2 (noSemi_refine hns1) (noSemi_refine hns2) hs hsip hdip h1 h2]
  congr 1
  have hl : ∀ (R : List P2P) a, lookup R s d = some a → a.src.str = s ∧ a.dst.str = d := by
    intro R a ha
    have := List.find?_some ha
    simpa using this
  cases ho1 : lookup R1 s d with
  | none =>
    cases ho2 : lookup R2 s d with
    | none => rfl
    | some b =>
      obtain ⟨e1, e2⟩ := hl _ _ ho2
      simp [mkPair, classify, expected, e1, e2]
  | some a =>
    obtain ⟨e1, e2⟩ := hl _ _ ho1
    cases ho2 : lookup R2 s d with
    | none => simp [mkPair, classify, expected, e1, e2]
    | some b =>
      simp only [mkPair, classify, expected, e1, e2, Option.bind_some, Option.some.injEq]
      congr 1
      by_cases hab : a.all = b.all ∧ a.ports = b.ports
      · simp [hab.1, hab.2]
      · rw [if_neg hab]
        have : (a.all == b.all && a.ports == b.ports) = false := by
          rw [Bool.eq_false_iff]
          simpa using hab
        simp [this]

/-- consequence: the diff has an entry for the pair iff one of the reports holds a connection -/
theorem diff_wl_mem_iff {R1 R2 : List P2P} (peers1 peers2 : List String) {s d : String}
    (hnd1 : NamesNodup R1) (hnd2 : NamesNodup R2)
    (hns1 : ∀ p ∈ R1, NoSemi p.src.str) (hns2 : ∀ p ∈ R2, NoSemi p.src.str)
    (hs : NoSemi s) (hsip : NotIP s) (hdip : NotIP d) :
    (∃ e ∈ diffReports R1 R2 peers1 peers2, e.src = s ∧ e.dst = d) ↔
      ((lookup R1 s d).isSome ∨ (lookup R2 s d).isSome) := by
  have h := diff_pointwise_wl peers1 peers2 hnd1 hnd2 hns1 hns2 hs hsip hdip
  have hiff : (∃ e ∈ diffReports R1 R2 peers1 peers2, e.src = s ∧ e.dst = d) ↔
      (diffReports R1 R2 peers1 peers2).filter (fun e => e.src == s && e.dst == d) ≠ [] := by
    rw [Ne, List.filter_eq_nil_iff]
    simp
  rw [hiff, h]
  cases lookup R1 s d <;> cases lookup R2 s d <;> simp [expected]

/-- consequence: at most one entry per pair of workload names -/
theorem diff_wl_unique {R1 R2 : List P2P} (peers1 peers2 : List String) {s d : String}
    (hnd1 : NamesNodup R1) (hnd2 : NamesNodup R2)
    (hns1 : ∀ p ∈ R1, NoSemi p.src.str) (hns2 : ∀ p ∈ R2, NoSemi p.src.str)
    (hs : NoSemi s) (hsip : NotIP s) (hdip : NotIP d) :
    ((diffReports R1 R2 peers1 peers2).filter (fun e => e.src == s && e.dst == d)).length ≤ 1 := by
  rw [diff_pointwise_wl peers1 peers2 hnd1 hnd2 hns1 hns2 hs hsip hdip]
  cases expected s d (lookup R1 s d) (lookup R2 s d) peers1 peers2 <;> simp

/-- the hypotheses of `diff_pointwise_wl` follow from `ReportWF` -/
theorem diff_pointwise_wl_of_wf {R1 R2 : List P2P} (peers1 peers2 : List String) {s d : String}
    (h1 : ReportWF R1) (h2 : ReportWF R2) (hs : NoSemi s) (hsip : NotIP s) (hdip : NotIP d) :
    (diffReports R1 R2 peers1 peers2).filter (fun e => e.src == s && e.dst == d) =
      (expected s d (lookup R1 s d) (lookup R2 s d) peers1 peers2).toList :=
  diff_pointwise_wl peers1 peers2 h1.nodup h2.nodup
    (fun p hp => by
      cases hs' : p.src with
      | wl n pod => exact (h1.names p hp n pod (Or.inl hs')).1
      | ip r => exact noSemi_ipRange r)
    (fun p hp => by
      cases hs' : p.src with
      | wl n pod => exact (h2.names p hp n pod (Or.inl hs')).1
      | ip r => exact noSemi_ipRange r) hs hsip hdip

/-- the same for `compute` on two lists of report entries -/
theorem compute_pointwise_wl (e1 e2 : List Entry) (peers1 peers2 : List LPeer) {s d : String}
    (h1 : ReportWF (e1.map ofEntry)) (h2 : ReportWF (e2.map ofEntry)) (hs : NoSemi s)
    (hsip : NotIP s) (hdip : NotIP d) :
    (compute e1 e2 peers1 peers2).filter (fun e => e.src == s && e.dst == d) =
      (expected s d (lookup (e1.map ofEntry) s d) (lookup (e2.map ofEntry) s d)
        (peerNames peers1) (peerNames peers2)).toList := by
  rw [compute_eq]
  exact diff_pointwise_wl_of_wf _ _ h1 h2 hs hsip hdip

/-! ## B. the diff of a report with itself -/

/-- every entry of the diff of a report with itself is `unchanged` (no hypothesis on the report;
IP entries included) -/
theorem diff_self_unchanged (R : List P2P) (peers1 peers2 : List String) :
    ∀ e ∈ diffReports R R peers1 peers2, e.typ = "unchanged" :=
  diffLists_self _ peers1 peers2

theorem compute_self_unchanged (es : List Entry) (peers1 peers2 : List LPeer) :
    ∀ e ∈ compute es es peers1 peers2, e.typ = "unchanged" := by
  rw [compute_eq]
  exact diff_self_unchanged _ _ _

/-! ## C. refinement is lossless -/

/-- what the refined report holds for a workload and an address is what the report holds, the IP
end replaced by the refined block `d0` containing the address -/
theorem lookup_refine {R : List P2P} (hR : ReportWF R) {dis : List Iv} (hdis : RefinesR dis R)
    (b : Bool) {w : String} (hwns : NoSemi w) (hwip : NotIP w) {a : Int} {d0 : Iv} (hd0 : d0 ∈ dis)
    (ha : d0.mem a) :
    lookupIP b (refine R dis) w a = (lookupIP b R w a).map (mkIP b d0) := by
  have hent := entOK_refine hR dis
  have hcongr : ∀ y ∈ refine R dis, matchIP b w a y = (y.key == dkey b w d0) := by
    intro y hy
    rw [Bool.eq_iff_iff, matchIP_iff, beq_iff_eq]
    constructor
    · rintro ⟨ho, r, hr, hra⟩
      have hrd : r ∈ dis := (hent y hy).ip r (ipEnd_cases hr)
      have : r = d0 := hdis.seg.unique r hrd d0 hd0 a hra ha
      subst this
      rw [key_of_ipEnd hr, ho]
    · intro hk
      obtain ⟨e1, e2⟩ := shape_of_key hdis.seg (hent y hy) hwns (hdis.seg.valid d0 hd0) hk
      exact ⟨e1, d0, e2, ha⟩
  show (refine R dis).find? (matchIP b w a) = _
  rw [← List.head?_filter, List.filter_congr hcongr, refine_filter_ip hR hdis b hwns hwip hd0 ha]
  cases lookupIP b R w a <;> rfl

/-- the blocks of `compute` refine both reports: valid, pairwise disjoint, every block of a report
is the union of the refined blocks inside it -/
theorem refines_left {R1 R2 : List P2P} (h1 : ReportWF R1) (h2 : ReportWF R2) :
    RefinesR (disOf R1 R2) R1 := refinesR_left h1 h2

theorem refines_right {R1 R2 : List P2P} (h1 : ReportWF R1) (h2 : ReportWF R2) :
    RefinesR (disOf R1 R2) R2 := refinesR_right h1 h2

/-- every address of a block of one of the reports lies in a refined block -/
theorem refined_cover {R1 R2 : List P2P} {k : Iv} (hk : k ∈ ipBlocksOf R1 ++ ipBlocksOf R2) {x : Int}
    (hx : k.mem x) : ∃ d ∈ disOf R1 R2, d.mem x := disjointBlocks_cover _ _ hk hx

/-! ## D. merging -/

/-- `mergeRanges` denotes the union of the ranges -/
theorem mergeRanges_den (l : List Iv) (x : Int) :
    CSet.memL (mergeRanges l) x ↔ ∃ r ∈ l, r.mem x := mem_mergeRanges l x

/-- and is canonical: sorted, pairwise disjoint, non-touching, non-empty ranges -/
theorem mergeRanges_canon (l : List Iv) : CSet.Canon (mergeRanges l) := canon_mergeRanges l

/-- so an address lies in at most one merged range -/
theorem mergeRanges_owner_unique {l : List Iv} {r r' : Iv} (hr : r ∈ mergeRanges l)
    (hr' : r' ∈ mergeRanges l) {x : Int} (hx : r.mem x) (hx' : r'.mem x) : r = r' :=
  mergeRanges_unique hr hr' hx hx'

/-! ## E. workload–address points -/

/-- the names of the entry for workload `w` and range `r`; `b`: the range is the source -/
def namesIP (b : Bool) (w : String) (r : Iv) : String × String :=
  if b then ((LPeer.ip r).str, w) else (w, (LPeer.ip r).str)

/-- the entries of a diff named by workload `w` and range `r` -/
def entriesAt (l : List DEntry) (b : Bool) (w : String) (r : Iv) : List DEntry :=
  l.filter fun e => e.src == (namesIP b w r).1 && e.dst == (namesIP b w r).2

theorem reportWF_noSemi_src {R : List P2P} (h : ReportWF R) : ∀ p ∈ R, NoSemi p.src.str := by
  intro p hp
  cases hs : p.src with
  | wl n pod => exact (h.names p hp n pod (Or.inl hs)).1
  | ip r => exact noSemi_ipRange r

theorem classify_moved (peers1 peers2 : List String) (b : Bool) {w : String} {a : Int} (r : Iv)
    {o1 o2 : Option P2P} (h1 : ∀ x, o1 = some x → matchIP b w a x = true)
    (h2 : ∀ x, o2 = some x → matchIP b w a x = true) :
    classify peers1 peers2 (pkey (namesIP b w r).1 (namesIP b w r).2,
        ⟨o1.map (mkIP b r), o2.map (mkIP b r)⟩) =
      expected (namesIP b w r).1 (namesIP b w r).2 o1 o2 peers1 peers2 := by
  have hmoved : ∀ x, matchIP b w a x = true →
      (mkIP b r x).src.str = (namesIP b w r).1 ∧ (mkIP b r x).dst.str = (namesIP b w r).2 ∧
      (mkIP b r x).connStr = x.connStr ∧ (mkIP b r x).all = x.all ∧ (mkIP b r x).ports = x.ports ∧
      (∀ names, isWorkloadAbsent (mkIP b r x).src names = isWorkloadAbsent x.src names) ∧
      (∀ names, isWorkloadAbsent (mkIP b r x).dst names = isWorkloadAbsent x.dst names) := by
    intro x hx
    obtain ⟨ho, r0, hr0, _⟩ := matchIP_iff.mp hx
    cases b
    · have hd : x.dst = .ip r0 := hr0
      have hs : x.src.str = w := ho
      refine ⟨hs, rfl, rfl, rfl, rfl, fun _ => rfl, fun names => ?_⟩
      rw [hd]; rfl
    · have hd : x.src = .ip r0 := hr0
      have hs : x.dst.str = w := ho
      refine ⟨rfl, hs, rfl, rfl, rfl, fun names => ?_, fun _ => rfl⟩
      rw [hd]; rfl
  cases o1 with
  | none =>
    cases o2 with
    | none => rfl
    | some y =>
      obtain ⟨e1, e2, e3, _, _, e6, e7⟩ := hmoved y (h2 y rfl)
      simp [classify, expected, e1, e2, e3, e6, e7]
  | some x =>
    obtain ⟨e1, e2, e3, e4, e5, e6, e7⟩ := hmoved x (h1 x rfl)
    cases o2 with
    | none => simp [classify, expected, e1, e2, e3, e6, e7]
    | some y =>
      obtain ⟨_, _, f3, f4, f5, _, _⟩ := hmoved y (h2 y rfl)
      simp only [classify, expected, Option.map_some, e1, e2, e3, e4, e5, f3, f4, f5,
        Option.some.injEq]
      congr 1
      by_cases hab : x.all = y.all ∧ x.ports = y.ports
      · simp [hab.1, hab.2]
      · rw [if_neg hab]
        have : (x.all == y.all && x.ports == y.ports) = false := by
          rw [Bool.eq_false_iff]
          simpa using hab
        simp [this]

/-- **Workload–address points.** `R1`, `R2` well-formed reports whose connection strings determine
the connections; `w` a workload name, `a` an address; `b`: the address is the source. With
`o1`, `o2` what the reports hold for the point (`lookupIP`: the entry with `w` at one end and an
IP range containing `a` at the other):

* if both are none, the diff has no entry named by `w` and a valid range containing `a`;
* otherwise there is a valid range `r` containing `a` such that the entries of the diff named by
  `w` and `r` are exactly the specified entry (`expected`: type, the two connection strings,
  new/lost flags), and no entry is named by `w` and another valid range containing `a`; `r` is
  the maximal range around `a` on which the two reports hold the same pair of connection
  strings as at `a` (`strsAt`). -/
theorem diff_pointwise_ip {R1 R2 : List P2P} (peers1 peers2 : List String) (h1 : ReportWF R1)
    (h2 : ReportWF R2) (hcs1 : ConnStrInj R1) (hcs2 : ConnStrInj R2) (b : Bool) {w : String}
    (hwns : NoSemi w) (hwip : NotIP w) (a : Int) :
    (lookupIP b R1 w a = none → lookupIP b R2 w a = none → ∀ r, ValidR r → r.mem a →
      entriesAt (diffReports R1 R2 peers1 peers2) b w r = []) ∧
    (((lookupIP b R1 w a).isSome ∨ (lookupIP b R2 w a).isSome) → ∃ r, ValidR r ∧ r.mem a ∧
      entriesAt (diffReports R1 R2 peers1 peers2) b w r =
        (expected (namesIP b w r).1 (namesIP b w r).2 (lookupIP b R1 w a) (lookupIP b R2 w a)
          peers1 peers2).toList ∧
      (∀ r', ValidR r' → r'.mem a → r' ≠ r →
        entriesAt (diffReports R1 R2 peers1 peers2) b w r' = []) ∧
      (∀ x, r.mem x → strsAt b R1 R2 w x = strsAt b R1 R2 w a) ∧
      strsAt b R1 R2 w (r.lo - 1) ≠ strsAt b R1 R2 w a ∧
      strsAt b R1 R2 w (r.hi + 1) ≠ strsAt b R1 R2 w a) := by
  have hfilter : ∀ r, entriesAt (diffReports R1 R2 peers1 peers2) b w r =
      ((get (mergeIPblocks (refMap R1 R2)) (dkey b w r)).bind fun p => classify peers1 peers2
          (pkey (namesIP b w r).1 (namesIP b w r).2, p)).toList := by
    intro r
    have hs : NoSemi (namesIP b w r).1 := by
      cases b
      · exact hwns
      · exact noSemi_ipRange r
    have hk : pkey (namesIP b w r).1 (namesIP b w r).2 = dkey b w r := by cases b <;> rfl
    unfold entriesAt diffReports refMap
    rw [← hk]
    exact diffLists_filter_key peers1 peers2 _ (noSemi_refine (reportWF_noSemi_src h1))
      (noSemi_refine (reportWF_noSemi_src h2)) hs
  obtain ⟨hnone, hsome⟩ := point_ip h1 h2 hcs1 hcs2 b hwns hwip a
  constructor
  · intro ho1 ho2 r hv hra
    rw [hfilter, hnone ho1 ho2 r hv hra]
    rfl
  · intro hs
    obtain ⟨r, hv, hra, hget, huniq, hconst, hlo, hhi⟩ := hsome hs
    refine ⟨r, hv, hra, ?_, ?_, hconst, hlo, hhi⟩
    · rw [hfilter, hget, Option.bind_some]
      rw [classify_moved peers1 peers2 b r (w := w) (a := a) (o1 := lookupIP b R1 w a)
        (o2 := lookupIP b R2 w a) (fun x hx => List.find?_some hx)
        (fun x hx => List.find?_some hx)]
    · intro r' hv' hra' hne
      rw [hfilter]
      cases hg : get (mergeIPblocks (refMap R1 R2)) (dkey b w r') with
      | none => rfl
      | some p => exact absurd (huniq r' hv' hra' (by rw [hg]; rfl)) hne

/-- **no other entries**: every entry of the diff is the entry of a point — its names are two
workload names, or a workload name and a valid range (in one of the two directions) -/
theorem diff_entries_shape {R1 R2 : List P2P} (peers1 peers2 : List String) (h1 : ReportWF R1)
    (h2 : ReportWF R2) : ∀ e ∈ diffReports R1 R2 peers1 peers2,
      (NoSemi e.src ∧ NotIP e.src ∧ NotIP e.dst) ∨
      (∃ b w r, NoSemi w ∧ NotIP w ∧ ValidR r ∧ e.src = (namesIP b w r).1 ∧ e.dst = (namesIP b w r).2) := by
  intro e he
  have hmap := mapOK_refMap h1 h2
  have hseg := segOK_disjointBlocks h1 h2
  have hnd := hmap.nodup
  have hgood : AllE (Good fun a => NoSemi a.src.str) (refMap R1 R2) :=
    good_diffMap (noSemi_refine (reportWF_noSemi_src h1)) (noSemi_refine (reportWF_noSemi_src h2))
  have hgood' := good_mergeIPblocks hnd hgood (fun x b r hx => by
    cases b
    · exact hx
    · exact noSemi_ipRange r)
  have he' : e ∈ (mergeIPblocks (refMap R1 R2)).filterMap (classify peers1 peers2) := he
  rw [List.mem_filterMap] at he'
  obtain ⟨⟨k, p⟩, hkp, hc⟩ := he'
  have hg := hgood' k p ((mem_iff_get (nodup_mergeIPblocks hnd)).mp hkp)
  obtain ⟨a', ha', e1, e2⟩ := classify_some hc
  have hka : a'.key = k ∧ NoSemi a'.src.str := by
    rcases ha' with ha' | ha'
    · exact hg.1 a' ha'
    · exact hg.2 a' ha'
  rcases mm_keys_shape hmap hseg k (List.mem_map.mpr ⟨_, hkp, rfl⟩) with
    ⟨s, d, hk, hs, hsip, hdip⟩ | ⟨b, w, r, hk, hns, hnip, hv⟩
  · left
    rw [← hka.1, key_eq] at hk
    obtain ⟨f1, f2⟩ := pkey_inj hka.2 hs hk
    rw [e1, e2, f1, f2]
    exact ⟨hs, hsip, hdip⟩
  · right
    refine ⟨b, w, r, hns, hnip, hv, ?_⟩
    have hk' : dkey b w r = pkey (namesIP b w r).1 (namesIP b w r).2 := by cases b <;> rfl
    have hs : NoSemi (namesIP b w r).1 := by
      cases b
      · exact hns
      · exact noSemi_ipRange r
    rw [← hka.1, key_eq, hk'] at hk
    obtain ⟨f1, f2⟩ := pkey_inj hka.2 hs hk
    rw [e1, e2, f1, f2]
    exact ⟨rfl, rfl⟩

/-! ## F. swapping the two reports -/

/-- the entry with the two sides exchanged: `added` ↔ `removed`, the connection strings swapped -/
def swapEntry (e : DEntry) : DEntry :=
  { e with typ := if e.typ = "added" then "removed" else if e.typ = "removed" then "added" else e.typ,
           c1 := e.c2, c2 := e.c1 }

theorem expected_swap (s d : String) (o1 o2 : Option P2P) (peers1 peers2 : List String) :
    expected s d o2 o1 peers2 peers1 = (expected s d o1 o2 peers1 peers2).map swapEntry := by
  cases o1 with
  | none =>
    cases o2 with
    | none => rfl
    | some y => simp [expected, swapEntry]
  | some x =>
    cases o2 with
    | none => simp [expected, swapEntry]
    | some y =>
      simp only [expected, swapEntry, Option.map_some, Option.some.injEq]
      by_cases hab : x.all = y.all ∧ x.ports = y.ports
      · have hba : y.all = x.all ∧ y.ports = x.ports := ⟨hab.1.symm, hab.2.symm⟩
        rw [if_pos hab, if_pos hba]
        simp
      · have hba : ¬ (y.all = x.all ∧ y.ports = x.ports) := fun h => hab ⟨h.1.symm, h.2.symm⟩
        rw [if_neg hab, if_neg hba]
        simp

/-- **swap, workload–workload points**: the entries of `diff(R2, R1)` for a pair of workload names
are those of `diff(R1, R2)` with the sides exchanged -/
theorem diff_swap_wl {R1 R2 : List P2P} (peers1 peers2 : List String) {s d : String}
    (hnd1 : NamesNodup R1) (hnd2 : NamesNodup R2)
    (hns1 : ∀ p ∈ R1, NoSemi p.src.str) (hns2 : ∀ p ∈ R2, NoSemi p.src.str)
    (hs : NoSemi s) (hsip : NotIP s) (hdip : NotIP d) :
    (diffReports R2 R1 peers2 peers1).filter (fun e => e.src == s && e.dst == d) =
      ((diffReports R1 R2 peers1 peers2).filter (fun e => e.src == s && e.dst == d)).map swapEntry := by
  rw [diff_pointwise_wl peers2 peers1 hnd2 hnd1 hns2 hns1 hs hsip hdip,
    diff_pointwise_wl peers1 peers2 hnd1 hnd2 hns1 hns2 hs hsip hdip, expected_swap]
  cases expected s d (lookup R1 s d) (lookup R2 s d) peers1 peers2 <;> rfl

theorem strsAt_swap (b : Bool) (R1 R2 : List P2P) (w : String) (x : Int) :
    strsAt b R2 R1 w x = ((strsAt b R1 R2 w x).2, (strsAt b R1 R2 w x).1) := rfl

/-- two ranges around `a`, each a maximal run of a property, are equal -/
theorem maximal_run_unique {P : Int → Prop} {a : Int} {r r' : Iv} (ha : r.mem a) (ha' : r'.mem a)
    (h : ∀ x, r.mem x → P x) (hlo : ¬ P (r.lo - 1)) (hhi : ¬ P (r.hi + 1))
    (h' : ∀ x, r'.mem x → P x) (hlo' : ¬ P (r'.lo - 1)) (hhi' : ¬ P (r'.hi + 1)) : r = r' := by
  unfold Iv.mem at *
  have e1 : r.lo = r'.lo := by
    rcases Int.lt_trichotomy r.lo r'.lo with hlt | heq | hgt
    · exact absurd (h (r'.lo - 1) (by omega)) hlo'
    · exact heq
    · exact absurd (h' (r.lo - 1) (by omega)) hlo
  have e2 : r.hi = r'.hi := by
    rcases Int.lt_trichotomy r.hi r'.hi with hlt | heq | hgt
    · exact absurd (h' (r.hi + 1) (by omega)) hhi
    · exact heq
    · exact absurd (h (r'.hi + 1) (by omega)) hhi'
  cases r; cases r'; simp_all

/-- **swap, workload–address points**: for every valid range `r` containing the address, the
entries of `diff(R2, R1)` named by `w` and `r` are those of `diff(R1, R2)` with the sides
exchanged -/
theorem diff_swap_ip {R1 R2 : List P2P} (peers1 peers2 : List String) (h1 : ReportWF R1)
    (h2 : ReportWF R2) (hcs1 : ConnStrInj R1) (hcs2 : ConnStrInj R2) (b : Bool) {w : String}
    (hwns : NoSemi w) (hwip : NotIP w) (a : Int) (r : Iv) (hv : ValidR r) (hra : r.mem a) :
    entriesAt (diffReports R2 R1 peers2 peers1) b w r =
      (entriesAt (diffReports R1 R2 peers1 peers2) b w r).map swapEntry := by
  obtain ⟨hn12, hs12⟩ := diff_pointwise_ip peers1 peers2 h1 h2 hcs1 hcs2 b hwns hwip a
  obtain ⟨hn21, hs21⟩ := diff_pointwise_ip peers2 peers1 h2 h1 hcs2 hcs1 b hwns hwip a
  by_cases hsome : (lookupIP b R1 w a).isSome ∨ (lookupIP b R2 w a).isSome
  · obtain ⟨r1, _, hra1, he1, ho1, hc1, hlo1, hhi1⟩ := hs12 hsome
    obtain ⟨r2, _, hra2, he2, ho2, hc2, hlo2, hhi2⟩ := hs21 (Or.symm hsome)
    have hsw : ∀ x y, strsAt b R2 R1 w x = strsAt b R2 R1 w y ↔
        strsAt b R1 R2 w x = strsAt b R1 R2 w y := by
      intro x y
      constructor
      · intro h
        have e1 := congrArg Prod.fst h
        have e2 := congrArg Prod.snd h
        exact Prod.ext e2 e1
      · intro h
        have e1 := congrArg Prod.fst h
        have e2 := congrArg Prod.snd h
        exact Prod.ext e2 e1
    have hrr : r1 = r2 :=
      maximal_run_unique (P := fun x => strsAt b R1 R2 w x = strsAt b R1 R2 w a) hra1 hra2 hc1 hlo1
        hhi1 (fun x hx => (hsw x a).mp (hc2 x hx)) (fun h => hlo2 ((hsw _ a).mpr h))
        (fun h => hhi2 ((hsw _ a).mpr h))
    subst hrr
    by_cases hr : r = r1
    · subst hr
      rw [he1, he2, expected_swap]
      cases expected (namesIP b w r).1 (namesIP b w r).2 (lookupIP b R1 w a) (lookupIP b R2 w a)
        peers1 peers2 <;> rfl
    · rw [ho1 r hv hra hr, ho2 r hv hra hr]; rfl
  · have ho1 : lookupIP b R1 w a = none := by
      cases h : lookupIP b R1 w a with
      | none => rfl
      | some x => exact absurd (Or.inl (by rw [h]; rfl)) hsome
    have ho2 : lookupIP b R2 w a = none := by
      cases h : lookupIP b R2 w a with
      | none => rfl
      | some x => exact absurd (Or.inr (by rw [h]; rfl)) hsome
    rw [hn12 ho1 ho2 r hv hra, hn21 ho2 ho1 r hv hra]; rfl

/-- the list-level form of the swap property (the two diffs are permutations of each other up to
`swapEntry`); NOT proved here — the pointwise theorems `diff_swap_wl`, `diff_swap_ip` together with
`diff_entries_shape` say the same thing point by point -/
def diff_swap_perm_statement : Prop :=
  ∀ (R1 R2 : List P2P) (peers1 peers2 : List String), ReportWF R1 → ReportWF R2 → ConnStrInj R1 →
    ConnStrInj R2 →
    (diffReports R2 R1 peers2 peers1).Perm ((diffReports R1 R2 peers1 peers2).map swapEntry)

/-! ## Examples -/

def exPodA : Pod := { ns := "default", name := "a", labels := [], ports := [] }
def exPodB : Pod := { ns := "default", name := "b", labels := [], ports := [] }
def exPodC : Pod := { ns := "default", name := "c", labels := [], ports := [] }
def exA : LPeer := .wl "default/a[Pod]" exPodA
def exB : LPeer := .wl "default/b[Pod]" exPodB
def exC : LPeer := .wl "default/c[Pod]" exPodC

/-- two reports without IP peers -/
def exR1 : List P2P := [⟨exA, exB, false, [(.TCP, [⟨80, 80⟩])]⟩, ⟨exA, exC, true, []⟩]
def exR2 : List P2P := [⟨exA, exB, false, [(.TCP, [⟨80, 80⟩, ⟨443, 443⟩])]⟩, ⟨exB, exC, true, []⟩]
def exPeers1 : List String := ["default/a[Pod]", "default/b[Pod]", "default/c[Pod]"]
def exPeers2 : List String := ["default/a[Pod]", "default/b[Pod]"]

theorem ex_dis_nil : disjointBlocks ([] : List Iv) [] = [] := by simp [disjointBlocks]

example : diffReports exR1 exR2 exPeers1 exPeers2 =
    [⟨"changed", "default/a[Pod]", "default/b[Pod]", "TCP 80", "TCP 80,443", false, false⟩,
     ⟨"removed", "default/a[Pod]", "default/c[Pod]", "All Connections", "No Connections", false, true⟩,
     ⟨"added", "default/b[Pod]", "default/c[Pod]", "No Connections", "All Connections", false, false⟩] := by
  unfold diffReports
  rw [show ipBlocksOf exR1 = [] from by decide, show ipBlocksOf exR2 = [] from by decide, ex_dis_nil]
  decide

/-- the specification at the three points -/
example : expected "default/a[Pod]" "default/b[Pod]" (lookup exR1 "default/a[Pod]" "default/b[Pod]")
    (lookup exR2 "default/a[Pod]" "default/b[Pod]") exPeers1 exPeers2 =
    some ⟨"changed", "default/a[Pod]", "default/b[Pod]", "TCP 80", "TCP 80,443", false, false⟩ := by decide

example : expected "default/a[Pod]" "default/c[Pod]" (lookup exR1 "default/a[Pod]" "default/c[Pod]")
    (lookup exR2 "default/a[Pod]" "default/c[Pod]") exPeers1 exPeers2 =
    some ⟨"removed", "default/a[Pod]", "default/c[Pod]", "All Connections", "No Connections", false, true⟩ := by
  decide

example : expected "default/c[Pod]" "default/a[Pod]" (lookup exR1 "default/c[Pod]" "default/a[Pod]")
    (lookup exR2 "default/c[Pod]" "default/a[Pod]") exPeers1 exPeers2 = none := by decide

/-- the hypotheses of `diff_pointwise_wl` hold of the example -/
theorem ex_notIP_a : NotIP "default/a[Pod]" := fun r => by
  rw [show "default/a[Pod]" = workloadName exPodA from by decide]
  exact Structure.workloadName_ne_ipRange _ _

theorem ex_notIP_b : NotIP "default/b[Pod]" := fun r => by
  rw [show "default/b[Pod]" = workloadName exPodB from by decide]
  exact Structure.workloadName_ne_ipRange _ _

theorem ex_noSemi_a : NoSemi "default/a[Pod]" := by unfold NoSemi; decide

example : (diffReports exR1 exR2 exPeers1 exPeers2).filter
      (fun e => e.src == "default/a[Pod]" && e.dst == "default/b[Pod]") =
    [⟨"changed", "default/a[Pod]", "default/b[Pod]", "TCP 80", "TCP 80,443", false, false⟩] := by
  rw [diff_pointwise_wl exPeers1 exPeers2 (by unfold NamesNodup; decide) (by unfold NamesNodup; decide)
    (by unfold NoSemi; decide) (by unfold NoSemi; decide) ex_noSemi_a ex_notIP_a ex_notIP_b]
  decide

/-- two reports with IP peers: the whole address space in the first, 10.0.0.0/8 carved out in the second -/
def exR3 : List P2P := [⟨exA, .ip ⟨0, 4294967295⟩, true, []⟩]
def exR4 : List P2P :=
  [⟨exA, .ip ⟨0, 167772159⟩, true, []⟩, ⟨exA, .ip ⟨167772160, 184549375⟩, false, [(.TCP, [⟨80, 80⟩])]⟩,
   ⟨exA, .ip ⟨184549376, 4294967295⟩, true, []⟩]

theorem ex_dis : disOf exR3 exR4 =
    [⟨0, 167772159⟩, ⟨167772160, 184549375⟩, ⟨184549376, 4294967295⟩] := by
  have h3 : ipBlocksOf exR3 = [⟨0, 4294967295⟩] := by decide
  have h4 : ipBlocksOf exR4 =
      [⟨0, 167772159⟩, ⟨167772160, 184549375⟩, ⟨184549376, 4294967295⟩] := by decide
  unfold disOf disjointBlocks
  rw [h3, h4]
  simp only [List.cons_append, List.nil_append, List.flatMap_cons, List.flatMap_nil, List.append_nil]
  have hs : ([0, 4294967295 + 1, 0, 167772159 + 1, 167772160, 184549375 + 1, 184549376,
      4294967295 + 1] : List Int).mergeSort (fun x1 x2 => decide (x1 ≤ x2)) =
      [0, 0, 167772160, 167772160, 184549376, 184549376, 4294967296, 4294967296] := by
    simp [List.mergeSort, List.MergeSort.Internal.splitInTwo]
  rw [hs]
  decide

/-- the diff: the two unchanged parts are merged per group (two ranges, not adjacent), 10.0.0.0/8 changed -/
theorem ex_diff34 : diffReports exR3 exR4 [] [] =
    [⟨"unchanged", "default/a[Pod]", "0.0.0.0-9.255.255.255", "All Connections", "All Connections", false, false⟩,
     ⟨"unchanged", "default/a[Pod]", "11.0.0.0-255.255.255.255", "All Connections", "All Connections", false, false⟩,
     ⟨"changed", "default/a[Pod]", "10.0.0.0-10.255.255.255", "All Connections", "TCP 80", false, false⟩] := by
  have := ex_dis
  unfold disOf at this
  unfold diffReports
  rw [this]
  decide

theorem ex_wf_of_ends {R : List P2P} {blocks : List Iv} (hnd : NamesNodup R)
    (hv : ∀ r ∈ blocks, ValidR r)
    (hdisj : ∀ r ∈ blocks, ∀ r' ∈ blocks, ∀ x, r.mem x → r'.mem x → r = r')
    (hends : ∀ p ∈ R, p.src = exA ∧ ∃ r ∈ blocks, p.dst = .ip r) : ReportWF R := by
  refine ⟨hnd, ?_, ?_, ?_, ?_, ?_⟩
  · intro p hp
    obtain ⟨hs, _⟩ := hends p hp
    rw [hs]; simp [exA, LPeer.isIP]
  · intro p hp r hr
    obtain ⟨hs, r', hr', hd⟩ := hends p hp
    rw [hs, hd] at hr
    rcases hr with hr | hr
    · cases hr
    · cases hr; exact hv _ hr'
  · intro p hp q hq r r' hr hr' x hx hx'
    obtain ⟨hs, r1, hr1, hd⟩ := hends p hp
    obtain ⟨hs', r2, hr2, hd'⟩ := hends q hq
    rw [hs, hd] at hr
    rw [hs', hd'] at hr'
    have e1 : r = r1 := by rcases hr with hr | hr <;> cases hr; rfl
    have e2 : r' = r2 := by rcases hr' with hr' | hr' <;> cases hr'; rfl
    subst e1; subst e2
    exact hdisj r hr1 r' hr2 x hx hx'
  · intro p hp n pod hn
    obtain ⟨hs, r', _, hd⟩ := hends p hp
    rw [hs, hd] at hn
    rcases hn with hn | hn
    · cases hn; exact ⟨ex_noSemi_a, ex_notIP_a⟩
    · cases hn
  · intro p hp q hq n pod pod' hn hn'
    obtain ⟨hs, r1, _, hd⟩ := hends p hp
    obtain ⟨hs', r2, _, hd'⟩ := hends q hq
    rw [hs, hd] at hn
    rw [hs', hd'] at hn'
    rcases hn with hn | hn <;> rcases hn' with hn' | hn' <;> cases hn <;> cases hn'
    rfl

theorem ex_wf4 : ReportWF exR4 := by
  refine ex_wf_of_ends (blocks := [⟨0, 167772159⟩, ⟨167772160, 184549375⟩, ⟨184549376, 4294967295⟩])
    (by unfold NamesNodup; decide) ?_ ?_ ?_
  · intro r hr
    simp only [List.mem_cons, List.not_mem_nil, or_false] at hr
    unfold ValidR ipMax
    rcases hr with rfl | rfl | rfl <;> simp
  · intro r hr r' hr' x hx hx'
    simp only [List.mem_cons, List.not_mem_nil, or_false] at hr hr'
    unfold Iv.mem at hx hx'
    rcases hr with rfl | rfl | rfl <;> rcases hr' with rfl | rfl | rfl <;>
      first | rfl | (simp only at hx hx'; omega)
  · intro p hp
    simp only [exR4, List.mem_cons, List.not_mem_nil, or_false] at hp
    rcases hp with rfl | rfl | rfl <;> simp

theorem ex_wf3 : ReportWF exR3 := by
  refine ex_wf_of_ends (blocks := [⟨0, 4294967295⟩]) (by unfold NamesNodup; decide) ?_ ?_ ?_
  · intro r hr
    simp only [List.mem_cons, List.not_mem_nil, or_false] at hr
    subst hr
    unfold ValidR ipMax; simp
  · intro r hr r' hr' x _ _
    simp only [List.mem_cons, List.not_mem_nil, or_false] at hr hr'
    rw [hr, hr']
  · intro p hp
    simp only [exR3, List.mem_cons, List.not_mem_nil, or_false] at hp
    subst hp; simp

/-- the theorem at the point (workload a, address 10.1.2.3): one entry, `changed` -/
example : ∃ r, ValidR r ∧ r.mem 167837955 ∧
    entriesAt (diffReports exR3 exR4 [] []) false "default/a[Pod]" r =
      [⟨"changed", "default/a[Pod]", (LPeer.ip r).str, "All Connections", "TCP 80", false, false⟩] := by
  obtain ⟨_, hsome⟩ := diff_pointwise_ip [] [] ex_wf3 ex_wf4 (by unfold ConnStrInj; decide)
    (by unfold ConnStrInj; decide) false ex_noSemi_a ex_notIP_a 167837955
  obtain ⟨r, hv, hra, he, _⟩ := hsome (Or.inl (by decide))
  refine ⟨r, hv, hra, ?_⟩
  rw [he]
  rw [show lookupIP false exR3 "default/a[Pod]" 167837955 = some ⟨exA, .ip ⟨0, 4294967295⟩, true, []⟩
    from by rfl]
  rw [show lookupIP false exR4 "default/a[Pod]" 167837955 =
    some ⟨exA, .ip ⟨167772160, 184549375⟩, false, [(.TCP, [⟨80, 80⟩])]⟩ from by rfl]
  simp [expected, namesIP, P2P.connStr]
  decide

/-- `ConnStrInj` cannot be dropped: two different (non-canonical) views with the same string
"All Connections" in the second report are merged into one group, whose first entry stands for
both — the diff says `unchanged` at address 7 where the specification says `changed` -/
def exR5 : List P2P := [⟨exA, .ip ⟨0, 9⟩, true, []⟩]
def exR6 : List P2P := [⟨exA, .ip ⟨0, 4⟩, true, []⟩, ⟨exA, .ip ⟨5, 9⟩, true, [(.TCP, [])]⟩]

example : ¬ ConnStrInj exR6 := by unfold ConnStrInj; decide

example : diffReports exR5 exR6 [] [] =
    [⟨"unchanged", "default/a[Pod]", "0.0.0.0-0.0.0.9", "All Connections", "All Connections", false, false⟩] := by
  have hd : disjointBlocks (ipBlocksOf exR5) (ipBlocksOf exR6) = [⟨0, 4⟩, ⟨5, 9⟩] := by
    have h5 : ipBlocksOf exR5 = [⟨0, 9⟩] := by decide
    have h6 : ipBlocksOf exR6 = [⟨0, 4⟩, ⟨5, 9⟩] := by decide
    unfold disjointBlocks
    rw [h5, h6]
    simp only [List.cons_append, List.nil_append, List.flatMap_cons, List.flatMap_nil, List.append_nil]
    have hs : ([0, 9 + 1, 0, 4 + 1, 5, 9 + 1] : List Int).mergeSort (fun x1 x2 => decide (x1 ≤ x2)) =
        [0, 0, 5, 5, 10, 10] := by
      simp [List.mergeSort, List.MergeSort.Internal.splitInTwo]
    rw [hs]
    decide
  unfold diffReports
  rw [hd]
  decide

example : expected "default/a[Pod]" "0.0.0.0-0.0.0.9" (lookupIP false exR5 "default/a[Pod]" 7)
    (lookupIP false exR6 "default/a[Pod]" 7) [] [] =
    some ⟨"changed", "default/a[Pod]", "0.0.0.0-0.0.0.9", "All Connections", "All Connections", false, false⟩ := by
  decide

end Netpol.Properties.C04
