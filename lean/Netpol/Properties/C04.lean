import Netpol.Proofs.DiffLayer
import Netpol.Proofs.DiffComputed

/-! C04: the diff of two connectivity reports is pointwise exact.

`Diff.compute` (model of `computeDiffFromConnlistResults`, `pkg/netpol/diff/diff.go`) refines the
two reports to common disjoint IP blocks, builds the map keyed by `src;dst`, merges the IP ends
again per group (other peer; connection 1; connection 2) and classifies. A report is a list of
`P2P` (source peer, destination peer, exported connection view); `diffReports` is `compute` on
such lists (`compute_eq`). A *point* is a pair of workload names, or a workload name and one
external address (in one of the two directions, `b`: the address is the source). What a report
holds for a point is `lookup` (two names) / `DiffLayer.lookupIP` (a name and an address: the entry
whose IP range contains the address). `expected` is the specified entry of a point: none when
neither report holds a connection, otherwise unchanged / changed / added / removed with the two
connection strings and the new/lost flags.

Theorems.
* A `diff_pointwise_wl` (+ `diff_wl_mem_iff`, `diff_wl_unique`): the entries of the diff named by two
  workload names are exactly `expected`.
* B `diff_self_unchanged`, `compute_self_unchanged`: the diff of a report with itself has only
  `unchanged` entries (no hypothesis, IP entries included).
* C `lookup_refine`, `refines_left/right`, `refined_cover`: refinement is lossless.
* D `mergeRanges_den`, `mergeRanges_canon`, `mergeRanges_owner_unique`; the merged map at a point is
  `DiffLayer.merge_point` / `DiffLayer.point_ip`.
* E `diff_pointwise_ip`: for a workload and an address, the diff has no entry named by the workload
  and a range containing the address when neither report holds a connection; otherwise exactly
  one such range `r` carries an entry, that entry is `expected`, and `r` is the maximal range around
  the address on which the pair of connection strings is constant.
  `diff_entries_shape`: the diff has no other entries than those of points.
* F `diff_swap_wl`, `diff_swap_ip`: point by point, `diff(R2,R1)` is `diff(R1,R2)` with added/removed
  and the two sides exchanged (`swapEntry`).

Hypotheses.
* `NoSemi`: names contain no semicolon (the map key is the string `src;dst`; true of Kubernetes
  names; proved for IP-range names and for connection strings).
* `NotIP`: workload names are not IP-range strings (proved for the names the analyzer builds:
  `Structure.workloadName_ne_ipRange`).
* `DiffLayer.ReportWF` (for the points with an address): what property C05 guarantees of a report —
  no two entries with the same names, no IP–IP entries, IP peers are valid ranges, the ranges of
  one report are pairwise disjoint, distinct workloads have distinct names.
* `DiffLayer.ConnStrInj` (for the points with an address): within a report the connection string
  determines the exported connection view. Needed because the code groups the refined entries by
  the connection *strings* and lets the first entry of a group stand for all of them; true of the
  canonical views the analyzer exports (not proved here).

End to end (section G, proofs in `Netpol.Proofs.DiffComputed`). For the reports the analyzer itself
computes — `WorldDriver.listFor a = .ok (e1, p1)`, `WorldDriver.listFor b = .ok (e2, p2)`, the two
list analyses `WorldDriver.runDiff a b` feeds to `Diff.compute` (`runDiff_eq`), ingress-controller
lines included — `ReportWF` and `ConnStrInj` are theorems (`DiffComputed.listFor_reportWF`,
`DiffComputed.listFor_connStrInj`), and A, E, F hold of `Diff.compute e1 e2 p1 p2` under hypotheses
on the two inputs only (`computed_diff_pointwise_wl`, `computed_diff_pointwise_ip`,
`computed_diff_entries_shape`, `computed_diff_swap_wl`, `computed_diff_swap_ip`,
`computed_diff_self_unchanged`). The input hypotheses, all decidable (`DiffComputed.InputOK`):
* `PodsNotFake`: no pod document carries the analyzer's own `fake` mark (the parser never sets it;
  it is what distinguishes the pseudo peer `{ingress-controller}` from the workloads);
* `NamesNoSemi`: namespaces, names, owner names and kinds hold no `;`;
* `PodPortsValid`, `PoliciesValid`: container ports and policy rules as the API server accepts them
  (needed for `ConnStrInj` only: they make every computed connection set `ConnSet.WF`, and the
  printer is injective on the views of such sets, `DiffComputed.connStr_inj`).
No hypothesis on keys (duplicate documents), on Services / Ingresses / Routes, nor on the order of
the documents is needed. The points `s`, `d`, `w` of the theorems still carry `NoSemi` / `NotIP`:
they hold of every workload name of the two reports and of `{ingress-controller}`
(`computed_peer_name_ok`, `ic_name_ok`). -/
namespace Netpol.Properties.C04
open Netpol Netpol.Engine Netpol.Diff Netpol.DiffLayer

deriving instance DecidableEq for Netpol.Diff.DEntry

/-- the diff of two reports as `compute` does it: refinement to the common disjoint blocks, then
`diffLists` -/
def diffReports (R1 R2 : List P2P) (peers1 peers2 : List String) : List DEntry :=
  let dis := disjointBlocks (ipBlocksOf R1) (ipBlocksOf R2)
  diffLists (refine R1 dis) (refine R2 dis) peers1 peers2

/-- the workload names of a peer list -/
def peerNames (l : List LPeer) : List String :=
  l.filterMap fun p => match p with | .wl n _ => some n | _ => none

theorem compute_eq (e1 e2 : List Entry) (peers1 peers2 : List LPeer) :
    compute e1 e2 peers1 peers2 =
      diffReports (e1.map ofEntry) (e2.map ofEntry) (peerNames peers1) (peerNames peers2) := rfl

/-- what a report holds for a pair of names -/
def lookup (R : List P2P) (s d : String) : Option P2P :=
  R.find? fun p => p.src.str == s && p.dst.str == d

/-- the specified diff entry of a point with names `s`, `d`, given what the two reports hold -/
def expected (s d : String) (o1 o2 : Option P2P) (peers1 peers2 : List String) : Option DEntry :=
  match o1, o2 with
  | none, none => none
  | some a, some b =>
    some ⟨if a.all = b.all ∧ a.ports = b.ports then "unchanged" else "changed", s, d,
      a.connStr, b.connStr, false, false⟩
  | some a, none =>
    some ⟨"removed", s, d, a.connStr, noConns, isWorkloadAbsent a.src peers2, isWorkloadAbsent a.dst peers2⟩
  | none, some b =>
    some ⟨"added", s, d, noConns, b.connStr, isWorkloadAbsent b.src peers1, isWorkloadAbsent b.dst peers1⟩

/-- the new/lost flag of a workload: its name is absent from the other report's peer list (the
ingress-controller pseudo peer is never flagged) -/
theorem isWorkloadAbsent_wl (n : String) (pod : Pod) (names : List String)
    (h : ¬ (pod.fake = true ∧ pod.name = "ingress-controller")) :
    isWorkloadAbsent (.wl n pod) names = !names.contains n := by
  unfold isWorkloadAbsent
  have : (pod.fake && pod.name == "ingress-controller") = false := by
    rw [Bool.eq_false_iff]
    simpa using h
  simp [this]

theorem isWorkloadAbsent_ip (r : Iv) (names : List String) : isWorkloadAbsent (.ip r) names = false := rfl

/-! ## A. pairs of workloads -/

/-- the names of the entries of a report are pairwise distinct -/
def NamesNodup (R : List P2P) : Prop := (R.map fun p => (p.src.str, p.dst.str)).Nodup

theorem filter_key_lookup {R : List P2P} (hnd : NamesNodup R) (hns : ∀ p ∈ R, NoSemi p.src.str)
    {s d : String} (hs : NoSemi s) :
    R.filter (fun c => c.key == pkey s d) = (lookup R s d).toList := by
  have hcongr : ∀ p ∈ R, (p.key == pkey s d) = (p.src.str == s && p.dst.str == d) := by
    intro p hp
    rw [Bool.eq_iff_iff]
    simp only [Bool.and_eq_true, beq_iff_eq, key_eq]
    constructor
    · intro h; exact pkey_inj (hns p hp) hs h
    · rintro ⟨rfl, rfl⟩; rfl
  rw [List.filter_congr hcongr]
  unfold lookup
  apply filter_unique_of_pairwise
  unfold NamesNodup at hnd
  rw [List.nodup_iff_pairwise_ne, List.pairwise_map] at hnd
  refine hnd.imp ?_
  intro a b hab ⟨ha, hb⟩
  simp only [Bool.and_eq_true, beq_iff_eq] at ha hb
  apply hab
  rw [ha.1, ha.2, hb.1, hb.2]

/-- **Workload–workload points.** For two workload names `s`, `d`: the entries of the diff with
these names are exactly the specified entry — none when neither report holds a connection for
the pair, otherwise one entry, `unchanged` / `changed` / `added` / `removed`, carrying the two
connection strings and the new/lost flags. -/
theorem diff_pointwise_wl {R1 R2 : List P2P} (peers1 peers2 : List String) {s d : String}
    (hnd1 : NamesNodup R1) (hnd2 : NamesNodup R2)
    (hns1 : ∀ p ∈ R1, NoSemi p.src.str) (hns2 : ∀ p ∈ R2, NoSemi p.src.str)
    (hs : NoSemi s) (hsip : NotIP s) (hdip : NotIP d) :
    (diffReports R1 R2 peers1 peers2).filter (fun e => e.src == s && e.dst == d) =
      (expected s d (lookup R1 s d) (lookup R2 s d) peers1 peers2).toList := by
  unfold diffReports
  simp only
  have h1 := (refine_filter_wl (dis := disjointBlocks (ipBlocksOf R1) (ipBlocksOf R2)) hns1 hs hsip hdip).trans
    (filter_key_lookup hnd1 hns1 hs)
  have h2 := (refine_filter_wl (dis := disjointBlocks (ipBlocksOf R1) (ipBlocksOf R2)) hns2 hs hsip hdip).trans
    (filter_key_lookup hnd2 hns2 hs)
  rw [diffLists_filter_wl peers1 peers2 (noSemi_refine hns1) (noSemi_refine hns2) hs hsip hdip h1 h2]
  congr 1
  have hl : ∀ (R : List P2P) a, lookup R s d = some a → a.src.str = s ∧ a.dst.str = d := by
    intro R a ha
    have := List.find?_some ha
    simpa using this
  cases ho1 : lookup R1 s d with
  | none =>
    cases ho2 : lookup R2 s d with
    | none => rfl
    | some b =>
      obtain ⟨e1, e2⟩ := hl _ _ ho2
      simp [mkPair, classify, expected, e1, e2]
  | some a =>
    obtain ⟨e1, e2⟩ := hl _ _ ho1
    cases ho2 : lookup R2 s d with
    | none => simp [mkPair, classify, expected, e1, e2]
    | some b =>
      simp only [mkPair, classify, expected, e1, e2, Option.bind_some, Option.some.injEq]
      congr 1
      by_cases hab : a.all = b.all ∧ a.ports = b.ports
      · simp [hab.1, hab.2]
      · rw [if_neg hab]
        have : (a.all == b.all && a.ports == b.ports) = false := by
          rw [Bool.eq_false_iff]
          simpa using hab
        simp [this]

/-- consequence: the diff has an entry for the pair iff one of the reports holds a connection -/
theorem diff_wl_mem_iff {R1 R2 : List P2P} (peers1 peers2 : List String) {s d : String}
    (hnd1 : NamesNodup R1) (hnd2 : NamesNodup R2)
    (hns1 : ∀ p ∈ R1, NoSemi p.src.str) (hns2 : ∀ p ∈ R2, NoSemi p.src.str)
    (hs : NoSemi s) (hsip : NotIP s) (hdip : NotIP d) :
    (∃ e ∈ diffReports R1 R2 peers1 peers2, e.src = s ∧ e.dst = d) ↔
      ((lookup R1 s d).isSome ∨ (lookup R2 s d).isSome) := by
  have h := diff_pointwise_wl peers1 peers2 hnd1 hnd2 hns1 hns2 hs hsip hdip
  have hiff : (∃ e ∈ diffReports R1 R2 peers1 peers2, e.src = s ∧ e.dst = d) ↔
      (diffReports R1 R2 peers1 peers2).filter (fun e => e.src == s && e.dst == d) ≠ [] := by
    rw [Ne, List.filter_eq_nil_iff]
    simp
  rw [hiff, h]
  cases lookup R1 s d <;> cases lookup R2 s d <;> simp [expected]

/-- consequence: at most one entry per pair of workload names -/
theorem diff_wl_unique {R1 R2 : List P2P} (peers1 peers2 : List String) {s d : String}
    (hnd1 : NamesNodup R1) (hnd2 : NamesNodup R2)
    (hns1 : ∀ p ∈ R1, NoSemi p.src.str) (hns2 : ∀ p ∈ R2, NoSemi p.src.str)
    (hs : NoSemi s) (hsip : NotIP s) (hdip : NotIP d) :
    ((diffReports R1 R2 peers1 peers2).filter (fun e => e.src == s && e.dst == d)).length ≤ 1 := by
  rw [diff_pointwise_wl peers1 peers2 hnd1 hnd2 hns1 hns2 hs hsip hdip]
  cases expected s d (lookup R1 s d) (lookup R2 s d) peers1 peers2 <;> simp

/-- the hypotheses of `diff_pointwise_wl` follow from `ReportWF` -/
theorem diff_pointwise_wl_of_wf {R1 R2 : List P2P} (peers1 peers2 : List String) {s d : String}
    (h1 : ReportWF R1) (h2 : ReportWF R2) (hs : NoSemi s) (hsip : NotIP s) (hdip : NotIP d) :
    (diffReports R1 R2 peers1 peers2).filter (fun e => e.src == s && e.dst == d) =
      (expected s d (lookup R1 s d) (lookup R2 s d) peers1 peers2).toList :=
  diff_pointwise_wl peers1 peers2 h1.nodup h2.nodup
    (fun p hp => by
      cases hs' : p.src with
      | wl n pod => exact (h1.names p hp n pod (Or.inl hs')).1
      | ip r => exact noSemi_ipRange r)
    (fun p hp => by
      cases hs' : p.src with
      | wl n pod => exact (h2.names p hp n pod (Or.inl hs')).1
      | ip r => exact noSemi_ipRange r) hs hsip hdip

/-- the same for `compute` on two lists of report entries -/
theorem compute_pointwise_wl (e1 e2 : List Entry) (peers1 peers2 : List LPeer) {s d : String}
    (h1 : ReportWF (e1.map ofEntry)) (h2 : ReportWF (e2.map ofEntry)) (hs : NoSemi s)
    (hsip : NotIP s) (hdip : NotIP d) :
    (compute e1 e2 peers1 peers2).filter (fun e => e.src == s && e.dst == d) =
      (expected s d (lookup (e1.map ofEntry) s d) (lookup (e2.map ofEntry) s d)
        (peerNames peers1) (peerNames peers2)).toList := by
  rw [compute_eq]
  exact diff_pointwise_wl_of_wf _ _ h1 h2 hs hsip hdip

/-! ## B. the diff of a report with itself -/

/-- every entry of the diff of a report with itself is `unchanged` (no hypothesis on the report;
IP entries included) -/
theorem diff_self_unchanged (R : List P2P) (peers1 peers2 : List String) :
    ∀ e ∈ diffReports R R peers1 peers2, e.typ = "unchanged" :=
  diffLists_self _ peers1 peers2

theorem compute_self_unchanged (es : List Entry) (peers1 peers2 : List LPeer) :
    ∀ e ∈ compute es es peers1 peers2, e.typ = "unchanged" := by
  rw [compute_eq]
  exact diff_self_unchanged _ _ _

/-! ## C. refinement is lossless -/

/-- what the refined report holds for a workload and an address is what the report holds, the IP
end replaced by the refined block `d0` containing the address -/
theorem lookup_refine {R : List P2P} (hR : ReportWF R) {dis : List Iv} (hdis : RefinesR dis R)
    (b : Bool) {w : String} (hwns : NoSemi w) (hwip : NotIP w) {a : Int} {d0 : Iv} (hd0 : d0 ∈ dis)
    (ha : d0.mem a) :
    lookupIP b (refine R dis) w a = (lookupIP b R w a).map (mkIP b d0) := by
  have hent := entOK_refine hR dis
  have hcongr : ∀ y ∈ refine R dis, matchIP b w a y = (y.key == dkey b w d0) := by
    intro y hy
    rw [Bool.eq_iff_iff, matchIP_iff, beq_iff_eq]
    constructor
    · rintro ⟨ho, r, hr, hra⟩
      have hrd : r ∈ dis := (hent y hy).ip r (ipEnd_cases hr)
      have : r = d0 := hdis.seg.unique r hrd d0 hd0 a hra ha
      subst this
      rw [key_of_ipEnd hr, ho]
    · intro hk
      obtain ⟨e1, e2⟩ := shape_of_key hdis.seg (hent y hy) hwns (hdis.seg.valid d0 hd0) hk
      exact ⟨e1, d0, e2, ha⟩
  show (refine R dis).find? (matchIP b w a) = _
  rw [← List.head?_filter, List.filter_congr hcongr, refine_filter_ip hR hdis b hwns hwip hd0 ha]
  cases lookupIP b R w a <;> rfl

/-- the blocks of `compute` refine both reports: valid, pairwise disjoint, every block of a report
is the union of the refined blocks inside it -/
theorem refines_left {R1 R2 : List P2P} (h1 : ReportWF R1) (h2 : ReportWF R2) :
    RefinesR (disOf R1 R2) R1 := refinesR_left h1 h2

theorem refines_right {R1 R2 : List P2P} (h1 : ReportWF R1) (h2 : ReportWF R2) :
    RefinesR (disOf R1 R2) R2 := refinesR_right h1 h2

/-- every address of a block of one of the reports lies in a refined block -/
theorem refined_cover {R1 R2 : List P2P} {k : Iv} (hk : k ∈ ipBlocksOf R1 ++ ipBlocksOf R2) {x : Int}
    (hx : k.mem x) : ∃ d ∈ disOf R1 R2, d.mem x := disjointBlocks_cover _ _ hk hx

/-! ## D. merging -/

/-- `mergeRanges` denotes the union of the ranges -/
theorem mergeRanges_den (l : List Iv) (x : Int) :
    CSet.memL (mergeRanges l) x ↔ ∃ r ∈ l, r.mem x := mem_mergeRanges l x

/-- and is canonical: sorted, pairwise disjoint, non-touching, non-empty ranges -/
theorem mergeRanges_canon (l : List Iv) : CSet.Canon (mergeRanges l) := canon_mergeRanges l

/-- so an address lies in at most one merged range -/
theorem mergeRanges_owner_unique {l : List Iv} {r r' : Iv} (hr : r ∈ mergeRanges l)
    (hr' : r' ∈ mergeRanges l) {x : Int} (hx : r.mem x) (hx' : r'.mem x) : r = r' :=
  mergeRanges_unique hr hr' hx hx'

/-! ## E. workload–address points -/

/-- the names of the entry for workload `w` and range `r`; `b`: the range is the source -/
def namesIP (b : Bool) (w : String) (r : Iv) : String × String :=
  if b then ((LPeer.ip r).str, w) else (w, (LPeer.ip r).str)

/-- the entries of a diff named by workload `w` and range `r` -/
def entriesAt (l : List DEntry) (b : Bool) (w : String) (r : Iv) : List DEntry :=
  l.filter fun e => e.src == (namesIP b w r).1 && e.dst == (namesIP b w r).2

theorem reportWF_noSemi_src {R : List P2P} (h : ReportWF R) : ∀ p ∈ R, NoSemi p.src.str := by
  intro p hp
  cases hs : p.src with
  | wl n pod => exact (h.names p hp n pod (Or.inl hs)).1
  | ip r => exact noSemi_ipRange r

theorem classify_moved (peers1 peers2 : List String) (b : Bool) {w : String} {a : Int} (r : Iv)
    {o1 o2 : Option P2P} (h1 : ∀ x, o1 = some x → matchIP b w a x = true)
    (h2 : ∀ x, o2 = some x → matchIP b w a x = true) :
    classify peers1 peers2 (pkey (namesIP b w r).1 (namesIP b w r).2,
        ⟨o1.map (mkIP b r), o2.map (mkIP b r)⟩) =
      expected (namesIP b w r).1 (namesIP b w r).2 o1 o2 peers1 peers2 := by
  have hmoved : ∀ x, matchIP b w a x = true →
      (mkIP b r x).src.str = (namesIP b w r).1 ∧ (mkIP b r x).dst.str = (namesIP b w r).2 ∧
      (mkIP b r x).connStr = x.connStr ∧ (mkIP b r x).all = x.all ∧ (mkIP b r x).ports = x.ports ∧
      (∀ names, isWorkloadAbsent (mkIP b r x).src names = isWorkloadAbsent x.src names) ∧
      (∀ names, isWorkloadAbsent (mkIP b r x).dst names = isWorkloadAbsent x.dst names) := by
    intro x hx
    obtain ⟨ho, r0, hr0, _⟩ := matchIP_iff.mp hx
    cases b
    · have hd : x.dst = .ip r0 := hr0
      have hs : x.src.str = w := ho
      refine ⟨hs, rfl, rfl, rfl, rfl, fun _ => rfl, fun names => ?_⟩
      rw [hd]; rfl
    · have hd : x.src = .ip r0 := hr0
      have hs : x.dst.str = w := ho
      refine ⟨rfl, hs, rfl, rfl, rfl, fun names => ?_, fun _ => rfl⟩
      rw [hd]; rfl
  cases o1 with
  | none =>
    cases o2 with
    | none => rfl
    | some y =>
      obtain ⟨e1, e2, e3, _, _, e6, e7⟩ := hmoved y (h2 y rfl)
      simp [classify, expected, e1, e2, e3, e6, e7]
  | some x =>
    obtain ⟨e1, e2, e3, e4, e5, e6, e7⟩ := hmoved x (h1 x rfl)
    cases o2 with
    | none => simp [classify, expected, e1, e2, e3, e6, e7]
    | some y =>
      obtain ⟨_, _, f3, f4, f5, _, _⟩ := hmoved y (h2 y rfl)
      simp only [classify, expected, Option.map_some, e1, e2, e3, e4, e5, f3, f4, f5,
        Option.some.injEq]
      congr 1
      by_cases hab : x.all = y.all ∧ x.ports = y.ports
      · simp [hab.1, hab.2]
      · rw [if_neg hab]
        have : (x.all == y.all && x.ports == y.ports) = false := by
          rw [Bool.eq_false_iff]
          simpa using hab
        simp [this]

/-- **Workload–address points.** `R1`, `R2` well-formed reports whose connection strings determine
the connections; `w` a workload name, `a` an address; `b`: the address is the source. With
`o1`, `o2` what the reports hold for the point (`lookupIP`: the entry with `w` at one end and an
IP range containing `a` at the other):

* if both are none, the diff has no entry named by `w` and a valid range containing `a`;
* otherwise there is a valid range `r` containing `a` such that the entries of the diff named by
  `w` and `r` are exactly the specified entry (`expected`: type, the two connection strings,
  new/lost flags), and no entry is named by `w` and another valid range containing `a`; `r` is
  the maximal range around `a` on which the two reports hold the same pair of connection
  strings as at `a` (`strsAt`). -/
theorem diff_pointwise_ip {R1 R2 : List P2P} (peers1 peers2 : List String) (h1 : ReportWF R1)
    (h2 : ReportWF R2) (hcs1 : ConnStrInj R1) (hcs2 : ConnStrInj R2) (b : Bool) {w : String}
    (hwns : NoSemi w) (hwip : NotIP w) (a : Int) :
    (lookupIP b R1 w a = none → lookupIP b R2 w a = none → ∀ r, ValidR r → r.mem a →
      entriesAt (diffReports R1 R2 peers1 peers2) b w r = []) ∧
    (((lookupIP b R1 w a).isSome ∨ (lookupIP b R2 w a).isSome) → ∃ r, ValidR r ∧ r.mem a ∧
      entriesAt (diffReports R1 R2 peers1 peers2) b w r =
        (expected (namesIP b w r).1 (namesIP b w r).2 (lookupIP b R1 w a) (lookupIP b R2 w a)
          peers1 peers2).toList ∧
      (∀ r', ValidR r' → r'.mem a → r' ≠ r →
        entriesAt (diffReports R1 R2 peers1 peers2) b w r' = []) ∧
      (∀ x, r.mem x → strsAt b R1 R2 w x = strsAt b R1 R2 w a) ∧
      strsAt b R1 R2 w (r.lo - 1) ≠ strsAt b R1 R2 w a ∧
      strsAt b R1 R2 w (r.hi + 1) ≠ strsAt b R1 R2 w a) := by
  have hfilter : ∀ r, entriesAt (diffReports R1 R2 peers1 peers2) b w r =
      ((get (mergeIPblocks (refMap R1 R2)) (dkey b w r)).bind fun p => classify peers1 peers2
          (pkey (namesIP b w r).1 (namesIP b w r).2, p)).toList := by
    intro r
    have hs : NoSemi (namesIP b w r).1 := by
      cases b
      · exact hwns
      · exact noSemi_ipRange r
    have hk : pkey (namesIP b w r).1 (namesIP b w r).2 = dkey b w r := by cases b <;> rfl
    unfold entriesAt diffReports refMap
    rw [← hk]
    exact diffLists_filter_key peers1 peers2 _ (noSemi_refine (reportWF_noSemi_src h1))
      (noSemi_refine (reportWF_noSemi_src h2)) hs
  obtain ⟨hnone, hsome⟩ := point_ip h1 h2 hcs1 hcs2 b hwns hwip a
  constructor
  · intro ho1 ho2 r hv hra
    rw [hfilter, hnone ho1 ho2 r hv hra]
    rfl
  · intro hs
    obtain ⟨r, hv, hra, hget, huniq, hconst, hlo, hhi⟩ := hsome hs
    refine ⟨r, hv, hra, ?_, ?_, hconst, hlo, hhi⟩
    · rw [hfilter, hget, Option.bind_some]
      rw [classify_moved peers1 peers2 b r (w := w) (a := a) (o1 := lookupIP b R1 w a)
        (o2 := lookupIP b R2 w a) (fun x hx => List.find?_some hx)
        (fun x hx => List.find?_some hx)]
    · intro r' hv' hra' hne
      rw [hfilter]
      cases hg : get (mergeIPblocks (refMap R1 R2)) (dkey b w r') with
      | none => rfl
      | some p => exact absurd (huniq r' hv' hra' (by rw [hg]; rfl)) hne

/-- **no other entries**: every entry of the diff is the entry of a point — its names are two
workload names, or a workload name and a valid range (in one of the two directions) -/
theorem diff_entries_shape {R1 R2 : List P2P} (peers1 peers2 : List String) (h1 : ReportWF R1)
    (h2 : ReportWF R2) : ∀ e ∈ diffReports R1 R2 peers1 peers2,
      (NoSemi e.src ∧ NotIP e.src ∧ NotIP e.dst) ∨
      (∃ b w r, NoSemi w ∧ NotIP w ∧ ValidR r ∧ e.src = (namesIP b w r).1 ∧ e.dst = (namesIP b w r).2) := by
  intro e he
  have hmap := mapOK_refMap h1 h2
  have hseg := segOK_disjointBlocks h1 h2
  have hnd := hmap.nodup
  have hgood : AllE (Good fun a => NoSemi a.src.str) (refMap R1 R2) :=
    good_diffMap (noSemi_refine (reportWF_noSemi_src h1)) (noSemi_refine (reportWF_noSemi_src h2))
  have hgood' := good_mergeIPblocks hnd hgood (fun x b r hx => by
    cases b
    · exact hx
    · exact noSemi_ipRange r)
  have he' : e ∈ (mergeIPblocks (refMap R1 R2)).filterMap (classify peers1 peers2) := he
  rw [List.mem_filterMap] at he'
  obtain ⟨⟨k, p⟩, hkp, hc⟩ := he'
  have hg := hgood' k p ((mem_iff_get (nodup_mergeIPblocks hnd)).mp hkp)
  obtain ⟨a', ha', e1, e2⟩ := classify_some hc
  have hka : a'.key = k ∧ NoSemi a'.src.str := by
    rcases ha' with ha' | ha'
    · exact hg.1 a' ha'
    · exact hg.2 a' ha'
  rcases mm_keys_shape hmap hseg k (List.mem_map.mpr ⟨_, hkp, rfl⟩) with
    ⟨s, d, hk, hs, hsip, hdip⟩ | ⟨b, w, r, hk, hns, hnip, hv⟩
  · left
    rw [← hka.1, key_eq] at hk
    obtain ⟨f1, f2⟩ := pkey_inj hka.2 hs hk
    rw [e1, e2, f1, f2]
    exact ⟨hs, hsip, hdip⟩
  · right
    refine ⟨b, w, r, hns, hnip, hv, ?_⟩
    have hk' : dkey b w r = pkey (namesIP b w r).1 (namesIP b w r).2 := by cases b <;> rfl
    have hs : NoSemi (namesIP b w r).1 := by
      cases b
      · exact hns
      · exact noSemi_ipRange r
    rw [← hka.1, key_eq, hk'] at hk
    obtain ⟨f1, f2⟩ := pkey_inj hka.2 hs hk
    rw [e1, e2, f1, f2]
    exact ⟨rfl, rfl⟩

/-! ## F. swapping the two reports -/

/-- the entry with the two sides exchanged: `added` ↔ `removed`, the connection strings swapped -/
def swapEntry (e : DEntry) : DEntry :=
  { e with typ := if e.typ = "added" then "removed" else if e.typ = "removed" then "added" else e.typ,
           c1 := e.c2, c2 := e.c1 }

theorem expected_swap (s d : String) (o1 o2 : Option P2P) (peers1 peers2 : List String) :
    expected s d o2 o1 peers2 peers1 = (expected s d o1 o2 peers1 peers2).map swapEntry := by
  cases o1 with
  | none =>
    cases o2 with
    | none => rfl
    | some y => simp [expected, swapEntry]
  | some x =>
    cases o2 with
    | none => simp [expected, swapEntry]
    | some y =>
      simp only [expected, swapEntry, Option.map_some, Option.some.injEq]
      by_cases hab : x.all = y.all ∧ x.ports = y.ports
      · have hba : y.all = x.all ∧ y.ports = x.ports := ⟨hab.1.symm, hab.2.symm⟩
        rw [if_pos hab, if_pos hba]
        simp
      · have hba : ¬ (y.all = x.all ∧ y.ports = x.ports) := fun h => hab ⟨h.1.symm, h.2.symm⟩
        rw [if_neg hab, if_neg hba]
        simp

/-- **swap, workload–workload points**: the entries of `diff(R2, R1)` for a pair of workload names
are those of `diff(R1, R2)` with the sides exchanged -/
theorem diff_swap_wl {R1 R2 : List P2P} (peers1 peers2 : List String) {s d : String}
    (hnd1 : NamesNodup R1) (hnd2 : NamesNodup R2)
    (hns1 : ∀ p ∈ R1, NoSemi p.src.str) (hns2 : ∀ p ∈ R2, NoSemi p.src.str)
    (hs : NoSemi s) (hsip : NotIP s) (hdip : NotIP d) :
    (diffReports R2 R1 peers2 peers1).filter (fun e => e.src == s && e.dst == d) =
      ((diffReports R1 R2 peers1 peers2).filter (fun e => e.src == s && e.dst == d)).map swapEntry := by
  rw [diff_pointwise_wl peers2 peers1 hnd2 hnd1 hns2 hns1 hs hsip hdip,
    diff_pointwise_wl peers1 peers2 hnd1 hnd2 hns1 hns2 hs hsip hdip, expected_swap]
  cases expected s d (lookup R1 s d) (lookup R2 s d) peers1 peers2 <;> rfl

theorem strsAt_swap (b : Bool) (R1 R2 : List P2P) (w : String) (x : Int) :
    strsAt b R2 R1 w x = ((strsAt b R1 R2 w x).2, (strsAt b R1 R2 w x).1) := rfl

/-- two ranges around `a`, each a maximal run of a property, are equal -/
theorem maximal_run_unique {P : Int → Prop} {a : Int} {r r' : Iv} (ha : r.mem a) (ha' : r'.mem a)
    (h : ∀ x, r.mem x → P x) (hlo : ¬ P (r.lo - 1)) (hhi : ¬ P (r.hi + 1))
    (h' : ∀ x, r'.mem x → P x) (hlo' : ¬ P (r'.lo - 1)) (hhi' : ¬ P (r'.hi + 1)) : r = r' := by
  unfold Iv.mem at *
  have e1 : r.lo = r'.lo := by
    rcases Int.lt_trichotomy r.lo r'.lo with hlt | heq | hgt
    · exact absurd (h (r'.lo - 1) (by omega)) hlo'
    · exact heq
    · exact absurd (h' (r.lo - 1) (by omega)) hlo
  have e2 : r.hi = r'.hi := by
    rcases Int.lt_trichotomy r.hi r'.hi with hlt | heq | hgt
    · exact absurd (h' (r.hi + 1) (by omega)) hhi
    · exact heq
    · exact absurd (h (r'.hi + 1) (by omega)) hhi'
  cases r; cases r'; simp_all

/-- **swap, workload–address points**: for every valid range `r` containing the address, the
entries of `diff(R2, R1)` named by `w` and `r` are those of `diff(R1, R2)` with the sides
exchanged -/
theorem diff_swap_ip {R1 R2 : List P2P} (peers1 peers2 : List String) (h1 : ReportWF R1)
    (h2 : ReportWF R2) (hcs1 : ConnStrInj R1) (hcs2 : ConnStrInj R2) (b : Bool) {w : String}
    (hwns : NoSemi w) (hwip : NotIP w) (a : Int) (r : Iv) (hv : ValidR r) (hra : r.mem a) :
    entriesAt (diffReports R2 R1 peers2 peers1) b w r =
      (entriesAt (diffReports R1 R2 peers1 peers2) b w r).map swapEntry := by
  obtain ⟨hn12, hs12⟩ := diff_pointwise_ip peers1 peers2 h1 h2 hcs1 hcs2 b hwns hwip a
  obtain ⟨hn21, hs21⟩ := diff_pointwise_ip peers2 peers1 h2 h1 hcs2 hcs1 b hwns hwip a
  by_cases hsome : (lookupIP b R1 w a).isSome ∨ (lookupIP b R2 w a).isSome
  · obtain ⟨r1, _, hra1, he1, ho1, hc1, hlo1, hhi1⟩ := hs12 hsome
    obtain ⟨r2, _, hra2, he2, ho2, hc2, hlo2, hhi2⟩ := hs21 (Or.symm hsome)
    have hsw : ∀ x y, strsAt b R2 R1 w x = strsAt b R2 R1 w y ↔
        strsAt b R1 R2 w x = strsAt b R1 R2 w y := by
      intro x y
      constructor
      · intro h
        have e1 := congrArg Prod.fst h
        have e2 := congrArg Prod.snd h
        exact Prod.ext e2 e1
      · intro h
        have e1 := congrArg Prod.fst h
        have e2 := congrArg Prod.snd h
        exact Prod.ext e2 e1
    have hrr : r1 = r2 :=
      maximal_run_unique (P := fun x => strsAt b R1 R2 w x = strsAt b R1 R2 w a) hra1 hra2 hc1 hlo1
        hhi1 (fun x hx => (hsw x a).mp (hc2 x hx)) (fun h => hlo2 ((hsw _ a).mpr h))
        (fun h => hhi2 ((hsw _ a).mpr h))
    subst hrr
    by_cases hr : r = r1
    · subst hr
      rw [he1, he2, expected_swap]
      cases expected (namesIP b w r).1 (namesIP b w r).2 (lookupIP b R1 w a) (lookupIP b R2 w a)
        peers1 peers2 <;> rfl
    · rw [ho1 r hv hra hr, ho2 r hv hra hr]; rfl
  · have ho1 : lookupIP b R1 w a = none := by
      cases h : lookupIP b R1 w a with
      | none => rfl
      | some x => exact absurd (Or.inl (by rw [h]; rfl)) hsome
    have ho2 : lookupIP b R2 w a = none := by
      cases h : lookupIP b R2 w a with
      | none => rfl
      | some x => exact absurd (Or.inr (by rw [h]; rfl)) hsome
    rw [hn12 ho1 ho2 r hv hra, hn21 ho2 ho1 r hv hra]; rfl

/-- the list-level form of the swap property (the two diffs are permutations of each other up to
`swapEntry`); NOT proved here — the pointwise theorems `diff_swap_wl`, `diff_swap_ip` together with
`diff_entries_shape` say the same thing point by point -/
def diff_swap_perm_statement : Prop :=
  ∀ (R1 R2 : List P2P) (peers1 peers2 : List String), ReportWF R1 → ReportWF R2 → ConnStrInj R1 →
    ConnStrInj R2 →
    (diffReports R2 R1 peers2 peers1).Perm ((diffReports R1 R2 peers1 peers2).map swapEntry)

/-! ## Examples -/

def exPodA : Pod := { ns := "default", name := "a", labels := [], ports := [] }
def exPodB : Pod := { ns := "default", name := "b", labels := [], ports := [] }
def exPodC : Pod := { ns := "default", name := "c", labels := [], ports := [] }
def exA : LPeer := .wl "default/a[Pod]" exPodA
def exB : LPeer := .wl "default/b[Pod]" exPodB
def exC : LPeer := .wl "default/c[Pod]" exPodC

/-- two reports without IP peers -/
def exR1 : List P2P := [⟨exA, exB, false, [(.TCP, [⟨80, 80⟩])]⟩, ⟨exA, exC, true, []⟩]
def exR2 : List P2P := [⟨exA, exB, false, [(.TCP, [⟨80, 80⟩, ⟨443, 443⟩])]⟩, ⟨exB, exC, true, []⟩]
def exPeers1 : List String := ["default/a[Pod]", "default/b[Pod]", "default/c[Pod]"]
def exPeers2 : List String := ["default/a[Pod]", "default/b[Pod]"]

theorem ex_dis_nil : disjointBlocks ([] : List Iv) [] = [] := by simp [disjointBlocks]

example : diffReports exR1 exR2 exPeers1 exPeers2 =
    [⟨"changed", "default/a[Pod]", "default/b[Pod]", "TCP 80", "TCP 80,443", false, false⟩,
     ⟨"removed", "default/a[Pod]", "default/c[Pod]", "All Connections", "No Connections", false, true⟩,
     ⟨"added", "default/b[Pod]", "default/c[Pod]", "No Connections", "All Connections", false, false⟩] := by
  unfold diffReports
  rw [show ipBlocksOf exR1 = [] from by decide, show ipBlocksOf exR2 = [] from by decide, ex_dis_nil]
  decide

/-- the specification at the three points -/
example : expected "default/a[Pod]" "default/b[Pod]" (lookup exR1 "default/a[Pod]" "default/b[Pod]")
    (lookup exR2 "default/a[Pod]" "default/b[Pod]") exPeers1 exPeers2 =
    some ⟨"changed", "default/a[Pod]", "default/b[Pod]", "TCP 80", "TCP 80,443", false, false⟩ := by decide

example : expected "default/a[Pod]" "default/c[Pod]" (lookup exR1 "default/a[Pod]" "default/c[Pod]")
    (lookup exR2 "default/a[Pod]" "default/c[Pod]") exPeers1 exPeers2 =
    some ⟨"removed", "default/a[Pod]", "default/c[Pod]", "All Connections", "No Connections", false, true⟩ := by
  decide

example : expected "default/c[Pod]" "default/a[Pod]" (lookup exR1 "default/c[Pod]" "default/a[Pod]")
    (lookup exR2 "default/c[Pod]" "default/a[Pod]") exPeers1 exPeers2 = none := by decide

/-- the hypotheses of `diff_pointwise_wl` hold of the example -/
theorem ex_notIP_a : NotIP "default/a[Pod]" := fun r => by
  rw [show "default/a[Pod]" = workloadName exPodA from by decide]
  exact Structure.workloadName_ne_ipRange _ _

theorem ex_notIP_b : NotIP "default/b[Pod]" := fun r => by
  rw [show "default/b[Pod]" = workloadName exPodB from by decide]
  exact Structure.workloadName_ne_ipRange _ _

theorem ex_noSemi_a : NoSemi "default/a[Pod]" := by unfold NoSemi; decide

example : (diffReports exR1 exR2 exPeers1 exPeers2).filter
      (fun e => e.src == "default/a[Pod]" && e.dst == "default/b[Pod]") =
    [⟨"changed", "default/a[Pod]", "default/b[Pod]", "TCP 80", "TCP 80,443", false, false⟩] := by
  rw [diff_pointwise_wl exPeers1 exPeers2 (by unfold NamesNodup; decide) (by unfold NamesNodup; decide)
    (by unfold NoSemi; decide) (by unfold NoSemi; decide) ex_noSemi_a ex_notIP_a ex_notIP_b]
  decide

/-- two reports with IP peers: the whole address space in the first, 10.0.0.0/8 carved out in the second -/
def exR3 : List P2P := [⟨exA, .ip ⟨0, 4294967295⟩, true, []⟩]
def exR4 : List P2P :=
  [⟨exA, .ip ⟨0, 167772159⟩, true, []⟩, ⟨exA, .ip ⟨167772160, 184549375⟩, false, [(.TCP, [⟨80, 80⟩])]⟩,
   ⟨exA, .ip ⟨184549376, 4294967295⟩, true, []⟩]

theorem ex_dis : disOf exR3 exR4 =
    [⟨0, 167772159⟩, ⟨167772160, 184549375⟩, ⟨184549376, 4294967295⟩] := by
  have h3 : ipBlocksOf exR3 = [⟨0, 4294967295⟩] := by decide
  have h4 : ipBlocksOf exR4 =
      [⟨0, 167772159⟩, ⟨167772160, 184549375⟩, ⟨184549376, 4294967295⟩] := by decide
  unfold disOf disjointBlocks
  rw [h3, h4]
  simp only [List.cons_append, List.nil_append, List.flatMap_cons, List.flatMap_nil, List.append_nil]
  have hs : ([0, 4294967295 + 1, 0, 167772159 + 1, 167772160, 184549375 + 1, 184549376,
      4294967295 + 1] : List Int).mergeSort (fun x1 x2 => decide (x1 ≤ x2)) =
      [0, 0, 167772160, 167772160, 184549376, 184549376, 4294967296, 4294967296] := by
    simp [List.mergeSort, List.MergeSort.Internal.splitInTwo]
  rw [hs]
  decide

/-- the diff: the two unchanged parts are merged per group (two ranges, not adjacent), 10.0.0.0/8 changed -/
theorem ex_diff34 : diffReports exR3 exR4 [] [] =
    [⟨"unchanged", "default/a[Pod]", "0.0.0.0-9.255.255.255", "All Connections", "All Connections", false, false⟩,
     ⟨"unchanged", "default/a[Pod]", "11.0.0.0-255.255.255.255", "All Connections", "All Connections", false, false⟩,
     ⟨"changed", "default/a[Pod]", "10.0.0.0-10.255.255.255", "All Connections", "TCP 80", false, false⟩] := by
  have := ex_dis
  unfold disOf at this
  unfold diffReports
  rw [this]
  decide

theorem ex_wf_of_ends {R : List P2P} {blocks : List Iv} (hnd : NamesNodup R)
    (hv : ∀ r ∈ blocks, ValidR r)
    (hdisj : ∀ r ∈ blocks, ∀ r' ∈ blocks, ∀ x, r.mem x → r'.mem x → r = r')
    (hends : ∀ p ∈ R, p.src = exA ∧ ∃ r ∈ blocks, p.dst = .ip r) : ReportWF R := by
  refine ⟨hnd, ?_, ?_, ?_, ?_, ?_⟩
  · intro p hp
    obtain ⟨hs, _⟩ := hends p hp
    rw [hs]; simp [exA, LPeer.isIP]
  · intro p hp r hr
    obtain ⟨hs, r', hr', hd⟩ := hends p hp
    rw [hs, hd] at hr
    rcases hr with hr | hr
    · cases hr
    · cases hr; exact hv _ hr'
  · intro p hp q hq r r' hr hr' x hx hx'
    obtain ⟨hs, r1, hr1, hd⟩ := hends p hp
    obtain ⟨hs', r2, hr2, hd'⟩ := hends q hq
    rw [hs, hd] at hr
    rw [hs', hd'] at hr'
    have e1 : r = r1 := by rcases hr with hr | hr <;> cases hr; rfl
    have e2 : r' = r2 := by rcases hr' with hr' | hr' <;> cases hr'; rfl
    subst e1; subst e2
    exact hdisj r hr1 r' hr2 x hx hx'
  · intro p hp n pod hn
    obtain ⟨hs, r', _, hd⟩ := hends p hp
    rw [hs, hd] at hn
    rcases hn with hn | hn
    · cases hn; exact ⟨ex_noSemi_a, ex_notIP_a⟩
    · cases hn
  · intro p hp q hq n pod pod' hn hn'
    obtain ⟨hs, r1, _, hd⟩ := hends p hp
    obtain ⟨hs', r2, _, hd'⟩ := hends q hq
    rw [hs, hd] at hn
    rw [hs', hd'] at hn'
    rcases hn with hn | hn <;> rcases hn' with hn' | hn' <;> cases hn <;> cases hn'
    rfl

theorem ex_wf4 : ReportWF exR4 := by
  refine ex_wf_of_ends (blocks := [⟨0, 167772159⟩, ⟨167772160, 184549375⟩, ⟨184549376, 4294967295⟩])
    (by unfold NamesNodup; decide) ?_ ?_ ?_
  · intro r hr
    simp only [List.mem_cons, List.not_mem_nil, or_false] at hr
    unfold ValidR ipMax
    rcases hr with rfl | rfl | rfl <;> simp
  · intro r hr r' hr' x hx hx'
    simp only [List.mem_cons, List.not_mem_nil, or_false] at hr hr'
    unfold Iv.mem at hx hx'
    rcases hr with rfl | rfl | rfl <;> rcases hr' with rfl | rfl | rfl <;>
      first | rfl | (simp only at hx hx'; omega)
  · intro p hp
    simp only [exR4, List.mem_cons, List.not_mem_nil, or_false] at hp
    rcases hp with rfl | rfl | rfl <;> simp

theorem ex_wf3 : ReportWF exR3 := by
  refine ex_wf_of_ends (blocks := [⟨0, 4294967295⟩]) (by unfold NamesNodup; decide) ?_ ?_ ?_
  · intro r hr
    simp only [List.mem_cons, List.not_mem_nil, or_false] at hr
    subst hr
    unfold ValidR ipMax; simp
  · intro r hr r' hr' x _ _
    simp only [List.mem_cons, List.not_mem_nil, or_false] at hr hr'
    rw [hr, hr']
  · intro p hp
    simp only [exR3, List.mem_cons, List.not_mem_nil, or_false] at hp
    subst hp; simp

/-- the theorem at the point (workload a, address 10.1.2.3): one entry, `changed` -/
example : ∃ r, ValidR r ∧ r.mem 167837955 ∧
    entriesAt (diffReports exR3 exR4 [] []) false "default/a[Pod]" r =
      [⟨"changed", "default/a[Pod]", (LPeer.ip r).str, "All Connections", "TCP 80", false, false⟩] := by
  obtain ⟨_, hsome⟩ := diff_pointwise_ip [] [] ex_wf3 ex_wf4 (by unfold ConnStrInj; decide)
    (by unfold ConnStrInj; decide) false ex_noSemi_a ex_notIP_a 167837955
  obtain ⟨r, hv, hra, he, _⟩ := hsome (Or.inl (by decide))
  refine ⟨r, hv, hra, ?_⟩
  rw [he]
  rw [show lookupIP false exR3 "default/a[Pod]" 167837955 = some ⟨exA, .ip ⟨0, 4294967295⟩, true, []⟩
    from by rfl]
  rw [show lookupIP false exR4 "default/a[Pod]" 167837955 =
    some ⟨exA, .ip ⟨167772160, 184549375⟩, false, [(.TCP, [⟨80, 80⟩])]⟩ from by rfl]
  simp [expected, namesIP, P2P.connStr]
  decide

/-- `ConnStrInj` cannot be dropped: two different (non-canonical) views with the same string
"All Connections" in the second report are merged into one group, whose first entry stands for
both — the diff says `unchanged` at address 7 where the specification says `changed` -/
def exR5 : List P2P := [⟨exA, .ip ⟨0, 9⟩, true, []⟩]
def exR6 : List P2P := [⟨exA, .ip ⟨0, 4⟩, true, []⟩, ⟨exA, .ip ⟨5, 9⟩, true, [(.TCP, [])]⟩]

example : ¬ ConnStrInj exR6 := by unfold ConnStrInj; decide

example : diffReports exR5 exR6 [] [] =
    [⟨"unchanged", "default/a[Pod]", "0.0.0.0-0.0.0.9", "All Connections", "All Connections", false, false⟩] := by
  have hd : disjointBlocks (ipBlocksOf exR5) (ipBlocksOf exR6) = [⟨0, 4⟩, ⟨5, 9⟩] := by
    have h5 : ipBlocksOf exR5 = [⟨0, 9⟩] := by decide
    have h6 : ipBlocksOf exR6 = [⟨0, 4⟩, ⟨5, 9⟩] := by decide
    unfold disjointBlocks
    rw [h5, h6]
    simp only [List.cons_append, List.nil_append, List.flatMap_cons, List.flatMap_nil, List.append_nil]
    have hs : ([0, 9 + 1, 0, 4 + 1, 5, 9 + 1] : List Int).mergeSort (fun x1 x2 => decide (x1 ≤ x2)) =
        [0, 0, 5, 5, 10, 10] := by
      simp [List.mergeSort, List.MergeSort.Internal.splitInTwo]
    rw [hs]
    decide
  unfold diffReports
  rw [hd]
  decide

example : expected "default/a[Pod]" "0.0.0.0-0.0.0.9" (lookupIP false exR5 "default/a[Pod]" 7)
    (lookupIP false exR6 "default/a[Pod]" 7) [] [] =
    some ⟨"changed", "default/a[Pod]", "0.0.0.0-0.0.0.9", "All Connections", "All Connections", false, false⟩ := by
  decide

/-! ## G. end to end: the reports the analyzer computes -/

section Computed
open WorldDriver DiffComputed

variable {a b : List Obj} {e1 e2 : List Entry} {p1 p2 : List LPeer}

/-- `runDiff` prints `Diff.compute` of the two list analyses `listFor` -/
theorem runDiff_eq (h1 : listFor a = .ok (e1, p1)) (h2 : listFor b = .ok (e2, p2)) :
    runDiff a b =
      .list (.atom "ok" :: (sortStrs ((compute e1 e2 p1 p2).map fun d =>
        " ".intercalate [d.typ, d.src, d.dst, us d.c1, us d.c2, b01 d.newSrc, b01 d.newDst])).map
          fun l => .list (.atom "d" :: (l.splitOn " ").map .atom)) :=
  runDiff_of_listFor h1 h2

/-- **a computed report is well-formed** (hypotheses on the input only) -/
theorem computed_reportWF (h1 : listFor a = .ok (e1, p1)) (hf : PodsNotFake a)
    (hs : NamesNoSemi a) : ReportWF (e1.map ofEntry) := listFor_reportWF h1 hf hs

/-- **in a computed report the connection string determines the exported view** -/
theorem computed_connStrInj (h1 : listFor a = .ok (e1, p1)) (ha : InputOK a) :
    ConnStrInj (e1.map ofEntry) := listFor_connStrInj h1 ha

/-- the workload names of a computed report are names the theorems on points apply to -/
theorem computed_peer_name_ok (h1 : listFor a = .ok (e1, p1)) (hs : NamesNoSemi a) :
    ∀ n pod, LPeer.wl n pod ∈ p1 → NoSemi n ∧ NotIP n := listFor_peer_name_ok h1 hs

/-- … and so is the name of the ingress-controller pseudo peer -/
theorem ic_name_ok : NoSemi "{ingress-controller}" ∧ NotIP "{ingress-controller}" :=
  DiffComputed.ic_name_ok

/-- **A, end to end.** For two inputs on which the list analysis succeeds: the entries of the
computed diff named by two workload names are exactly the specified entry. -/
theorem computed_diff_pointwise_wl (h1 : listFor a = .ok (e1, p1)) (h2 : listFor b = .ok (e2, p2))
    (hfa : PodsNotFake a) (hsa : NamesNoSemi a) (hfb : PodsNotFake b) (hsb : NamesNoSemi b)
    {s d : String} (hs : NoSemi s) (hsip : NotIP s) (hdip : NotIP d) :
    (compute e1 e2 p1 p2).filter (fun e => e.src == s && e.dst == d) =
      (expected s d (lookup (e1.map ofEntry) s d) (lookup (e2.map ofEntry) s d)
        (peerNames p1) (peerNames p2)).toList :=
  compute_pointwise_wl e1 e2 p1 p2 (listFor_reportWF h1 hfa hsa) (listFor_reportWF h2 hfb hsb) hs
    hsip hdip

/-- **E, end to end.** For a workload name `w` and an address `x` (`dir`: the address is the
source): no entry of the computed diff is named by `w` and a range containing `x` when neither report
holds a connection; otherwise exactly one such range carries an entry, that entry is the specified
one, and the range is the maximal one around `x` on which the pair of connection strings is
constant. -/
theorem computed_diff_pointwise_ip (h1 : listFor a = .ok (e1, p1)) (h2 : listFor b = .ok (e2, p2))
    (ha : InputOK a) (hb : InputOK b) (dir : Bool) {w : String} (hwns : NoSemi w) (hwip : NotIP w)
    (x : Int) :
    (lookupIP dir (e1.map ofEntry) w x = none → lookupIP dir (e2.map ofEntry) w x = none →
      ∀ r, ValidR r → r.mem x → entriesAt (compute e1 e2 p1 p2) dir w r = []) ∧
    (((lookupIP dir (e1.map ofEntry) w x).isSome ∨ (lookupIP dir (e2.map ofEntry) w x).isSome) →
      ∃ r, ValidR r ∧ r.mem x ∧
      entriesAt (compute e1 e2 p1 p2) dir w r =
        (expected (namesIP dir w r).1 (namesIP dir w r).2 (lookupIP dir (e1.map ofEntry) w x)
          (lookupIP dir (e2.map ofEntry) w x) (peerNames p1) (peerNames p2)).toList ∧
      (∀ r', ValidR r' → r'.mem x → r' ≠ r → entriesAt (compute e1 e2 p1 p2) dir w r' = []) ∧
      (∀ y, r.mem y → strsAt dir (e1.map ofEntry) (e2.map ofEntry) w y =
        strsAt dir (e1.map ofEntry) (e2.map ofEntry) w x) ∧
      strsAt dir (e1.map ofEntry) (e2.map ofEntry) w (r.lo - 1) ≠
        strsAt dir (e1.map ofEntry) (e2.map ofEntry) w x ∧
      strsAt dir (e1.map ofEntry) (e2.map ofEntry) w (r.hi + 1) ≠
        strsAt dir (e1.map ofEntry) (e2.map ofEntry) w x) :=
  diff_pointwise_ip (peerNames p1) (peerNames p2) (listFor_reportWF' h1 ha) (listFor_reportWF' h2 hb)
    (listFor_connStrInj h1 ha) (listFor_connStrInj h2 hb) dir hwns hwip x

/-- **no other entries, end to end**: every entry of the computed diff is the entry of a point -/
theorem computed_diff_entries_shape (h1 : listFor a = .ok (e1, p1)) (h2 : listFor b = .ok (e2, p2))
    (hfa : PodsNotFake a) (hsa : NamesNoSemi a) (hfb : PodsNotFake b) (hsb : NamesNoSemi b) :
    ∀ e ∈ compute e1 e2 p1 p2,
      (NoSemi e.src ∧ NotIP e.src ∧ NotIP e.dst) ∨
      (∃ dir w r, NoSemi w ∧ NotIP w ∧ ValidR r ∧ e.src = (namesIP dir w r).1 ∧
        e.dst = (namesIP dir w r).2) :=
  diff_entries_shape (peerNames p1) (peerNames p2) (listFor_reportWF h1 hfa hsa)
    (listFor_reportWF h2 hfb hsb)

/-- **F, end to end, workload–workload points**: the diff of the inputs exchanged is the diff with
the sides exchanged -/
theorem computed_diff_swap_wl (h1 : listFor a = .ok (e1, p1)) (h2 : listFor b = .ok (e2, p2))
    (hfa : PodsNotFake a) (hsa : NamesNoSemi a) (hfb : PodsNotFake b) (hsb : NamesNoSemi b)
    {s d : String} (hs : NoSemi s) (hsip : NotIP s) (hdip : NotIP d) :
    (compute e2 e1 p2 p1).filter (fun e => e.src == s && e.dst == d) =
      ((compute e1 e2 p1 p2).filter (fun e => e.src == s && e.dst == d)).map swapEntry := by
  have w1 := listFor_reportWF h1 hfa hsa
  have w2 := listFor_reportWF h2 hfb hsb
  exact diff_swap_wl (peerNames p1) (peerNames p2) w1.nodup w2.nodup (reportWF_noSemi_src w1)
    (reportWF_noSemi_src w2) hs hsip hdip

/-- **F, end to end, workload–address points** -/
theorem computed_diff_swap_ip (h1 : listFor a = .ok (e1, p1)) (h2 : listFor b = .ok (e2, p2))
    (ha : InputOK a) (hb : InputOK b) (dir : Bool) {w : String} (hwns : NoSemi w) (hwip : NotIP w)
    (x : Int) (r : Iv) (hv : ValidR r) (hrx : r.mem x) :
    entriesAt (compute e2 e1 p2 p1) dir w r =
      (entriesAt (compute e1 e2 p1 p2) dir w r).map swapEntry :=
  diff_swap_ip (peerNames p1) (peerNames p2) (listFor_reportWF' h1 ha) (listFor_reportWF' h2 hb)
    (listFor_connStrInj h1 ha) (listFor_connStrInj h2 hb) dir hwns hwip x r hv hrx

/-- **B, end to end**: the diff of an input with itself has only `unchanged` entries (no hypothesis
on the input) -/
theorem computed_diff_self_unchanged (_h1 : listFor a = .ok (e1, p1)) :
    ∀ e ∈ compute e1 e1 p1 p1, e.typ = "unchanged" := compute_self_unchanged e1 p1 p1

/-- the specified type of a point on which both computed reports hold a connection is `unchanged`
exactly when the two connection strings are equal (the views are determined by the strings across
the two reports as well) -/
theorem computed_unchanged_iff_strings (h1 : listFor a = .ok (e1, p1)) (h2 : listFor b = .ok (e2, p2))
    (ha : InputOK a) (hb : InputOK b) {x y : P2P} (hx : x ∈ e1.map ofEntry)
    (hy : y ∈ e2.map ofEntry) : (x.all = y.all ∧ x.ports = y.ports) ↔ x.connStr = y.connStr := by
  constructor
  · rintro ⟨h, h'⟩
    unfold P2P.connStr
    rw [h, h']
  · exact listFor_connStr_inj2 h1 h2 ha hb x hx y hy

end Computed

/-! ### a pair of inputs: two pods, a NetworkPolicy with an ipBlock on each side -/

namespace ComputedExample
open WorldDriver DiffComputed

def podA : Pod := { ns := "default", name := "a", labels := [("app", "a")], ports := [] }
def podB : Pod :=
  { ns := "default", name := "b", labels := [("app", "b")], ports := [⟨"http", .TCP, 8080⟩] }
def nsDefault : NsObj := ⟨"default", [(nsNameLabelKey, "default")]⟩

/-- `10.0.0.0/8` -/
def cidr10 : Cidr := ⟨167772160, 8⟩
def range10 : Iv := ⟨167772160, 184549375⟩

/-- egress of `a`: TCP 80 to 10.0.0.0/8 -/
def np1 : NetPol :=
  { ns := "default", name := "a-egress", podSel := ⟨[("app", "a")], []⟩, types := [.egress],
    ingress := [], egress := [⟨[.ip cidr10 []], [⟨some .TCP, .num 80 none⟩]⟩] }

/-- egress of `a`: TCP 80 and 443 to 10.0.0.0/8, everything to `b` -/
def np2 : NetPol :=
  { ns := "default", name := "a-egress", podSel := ⟨[("app", "a")], []⟩, types := [.egress],
    ingress := [],
    egress := [⟨[.ip cidr10 []], [⟨some .TCP, .num 80 none⟩, ⟨some .TCP, .num 443 none⟩]⟩,
      ⟨[.sel (some ⟨[("app", "b")], []⟩) none], []⟩] }

def wA : List Obj := [.pod podA, .pod podB, .np np1]
def wB : List Obj := [.pod podA, .pod podB, .np np2]

/-- the input hypotheses hold of both sides -/
theorem inputOK : InputOK wA ∧ InputOK wB := by decide

def engOf (np : NetPol) : Engine :=
  { namespaces := [nsDefault], pods := [podA, podB], netpols := [np] }

theorem build_wA : Engine.build wA = .ok (engOf np1) := rfl
theorem build_wB : Engine.build wB = .ok (engOf np2) := rfl

def peers : List LPeer :=
  [.ip ⟨0, 167772159⟩, .ip range10, .ip ⟨184549376, 4294967295⟩, .wl "default/a[Pod]" podA,
    .wl "default/b[Pod]" podB]

theorem blocks_eq (np : NetPol) (h : np.referencedIPBlocks = [range10]) :
    (engOf np).disjointIPBlocks = [⟨0, 167772159⟩, range10, ⟨184549376, 4294967295⟩] := by
  unfold disjointIPBlocks
  simp only [engOf, List.flatMap_cons, List.flatMap_nil, List.append_nil, h]
  simp [partition, range10, List.mergeSort, List.MergeSort.Internal.splitInTwo, ipMax,
    List.eraseDups_cons]

theorem owners_eq (np : NetPol) :
    (engOf np).podOwnersMap = .ok [("default/a[Pod]", podA), ("default/b[Pod]", podB)] := by
  rw [Structure.podOwnersMap_eq (l := [podA, podB]) (List.Perm.refl _) (by decide)]
  rfl

theorem peersList_eq (np : NetPol) (h : np.referencedIPBlocks = [range10]) :
    (engOf np).peersList = .ok peers := by
  unfold peersList
  rw [blocks_eq np h, owners_eq]
  rfl

theorem exists_of_isOk {α : Type} {x : Except Err α} (h : x.isOk = true) : ∃ v, x = .ok v := by
  cases x with
  | error e => simp [Except.isOk, Except.toBool] at h
  | ok v => exact ⟨v, rfl⟩

/-- the list analysis succeeds on both sides -/
theorem listFor_wA : ∃ e1, listFor wA = .ok (e1, peers) := by
  obtain ⟨e1, hc⟩ := exists_of_isOk (x := (engOf np1).connsBetweenPeers peers "") (by decide)
  exact ⟨e1, listFor_ok_noIngress build_wA rfl (peersList_eq np1 (by decide)) (owners_eq np1) hc rfl⟩

theorem listFor_wB : ∃ e2, listFor wB = .ok (e2, peers) := by
  obtain ⟨e2, hc⟩ := exists_of_isOk (x := (engOf np2).connsBetweenPeers peers "") (by decide)
  exact ⟨e2, listFor_ok_noIngress build_wB rfl (peersList_eq np2 (by decide)) (owners_eq np2) hc rfl⟩

/-- **the hypotheses of the end-to-end theorems are satisfiable**: both list analyses succeed, the
inputs are `InputOK`, and the theorems apply — here the one on workload–address points at workload
`default/a[Pod]` and address 10.1.2.3, the swap at the same point, and the one on pairs of workloads
at (`a`, `b`) -/
example : ∃ e1 e2 p1 p2, listFor wA = .ok (e1, p1) ∧ listFor wB = .ok (e2, p2) ∧ InputOK wA ∧
    InputOK wB ∧ ReportWF (e1.map ofEntry) ∧ ReportWF (e2.map ofEntry) ∧
    ConnStrInj (e1.map ofEntry) ∧ ConnStrInj (e2.map ofEntry) ∧
    (compute e1 e2 p1 p2).filter (fun e => e.src == "default/a[Pod]" && e.dst == "default/b[Pod]") =
      (expected "default/a[Pod]" "default/b[Pod]"
        (lookup (e1.map ofEntry) "default/a[Pod]" "default/b[Pod]")
        (lookup (e2.map ofEntry) "default/a[Pod]" "default/b[Pod]") (peerNames p1) (peerNames p2)).toList ∧
    (∀ r, ValidR r → r.mem 167837955 →
      entriesAt (compute e2 e1 p2 p1) false "default/a[Pod]" r =
        (entriesAt (compute e1 e2 p1 p2) false "default/a[Pod]" r).map swapEntry) := by
  obtain ⟨e1, h1⟩ := listFor_wA
  obtain ⟨e2, h2⟩ := listFor_wB
  obtain ⟨ha, hb⟩ := inputOK
  obtain ⟨hns, hnip⟩ := computed_peer_name_ok h1 ha.noSemi "default/a[Pod]" podA (by simp [peers])
  obtain ⟨_, hnipb⟩ := computed_peer_name_ok h1 ha.noSemi "default/b[Pod]" podB (by simp [peers])
  exact ⟨e1, e2, peers, peers, h1, h2, ha, hb, computed_reportWF h1 ha.notFake ha.noSemi,
    computed_reportWF h2 hb.notFake hb.noSemi, computed_connStrInj h1 ha, computed_connStrInj h2 hb,
    computed_diff_pointwise_wl h1 h2 ha.notFake ha.noSemi hb.notFake hb.noSemi hns hnip hnipb,
    fun r hv hr => computed_diff_swap_ip h1 h2 ha hb false hns hnip 167837955 r hv hr⟩

/-- the entries of the two loops, as terms the kernel can evaluate -/
def entriesOf (np : NetPol) : List Entry :=
  match (engOf np).connsBetweenPeers peers "" with
  | .ok es => es
  | .error _ => []

theorem conns_eq (np : NetPol) (h : ((engOf np).connsBetweenPeers peers "").isOk = true) :
    (engOf np).connsBetweenPeers peers "" = .ok (entriesOf np) := by
  obtain ⟨v, hv⟩ := exists_of_isOk h
  unfold entriesOf
  rw [hv]

theorem listFor_wA_eq : listFor wA = .ok (entriesOf np1, peers) :=
  listFor_ok_noIngress build_wA rfl (peersList_eq np1 (by decide)) (owners_eq np1)
    (conns_eq np1 (by decide)) rfl

theorem listFor_wB_eq : listFor wB = .ok (entriesOf np2, peers) :=
  listFor_ok_noIngress build_wB rfl (peersList_eq np2 (by decide)) (owners_eq np2)
    (conns_eq np2 (by decide)) rfl

/-- what the two computed reports hold for workload `a` and the address 10.1.2.3 -/
theorem lookups : (lookupIP false ((entriesOf np1).map ofEntry) "default/a[Pod]" 167837955).map
      (·.connStr) = some "TCP 80" ∧
    (lookupIP false ((entriesOf np2).map ofEntry) "default/a[Pod]" 167837955).map (·.connStr) =
      some "TCP 80,443" := by decide

/-- **theorem E at work on the computed reports**: around 10.1.2.3 the computed diff has, for
workload `a` as source, exactly one entry, `changed` from `TCP 80` to `TCP 80,443`, on the maximal
range on which the two reports hold this pair of connections -/
example : ∃ r, ValidR r ∧ r.mem 167837955 ∧
    entriesAt (compute (entriesOf np1) (entriesOf np2) peers peers) false "default/a[Pod]" r =
      [⟨"changed", "default/a[Pod]", (LPeer.ip r).str, "TCP 80", "TCP 80,443", false, false⟩] ∧
    ∀ r', ValidR r' → r'.mem 167837955 → r' ≠ r →
      entriesAt (compute (entriesOf np1) (entriesOf np2) peers peers) false "default/a[Pod]" r' = [] := by
  obtain ⟨ha, hb⟩ := inputOK
  obtain ⟨hns, hnip⟩ := computed_peer_name_ok listFor_wA_eq ha.noSemi "default/a[Pod]" podA
    (by simp [peers])
  obtain ⟨l1, l2⟩ := lookups
  obtain ⟨_, hsome⟩ := computed_diff_pointwise_ip listFor_wA_eq listFor_wB_eq ha hb false hns hnip
    167837955
  cases ho1 : lookupIP false ((entriesOf np1).map ofEntry) "default/a[Pod]" 167837955 with
  | none => rw [ho1] at l1; cases l1
  | some x =>
    cases ho2 : lookupIP false ((entriesOf np2).map ofEntry) "default/a[Pod]" 167837955 with
    | none => rw [ho2] at l2; cases l2
    | some y =>
      rw [ho1] at l1 hsome
      rw [ho2] at l2 hsome
      simp only [Option.map_some, Option.some.injEq] at l1 l2
      obtain ⟨r, hv, hrx, he, hother, _⟩ := hsome (Or.inl rfl)
      refine ⟨r, hv, hrx, ?_, hother⟩
      rw [he]
      have hne : ¬ (x.all = y.all ∧ x.ports = y.ports) := by
        rintro ⟨h, h'⟩
        have : x.connStr = y.connStr := by unfold P2P.connStr; rw [h, h']
        rw [l1, l2] at this
        revert this
        decide
      simp [expected, namesIP, hne, l1, l2]

end ComputedExample

/-! ### a pair of inputs with a Service and an Ingress: the ingress-controller line -/

namespace IngressExample
open WorldDriver DiffComputed

def podW : Pod :=
  { ns := "default", name := "w", labels := [("app", "w")],
    ports := [⟨"http", .TCP, 80⟩, ⟨"alt", .TCP, 8080⟩] }
def podC : Pod := { ns := "default", name := "c", labels := [("app", "c")], ports := [] }
def nsDefault : NsObj := ⟨"default", [(nsNameLabelKey, "default")]⟩

def svcW : Service :=
  { ns := "default", name := "svc", selector := [("app", "w")],
    ports := [⟨"http", 80, some 80, none, .TCP⟩, ⟨"alt", 8080, some 8080, none, .TCP⟩] }

/-- default backend `svc:80`, one rule path to `svc:8080` -/
def ingW : Ingress :=
  { ns := "default", name := "ing", default := some ⟨"svc", some 80, none⟩,
    rules := [[⟨"svc", some 8080, none⟩]] }

/-- ingress of `w`: TCP 80 only -/
def npW : NetPol :=
  { ns := "default", name := "w-ingress", podSel := ⟨[("app", "w")], []⟩, types := [.ingress],
    ingress := [⟨[], [⟨some .TCP, .num 80 none⟩]⟩], egress := [] }

def w1 : List Obj := [.pod podW, .pod podC, .svc svcW, .ing ingW]
def w2 : List Obj := [.pod podW, .pod podC, .svc svcW, .ing ingW, .np npW]

theorem inputOK : InputOK w1 ∧ InputOK w2 := by decide

def engOf (nps : List NetPol) : Engine :=
  { namespaces := [nsDefault], pods := [podW, podC], netpols := nps }

theorem build_w1 : Engine.build w1 = .ok (engOf []) := rfl
theorem build_w2 : Engine.build w2 = .ok (engOf [npW]) := rfl

def owners : List (String × Pod) := [("default/c[Pod]", podC), ("default/w[Pod]", podW)]

def peers : List LPeer :=
  [.ip ⟨0, 4294967295⟩, .wl "default/c[Pod]" podC, .wl "default/w[Pod]" podW]

theorem blocks_eq (nps : List NetPol) (h : nps.flatMap (·.referencedIPBlocks) = []) :
    (engOf nps).disjointIPBlocks = [⟨0, 4294967295⟩] := by
  unfold disjointIPBlocks
  simp only [engOf, h]
  simp [partition, List.mergeSort, List.MergeSort.Internal.splitInTwo, ipMax, List.eraseDups_cons]

theorem owners_eq (nps : List NetPol) : (engOf nps).podOwnersMap = .ok owners := by
  rw [Structure.podOwnersMap_eq (l := [podC, podW]) (List.Perm.swap _ _ _) (by decide)]
  rfl

theorem peersList_eq (nps : List NetPol) (h : nps.flatMap (·.referencedIPBlocks) = []) :
    (engOf nps).peersList = .ok peers := by
  unfold peersList
  rw [blocks_eq nps h, owners_eq]
  rfl

def entriesOf (nps : List NetPol) : List Entry :=
  match (engOf nps).connsBetweenPeers peers "" with
  | .ok es => es
  | .error _ => []

def ingOf (objs : List Obj) (nps : List NetPol) : List Entry × List String :=
  match IngressA.ingressEntries (engOf nps) objs owners "" with
  | .ok r => r
  | .error _ => ([], [])

theorem conns_eq (nps : List NetPol) (h : ((engOf nps).connsBetweenPeers peers "").isOk = true) :
    (engOf nps).connsBetweenPeers peers "" = .ok (entriesOf nps) := by
  obtain ⟨v, hv⟩ := ComputedExample.exists_of_isOk h
  unfold entriesOf
  rw [hv]

theorem ing_eq (objs : List Obj) (nps : List NetPol)
    (h : (IngressA.ingressEntries (engOf nps) objs owners "").isOk = true) :
    IngressA.ingressEntries (engOf nps) objs owners "" = .ok ((ingOf objs nps).1, (ingOf objs nps).2) := by
  obtain ⟨v, hv⟩ := ComputedExample.exists_of_isOk h
  unfold ingOf
  rw [hv]

/-- the two computed reports: the loop, then the one ingress-controller line -/
theorem listFor_w1 : listFor w1 = .ok (entriesOf [] ++ (ingOf w1 []).1, peers) := by
  have := listFor_ok_of_parts build_w1 rfl (peersList_eq [] rfl) (owners_eq [])
    (conns_eq [] (by decide)) (ing_eq w1 [] (by decide))
  rwa [sortIngress_short (by decide)] at this

theorem listFor_w2 : listFor w2 = .ok (entriesOf [npW] ++ (ingOf w2 [npW]).1, peers) := by
  have := listFor_ok_of_parts build_w2 rfl (peersList_eq [npW] (by decide)) (owners_eq [npW])
    (conns_eq [npW] (by decide)) (ing_eq w2 [npW] (by decide))
  rwa [sortIngress_short (by decide)] at this

/-- what the two reports hold for the pair (`{ingress-controller}`, `w`) -/
theorem lookups :
    (lookup ((entriesOf [] ++ (ingOf w1 []).1).map ofEntry) "{ingress-controller}" "default/w[Pod]").map
      (·.connStr) = some "TCP 80,8080" ∧
    (lookup ((entriesOf [npW] ++ (ingOf w2 [npW]).1).map ofEntry) "{ingress-controller}"
      "default/w[Pod]").map (·.connStr) = some "TCP 80" := by decide

/-- **theorem A at work on computed reports with an ingress-controller line**: the computed diff has
exactly one entry for (`{ingress-controller}`, `w`), `changed` from `TCP 80,8080` to `TCP 80` -/
example : (compute (entriesOf [] ++ (ingOf w1 []).1) (entriesOf [npW] ++ (ingOf w2 [npW]).1) peers
      peers).filter (fun e => e.src == "{ingress-controller}" && e.dst == "default/w[Pod]") =
    [⟨"changed", "{ingress-controller}", "default/w[Pod]", "TCP 80,8080", "TCP 80", false, false⟩] := by
  obtain ⟨ha, hb⟩ := inputOK
  obtain ⟨_, hnipw⟩ := computed_peer_name_ok listFor_w1 ha.noSemi "default/w[Pod]" podW
    (by simp [peers])
  rw [computed_diff_pointwise_wl listFor_w1 listFor_w2 ha.notFake ha.noSemi hb.notFake hb.noSemi
    ic_name_ok.1 ic_name_ok.2 hnipw]
  obtain ⟨l1, l2⟩ := lookups
  cases ho1 : lookup ((entriesOf [] ++ (ingOf w1 []).1).map ofEntry) "{ingress-controller}"
      "default/w[Pod]" with
  | none => rw [ho1] at l1; cases l1
  | some x =>
    cases ho2 : lookup ((entriesOf [npW] ++ (ingOf w2 [npW]).1).map ofEntry) "{ingress-controller}"
        "default/w[Pod]" with
    | none => rw [ho2] at l2; cases l2
    | some y =>
      rw [ho1] at l1
      rw [ho2] at l2
      simp only [Option.map_some, Option.some.injEq] at l1 l2
      have hne : ¬ (x.all = y.all ∧ x.ports = y.ports) := by
        rintro ⟨h, h'⟩
        have : x.connStr = y.connStr := by unfold P2P.connStr; rw [h, h']
        rw [l1, l2] at this
        revert this
        decide
      simp [expected, hne, l1, l2]

/-! #### why `PodsNotFake`

A pod document carrying the analyzer's own `fake` mark and the name `ingress-controller` (no
Kubernetes manifest can say so; the parser never produces one) is reported under the string of the
pseudo peer. With an Ingress the computed report then holds the pair (`{ingress-controller}`, `w`)
twice — the line of the loop (All Connections) and the ingress-controller line (TCP 80,8080) —, so it
is not `ReportWF`; the diff map keeps the last line written under the key, `lookup` the first one.
(`#eval`: against the same input without the Ingress the computed diff says `changed`, TCP 80,8080
to All Connections, for the pair, where `expected` says `unchanged`.) -/

def fakeIC : Pod :=
  { ns := "default", name := "ingress-controller", labels := [], ports := [], fake := true }

def wF : List Obj := [.pod podW, .pod fakeIC, .svc svcW, .ing ingW]

example : ¬ PodsNotFake wF ∧ NamesNoSemi wF ∧ PermLayer.PodPortsValid wF ∧
    PermLayer.PoliciesValid wF := by decide

def engF : Engine := { namespaces := [nsDefault], pods := [podW, fakeIC], netpols := [] }

def ownersF : List (String × Pod) := [("{ingress-controller}", fakeIC), ("default/w[Pod]", podW)]

def peersF : List LPeer :=
  [.ip ⟨0, 4294967295⟩, .wl "{ingress-controller}" fakeIC, .wl "default/w[Pod]" podW]

def entriesF : List Entry :=
  match engF.connsBetweenPeers peersF "" with
  | .ok es => es
  | .error _ => []

def ingF : List Entry × List String :=
  match IngressA.ingressEntries engF wF ownersF "" with
  | .ok r => r
  | .error _ => ([], [])

theorem listFor_wF : listFor wF = .ok (entriesF ++ ingF.1, peersF) := by
  have hb : Engine.build wF = .ok engF := rfl
  have ho : engF.podOwnersMap = .ok ownersF := by
    rw [Structure.podOwnersMap_eq (l := [fakeIC, podW]) (List.Perm.swap _ _ _) (by decide)]
    rfl
  have hp : engF.peersList = .ok peersF := by
    unfold peersList
    have : engF.disjointIPBlocks = [⟨0, 4294967295⟩] := by
      unfold disjointIPBlocks
      simp [engF, partition, List.mergeSort, List.MergeSort.Internal.splitInTwo, ipMax,
        List.eraseDups_cons]
    rw [this, ho]
    rfl
  have hc : engF.connsBetweenPeers peersF "" = .ok entriesF := by
    obtain ⟨v, hv⟩ := ComputedExample.exists_of_isOk
      (x := engF.connsBetweenPeers peersF "") (by decide)
    unfold entriesF
    rw [hv]
  have hi : IngressA.ingressEntries engF wF ownersF "" = .ok (ingF.1, ingF.2) := by
    obtain ⟨v, hv⟩ := ComputedExample.exists_of_isOk
      (x := IngressA.ingressEntries engF wF ownersF "") (by decide)
    unfold ingF
    rw [hv]
  have := listFor_ok_of_parts hb rfl hp ho hc hi
  rwa [sortIngress_short (by decide)] at this

/-- the computed report of `wF` holds the pair (`{ingress-controller}`, `w`) twice, with two
different connections: it is not `ReportWF` -/
example : ¬ ReportWF ((entriesF ++ ingF.1).map ofEntry) ∧
    ((entriesF ++ ingF.1).map ofEntry).filterMap (fun p =>
      if p.src.str == "{ingress-controller}" && p.dst.str == "default/w[Pod]" then some p.connStr
      else none) = ["All Connections", "TCP 80,8080"] := by
  constructor
  · intro h
    have := h.nodup
    revert this
    decide
  · decide

end IngressExample

end Netpol.Properties.C04
