import Netpol.Proofs.ConnSet
import Netpol.Proofs.ConnSetDiff

/-! C11: the connection-set algebra (`ConnSet`, model of `connectionset.go` / `portset.go`)
against its numeric denotation `ConnSet.den`. Only the property statements are here, each proved
by a lemma of `Netpol.Proofs.ConnSet`, followed by non-vacuity examples on concrete sets.

Vocabulary (defined in `Netpol.Proofs.ConnSet`): `inRange p` is `1 ≤ p ≤ 65535`;
`PortSet.WF` = canonical interval list inside the port range; `ConnSet.den c pr p` = port `p` of
protocol `pr` is allowed numerically; `ConnSet.names c pr` = named ports held for `pr`;
`ConnSet.WF` = the AllowAll form has no entries, entries are well-formed and not empty;
`ConnSet.Canonical` = `WF` and the full set is not held as three entries with the full port range
and no excluded named port (`isAllConnectionsWithoutAllowAll` is false). Since the repair of
`PortSet.IsAll` the named ports held by such entries do not matter: the full range covers them. -/
namespace Netpol.Properties.C11
open Netpol

variable {c d : ConnSet} {p o ps : PortSet} {pr : Proto}

/-! ### concrete sets for the examples -/

/-- `TCP 80-90` -/
def exA : ConnSet :=
  (ConnSet.mk' false).addConnection .TCP ((PortSet.mk' false).addPortRange 80 90)

/-- `TCP 85-100, UDP 53` -/
def exB : ConnSet :=
  ((ConnSet.mk' false).addConnection .TCP ((PortSet.mk' false).addPortRange 85 100)).addConnection
    .UDP ((PortSet.mk' false).addPort (.num 53))

/-- `TCP http` (a named port only) -/
def exN : ConnSet :=
  (ConnSet.mk' false).addConnection .TCP ((PortSet.mk' false).addPort (.name "http"))

/-- `UDP http` (a named port only) -/
def exH : ConnSet :=
  (ConnSet.mk' false).addConnection .UDP ((PortSet.mk' false).addPort (.name "http"))

/-- `UDP 53` -/
def exU : ConnSet :=
  (ConnSet.mk' false).addConnection .UDP ((PortSet.mk' false).addPort (.num 53))

/-- all three protocols with the full range, added one by one -/
def exFull : ConnSet :=
  (((ConnSet.mk' false).addConnection .TCP (PortSet.mk' true)).addConnection
    .UDP (PortSet.mk' true)).addConnection .SCTP ((PortSet.mk' false).addPortRange 1 65535)

example : exA = ⟨false, some ⟨[⟨80, 90⟩], [], []⟩, none, none⟩ := by decide
example : exB = ⟨false, some ⟨[⟨85, 100⟩], [], []⟩, some ⟨[⟨53, 53⟩], [], []⟩, none⟩ := by decide

/-! ### A. well-formedness is preserved -/

/-! port-set level -/

theorem portSet_wf_mk (b : Bool) : (PortSet.mk' b).WF := PortSet.wf_mk' b

theorem portSet_wf_union (hp : p.WF) (ho : o.WF) : (p.union o).WF := PortSet.wf_union hp ho

theorem portSet_wf_inter (hp : p.WF) : (p.inter o).WF := PortSet.wf_inter o hp

theorem portSet_wf_subtract (hp : p.WF) : (p.subtract o).WF := PortSet.wf_subtract o hp

theorem portSet_wf_addPort_num (hp : p.WF) {n : Int} (hn : inRange n) :
    (p.addPort (.num n)).WF := PortSet.wf_addPort_num hp hn

theorem portSet_wf_addPort_name (hp : p.WF) (s : String) : (p.addPort (.name s)).WF :=
  PortSet.wf_addPort_name hp s

theorem portSet_wf_addPortRange (hp : p.WF) {lo hi : Int} (h1 : 1 ≤ lo) (h2 : hi ≤ 65535) :
    (p.addPortRange lo hi).WF := PortSet.wf_addPortRange hp h1 h2

theorem portSet_wf_copy (hp : p.WF) : p.copy.WF := PortSet.wf_copy hp

example : ((PortSet.mk' false).addPortRange 80 90).WF := by decide
/-- the range hypotheses are needed: an out-of-range port breaks `WF` -/
example : ¬ ((PortSet.mk' false).addPort (.num 70000)).WF := by decide

/-! connection-set level -/

theorem wf_mk (b : Bool) : (ConnSet.mk' b).WF := ConnSet.wf_mk b

/-- no side condition on the receiver since the repair of `AddConnection` (a no-op on the
AllowAll form; before, the entry was stored next to the AllowAll flag, outside `WF`, and the
statement carried the hypothesis `c.allowAll = true → ps.isEmpty = true`) -/
theorem wf_addConnection (hc : c.WF) (hp : ps.WF) :
    (c.addConnection pr ps).WF := ConnSet.wf_addConnection pr hc hp

theorem wf_union (hc : c.WF) (hd : d.WF) : (c.union d).WF := ConnSet.wf_union hc hd

theorem wf_inter (hc : c.WF) (hd : d.WF) : (c.inter d).WF := ConnSet.wf_inter hc hd

theorem wf_subtract (hc : c.WF) (hd : d.WF) : (c.subtract d).WF := ConnSet.wf_subtract hc hd

theorem wf_copy (hc : c.WF) : c.copy.WF := ConnSet.wf_copy hc

example : exA.WF ∧ exB.WF ∧ exN.WF ∧ exFull.WF := by decide
example : (exA.union exB).WF ∧ (exA.inter exB).WF ∧ (exA.subtract exB).WF := by decide
example : ((ConnSet.mk' true).subtract exA).WF := by decide
/-- the case that was excluded before the repair -/
example : ((ConnSet.mk' true).addConnection .TCP ((PortSet.mk' false).addPortRange 80 90)).WF := by
  decide

/-! ### B. denotation of the operations -/

theorem den_mk_all (pr : Proto) (x : Int) : (ConnSet.mk' true).den pr x ↔ inRange x :=
  ConnSet.den_mk_all pr x

theorem den_mk_none (pr : Proto) (x : Int) : ¬ (ConnSet.mk' false).den pr x :=
  ConnSet.den_mk_none pr x

/-- exact denotation of `AddConnection`, no hypothesis at all: nothing is added to the AllowAll
form -/
theorem den_addConnection_exact (c : ConnSet) (pr : Proto) (ps : PortSet) (pr' : Proto) (x : Int) :
    (c.addConnection pr ps).den pr' x ↔
      c.den pr' x ∨ (c.allowAll = false ∧ pr' = pr ∧ CSet.memL ps.ports x) :=
  ConnSet.den_addConnection_exact c pr ps pr' x

/-- no hypothesis on the receiver. `hp` is used on the AllowAll form only: the receiver is
returned unchanged, so an added port outside 1..65535 is not in the result (before the repair it
was, in the stray entry, and the statement had no hypothesis); see the example below -/
theorem den_addConnection (c : ConnSet) (pr : Proto) (hp : ps.WF) (pr' : Proto) (x : Int) :
    (c.addConnection pr ps).den pr' x ↔ c.den pr' x ∨ (pr' = pr ∧ CSet.memL ps.ports x) :=
  ConnSet.den_addConnection c pr hp pr' x

/-- `AddConnection` on All Connections is a no-op (the repaired behaviour) -/
theorem addConnection_of_allowAll (h : c.allowAll = true) (pr : Proto) (ps : PortSet) :
    c.addConnection pr ps = c := ConnSet.addConnection_of_allowAll h pr ps

theorem addConnection_all (pr : Proto) (ps : PortSet) :
    (ConnSet.mk' true).addConnection pr ps = ConnSet.mk' true := ConnSet.addConnection_mk_all pr ps

/-- on the other sets it is the Go `addConnection` followed by `checkIfAllConnections` -/
theorem addConnection_of_not_allowAll (h : c.allowAll = false) (pr : Proto) (ps : PortSet) :
    c.addConnection pr ps = (c.addConnectionRaw pr ps).checkIfAll :=
  ConnSet.addConnection_of_not_allowAll h pr ps

/-- why `den_addConnection` needs `hp`: an out-of-range port added to All Connections -/
example : ¬ ((ConnSet.mk' true).addConnection .TCP
      ((PortSet.mk' false).addPort (.num 70000))).den .TCP 70000 ∧
    CSet.memL ((PortSet.mk' false).addPort (.num 70000)).ports 70000 := by decide

theorem den_union (hc : c.WF) (hd : d.WF) (pr : Proto) (x : Int) :
    (c.union d).den pr x ↔ c.den pr x ∨ d.den pr x := ConnSet.den_union hc hd pr x

theorem den_inter (hc : c.WF) (hd : d.WF) (pr : Proto) (x : Int) :
    (c.inter d).den pr x ↔ c.den pr x ∧ d.den pr x := ConnSet.den_inter hc hd pr x

theorem den_subtract (hc : c.WF) (hd : d.WF) (pr : Proto) (x : Int) :
    (c.subtract d).den pr x ↔ c.den pr x ∧ ¬ d.den pr x := ConnSet.den_subtract hc hd pr x

theorem den_copy (c : ConnSet) : c.copy.den = c.den := ConnSet.den_copy c

example : exA.den .TCP 80 ∧ exA.den .TCP 90 ∧ ¬ exA.den .TCP 91 ∧ ¬ exA.den .UDP 80 := by decide
example : (exA.union exB).den .TCP 95 ∧ ¬ (exA.union exB).den .TCP 101 ∧
    (exA.union exB).den .UDP 53 := by decide
example : (exA.inter exB).den .TCP 87 ∧ ¬ (exA.inter exB).den .TCP 80 ∧
    ¬ (exA.inter exB).den .UDP 53 := by decide
example : (exA.subtract exB).den .TCP 84 ∧ ¬ (exA.subtract exB).den .TCP 85 := by decide
/-- `Subtract` from the AllowAll form goes through three full entries -/
example : ((ConnSet.mk' true).subtract exA).den .TCP 79 ∧
    ¬ ((ConnSet.mk' true).subtract exA).den .TCP 80 ∧
    ((ConnSet.mk' true).subtract exA).den .SCTP 65535 ∧
    ¬ ((ConnSet.mk' true).subtract exA).den .SCTP 65536 := by decide

/-- the audit's sequence replayed: `All`, then `AddConnection(TCP 80)`, then `Intersection` with
`UDP 53`. Before the repair the first step left the entry `TCP 80` next to the AllowAll flag
(`Equal` with All false) and the intersection picked it up: "TCP 80,UDP 53" instead of "UDP 53". -/
example : (ConnSet.mk' true).addConnection .TCP ((PortSet.mk' false).addPort (.num 80)) =
    ConnSet.mk' true := by decide
example : ((ConnSet.mk' true).addConnection .TCP ((PortSet.mk' false).addPort (.num 80))).equal
    (ConnSet.mk' true) = true := by decide
example : ((ConnSet.mk' true).addConnection .TCP ((PortSet.mk' false).addPort (.num 80))).inter exU =
    exU ∧ exU = ⟨false, none, some ⟨[⟨53, 53⟩], [], []⟩, none⟩ := by decide
example : (((ConnSet.mk' true).addConnection .TCP ((PortSet.mk' false).addPort (.num 80))).inter
    exU).toStr = "UDP 53" := by decide
/-- what the unrepaired `AddConnection` (`addConnectionRaw` then `checkIfAll`) did on this input -/
example : (((ConnSet.mk' true).addConnectionRaw .TCP
      ((PortSet.mk' false).addPort (.num 80))).checkIfAll.inter exU) =
    ⟨false, some ⟨[⟨80, 80⟩], [], []⟩, some ⟨[⟨53, 53⟩], [], []⟩, none⟩ := by decide

/-! ### C. predicates -/

theorem contains_iff (hc : c.WF) {x : Int} (hx : inRange x) :
    c.contains pr x = true ↔ c.den pr x := ConnSet.contains_iff hc pr hx

/-- All Connections contains every port of every protocol (kept from the earlier placeholder;
no range hypothesis: the Go `Contains` does not check the range in the AllowAll form) -/
theorem mk_all_contains (pr : Proto) (x : Int) : (ConnSet.mk' true).contains pr x = true := rfl

example : exA.contains .TCP 80 = true ∧ exA.contains .TCP 79 = false ∧
    exB.contains .UDP 53 = true := by decide

theorem isEmpty_iff (hc : c.WF) :
    c.isEmpty = true ↔ (∀ pr x, ¬ c.den pr x) ∧ ∀ pr, c.names pr = [] := ConnSet.isEmpty_iff hc

example : (exA.subtract exA).isEmpty = true ∧ exA.isEmpty = false ∧ exN.isEmpty = false := by
  decide

/-- `ContainedIn` implies inclusion of the denotations (named ports or not) -/
theorem containedIn_sound (hc : c.WF) (hd : d.WF) (h : c.containedIn d = true) :
    ∀ pr x, c.den pr x → d.den pr x := ConnSet.containedIn_sound hc hd h

/-- the general converse: when the receiver is the AllowAll form the argument has to be known to
recognise its own fullness (`hA`); `containedIn_iff` discharges that from `Canonical` -/
theorem containedIn_complete (hc : c.WF) (hd : d.WF) (hn : ∀ pr, c.names pr = [])
    (hA : c.allowAll = true → (∀ pr x, inRange x → d.den pr x) → d.allowAll = true)
    (h : ∀ pr x, c.den pr x → d.den pr x) : c.containedIn d = true :=
  ConnSet.containedIn_complete hc hd hn hA h

/-- receiver not in the AllowAll form: plain well-formedness of the argument is enough -/
theorem containedIn_iff_of_not_allowAll (hc : c.WF) (hd : d.WF) (hn : ∀ pr, c.names pr = [])
    (ha : c.allowAll = false) :
    c.containedIn d = true ↔ ∀ pr x, c.den pr x → d.den pr x :=
  ⟨containedIn_sound hc hd,
   containedIn_complete hc hd hn (fun h => by rw [ha] at h; exact absurd h (by decide))⟩

/-- `d` has to be canonical and free of excluded named ports: otherwise `d` can cover the whole
range without being recognised as All Connections, and `AllowAll.ContainedIn(d)` is false (see the
examples below). `d` may hold named ports (hypothesis dropped after the repair of `IsAll`). -/
theorem containedIn_iff (hc : c.WF) (hd : d.Canonical) (hn : ∀ pr, c.names pr = [])
    (hde : ∀ pr ps, d.get pr = some ps → ps.excluded = []) :
    c.containedIn d = true ↔ ∀ pr x, c.den pr x → d.den pr x :=
  ⟨containedIn_sound hc hd.1,
   containedIn_complete hc hd.1 hn (fun _ => (ConnSet.allowAll_iff_full' hd hde).mpr)⟩

example : (exA.inter exB).containedIn exA = true ∧ exA.containedIn exB = false ∧
    exA.containedIn (ConnSet.mk' true) = true ∧ (ConnSet.mk' true).containedIn exA = false := by
  decide

/-- why `Canonical d` is needed: three full entries without the flag denote everything, yet
All Connections is not `ContainedIn` them -/
example : (ConnSet.mk' true).containedIn ConnSet.fullEntries = false ∧
    ∀ pr x, (ConnSet.mk' true).den pr x → ConnSet.fullEntries.den pr x :=
  ⟨by decide, fun pr x h => (ConnSet.den_fullEntries pr x).mpr ((ConnSet.den_mk_all pr x).mp h)⟩

/-- why "no excluded named port" is needed: `All − {UDP http}` is canonical and covers the whole
numeric range, yet it is not All Connections (the excluded name is a port it does not allow) -/
example : ((ConnSet.mk' true).subtract exH).Canonical ∧
    (ConnSet.mk' true).containedIn ((ConnSet.mk' true).subtract exH) = false ∧
    ((ConnSet.mk' true).subtract exH).udp = some ⟨[⟨1, 65535⟩], [], ["http"]⟩ := by decide

/-- a set holding a named port is not contained in a set that lacks both that name and the full
port range -/
theorem containedIn_named (hc : c.WF) {n : String} (hn : n ∈ c.names pr) (hnd : n ∉ d.names pr)
    (hb : d.allowAll = false) (hfull : ∀ ps, d.get pr = some ps → ps.ports ≠ [⟨1, 65535⟩]) :
    c.containedIn d = false := ConnSet.containedIn_named hc hn hnd hb hfull

example : "http" ∈ exN.names .TCP ∧ "http" ∉ exA.names .TCP ∧ exN.containedIn exA = false := by
  decide

theorem canonical_mk (b : Bool) : (ConnSet.mk' b).Canonical := ConnSet.canonical_mk b

/-- no side condition on the receiver since the repair of `AddConnection` -/
theorem canonical_addConnection (hc : c.WF) (hp : ps.WF) : (c.addConnection pr ps).Canonical :=
  ConnSet.canonical_addConnection pr hc hp

/-- `Union` returns its receiver unchanged when the argument is empty, hence `Canonical c` -/
theorem canonical_union (hc : c.Canonical) (hd : d.WF) : (c.union d).Canonical :=
  ConnSet.canonical_union hc.1 hd (fun _ => hc.2)

/-- with a non-empty argument plain well-formedness of the receiver is enough -/
theorem canonical_union_of_nonempty (hc : c.WF) (hd : d.WF) (hne : d.isEmpty = false) :
    (c.union d).Canonical :=
  ConnSet.canonical_union hc hd (fun h => by rw [hne] at h; exact absurd h (by decide))

/-- `Canonical` is an invariant of the remaining operations too (so the `Canonical` hypotheses
above are met by every set built from `mk'` with the operations) -/
theorem canonical_inter (hc : c.Canonical) (hd : d.Canonical) : (c.inter d).Canonical :=
  ConnSet.canonical_inter hc hd

theorem canonical_subtract (hc : c.Canonical) (hd : d.WF) : (c.subtract d).Canonical :=
  ConnSet.canonical_subtract hc hd

/-- the full set is recognised as All Connections, whatever named ports it holds (the hypothesis
"no named ports" of the earlier statement is dropped after the repair of `IsAll`) -/
theorem allowAll_iff_full (hc : c.Canonical)
    (he : ∀ pr ps, c.get pr = some ps → ps.excluded = []) :
    c.allowAll = true ↔ ∀ pr x, inRange x → c.den pr x := ConnSet.allowAll_iff_full' hc he

/-- … and is then the value `mk' true` (so it prints "All Connections", see `toStr_mk_all`) -/
theorem eq_all_of_full (hc : c.Canonical) (he : ∀ pr ps, c.get pr = some ps → ps.excluded = [])
    (h : ∀ pr x, inRange x → c.den pr x) : c = ConnSet.mk' true :=
  ConnSet.eq_mk_all_of_full hc he h

theorem toStr_mk_all : (ConnSet.mk' true).toStr = "All Connections" := rfl

/-! #### the repaired `IsAll` (`portset.go`): full range, no excluded name, any named ports -/

theorem portSet_isAll_iff (p : PortSet) :
    p.isAll = true ↔ p.ports = [⟨1, 65535⟩] ∧ p.excluded = [] := PortSet.isAll_iff p

/-- `isAllConnectionsWithoutAllowAll`: three entries, each with the full range and no excluded
named port -/
theorem isAllWithoutAllowAll_iff (c : ConnSet) :
    c.isAllWithoutAllowAll = true ↔
      c.allowAll = false ∧
        ∀ pr, ∃ ps, c.get pr = some ps ∧ ps.ports = [⟨1, 65535⟩] ∧ ps.excluded = [] :=
  ConnSet.isAllWithoutAllowAll_iff c

/-- the canonicalisation step of `Union` / `AddConnection`: such a set becomes `mk' true` whatever
named ports its entries hold -/
theorem checkIfAll_of_full_entries (ha : c.allowAll = false)
    (h : ∀ pr, ∃ ps, c.get pr = some ps ∧ ps.ports = [⟨1, 65535⟩] ∧ ps.excluded = []) :
    c.checkIfAll = ConnSet.mk' true := ConnSet.checkIfAll_of_full_entries ha h

/-- `Union`: a result that covers the whole range on the three protocols and keeps no excluded
named port is All Connections, whatever named ports the operands hold -/
theorem union_eq_all_of_full (hc : c.Canonical) (hd : d.WF)
    (he : ∀ pr ps, (c.union d).get pr = some ps → ps.excluded = [])
    (h : ∀ pr x, inRange x → c.den pr x ∨ d.den pr x) : c.union d = ConnSet.mk' true :=
  ConnSet.union_eq_all_of_full hc.1 hd (fun _ => hc.2) he h

/-- with a non-empty argument plain well-formedness of the receiver is enough -/
theorem union_eq_all_of_full_of_nonempty (hc : c.WF) (hd : d.WF) (hne : d.isEmpty = false)
    (he : ∀ pr ps, (c.union d).get pr = some ps → ps.excluded = [])
    (h : ∀ pr x, inRange x → c.den pr x ∨ d.den pr x) : c.union d = ConnSet.mk' true :=
  ConnSet.union_eq_all_of_full hc hd (fun h' => by rw [hne] at h'; exact absurd h' (by decide)) he h

/-- `AddConnection`, the same -/
theorem addConnection_eq_all_of_full (hc : c.WF) (hp : ps.WF)
    (he : ∀ pr' qs, (c.addConnection pr ps).get pr' = some qs → qs.excluded = [])
    (h : ∀ pr' x, inRange x → c.den pr' x ∨ (pr' = pr ∧ CSet.memL ps.ports x)) :
    c.addConnection pr ps = ConnSet.mk' true :=
  ConnSet.addConnection_eq_all_of_full pr hc hp he h

/-- the defect replayed: `(All − {UDP http}) ∪ {UDP http}`. Before the repair the result was
`⟨false, full, ⟨full, ["http"], []⟩, full⟩`, printed "SCTP 1-65535,TCP 1-65535,UDP 1-65535,http"
and not recognised as All Connections. -/
example : ((ConnSet.mk' true).subtract exH).union exH = ConnSet.mk' true := by decide
example : (((ConnSet.mk' true).subtract exH).union exH).toStr = "All Connections" := by
  have e : ((ConnSet.mk' true).subtract exH).union exH = ConnSet.mk' true := by decide
  rw [e]; rfl
example : (ConnSet.mk' true).containedIn (((ConnSet.mk' true).subtract exH).union exH) = true ∧
    (((ConnSet.mk' true).subtract exH).union exH).equal (ConnSet.mk' true) = true := by decide
/-- the same through `AddConnection` -/
example : ((ConnSet.mk' true).subtract exH).addConnection .UDP
    ((PortSet.mk' false).addPort (.name "http")) = ConnSet.mk' true := by decide
/-- the entry recognised holds a named port: `IsAll` ignores it -/
example : (⟨[⟨1, 65535⟩], ["http"], []⟩ : PortSet).isAll = true ∧
    (⟨[⟨1, 65535⟩], [], ["http"]⟩ : PortSet).isAll = false := by decide
/-- `checkIfAll_of_full_entries` applies to the set before canonicalisation (non-vacuity) -/
example : (⟨false, some (PortSet.mk' true), some ⟨[⟨1, 65535⟩], ["http"], []⟩,
    some (PortSet.mk' true)⟩ : ConnSet).checkIfAll = ConnSet.mk' true := by
  apply checkIfAll_of_full_entries rfl
  intro pr
  cases pr
  · exact ⟨_, rfl, rfl, rfl⟩
  · exact ⟨_, rfl, rfl, rfl⟩
  · exact ⟨_, rfl, rfl, rfl⟩
/-- the hypotheses of `union_eq_all_of_full` hold on the replayed defect (non-vacuity) -/
example : ((ConnSet.mk' true).subtract exH).Canonical ∧ exH.WF ∧
    (∀ pr ps, (((ConnSet.mk' true).subtract exH).union exH).get pr = some ps → ps.excluded = []) ∧
    ∀ pr x, inRange x → ((ConnSet.mk' true).subtract exH).den pr x ∨ exH.den pr x := by
  have e : (ConnSet.mk' true).subtract exH =
      ⟨false, some (PortSet.mk' true), some ⟨[⟨1, 65535⟩], [], ["http"]⟩,
        some (PortSet.mk' true)⟩ := by decide
  have hu : ((ConnSet.mk' true).subtract exH).union exH = ConnSet.mk' true := by decide
  refine ⟨by decide, by decide, ?_, ?_⟩
  · intro pr ps hg
    rw [hu, ConnSet.get_mk'] at hg
    cases hg
  · intro pr x hx
    left
    rw [e, ConnSet.den_of_not_allowAll rfl]
    cases pr
    · exact ⟨_, rfl, (CSet.memL_full x).mpr hx⟩
    · exact ⟨_, rfl, (CSet.memL_full x).mpr hx⟩
    · exact ⟨_, rfl, (CSet.memL_full x).mpr hx⟩

theorem equal_iff_eq (c d : ConnSet) : c.equal d = true ↔ c = d := ConnSet.equal_iff_eq c d

/-- equal sets compare equal: canonical sets without named / excluded ports that denote the same
ports are the same value (so `Equal` returns true on them by `equal_iff_eq`) -/
theorem eq_of_den (hc : c.Canonical) (hd : d.Canonical)
    (hcn : ∀ pr, c.names pr = []) (hce : ∀ pr ps, c.get pr = some ps → ps.excluded = [])
    (hdn : ∀ pr, d.names pr = []) (hde : ∀ pr ps, d.get pr = some ps → ps.excluded = [])
    (h : ∀ pr x, c.den pr x ↔ d.den pr x) : c = d :=
  ConnSet.eq_of_den hc hd hcn hce hdn hde h

theorem equal_of_den (hc : c.Canonical) (hd : d.Canonical)
    (hcn : ∀ pr, c.names pr = []) (hce : ∀ pr ps, c.get pr = some ps → ps.excluded = [])
    (hdn : ∀ pr, d.names pr = []) (hde : ∀ pr ps, d.get pr = some ps → ps.excluded = [])
    (h : ∀ pr x, c.den pr x ↔ d.den pr x) : c.equal d = true :=
  (equal_iff_eq c d).mpr (eq_of_den hc hd hcn hce hdn hde h)

example : (exA.union exB).equal (exB.union exA) = true ∧ exA.equal exB = false := by decide
/-- the side conditions on named / excluded ports hold for a concrete set -/
example : (∀ pr, exA.names pr = []) ∧ ∀ pr ps, exA.get pr = some ps → ps.excluded = [] := by
  have e : exA = ⟨false, some ⟨[⟨80, 90⟩], [], []⟩, none, none⟩ := by decide
  rw [e]
  constructor
  · intro pr; cases pr <;> rfl
  · intro pr ps h
    cases pr <;> simp [ConnSet.get] at h
    subst h; rfl

/-! ### D. containment and difference are one notion

`Subtract` deletes a protocol entry exactly when its port set is `ContainedIn` the entry of the
other set (`if ports.ContainedIn(otherPorts) { delete } else { ports.subtract(otherPorts) }`), and
`ContainedIn` asks that same test of every entry. So the law "contained sets leave an empty
difference" holds for all values of the model, named and excluded ports included, with no
well-formedness hypothesis; the converse needs a hypothesis only when the receiver is the AllowAll
form. -/

/-- `TCP 1-65535` (`GetAllTCPConnections`) -/
def exT : ConnSet := ConnSet.allTCP

/-- `TCP 80,http` and `TCP 80-90,http,https`: named ports on both sides -/
def exM : ConnSet :=
  (ConnSet.mk' false).addConnection .TCP
    (((PortSet.mk' false).addPort (.num 80)).addPort (.name "http"))
def exM' : ConnSet :=
  (ConnSet.mk' false).addConnection .TCP
    ((((PortSet.mk' false).addPortRange 80 90).addPort (.name "http")).addPort (.name "https"))

/-- containment gives an empty difference. Full strength: every pair of values, named ports
included, no hypothesis (`WF` is not needed: the entry test of `Subtract` is the entry test of
`ContainedIn`, and the AllowAll receiver is contained in the AllowAll form only, whose `Subtract`
returns the empty set). -/
theorem subtract_isEmpty_of_containedIn (c d : ConnSet) (h : c.containedIn d = true) :
    (c.subtract d).isEmpty = true := ConnSet.subtract_isEmpty_of_containedIn c d h

/-- the same under the hypotheses the other C11 theorems carry (a corollary; neither is used) -/
theorem subtract_isEmpty_of_containedIn_wf (_hc : c.WF) (_hd : d.WF)
    (h : c.containedIn d = true) : (c.subtract d).isEmpty = true :=
  ConnSet.subtract_isEmpty_of_containedIn c d h

/-- receiver not in the AllowAll form: the two are the same Boolean, again for all values, named
ports included -/
theorem subtract_isEmpty_eq_containedIn_of_not_allowAll (ha : c.allowAll = false) (d : ConnSet) :
    (c.subtract d).isEmpty = c.containedIn d := ConnSet.subtract_isEmpty_eq_containedIn ha d

/-- the converse, named ports allowed on both sides. When the receiver is All Connections the
argument has to be canonical and free of excluded named ports (the hypotheses of
`containedIn_iff`): otherwise `d` can hold the full range on the three protocols, so that
`All − d` is empty, without being All Connections (see the two witnesses below). -/
theorem containedIn_of_subtract_isEmpty (hc : c.WF) (hd : d.Canonical)
    (hde : ∀ pr ps, d.get pr = some ps → ps.excluded = [])
    (h : (c.subtract d).isEmpty = true) : c.containedIn d = true :=
  ConnSet.containedIn_of_subtract_isEmpty hc hd hde h

/-- containment and an empty difference are one notion -/
theorem subtract_isEmpty_iff_containedIn (hc : c.WF) (hd : d.Canonical)
    (hde : ∀ pr ps, d.get pr = some ps → ps.excluded = []) :
    (c.subtract d).isEmpty = true ↔ c.containedIn d = true :=
  ⟨containedIn_of_subtract_isEmpty hc hd hde, subtract_isEmpty_of_containedIn c d⟩

/-- the converse under `WF` alone, for sets without named ports: false (next theorem) -/
def SubtractEmptyImpliesContainedWF : Prop :=
  ∀ c d : ConnSet, c.WF → d.WF → (∀ pr, c.names pr = []) → (∀ pr, d.names pr = []) →
    (c.subtract d).isEmpty = true → c.containedIn d = true

/-- witness: `All − fullEntries` is empty, `All.ContainedIn(fullEntries)` is false
(`fullEntries` = the three full entries without the AllowAll flag: well-formed, not canonical, no
named port) -/
theorem not_subtractEmptyImpliesContainedWF : ¬ SubtractEmptyImpliesContainedWF := by
  intro h
  have := h (ConnSet.mk' true) ConnSet.fullEntries (by decide) (by decide)
    (fun pr => by cases pr <;> rfl) (fun pr => by cases pr <;> rfl) (by decide)
  revert this
  decide

/-- the converse for canonical sets without named ports, excluded named ports allowed: false too
(next theorem) -/
def SubtractEmptyImpliesContainedCanonical : Prop :=
  ∀ c d : ConnSet, c.Canonical → d.Canonical → (∀ pr, c.names pr = []) →
    (∀ pr, d.names pr = []) → (c.subtract d).isEmpty = true → c.containedIn d = true

/-- witness: `d = All − {UDP http}` is canonical, holds no named port, has the full numeric range
on the three protocols and the excluded name `http`; `All − d` is empty (the excluded name is not
a thing `Subtract` keeps track of on the receiver's side) and `All.ContainedIn(d)` is false -/
theorem not_subtractEmptyImpliesContainedCanonical : ¬ SubtractEmptyImpliesContainedCanonical := by
  intro h
  have e : (ConnSet.mk' true).subtract exH =
      ⟨false, some (PortSet.mk' true), some ⟨[⟨1, 65535⟩], [], ["http"]⟩,
        some (PortSet.mk' true)⟩ := by decide
  have := h (ConnSet.mk' true) ((ConnSet.mk' true).subtract exH) (by decide) (by decide)
    (fun pr => by cases pr <;> rfl) (fun pr => by rw [e]; cases pr <;> rfl) (by decide)
  revert this
  decide

/-- non-vacuity of `subtract_isEmpty_of_containedIn`: a set holding a named port against the full
TCP range (the full range covers the name), both well-formed and not trivial -/
example : exN.WF ∧ exT.WF ∧ exN.isEmpty = false ∧ exT.isEmpty = false ∧ exT.allowAll = false ∧
    "http" ∈ exN.names .TCP ∧ exT = ⟨false, some ⟨[⟨1, 65535⟩], [], []⟩, none, none⟩ ∧
    exN.containedIn exT = true ∧ (exN.subtract exT).isEmpty = true := by decide
/-- named ports on both sides -/
example : exM.WF ∧ exM'.WF ∧ exM.names .TCP = ["http"] ∧ exM'.names .TCP = ["http", "https"] ∧
    exM.containedIn exM' = true ∧ (exM.subtract exM').isEmpty = true ∧
    exM'.containedIn exM = false ∧ (exM'.subtract exM).isEmpty = false := by decide
/-- the named port decides: `TCP http` against `TCP 80-90`, neither contained nor an empty
difference (the two sides of `subtract_isEmpty_eq_containedIn_of_not_allowAll` are both false) -/
example : exN.allowAll = false ∧ exN.containedIn exA = false ∧
    (exN.subtract exA).isEmpty = false := by decide
/-- non-vacuity of `containedIn_of_subtract_isEmpty` / `subtract_isEmpty_iff_containedIn` on the
same pair, and on the AllowAll receiver -/
example : exN.WF ∧ exT.Canonical ∧ (∀ pr ps, exT.get pr = some ps → ps.excluded = []) ∧
    (exN.subtract exT).isEmpty = true := by
  have e : exT = ⟨false, some ⟨[⟨1, 65535⟩], [], []⟩, none, none⟩ := by decide
  refine ⟨by decide, by decide, ?_, by decide⟩
  intro pr ps h
  rw [e] at h
  cases pr <;> simp [ConnSet.get] at h
  subst h; rfl
example : (ConnSet.mk' true).WF ∧ (ConnSet.mk' true).Canonical ∧
    (∀ pr ps, (ConnSet.mk' true).get pr = some ps → ps.excluded = []) ∧
    ((ConnSet.mk' true).subtract (ConnSet.mk' true)).isEmpty = true := by
  refine ⟨by decide, by decide, ?_, by decide⟩
  intro pr ps h
  rw [ConnSet.get_mk'] at h
  cases h
/-- the two witnesses, as values -/
example : ((ConnSet.mk' true).subtract ConnSet.fullEntries).isEmpty = true ∧
    (ConnSet.mk' true).containedIn ConnSet.fullEntries = false ∧ ConnSet.fullEntries.WF ∧
    ¬ ConnSet.fullEntries.Canonical := by decide
example : ((ConnSet.mk' true).subtract ((ConnSet.mk' true).subtract exH)).isEmpty = true ∧
    (ConnSet.mk' true).containedIn ((ConnSet.mk' true).subtract exH) = false ∧
    ((ConnSet.mk' true).subtract exH).Canonical := by decide

end Netpol.Properties.C11
