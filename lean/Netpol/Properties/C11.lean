import Netpol.Model.ConnSet
namespace Netpol.Properties.C11
open Netpol

/-- placeholder until the interval-layer theorems are in -/
theorem mk_all_contains (pr : Proto) (p : Int) : (ConnSet.mk' true).contains pr p = true := by
  simp [ConnSet.mk', ConnSet.contains]

end Netpol.Properties.C11
