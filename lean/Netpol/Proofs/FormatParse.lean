import Netpol.Proofs.FormatLayer
/-! Parse-back of the output formats (`Model/Format.lean`): for every format a function from the output text to the
table of rows, and the proof that it inverts the renderer on tables whose fields are well-formed for that format
(decidable conditions: no newline, no field separator of the format, no character the format would escape).
Everything is done on `List Char` (`String.toList`); the parsers are specification devices, not models of Go code. -/
namespace Netpol
namespace Format
open List

-- ------------------------------------------------------------------------------------------
-- D. characters: prefixes, fields, lines

section Chars

/-- the rest after a literal prefix -/
def stripPrefix : List Char → List Char → Option (List Char)
  | [], l => some l
  | _ :: _, [] => none
  | c :: p, d :: l => if c = d then stripPrefix p l else none

theorem stripPrefix_append (p l : List Char) : stripPrefix p (p ++ l) = some l := by
  induction p with
  | nil => rfl
  | cons c p ih => simp [stripPrefix, ih]

/-- the characters before the first `c`, and the rest (starting with that `c`, or empty) -/
def untilChar (c : Char) : List Char → List Char × List Char
  | [] => ([], [])
  | x :: xs => if x = c then ([], x :: xs) else ((untilChar c xs).1.cons x, (untilChar c xs).2)

theorem untilChar_append {c : Char} {f : List Char} (h : c ∉ f) (rest : List Char) :
    untilChar c (f ++ c :: rest) = (f, c :: rest) := by
  induction f with
  | nil => simp [untilChar]
  | cons x xs ih =>
    have hx : x ≠ c := fun e => h (e ▸ mem_cons_self)
    have hxs : c ∉ xs := fun m => h (mem_cons_of_mem _ m)
    simp [untilChar, hx, ih hxs]

theorem untilChar_of_not_mem {c : Char} {f : List Char} (h : c ∉ f) : untilChar c f = (f, []) := by
  induction f with
  | nil => rfl
  | cons x xs ih =>
    have hx : x ≠ c := fun e => h (e ▸ mem_cons_self)
    have hxs : c ∉ xs := fun m => h (mem_cons_of_mem _ m)
    simp [untilChar, hx, ih hxs]

theorem splitOnChar_ne_nil (c : Char) (l : List Char) : splitOnChar c l ≠ [] := by
  induction l with
  | nil => simp [splitOnChar]
  | cons x xs ih =>
    unfold splitOnChar
    split
    · simp
    · split <;> simp

theorem splitOnChar_of_not_mem {c : Char} {l : List Char} (h : c ∉ l) : splitOnChar c l = [l] := by
  induction l with
  | nil => rfl
  | cons x xs ih =>
    have hx : x ≠ c := fun e => h (e ▸ mem_cons_self)
    have hxs : c ∉ xs := fun m => h (mem_cons_of_mem _ m)
    simp [splitOnChar, hx, ih hxs]

theorem splitOnChar_append {c : Char} {l : List Char} (h : c ∉ l) (rest : List Char) :
    splitOnChar c (l ++ c :: rest) = l :: splitOnChar c rest := by
  induction l with
  | nil => simp [splitOnChar]
  | cons x xs ih =>
    have hx : x ≠ c := fun e => h (e ▸ mem_cons_self)
    have hxs : c ∉ xs := fun m => h (mem_cons_of_mem _ m)
    simp [splitOnChar, hx, ih hxs]

/-- `strings.Split(strings.Join(ls, c), c) = ls` for a non-empty list of pieces without `c` -/
theorem splitOnChar_intercalate {c : Char} : ∀ {ls : List (List Char)}, ls ≠ [] → (∀ l ∈ ls, c ∉ l) →
    splitOnChar c ([c].intercalate ls) = ls
  | [], h, _ => absurd rfl h
  | [l], _, hf => by
    rw [intercalate_singleton]
    exact splitOnChar_of_not_mem (hf l mem_cons_self)
  | l :: l' :: ls, _, hf => by
    rw [intercalate_cons_cons, append_assoc, singleton_append, splitOnChar_append (hf l mem_cons_self)]
    rw [splitOnChar_intercalate (cons_ne_nil _ _) (fun x hx => hf x (mem_cons_of_mem _ hx))]

/-- a piece holding the separator is two pieces -/
theorem intercalate_split_head (c : Char) (a b : List Char) (ls : List (List Char)) :
    [c].intercalate ((a ++ c :: b) :: ls) = [c].intercalate (a :: b :: ls) := by
  cases ls with
  | nil => simp [intercalate_cons_cons, intercalate_singleton]
  | cons l ls => simp [intercalate_cons_cons]

theorem intercalate_append_singleton_nil (c : Char) {ls : List (List Char)} (h : ls ≠ []) :
    [c].intercalate (ls ++ [[]]) = [c].intercalate ls ++ [c] := by
  induction ls with
  | nil => exact absurd rfl h
  | cons l ls ih =>
    cases ls with
    | nil => simp [intercalate_cons_cons, intercalate_singleton]
    | cons l' ls =>
      rw [cons_append, cons_append, intercalate_cons_cons, intercalate_cons_cons, ← cons_append, ih (cons_ne_nil _ _)]
      simp

/-- the lines of a text -/
def linesOf (s : String) : List (List Char) := splitOnChar '\n' s.toList

def NoNL (s : String) : Prop := '\n' ∉ s.toList
instance (s : String) : Decidable (NoNL s) := by unfold NoNL; infer_instance

theorem linesOf_intercalate {ls : List String} (hne : ls ≠ []) (h : ∀ l ∈ ls, NoNL l) :
    linesOf ("\n".intercalate ls) = ls.map String.toList := by
  unfold linesOf
  rw [String.toList_intercalate]
  have : "\n".toList = ['\n'] := by simp
  rw [this]
  apply splitOnChar_intercalate
  · simpa using hne
  · intro l hl
    obtain ⟨s, hs, rfl⟩ := mem_map.mp hl
    exact h s hs

/-- lines joined by newlines with a final newline: an empty list gives the single empty line -/
theorem linesOf_intercalate_nl {ls : List String} (hne : ls ≠ []) (h : ∀ l ∈ ls, NoNL l) :
    linesOf ("\n".intercalate ls ++ "\n") = ls.map String.toList ++ [[]] := by
  unfold linesOf
  rw [String.toList_append, String.toList_intercalate]
  have : "\n".toList = ['\n'] := by simp
  rw [this, ← intercalate_append_singleton_nil '\n' (by simpa using hne)]
  apply splitOnChar_intercalate
  · simp
  · intro l hl
    rcases mem_append.mp hl with hl | hl
    · obtain ⟨s, hs, rfl⟩ := mem_map.mp hl
      exact h s hs
    · simp at hl; subst hl; simp

/-- parse every element, fail if one fails -/
def parseAll {α β : Type} (f : β → Option α) : List β → Option (List α)
  | [] => some []
  | x :: xs =>
    match f x, parseAll f xs with
    | some a, some as => some (a :: as)
    | _, _ => none

theorem parseAll_map {α β : Type} (f : β → Option α) (g : α → β) (l : List α) (h : ∀ a ∈ l, f (g a) = some a) :
    parseAll f (l.map g) = some l := by
  induction l with
  | nil => rfl
  | cons a as ih =>
    simp [parseAll, h a mem_cons_self, ih (fun x hx => h x (mem_cons_of_mem _ hx))]

end Chars
-- ------------------------------------------------------------------------------------------
-- D1. list / txt

section Txt

/-- the characters of `cs` do not occur in `s` -/
def Free (cs : List Char) (s : String) : Prop := ∀ c ∈ cs, c ∉ s.toList
instance (cs : List Char) (s : String) : Decidable (Free cs s) := by unfold Free; infer_instance

theorem Free.noNL {cs : List Char} {s : String} (h : Free cs s) (hm : '\n' ∈ cs) : NoNL s := h _ hm

/-- `SRC => DST : CONN` with blank-free SRC and DST -/
def parseTxtLine (l : List Char) : Option Row :=
  let a := untilChar ' ' l
  match stripPrefix " => ".toList a.2 with
  | none => none
  | some r2 =>
    let b := untilChar ' ' r2
    match stripPrefix " : ".toList b.2 with
    | none => none
    | some conn => some ⟨String.ofList a.1, String.ofList b.1, String.ofList conn⟩

/-- what the txt format needs of a row to be read back: no blank in the peer strings, no newline anywhere -/
def Row.TxtWF (r : Row) : Prop := Free [' ', '\n'] r.src ∧ Free [' ', '\n'] r.dst ∧ Free ['\n'] r.conn
instance (r : Row) : Decidable r.TxtWF := by unfold Row.TxtWF; infer_instance

theorem parseTxtLine_txtLine {r : Row} (h : r.TxtWF) : parseTxtLine r.txtLine.toList = some r := by
  obtain ⟨h1, h2, _⟩ := h
  have hs : ' ' ∉ r.src.toList := h1 ' ' (by simp)
  have hd : ' ' ∉ r.dst.toList := h2 ' ' (by simp)
  have e : r.txtLine.toList = r.src.toList ++ ' ' :: ("=> ".toList ++ (r.dst.toList ++ ' ' :: (": ".toList ++ r.conn.toList))) := by
    simp [Row.txtLine, String.toList_append]
  unfold parseTxtLine
  rw [e, untilChar_append hs]
  have p1 : ∀ x, stripPrefix " => ".toList (' ' :: ("=> ".toList ++ x)) = some x := by
    intro x; exact stripPrefix_append " => ".toList x
  simp only [p1, untilChar_append hd]
  have p2 : ∀ x, stripPrefix " : ".toList (' ' :: (": ".toList ++ x)) = some x := by
    intro x; exact stripPrefix_append " : ".toList x
  simp only [p2, String.ofList_toList]

theorem Row.txtLine_noNL {r : Row} (h : r.TxtWF) : NoNL r.txtLine := by
  obtain ⟨h1, h2, h3⟩ := h
  have a := h1 '\n' (by simp); have b := h2 '\n' (by simp); have c := h3 '\n' (by simp)
  simp [NoNL, Row.txtLine, String.toList_append, a, b, c]

theorem Row.txtLine_ne_nil (r : Row) : r.txtLine.toList ≠ [] := by
  simp [Row.txtLine, String.toList_append]

/-- the rows of a txt output -/
def parseTxt (s : String) : Option (List Row) := parseAll parseTxtLine ((linesOf s).filter (!·.isEmpty))

/-- the txt renderer is inverted by `parseTxt` on well-formed rows -/
theorem parseTxt_renderTxt {rows : List Row} (h : ∀ r ∈ rows, r.TxtWF) : parseTxt (renderTxt rows) = some rows := by
  unfold parseTxt renderTxt
  cases hr : rows with
  | nil =>
    have : linesOf "\n" = [[], []] := by simp [linesOf, splitOnChar]
    simp [this, parseAll]
  | cons r rs =>
    rw [← hr, linesOf_intercalate_nl (by simp [hr])]
    · have hf : ((rows.map Row.txtLine).map String.toList ++ [[]]).filter (!·.isEmpty) = rows.map (fun r => r.txtLine.toList) := by
        rw [filter_append, map_map]
        have : ([([] : List Char)].filter (!·.isEmpty)) = [] := by simp
        rw [this, append_nil]
        apply filter_eq_self.mpr
        intro l hl
        obtain ⟨x, _, rfl⟩ := mem_map.mp hl
        simpa using Row.txtLine_ne_nil x
      rw [hf]
      exact parseAll_map _ _ _ (fun a ha => parseTxtLine_txtLine (h a ha))
    · intro l hl
      obtain ⟨x, hx, rfl⟩ := mem_map.mp hl
      exact Row.txtLine_noNL (h x hx)

end Txt

-- ------------------------------------------------------------------------------------------
-- D2. markdown rows (list and diff)

section Md

def pad (f : List Char) : List Char := ' ' :: f ++ [' ']

def unpad : List Char → Option (List Char)
  | [] => none
  | c :: rest => if c = ' ' ∧ rest.getLast? = some ' ' then some rest.dropLast else none

theorem unpad_pad (f : List Char) : unpad (pad f) = some f := by
  simp [unpad, pad]

/-- `| f1 | f2 | … |` -/
def mdCells (fields : List (List Char)) : List Char := ['|'].intercalate ([] :: fields.map pad ++ [[]])

def parseMdCells (l : List Char) : Option (List (List Char)) :=
  match splitOnChar '|' l with
  | [] :: rest => if rest.getLast? = some [] then parseAll unpad rest.dropLast else none
  | _ => none

theorem parseMdCells_mdCells {fs : List (List Char)} (h : ∀ f ∈ fs, '|' ∉ f) : parseMdCells (mdCells fs) = some fs := by
  unfold parseMdCells mdCells
  rw [splitOnChar_intercalate (by simp)]
  · simp only [cons_append, getLast?_append, getLast?_singleton, Option.some_or, ↓reduceIte, dropLast_concat]
    exact parseAll_map unpad pad fs (fun a _ => unpad_pad a)
  · intro l hl
    simp only [cons_append, mem_cons, mem_append, mem_map] at hl
    rcases hl with rfl | ⟨f, hf, rfl⟩ | rfl | hl
    · simp
    · have := h f hf
      simp [pad, this]
    · simp
    · cases hl

theorem mem_intercalate_singleton {c x : Char} : ∀ {ls : List (List Char)}, x ∈ [c].intercalate ls →
    x = c ∨ ∃ l ∈ ls, x ∈ l
  | [], h => by simp [intercalate_nil] at h
  | [l], h => by
    rw [intercalate_singleton] at h
    exact Or.inr ⟨l, mem_cons_self, h⟩
  | l :: l' :: ls, h => by
    rw [intercalate_cons_cons] at h
    simp only [mem_append, mem_singleton] at h
    rcases h with (h | h) | h
    · exact Or.inr ⟨l, mem_cons_self, h⟩
    · exact Or.inl h
    · rcases mem_intercalate_singleton h with h | ⟨m, hm, hx⟩
      · exact Or.inl h
      · exact Or.inr ⟨m, mem_cons_of_mem _ hm, hx⟩

theorem mdCells_noNL {fs : List (List Char)} (h : ∀ f ∈ fs, '\n' ∉ f) : '\n' ∉ mdCells fs := by
  unfold mdCells
  intro hm
  rcases mem_intercalate_singleton hm with hc | ⟨l, hl, hx⟩
  · exact absurd hc (by decide)
  · simp only [cons_append, mem_cons, mem_append, mem_map] at hl
    rcases hl with rfl | ⟨f, hf, rfl⟩ | rfl | hl
    · cases hx
    · have := h f hf
      simp [pad, this] at hx
    · cases hx
    · cases hl

theorem Row.md_toList (r : Row) : r.md.toList = mdCells [r.src.toList, r.dst.toList, r.conn.toList] := by
  simp [Row.md, mdCells, pad, String.toList_append, intercalate_cons_cons, intercalate_singleton]

def parseMdLine (l : List Char) : Option Row :=
  match parseMdCells l with
  | some [a, b, c] => some ⟨String.ofList a, String.ofList b, String.ofList c⟩
  | _ => none

/-- what the md format needs of a row: no `|` and no newline in a field -/
def Row.MdWF (r : Row) : Prop := Free ['|', '\n'] r.src ∧ Free ['|', '\n'] r.dst ∧ Free ['|', '\n'] r.conn
instance (r : Row) : Decidable r.MdWF := by unfold Row.MdWF; infer_instance

theorem parseMdLine_md {r : Row} (h : r.MdWF) : parseMdLine r.md.toList = some r := by
  obtain ⟨h1, h2, h3⟩ := h
  unfold parseMdLine
  rw [Row.md_toList, parseMdCells_mdCells]
  · simp
  · intro f hf
    simp only [mem_cons, not_mem_nil, or_false] at hf
    rcases hf with rfl | rfl | rfl
    · exact h1 '|' (by simp)
    · exact h2 '|' (by simp)
    · exact h3 '|' (by simp)

theorem Row.md_noNL {r : Row} (h : r.MdWF) : NoNL r.md := by
  obtain ⟨h1, h2, h3⟩ := h
  unfold NoNL
  rw [Row.md_toList]
  apply mdCells_noNL
  intro f hf
  simp only [mem_cons, not_mem_nil, or_false] at hf
  rcases hf with rfl | rfl | rfl
  · exact h1 '\n' (by simp)
  · exact h2 '\n' (by simp)
  · exact h3 '\n' (by simp)

def mdHeader1 : String := "| src | dst | conn |"
def mdHeader2 : String := "|-----|-----|------|"

theorem mdHeader_eq : mdHeader = mdHeader1 ++ ("\n" ++ mdHeader2) := by decide

/-- the rows of an md output -/
def parseMd (s : String) : Option (List Row) :=
  match linesOf s with
  | h1 :: h2 :: rest =>
    if h1 = mdHeader1.toList ∧ h2 = mdHeader2.toList ∧ rest.getLast? = some [] then parseAll parseMdLine rest.dropLast else none
  | _ => none

theorem intercalate_header2 (h1 h2 : String) (ls : List String) :
    "\n".intercalate ((h1 ++ ("\n" ++ h2)) :: ls) = "\n".intercalate (h1 :: h2 :: ls) := by
  rw [String.intercalate_cons_append, String.intercalate_cons_append, String.intercalate_cons_cons]
  simp [String.append_assoc]

theorem parseMd_renderMd {rows : List Row} (h : ∀ r ∈ rows, r.MdWF) : parseMd (renderMd rows) = some rows := by
  unfold parseMd renderMd
  rw [mdHeader_eq, intercalate_header2, linesOf_intercalate_nl (by simp)]
  · simp only [map_cons, cons_append, true_and, getLast?_append, getLast?_singleton, Option.some_or, ↓reduceIte,
      dropLast_concat, map_map]
    exact parseAll_map parseMdLine (String.toList ∘ Row.md) rows (fun a ha => parseMdLine_md (h a ha))
  · intro l hl
    simp only [mem_cons, mem_map] at hl
    rcases hl with rfl | rfl | ⟨x, hx, rfl⟩
    · decide
    · decide
    · exact Row.md_noNL (h x hx)

end Md

-- ------------------------------------------------------------------------------------------
-- D3. csv records (list and diff)

section Csv

def consHead (f : List Char) : List (List Char) → List (List Char)
  | x :: xs => (f ++ x) :: xs
  | [] => [f]

theorem consHead_consHead (a b : List Char) (L : List (List Char)) : consHead a (consHead b L) = consHead (a ++ b) L := by
  cases L <;> simp [consHead]

/-- the fields of one csv line; a quote toggles the quoted state (fields with embedded quotes are outside the
well-formedness condition) -/
def csvSplit : List Char → Bool → List (List Char)
  | [], _ => [[]]
  | c :: cs, inQ =>
    if c = '"' then csvSplit cs (!inQ)
    else if c = ',' ∧ inQ = false then [] :: csvSplit cs false
    else consHead [c] (csvSplit cs inQ)

theorem csvSplit_ne_nil (l : List Char) (q : Bool) : csvSplit l q ≠ [] := by
  induction l generalizing q with
  | nil => simp [csvSplit]
  | cons c cs ih =>
    unfold csvSplit
    split
    · exact ih _
    · split
      · simp
      · cases h : csvSplit cs q with
        | nil => exact absurd h (ih q)
        | cons x xs => simp [consHead]

theorem consHead_nil {L : List (List Char)} (h : L ≠ []) : consHead [] L = L := by
  cases L with
  | nil => exact absurd rfl h
  | cons x xs => simp [consHead]

theorem csvSplit_quoted {f : List Char} (h : '"' ∉ f) (rest : List Char) :
    csvSplit (f ++ '"' :: rest) true = consHead f (csvSplit rest false) := by
  induction f with
  | nil => simp [csvSplit, consHead_nil (csvSplit_ne_nil rest false)]
  | cons x xs ih =>
    have hx : x ≠ '"' := fun e => h (e ▸ mem_cons_self)
    have hxs : '"' ∉ xs := fun m => h (mem_cons_of_mem _ m)
    simp [csvSplit, hx, ih hxs, consHead_consHead]

theorem csvSplit_plain {f : List Char} (h : '"' ∉ f) (h' : ',' ∉ f) (rest : List Char) :
    csvSplit (f ++ rest) false = consHead f (csvSplit rest false) := by
  induction f with
  | nil => simp [consHead_nil (csvSplit_ne_nil rest false)]
  | cons x xs ih =>
    have hx : x ≠ '"' := fun e => h (e ▸ mem_cons_self)
    have hxs : '"' ∉ xs := fun m => h (mem_cons_of_mem _ m)
    have hx' : x ≠ ',' := fun e => h' (e ▸ mem_cons_self)
    have hxs' : ',' ∉ xs := fun m => h' (mem_cons_of_mem _ m)
    simp [csvSplit, hx, hx', ih hxs hxs', consHead_consHead]

theorem flatMap_quote_id {f : List Char} (h : '"' ∉ f) : f.flatMap (fun c => if c = '"' then ['"', '"'] else [c]) = f := by
  induction f with
  | nil => rfl
  | cons x xs ih =>
    have hx : x ≠ '"' := fun e => h (e ▸ mem_cons_self)
    have hxs : '"' ∉ xs := fun m => h (mem_cons_of_mem _ m)
    simp [flatMap_cons, hx, ih hxs]

theorem csvNeedsQuotes_false {f : String} (h : csvNeedsQuotes f = false) : ',' ∉ f.toList := by
  unfold csvNeedsQuotes at h
  split at h
  · rename_i he
    have : f = "" := by simpa using he
    simp [this]
  · split at h
    · cases h
    · simp only [Bool.or_eq_false_iff, any_eq_false] at h
      intro hm
      have := h.1 ',' hm
      simp at this

/-- one written field is read back, whatever follows -/
theorem csvSplit_csvField {f : String} (h : '"' ∉ f.toList) (rest : List Char) :
    csvSplit ((csvField f).toList ++ rest) false = consHead f.toList (csvSplit rest false) := by
  unfold csvField
  cases hq : csvNeedsQuotes f
  · simp only [Bool.false_eq_true, ↓reduceIte]
    exact csvSplit_plain h (csvNeedsQuotes_false hq) rest
  · simp only [↓reduceIte, String.toList_ofList, flatMap_quote_id h, cons_append, append_assoc]
    rw [csvSplit]
    simp only [↓reduceIte, Bool.not_false]
    exact csvSplit_quoted h rest

/-- a record without its newline -/
def csvLine (fs : List String) : String := ",".intercalate (fs.map csvField)

theorem csvRecord_eq (fs : List String) : csvRecord fs = csvLine fs ++ "\n" := rfl

theorem csvSplit_csvLine : ∀ {fs : List String}, fs ≠ [] → (∀ f ∈ fs, '"' ∉ f.toList) →
    csvSplit (csvLine fs).toList false = fs.map String.toList
  | [], h, _ => absurd rfl h
  | [f], _, hq => by
    have := csvSplit_csvField (hq f mem_cons_self) []
    simpa [csvLine, csvSplit, consHead] using this
  | f :: f' :: fs, _, hq => by
    have ih := csvSplit_csvLine (cons_ne_nil f' fs) (fun x hx => hq x (mem_cons_of_mem _ hx))
    have e : (csvLine (f :: f' :: fs)).toList = (csvField f).toList ++ ',' :: (csvLine (f' :: fs)).toList := by
      simp [csvLine, String.toList_append]
    rw [e, csvSplit_csvField (hq f mem_cons_self), csvSplit]
    simp [ih, consHead]

theorem csvField_noNL {f : String} (h : NoNL f) : NoNL (csvField f) := by
  unfold csvField NoNL at *
  split
  · intro hm
    simp only [String.toList_ofList, mem_cons, mem_append, mem_flatMap, not_mem_nil, or_false] at hm
    rcases hm with (hm | ⟨c, hc, hm⟩) | hm
    · exact absurd hm (by decide)
    · split at hm
      · simp at hm
      · simp only [mem_cons, not_mem_nil, or_false] at hm
        exact h (hm ▸ hc)
    · exact absurd hm (by decide)
  · exact h

theorem csvLine_noNL {fs : List String} (h : ∀ f ∈ fs, NoNL f) : NoNL (csvLine fs) := by
  unfold csvLine NoNL
  rw [String.toList_intercalate]
  have : ",".toList = [','] := by simp
  rw [this]
  intro hm
  rcases mem_intercalate_singleton hm with hc | ⟨l, hl, hx⟩
  · exact absurd hc (by decide)
  · simp only [map_map, mem_map, Function.comp] at hl
    obtain ⟨f, hf, rfl⟩ := hl
    exact csvField_noNL (h f hf) hx

/-- records written one after the other are the lines joined by newlines, plus a final newline -/
theorem join_records : ∀ {ls : List String}, ls ≠ [] → String.join (ls.map (· ++ "\n")) = "\n".intercalate ls ++ "\n"
  | [], h => absurd rfl h
  | [l], _ => by simp
  | l :: l' :: ls, _ => by
    have ih := join_records (cons_ne_nil l' ls)
    rw [map_cons, String.join_cons, ih, String.intercalate_cons_cons]
    simp [String.append_assoc]

def parseCsvLine (l : List Char) : Option Row :=
  match csvSplit l false with
  | [a, b, c] => some ⟨String.ofList a, String.ofList b, String.ofList c⟩
  | _ => none

/-- what the csv format needs of a row: no quote and no newline in a field (commas are fine) -/
def Row.CsvWF (r : Row) : Prop := Free ['"', '\n'] r.src ∧ Free ['"', '\n'] r.dst ∧ Free ['"', '\n'] r.conn
instance (r : Row) : Decidable r.CsvWF := by unfold Row.CsvWF; infer_instance

def Row.csvFields (r : Row) : List String := [r.src, r.dst, r.conn]

theorem Row.csv_eq (r : Row) : r.csv = csvLine r.csvFields ++ "\n" := rfl

theorem Row.csvFields_free {r : Row} (h : r.CsvWF) (c : Char) (hc : c ∈ ['"', '\n']) : ∀ f ∈ r.csvFields, c ∉ f.toList := by
  obtain ⟨h1, h2, h3⟩ := h
  intro f hf
  simp only [Row.csvFields, mem_cons, not_mem_nil, or_false] at hf
  rcases hf with rfl | rfl | rfl
  · exact h1 c hc
  · exact h2 c hc
  · exact h3 c hc

theorem parseCsvLine_csvLine {r : Row} (h : r.CsvWF) : parseCsvLine (csvLine r.csvFields).toList = some r := by
  unfold parseCsvLine
  rw [csvSplit_csvLine (by simp [Row.csvFields]) (Row.csvFields_free h '"' (by simp))]
  simp [Row.csvFields]

def csvHeader : List String := ["src", "dst", "conn"]

/-- the rows of a csv output -/
def parseCsv (s : String) : Option (List Row) :=
  match linesOf s with
  | h :: rest =>
    if csvSplit h false = csvHeader.map String.toList ∧ rest.getLast? = some [] then parseAll parseCsvLine rest.dropLast else none
  | [] => none

theorem renderCsv_eq (rows : List Row) :
    renderCsv rows = "\n".intercalate (csvLine csvHeader :: rows.map fun r => csvLine r.csvFields) ++ "\n" := by
  unfold renderCsv
  rw [← join_records (cons_ne_nil _ _)]
  simp only [map_cons, map_map]
  rfl

theorem parseCsv_renderCsv {rows : List Row} (h : ∀ r ∈ rows, r.CsvWF) : parseCsv (renderCsv rows) = some rows := by
  unfold parseCsv
  rw [renderCsv_eq, linesOf_intercalate_nl (cons_ne_nil _ _)]
  · simp only [map_cons, cons_append, getLast?_append, getLast?_singleton, Option.some_or, dropLast_concat, map_map]
    rw [csvSplit_csvLine (by simp [csvHeader]) (by decide)]
    simp only [and_self, ↓reduceIte]
    exact parseAll_map parseCsvLine _ rows (fun a ha => parseCsvLine_csvLine (h a ha))
  · intro l hl
    simp only [mem_cons, mem_map] at hl
    rcases hl with rfl | ⟨x, hx, rfl⟩
    · decide
    · exact csvLine_noNL (Row.csvFields_free (h x hx) '\n' (by simp))

end Csv

-- ------------------------------------------------------------------------------------------
-- D4. list / json

section Json

/-- no character that `encoding/json` escapes (quote, backslash, control characters, `<`, `>`, `&`, U+2028/9) -/
def JsonPlain (s : String) : Prop := ∀ c ∈ s.toList, jsonChar c = [c]
instance (s : String) : Decidable (JsonPlain s) := by unfold JsonPlain; infer_instance

theorem flatMap_id_of {f : Char → List Char} {l : List Char} (h : ∀ c ∈ l, f c = [c]) : l.flatMap f = l := by
  induction l with
  | nil => rfl
  | cons x xs ih =>
    simp [flatMap_cons, h x mem_cons_self, ih (fun c hc => h c (mem_cons_of_mem _ hc))]

theorem jsonStr_plain {s : String} (h : JsonPlain s) : (jsonStr s).toList = '"' :: s.toList ++ ['"'] := by
  simp [jsonStr, flatMap_id_of h]

theorem JsonPlain.noQuote {s : String} (h : JsonPlain s) : '"' ∉ s.toList := by
  intro hm
  have := h _ hm
  revert this
  decide

theorem JsonPlain.noNL {s : String} (h : JsonPlain s) : NoNL s := by
  intro hm
  have := h _ hm
  revert this
  decide

def jsonKV (key : String) (v : String) (comma : Bool) : String :=
  "    \"" ++ key ++ "\": " ++ jsonStr v ++ (if comma then "," else "")

/-- the lines of the array elements; every element but the last ends in `},` -/
def jsonBody : List Row → List String
  | [] => []
  | [r] => ["  {", jsonKV "src" r.src true, jsonKV "dst" r.dst true, jsonKV "conn" r.conn false, "  }"]
  | r :: r' :: rs =>
    ["  {", jsonKV "src" r.src true, jsonKV "dst" r.dst true, jsonKV "conn" r.conn false, "  },"] ++ jsonBody (r' :: rs)

theorem Row.json_eq (r : Row) :
    r.json = "\n".intercalate ["  {", jsonKV "src" r.src true, jsonKV "dst" r.dst true, jsonKV "conn" r.conn false, "  }"] := by
  unfold Row.json jsonKV
  apply String.toList_injective
  simp [String.toList_append]

theorem jsonBody_ne_nil {rows : List Row} (h : rows ≠ []) : jsonBody rows ≠ [] := by
  match rows, h with
  | [r], _ => simp [jsonBody]
  | r :: r' :: rs, _ => simp [jsonBody]

theorem intercalate_json : ∀ {rows : List Row}, rows ≠ [] →
    ",\n".intercalate (rows.map Row.json) = "\n".intercalate (jsonBody rows)
  | [], h => absurd rfl h
  | [r], _ => by simp [jsonBody, Row.json_eq]
  | r :: r' :: rs, _ => by
    have ih := intercalate_json (cons_ne_nil r' rs)
    rw [map_cons, map_cons, String.intercalate_cons_cons, ← map_cons, ih, jsonBody]
    obtain ⟨x, xs, hx⟩ := exists_cons_of_ne_nil (jsonBody_ne_nil (cons_ne_nil r' rs))
    rw [hx, Row.json_eq]
    apply String.toList_injective
    simp [String.toList_append]

theorem renderJson_eq {rows : List Row} (h : rows ≠ []) :
    renderJson rows = "\n".intercalate ("[" :: jsonBody rows ++ ["]"]) := by
  unfold renderJson
  have : rows.isEmpty = false := by cases rows <;> simp_all
  rw [this]
  simp only [Bool.false_eq_true, ↓reduceIte]
  rw [intercalate_json h]
  obtain ⟨x, xs, hx⟩ := exists_cons_of_ne_nil (jsonBody_ne_nil h)
  rw [hx, String.intercalate_append_of_ne_nil (cons_ne_nil _ _) (cons_ne_nil _ _), String.intercalate_cons_cons]
  apply String.toList_injective
  simp [String.toList_append]

def parseJsonKV (key : String) (comma : Bool) (l : List Char) : Option (List Char) :=
  match stripPrefix ("    \"" ++ key ++ "\": \"").toList l with
  | none => none
  | some r =>
    let a := untilChar '"' r
    if a.2 = (if comma then "\",".toList else "\"".toList) then some a.1 else none

theorem parseJsonKV_jsonKV (key : String) {v : String} (h : JsonPlain v) (comma : Bool) :
    parseJsonKV key comma (jsonKV key v comma).toList = some v.toList := by
  unfold parseJsonKV
  have e : (jsonKV key v comma).toList =
      ("    \"" ++ key ++ "\": \"").toList ++ (v.toList ++ '"' :: (if comma then [','] else [])) := by
    cases comma <;> simp [jsonKV, String.toList_append, jsonStr_plain h]
  rw [e, stripPrefix_append]
  simp only [untilChar_append h.noQuote]
  cases comma <;> simp

theorem jsonKV_noNL (key : String) (hk : NoNL key) {v : String} (h : JsonPlain v) (comma : Bool) : NoNL (jsonKV key v comma) := by
  have := h.noNL
  unfold NoNL at *
  cases comma <;> simp [jsonKV, String.toList_append, jsonStr_plain h, this, hk]

def parseJsonBody : List (List Char) → Option (List Row)
  | [l] => if l = "]".toList then some [] else none
  | l1 :: l2 :: l3 :: l4 :: l5 :: rest =>
    if l1 = "  {".toList ∧ (l5 = "  },".toList ∨ l5 = "  }".toList) then
      match parseJsonKV "src" true l2, parseJsonKV "dst" true l3, parseJsonKV "conn" false l4, parseJsonBody rest with
      | some s, some d, some c, some rs => some (⟨String.ofList s, String.ofList d, String.ofList c⟩ :: rs)
      | _, _, _, _ => none
    else none
  | _ => none

/-- the rows of a json output (as `json.MarshalIndent` lays it out) -/
def parseJson (s : String) : Option (List Row) :=
  match linesOf s with
  | [l] => if l = "[]".toList then some [] else none
  | l :: rest => if l = "[".toList then parseJsonBody rest else none
  | [] => none

/-- what the json format needs of a row: no character that would be escaped -/
def Row.JsonWF (r : Row) : Prop := JsonPlain r.src ∧ JsonPlain r.dst ∧ JsonPlain r.conn
instance (r : Row) : Decidable r.JsonWF := by unfold Row.JsonWF; infer_instance

theorem parseJsonBody_jsonBody : ∀ {rows : List Row}, (∀ r ∈ rows, r.JsonWF) →
    parseJsonBody ((jsonBody rows).map String.toList ++ ["]".toList]) = some rows
  | [], _ => by simp [jsonBody, parseJsonBody]
  | [r], h => by
    obtain ⟨h1, h2, h3⟩ := h r mem_cons_self
    simp [jsonBody, parseJsonBody, parseJsonKV_jsonKV, h1, h2, h3]
  | r :: r' :: rs, h => by
    obtain ⟨h1, h2, h3⟩ := h r mem_cons_self
    have ih := parseJsonBody_jsonBody (fun x hx => h x (mem_cons_of_mem _ hx) : ∀ x ∈ r' :: rs, x.JsonWF)
    rw [jsonBody]
    simp only [map_cons, cons_append, nil_append]
    unfold parseJsonBody
    have e : "]".toList = [']'] := by simp
    rw [e] at ih
    simp [parseJsonKV_jsonKV, h1, h2, h3, ih]

theorem jsonBody_noNL : ∀ {rows : List Row}, (∀ r ∈ rows, r.JsonWF) → ∀ l ∈ jsonBody rows, NoNL l
  | [], _ => by simp [jsonBody]
  | [r], h => by
    obtain ⟨h1, h2, h3⟩ := h r mem_cons_self
    intro l hl
    simp only [jsonBody, mem_cons, not_mem_nil, or_false] at hl
    rcases hl with rfl | rfl | rfl | rfl | rfl
    · decide
    · exact jsonKV_noNL _ (by decide) h1 _
    · exact jsonKV_noNL _ (by decide) h2 _
    · exact jsonKV_noNL _ (by decide) h3 _
    · decide
  | r :: r' :: rs, h => by
    obtain ⟨h1, h2, h3⟩ := h r mem_cons_self
    have ih := jsonBody_noNL (fun x hx => h x (mem_cons_of_mem _ hx) : ∀ x ∈ r' :: rs, x.JsonWF)
    intro l hl
    rw [jsonBody] at hl
    simp only [cons_append, nil_append, mem_cons] at hl
    rcases hl with rfl | rfl | rfl | rfl | rfl | hl
    · decide
    · exact jsonKV_noNL _ (by decide) h1 _
    · exact jsonKV_noNL _ (by decide) h2 _
    · exact jsonKV_noNL _ (by decide) h3 _
    · decide
    · exact ih l hl

theorem parseJson_renderJson {rows : List Row} (h : ∀ r ∈ rows, r.JsonWF) : parseJson (renderJson rows) = some rows := by
  by_cases hr : rows = []
  · subst hr
    simp [parseJson, renderJson, linesOf, splitOnChar]
  · unfold parseJson
    rw [renderJson_eq hr, linesOf_intercalate (by simp)]
    · obtain ⟨x, xs, hx⟩ := exists_cons_of_ne_nil (jsonBody_ne_nil hr)
      have hb := parseJsonBody_jsonBody h
      rw [hx] at hb ⊢
      simp only [map_cons, map_append, cons_append, map_nil] at hb ⊢
      have e : "]".toList = [']'] := by simp
      rw [e] at hb
      simp [hb]
    · intro l hl
      simp only [mem_cons, mem_append, not_mem_nil, or_false] at hl
      rcases hl with (rfl | hl) | rfl
      · decide
      · exact jsonBody_noNL h l hl
      · decide

end Json

-- ------------------------------------------------------------------------------------------
-- D5. dot edges (list and diff)

section Dot

/-- no character that `%q` escapes (quote, backslash, control characters) -/
def QuotePlain (s : String) : Prop := ∀ c ∈ s.toList, quoteChar c = [c]
instance (s : String) : Decidable (QuotePlain s) := by unfold QuotePlain; infer_instance

theorem goQuote_plain {s : String} (h : QuotePlain s) : (goQuote s).toList = '"' :: (s.toList ++ ['"']) := by
  simp [goQuote, flatMap_id_of h]

theorem QuotePlain.noQuote {s : String} (h : QuotePlain s) : '"' ∉ s.toList := by
  intro hm
  have := h _ hm
  revert this
  decide

theorem QuotePlain.noNL {s : String} (h : QuotePlain s) : NoNL s := by
  intro hm
  have := h _ hm
  revert this
  decide

theorem untilChar_append' {c : Char} {f : List Char} (h : c ∉ f) (p rest : List Char) (hp : p.head? = some c) :
    untilChar c (f ++ (p ++ rest)) = (f, p ++ rest) := by
  cases p with
  | nil => cases hp
  | cons x xs =>
    simp only [head?_cons, Option.some.injEq] at hp
    subst hp
    exact untilChar_append h _

/-- `\t"SRC" -> "DST" [label="L" color="C" fontcolor="F" weight=…]` with quote-free fields -/
def parseEdgeLine (l : List Char) : Option DotEdge :=
  match stripPrefix "\t\"".toList l with
  | none => none
  | some r =>
    let a := untilChar '"' r
    match stripPrefix "\" -> \"".toList a.2 with
    | none => none
    | some r =>
      let b := untilChar '"' r
      match stripPrefix "\" [label=\"".toList b.2 with
      | none => none
      | some r =>
        let c := untilChar '"' r
        match stripPrefix "\" color=\"".toList c.2 with
        | none => none
        | some r =>
          let d := untilChar '"' r
          match stripPrefix "\" fontcolor=\"".toList d.2 with
          | none => none
          | some r =>
            let e := untilChar '"' r
            match stripPrefix "\" weight=".toList e.2 with
            | none => none
            | some _ =>
              some ⟨String.ofList a.1, String.ofList b.1, String.ofList c.1, String.ofList d.1, String.ofList e.1⟩

/-- what the dot format needs of an edge: no character `%q` would escape -/
def DotEdge.WF (e : DotEdge) : Prop :=
  QuotePlain e.src ∧ QuotePlain e.dst ∧ QuotePlain e.label ∧ QuotePlain e.color ∧ QuotePlain e.fontColor
instance (e : DotEdge) : Decidable e.WF := by unfold DotEdge.WF; infer_instance

theorem DotEdge.line_toList {e : DotEdge} (h : e.WF) : e.line.toList =
    "\t\"".toList ++ (e.src.toList ++ ("\" -> \"".toList ++ (e.dst.toList ++ ("\" [label=\"".toList ++ (e.label.toList ++
    ("\" color=\"".toList ++ (e.color.toList ++ ("\" fontcolor=\"".toList ++ (e.fontColor.toList ++
    ("\" weight=".toList ++ ((if e.src ≤ e.dst then "0.5" else "1") ++ "]").toList)))))))))) := by
  obtain ⟨h1, h2, h3, h4, h5⟩ := h
  unfold DotEdge.line edgeLine
  simp [String.toList_append, goQuote_plain, h1, h2, h3, h4, h5]

theorem parseEdgeLine_line {e : DotEdge} (h : e.WF) : parseEdgeLine e.line.toList = some e := by
  rw [DotEdge.line_toList h]
  obtain ⟨h1, h2, h3, h4, h5⟩ := h
  unfold parseEdgeLine
  simp only [stripPrefix_append, untilChar_append' h1.noQuote _ _ (by decide : "\" -> \"".toList.head? = some '"'),
    untilChar_append' h2.noQuote _ _ (by decide : "\" [label=\"".toList.head? = some '"'),
    untilChar_append' h3.noQuote _ _ (by decide : "\" color=\"".toList.head? = some '"'),
    untilChar_append' h4.noQuote _ _ (by decide : "\" fontcolor=\"".toList.head? = some '"'),
    untilChar_append' h5.noQuote _ _ (by decide : "\" weight=".toList.head? = some '"'), String.ofList_toList]

theorem DotEdge.line_noNL {e : DotEdge} (h : e.WF) : NoNL e.line := by
  unfold NoNL
  rw [DotEdge.line_toList h]
  obtain ⟨h1, h2, h3, h4, h5⟩ := h
  have a1 := h1.noNL; have a2 := h2.noNL; have a3 := h3.noNL; have a4 := h4.noNL; have a5 := h5.noNL
  unfold NoNL at a1 a2 a3 a4 a5
  split <;> simp [a1, a2, a3, a4, a5]

theorem parseEdgeLine_none_of_strip {l : List Char} (h : stripPrefix "\t\"".toList l = none) : parseEdgeLine l = none := by
  unfold parseEdgeLine; rw [h]

/-- a line that is no edge line: not starting with a tab and a quote -/
theorem parseEdgeLine_none_head {c : Char} (h : c ≠ '\t') (l : List Char) : parseEdgeLine (c :: l) = none := by
  apply parseEdgeLine_none_of_strip
  have e : "\t\"".toList = ['\t', '"'] := by simp
  rw [e]; simp [stripPrefix, Ne.symm h]

theorem parseEdgeLine_none_second {c : Char} (h : c ≠ '"') (l : List Char) : parseEdgeLine ('\t' :: c :: l) = none := by
  apply parseEdgeLine_none_of_strip
  have e : "\t\"".toList = ['\t', '"'] := by simp
  rw [e]; simp [stripPrefix, Ne.symm h]

theorem parseEdgeLine_nil : parseEdgeLine [] = none := by
  apply parseEdgeLine_none_of_strip
  have e : "\t\"".toList = ['\t', '"'] := by simp
  rw [e]; simp [stripPrefix]

/-- a node line `\t"STR" [label=…` is no edge line -/
theorem parseEdgeLine_none_node {s : List Char} (h : '"' ∉ s) (rest : List Char) :
    parseEdgeLine ('\t' :: '"' :: (s ++ '"' :: ' ' :: '[' :: rest)) = none := by
  have e : "\t\"".toList = ['\t', '"'] := by simp
  have e2 : "\" -> \"".toList = ['"', ' ', '-', '>', ' ', '"'] := by simp
  unfold parseEdgeLine
  rw [e]
  simp only [stripPrefix, ↓reduceIte, untilChar_append h, e2]
  simp

/-- the edges of a dot text -/
def parseDotEdges (s : String) : List DotEdge := (linesOf s).filterMap parseEdgeLine

/-- a line without newline that does not read as an edge -/
def NotEdge (l : String) : Prop := NoNL l ∧ parseEdgeLine l.toList = none

theorem filterMap_none {α β : Type} {f : α → Option β} {l : List α} (h : ∀ a ∈ l, f a = none) : l.filterMap f = [] := by
  induction l with
  | nil => rfl
  | cons x xs ih => simp [h x mem_cons_self, ih (fun a ha => h a (mem_cons_of_mem _ ha))]

theorem filterMap_some {α β : Type} {f : α → Option β} {g : β → α} {l : List β} (h : ∀ b ∈ l, f (g b) = some b) :
    (l.map g).filterMap f = l := by
  induction l with
  | nil => rfl
  | cons x xs ih => simp [h x mem_cons_self, ih (fun a ha => h a (mem_cons_of_mem _ ha))]

/-- a text of lines: the edge lines among lines that are no edges are read back, in order -/
theorem parseDotEdges_lines {pre post : List String} {edges : List DotEdge} (hpre : ∀ l ∈ pre, NotEdge l)
    (hpost : ∀ l ∈ post, NotEdge l) (he : ∀ e ∈ edges, e.WF) (hne : pre ≠ []) :
    parseDotEdges ("\n".intercalate (pre ++ edges.map DotEdge.line ++ post)) = edges := by
  unfold parseDotEdges
  rw [linesOf_intercalate (by simp [hne])]
  · simp only [map_append, filterMap_append, map_map]
    have h1 : filterMap parseEdgeLine (pre.map String.toList) = [] := by
      apply filterMap_none
      intro l hl
      obtain ⟨s, hs, rfl⟩ := mem_map.mp hl
      exact (hpre s hs).2
    have h2 : filterMap parseEdgeLine (edges.map (String.toList ∘ DotEdge.line)) = edges :=
      filterMap_some (g := String.toList ∘ DotEdge.line) (fun e hm => parseEdgeLine_line (he e hm))
    have h3 : filterMap parseEdgeLine (post.map String.toList) = [] := by
      apply filterMap_none
      intro l hl
      obtain ⟨s, hs, rfl⟩ := mem_map.mp hl
      exact (hpost s hs).2
    rw [h1, h2, h3]
    simp
  · intro l hl
    simp only [mem_append, mem_map] at hl
    rcases hl with (hl | ⟨e, hm, rfl⟩) | hl
    · exact (hpre l hl).1
    · exact DotEdge.line_noNL (he e hm)
    · exact (hpost l hl).1

end Dot

-- ------------------------------------------------------------------------------------------
-- D5b. the node, cluster and legend lines of the dot outputs are no edge lines

section DotNodes

theorem notEdge_of_second {s : String} {c : Char} {rest : List Char} (h : s.toList = '\t' :: c :: rest) (hc : c ≠ '"')
    (hn : '\n' ∉ rest) (hc' : c ≠ '\n') : NotEdge s := by
  constructor
  · unfold NoNL
    rw [h]
    simp only [mem_cons, not_or]
    exact ⟨by decide, Ne.symm hc', hn⟩
  · rw [h]; exact parseEdgeLine_none_second hc _

theorem nodeLine_toList {str label color : String} (hs : QuotePlain str) (hl : QuotePlain label) (hc : QuotePlain color) :
    (nodeLine str label color).toList = '\t' :: '"' :: (str.toList ++ '"' :: ' ' :: '[' :: ("label=\"".toList ++ (label.toList ++
      ("\" color=\"".toList ++ (color.toList ++ ("\" fontcolor=\"".toList ++ (color.toList ++ "\"]".toList))))))) := by
  unfold nodeLine
  simp [String.toList_append, goQuote_plain, hs, hl, hc]

theorem nodeLine_noNL {str label color : String} (hs : QuotePlain str) (hl : QuotePlain label) (hc : QuotePlain color) :
    NoNL (nodeLine str label color) := by
  unfold NoNL
  rw [nodeLine_toList hs hl hc]
  have a1 := hs.noNL; have a2 := hl.noNL; have a3 := hc.noNL
  unfold NoNL at a1 a2 a3
  simp [a1, a2, a3]

/-- a node line outside a cluster -/
theorem nodeLine_notEdge {str label color : String} (hs : QuotePlain str) (hl : QuotePlain label) (hc : QuotePlain color) :
    NotEdge (nodeLine str label color) := by
  refine ⟨nodeLine_noNL hs hl hc, ?_⟩
  rw [nodeLine_toList hs hl hc]
  exact parseEdgeLine_none_node hs.noQuote _

/-- a node line inside a cluster (one more tab) -/
theorem tab_nodeLine_notEdge {str label color : String} (hs : QuotePlain str) (hl : QuotePlain label) (hc : QuotePlain color) :
    NotEdge ("\t" ++ nodeLine str label color) := by
  have hn := nodeLine_noNL hs hl hc
  have e : ("\t" ++ nodeLine str label color).toList = '\t' :: '\t' :: (nodeLine str label color).toList.tail := by
    rw [String.toList_append, nodeLine_toList hs hl hc]; simp
  apply notEdge_of_second e (by decide) _ (by decide)
  intro hm
  exact hn (mem_of_mem_tail hm)

theorem clusterHeader_notEdge {ns : String} (h : NoNL ns) :
    NotEdge ("\tsubgraph \"cluster_" ++ ns.map (fun c => if c = '-' then '_' else c) ++ "\" {") := by
  have e : ("\tsubgraph \"cluster_" ++ ns.map (fun c => if c = '-' then '_' else c) ++ "\" {").toList =
      '\t' :: 's' :: ("ubgraph \"cluster_".toList ++ (ns.toList.map (fun c => if c = '-' then '_' else c) ++ "\" {".toList)) := by
    simp [String.toList_append, String.toList_map]
  apply notEdge_of_second e (by decide) _ (by decide)
  unfold NoNL at h
  simp only [mem_append, mem_map, not_or, not_exists, not_and]
  refine ⟨by decide, ?_, by decide⟩
  intro c hc
  split
  · decide
  · intro heq; exact h (heq ▸ hc)

theorem clusterLabel_notEdge {ns : String} (h : NoNL ns) : NotEdge ("\t\tlabel=\"" ++ ns ++ "\"") := by
  have e : ("\t\tlabel=\"" ++ ns ++ "\"").toList = '\t' :: '\t' :: ("label=\"".toList ++ (ns.toList ++ ['"'])) := by
    simp [String.toList_append]
  apply notEdge_of_second e (by decide) _ (by decide)
  unfold NoNL at h
  simp [h]

theorem attrLine_notEdge (key : String) (hk : NoNL key) {color : String} (hc : QuotePlain color) :
    NotEdge ("\t\t" ++ key ++ "=" ++ goQuote color) := by
  have e : ("\t\t" ++ key ++ "=" ++ goQuote color).toList = '\t' :: '\t' :: (key.toList ++ '=' :: '"' :: (color.toList ++ ['"'])) := by
    simp [String.toList_append, goQuote_plain hc]
  apply notEdge_of_second e (by decide) _ (by decide)
  have := hc.noNL
  unfold NoNL at this hk
  simp [this, hk]

/-- every line of the namespace clusters satisfies `P` when the header, label, member and attribute lines do -/
theorem nsGroups_forall {P : String → Prop} {members : List (String × String)} {color : String}
    (h1 : ∀ m ∈ members, P ("\tsubgraph \"cluster_" ++ m.1.map (fun c => if c = '-' then '_' else c) ++ "\" {") ∧
      P ("\t\tlabel=\"" ++ m.1 ++ "\"") ∧ P ("\t" ++ m.2))
    (h2 : P ("\t\tcolor=" ++ goQuote color)) (h3 : P ("\t\tfontcolor=" ++ goQuote color)) (h4 : P "\t}") :
    ∀ l ∈ nsGroups members color, P l := by
  intro l hl
  unfold nsGroups at hl
  rw [mem_flatMap] at hl
  obtain ⟨ns, hns, hl⟩ := hl
  have hns' : ns ∈ members.map (·.1) := dedupKey_subset id _ ns (mem_sortStrings.mp hns)
  obtain ⟨m, hm, rfl⟩ := mem_map.mp hns'
  simp only [mem_append, mem_cons, not_mem_nil, or_false, mem_sortStrings, mem_map, mem_filter] at hl
  rcases hl with ((rfl | rfl | rfl) | ⟨m', ⟨hm', _⟩, rfl⟩) | rfl | rfl
  · exact (h1 m hm).1
  · exact h2
  · exact h3
  · exact (h1 m' hm').2.2
  · exact (h1 m hm).2.1
  · exact h4

/-- what the dot formats need of a peer: nothing to escape in its string and label, no newline in its namespace -/
def PeerInfo.DotWF (p : PeerInfo) : Prop := QuotePlain p.str ∧ QuotePlain p.label ∧ NoNL p.ns
instance (p : PeerInfo) : Decidable p.DotWF := by unfold PeerInfo.DotWF; infer_instance

theorem listColor_plain (p : PeerInfo) : QuotePlain p.listColor := by
  unfold PeerInfo.listColor
  split <;> decide

theorem listNodeLines_notEdge {conns : List Conn} {peers : List PeerInfo} (h : ∀ p ∈ listVisitSeq conns peers, p.DotWF) :
    ∀ l ∈ listNodeLines conns peers, NotEdge l := by
  have hv : ∀ p ∈ listVisited conns peers, p.DotWF := fun p hp => h p (dedupKey_subset _ _ p hp)
  intro l hl
  unfold listNodeLines at hl
  simp only [mem_append] at hl
  rcases hl with hl | hl
  · revert l
    apply nsGroups_forall
    · intro m hm
      obtain ⟨p, hp, rfl⟩ := mem_map.mp hm
      obtain ⟨h1, h2, h3⟩ := hv p (mem_filter.mp hp).1
      exact ⟨clusterHeader_notEdge h3, clusterLabel_notEdge h3, tab_nodeLine_notEdge h1 h2 (listColor_plain p)⟩
    · exact attrLine_notEdge "color" (by decide) (by decide)
    · exact attrLine_notEdge "fontcolor" (by decide) (by decide)
    · exact ⟨by decide, by decide⟩
  · obtain ⟨p, hp, rfl⟩ := mem_map.mp (mem_sortStrings.mp hl)
    obtain ⟨h1, h2, _⟩ := hv p (mem_filter.mp hp).1
    exact nodeLine_notEdge h1 h2 (listColor_plain p)

theorem diffNodeColor_plain (t : String) (b : Bool) : QuotePlain (diffNodeColor t b) := by
  unfold diffNodeColor
  split
  · split
    · decide
    · split <;> decide
  · decide

theorem diffNodeLines_notEdge {ds : List DConn} (h : ∀ v ∈ diffVisitSeq ds, v.1.DotWF) :
    ∀ l ∈ diffNodeLines ds, NotEdge l := by
  have hv : ∀ v ∈ diffVisited ds, v.1.DotWF ∧ QuotePlain v.2 := by
    intro v hm
    have hm' : v ∈ diffVisitSeq ds := dedupKey_subset _ _ v hm
    refine ⟨h v hm', ?_⟩
    unfold diffVisitSeq at hm'
    obtain ⟨d, _, hd⟩ := mem_flatMap.mp hm'
    simp only [mem_cons, not_mem_nil, or_false] at hd
    rcases hd with rfl | rfl <;> exact diffNodeColor_plain _ _
  intro l hl
  unfold diffNodeLines at hl
  simp only [mem_append] at hl
  rcases hl with hl | hl
  · revert l
    apply nsGroups_forall
    · intro m hm
      obtain ⟨p, hp, rfl⟩ := mem_map.mp hm
      obtain ⟨⟨h1, h2, h3⟩, h4⟩ := hv p (mem_filter.mp hp).1
      exact ⟨clusterHeader_notEdge h3, clusterLabel_notEdge h3, tab_nodeLine_notEdge h1 h2 h4⟩
    · exact attrLine_notEdge "color" (by decide) (by decide)
    · exact attrLine_notEdge "fontcolor" (by decide) (by decide)
    · exact ⟨by decide, by decide⟩
  · obtain ⟨p, hp, rfl⟩ := mem_map.mp (mem_sortStrings.mp hl)
    obtain ⟨⟨h1, h2, _⟩, h4⟩ := hv p (mem_filter.mp hp).1
    exact nodeLine_notEdge h1 h2 h4

instance (l : String) : Decidable (NotEdge l) := by unfold NotEdge; infer_instance

set_option maxRecDepth 100000 in
theorem legend_notEdge : ∀ l ∈ legend, NotEdge l := by decide

end DotNodes

-- ------------------------------------------------------------------------------------------
-- D6. the dot renderers; the diff renderers for md and csv

section DotTop

theorem header_notEdge : NotEdge "digraph {" := by decide
theorem closing_notEdge : NotEdge "}" := by decide

/-- the edges of the list dot output are read back, whatever node lines precede them -/
theorem parseDotEdges_renderDot {nodeLines : List String} {rows : List Row} (hn : ∀ l ∈ nodeLines, NotEdge l)
    (hr : ∀ r ∈ rows, r.edge.WF) : parseDotEdges (renderDot nodeLines rows) = rows.map Row.edge := by
  unfold renderDot
  have e : rows.map Row.dotEdge = (rows.map Row.edge).map DotEdge.line := by rw [map_map]; rfl
  rw [e]
  apply parseDotEdges_lines
  · intro l hl
    simp only [singleton_append, mem_cons] at hl
    rcases hl with rfl | hl
    · exact header_notEdge
    · exact hn l hl
  · intro l hl
    simp only [mem_cons, not_mem_nil, or_false] at hl
    subst hl; exact closing_notEdge
  · intro x hx
    obtain ⟨r, hr', rfl⟩ := mem_map.mp hx
    exact hr r hr'
  · simp

/-- the edges of the diff dot output are read back -/
theorem parseDotEdges_renderDiffDot (ref1 : String) {nodeLines : List String} {rows : List DRow} (hn : ∀ l ∈ nodeLines, NotEdge l)
    (hr : ∀ r ∈ rows, (r.edge ref1).WF) :
    parseDotEdges (renderDiffDot ref1 nodeLines rows) = rows.map (DRow.edge ref1) := by
  unfold renderDiffDot
  have e : rows.map (fun r => (r.edge ref1).line) = (rows.map (DRow.edge ref1)).map DotEdge.line := by rw [map_map]; rfl
  rw [e, append_assoc _ legend]
  apply parseDotEdges_lines
  · intro l hl
    simp only [singleton_append, mem_cons] at hl
    rcases hl with rfl | hl
    · exact header_notEdge
    · exact hn l hl
  · intro l hl
    simp only [mem_append, mem_cons, not_mem_nil, or_false] at hl
    rcases hl with hl | rfl
    · exact legend_notEdge l hl
    · exact closing_notEdge
  · intro x hx
    obtain ⟨r, hr', rfl⟩ := mem_map.mp hx
    exact hr r hr'
  · simp

end DotTop

section DiffMd

def DRow.fields (r : DRow) : List String := [r.typ, r.src, r.dst, r.c1, r.c2, r.info]

def DRow.ofFields : List (List Char) → Option DRow
  | [a, b, c, d, e, f] => some ⟨String.ofList a, String.ofList b, String.ofList c, String.ofList d, String.ofList e, String.ofList f⟩
  | _ => none

theorem DRow.ofFields_fields (r : DRow) : DRow.ofFields (r.fields.map String.toList) = some r := by
  simp [DRow.fields, DRow.ofFields]

/-- the characters of `cs` occur in no field -/
def DRow.Free (cs : List Char) (r : DRow) : Prop := ∀ f ∈ r.fields, Format.Free cs f
instance (cs : List Char) (r : DRow) : Decidable (r.Free cs) := by unfold DRow.Free; infer_instance

theorem DRow.mdLine_toList (r : DRow) : r.mdLine.toList = mdCells (r.fields.map String.toList) := by
  simp [DRow.mdLine, DRow.fields, mdCells, pad, String.toList_append, intercalate_cons_cons, intercalate_singleton]

def parseDMdLine (l : List Char) : Option DRow :=
  match parseMdCells l with
  | some fs => DRow.ofFields fs
  | none => none

theorem parseDMdLine_mdLine {r : DRow} (h : r.Free ['|', '\n']) : parseDMdLine r.mdLine.toList = some r := by
  unfold parseDMdLine
  rw [DRow.mdLine_toList, parseMdCells_mdCells]
  · exact DRow.ofFields_fields r
  · intro f hf
    obtain ⟨s, hs, rfl⟩ := mem_map.mp hf
    exact h s hs '|' (by simp)

theorem DRow.mdLine_noNL {r : DRow} (h : r.Free ['|', '\n']) : NoNL r.mdLine := by
  unfold NoNL
  rw [DRow.mdLine_toList]
  apply mdCells_noNL
  intro f hf
  obtain ⟨s, hs, rfl⟩ := mem_map.mp hf
  exact h s hs '\n' (by simp)

def renderDiffMd (ref1 ref2 : String) (rows : List DRow) : String :=
  "\n".intercalate (diffMdHeader ref1 ref2 :: rows.map DRow.mdLine)

theorem diffMd_eq (ref1 ref2 : String) (ds : List DConn) :
    diffMd ref1 ref2 ds = renderDiffMd ref1 ref2 (diffRows DRow.mdLine ds) := by
  unfold diffMd renderDiffMd; rw [diffLines_eq]

/-- the rows of an md diff output: two header lines, then one row per line -/
def parseDiffMd (s : String) : Option (List DRow) :=
  match linesOf s with
  | _ :: _ :: rest => parseAll parseDMdLine rest
  | _ => none

theorem parseDiffMd_renderDiffMd {ref1 ref2 : String} (h1 : NoNL ref1) (h2 : NoNL ref2) {rows : List DRow}
    (h : ∀ r ∈ rows, r.Free ['|', '\n']) : parseDiffMd (renderDiffMd ref1 ref2 rows) = some rows := by
  unfold parseDiffMd renderDiffMd
  have e : diffMdHeader ref1 ref2 = ("| diff-type | source | destination | " ++ ref1 ++ " | " ++ ref2 ++ " | workloads-diff-info |") ++
      ("\n" ++ "|-----------|--------|-------------|------|------|---------------------|") := by
    unfold diffMdHeader
    apply String.toList_injective
    simp [String.toList_append]
  rw [e, intercalate_header2, linesOf_intercalate (by simp)]
  · simp only [map_cons, map_map]
    exact parseAll_map parseDMdLine (String.toList ∘ DRow.mdLine) rows (fun a ha => parseDMdLine_mdLine (h a ha))
  · intro l hl
    simp only [mem_cons, mem_map] at hl
    rcases hl with rfl | rfl | ⟨x, hx, rfl⟩
    · unfold NoNL at *; simp [String.toList_append, h1, h2]
    · decide
    · exact DRow.mdLine_noNL (h x hx)

end DiffMd

section DiffCsv

theorem DRow.csvLine_eq (r : DRow) : r.csvLine = ";".intercalate r.fields := rfl

/-- the record written for a row whose fields hold no `;` is the record of its fields -/
theorem csvOfLine_csvLine {r : DRow} (h : r.Free [';']) : csvOfLine r.csvLine = csvLine r.fields ++ "\n" := by
  unfold csvOfLine
  rw [DRow.csvLine_eq, String.toList_intercalate]
  have e : ";".toList = [';'] := by simp
  rw [e, splitOnChar_intercalate (by simp [DRow.fields])]
  · rw [map_map]
    have : r.fields.map (String.ofList ∘ String.toList) = r.fields := by
      rw [← List.map_id r.fields, map_map]
      apply map_congr_left
      intro a _
      simp
    rw [this]
    rfl
  · intro l hl
    obtain ⟨s, hs, rfl⟩ := mem_map.mp hl
    exact h s hs ';' (by simp)

def diffCsvHeader (ref1 ref2 : String) : List String := ["diff-type", "source", "destination", ref1, ref2, "workloads-diff-info"]

def renderDiffCsv (ref1 ref2 : String) (rows : List DRow) : String :=
  String.join (csvRecord (diffCsvHeader ref1 ref2) :: rows.map (fun r => csvOfLine r.csvLine))

theorem diffCsv_eq (ref1 ref2 : String) (ds : List DConn) :
    diffCsv ref1 ref2 ds = renderDiffCsv ref1 ref2 (diffRows DRow.csvLine ds) := by
  unfold diffCsv renderDiffCsv; rw [diffLines_eq, map_map]; rfl

def parseDCsvLine (l : List Char) : Option DRow := DRow.ofFields (csvSplit l false)

/-- the rows of a csv diff output: the header record, then one record per row -/
def parseDiffCsv (s : String) : Option (List DRow) :=
  match linesOf s with
  | _ :: rest => if rest.getLast? = some [] then parseAll parseDCsvLine rest.dropLast else none
  | [] => none

theorem renderDiffCsv_eq (ref1 ref2 : String) {rows : List DRow} (h : ∀ r ∈ rows, r.Free [';']) :
    renderDiffCsv ref1 ref2 rows =
      "\n".intercalate (csvLine (diffCsvHeader ref1 ref2) :: rows.map fun r => csvLine r.fields) ++ "\n" := by
  unfold renderDiffCsv
  have e : rows.map (fun r => csvOfLine r.csvLine) = (rows.map fun r => csvLine r.fields).map (· ++ "\n") := by
    rw [map_map]
    apply map_congr_left
    intro r hr
    exact csvOfLine_csvLine (h r hr)
  rw [← join_records (cons_ne_nil _ _), map_cons, e, csvRecord_eq]

theorem parseDiffCsv_renderDiffCsv {ref1 ref2 : String} (h1 : NoNL ref1) (h2 : NoNL ref2) {rows : List DRow}
    (h : ∀ r ∈ rows, r.Free ['"', '\n', ';']) : parseDiffCsv (renderDiffCsv ref1 ref2 rows) = some rows := by
  have hs : ∀ r ∈ rows, r.Free [';'] := fun r hr f hf c hc => h r hr f hf c (by simp at hc; simp [hc])
  unfold parseDiffCsv
  rw [renderDiffCsv_eq ref1 ref2 hs, linesOf_intercalate_nl (cons_ne_nil _ _)]
  · simp only [map_cons, cons_append, getLast?_append, getLast?_singleton, Option.some_or, dropLast_concat, map_map, ↓reduceIte]
    apply parseAll_map parseDCsvLine _ rows
    intro r hr
    unfold parseDCsvLine
    simp only [Function.comp]
    rw [csvSplit_csvLine (by simp [DRow.fields]) (fun f hf => h r hr f hf '"' (by simp))]
    exact DRow.ofFields_fields r
  · intro l hl
    simp only [mem_cons, mem_map] at hl
    rcases hl with rfl | ⟨x, hx, rfl⟩
    · apply csvLine_noNL
      intro f hf
      simp only [diffCsvHeader, mem_cons, not_mem_nil, or_false] at hf
      rcases hf with rfl | rfl | rfl | rfl | rfl | rfl
      · decide
      · decide
      · decide
      · exact h1
      · exact h2
      · decide
    · exact csvLine_noNL (fun f hf => h x hx f hf '\n' (by simp))

end DiffCsv

-- ------------------------------------------------------------------------------------------
-- D7. diff / txt

section DiffTxt

/-- the characters before the first `", "` and the rest after it (`none` when there is no `", "`) -/
def untilCS : List Char → List Char × Option (List Char)
  | [] => ([], none)
  | [c] => ([c], none)
  | c :: d :: rest =>
    if c = ',' ∧ d = ' ' then ([], some rest)
    else ((untilCS (d :: rest)).1.cons c, (untilCS (d :: rest)).2)

/-- `", "` occurs in the list -/
def hasCS : List Char → Bool
  | [] => false
  | [_] => false
  | c :: d :: rest => (c == ',' && d == ' ') || hasCS (d :: rest)

theorem untilCS_append : ∀ (f : List Char), hasCS f = false → ∀ rest, untilCS (f ++ ',' :: ' ' :: rest) = (f, some rest)
  | [], _, rest => by simp [untilCS]
  | [c], _, rest => by simp [untilCS]
  | c :: d :: f, h, rest => by
    simp only [hasCS, Bool.or_eq_false_iff, Bool.and_eq_false_imp, beq_iff_eq] at h
    have ih := untilCS_append (d :: f) h.2 rest
    have hn : ¬ (c = ',' ∧ d = ' ') := by
      intro ⟨h1, h2⟩
      have := h.1 h1
      simp [h2] at this
    simp only [cons_append] at ih ⊢
    rw [untilCS]
    simp [hn, ih]

theorem untilCS_none : ∀ (f : List Char), hasCS f = false → untilCS f = (f, none)
  | [], _ => rfl
  | [c], _ => rfl
  | c :: d :: f, h => by
    simp only [hasCS, Bool.or_eq_false_iff, Bool.and_eq_false_imp, beq_iff_eq] at h
    have ih := untilCS_none (d :: f) h.2
    have hn : ¬ (c = ',' ∧ d = ' ') := by
      intro ⟨h1, h2⟩
      have := h.1 h1
      simp [h2] at this
    rw [untilCS]
    simp [hn, ih]

/-- the txt diff line of a row -/
def parseDTxtLine (ref1 ref2 : String) (l : List Char) : Option DRow :=
  match stripPrefix "diff-type: ".toList l with
  | none => none
  | some r =>
    match untilCS r with
    | (_, none) => none
    | (t, some r) =>
      match stripPrefix "source: ".toList r with
      | none => none
      | some r =>
        match untilCS r with
        | (_, none) => none
        | (s, some r) =>
          match stripPrefix "destination: ".toList r with
          | none => none
          | some r =>
            match untilCS r with
            | (_, none) => none
            | (d, some r) =>
              match stripPrefix (ref1 ++ ": ").toList r with
              | none => none
              | some r =>
                match untilCS r with
                | (_, none) => none
                | (c1, some r) =>
                  match stripPrefix (ref2 ++ ": ").toList r with
                  | none => none
                  | some r =>
                    match untilCS r with
                    | (c2, none) => some ⟨String.ofList t, String.ofList s, String.ofList d, String.ofList c1, String.ofList c2, ""⟩
                    | (c2, some r) =>
                      match stripPrefix "workloads-diff-info: ".toList r with
                      | none => none
                      | some i => some ⟨String.ofList t, String.ofList s, String.ofList d, String.ofList c1, String.ofList c2, String.ofList i⟩

/-- what the txt diff format needs of a row: no `", "` in the first five fields, no newline anywhere -/
def DRow.TxtWF (r : DRow) : Prop :=
  hasCS r.typ.toList = false ∧ hasCS r.src.toList = false ∧ hasCS r.dst.toList = false ∧ hasCS r.c1.toList = false ∧
  hasCS r.c2.toList = false ∧ r.Free ['\n']
instance (r : DRow) : Decidable r.TxtWF := by unfold DRow.TxtWF; infer_instance

/-- the optional last part of a txt diff line -/
def DRow.txtTail (r : DRow) : List Char :=
  if r.info != "" then ',' :: ' ' :: ("workloads-diff-info: ".toList ++ r.info.toList) else []

theorem DRow.txtLine_toList (ref1 ref2 : String) (r : DRow) : (r.txtLine ref1 ref2).toList =
    "diff-type: ".toList ++ (r.typ.toList ++ ',' :: ' ' :: ("source: ".toList ++ (r.src.toList ++ ',' :: ' ' ::
    ("destination: ".toList ++ (r.dst.toList ++ ',' :: ' ' :: ((ref1 ++ ": ").toList ++ (r.c1.toList ++ ',' :: ' ' ::
    ((ref2 ++ ": ").toList ++ (r.c2.toList ++ r.txtTail))))))))) := by
  unfold DRow.txtLine DRow.txtTail
  split <;> simp [String.toList_append]

theorem parseDTxtLine_txtLine (ref1 ref2 : String) {r : DRow} (h : r.TxtWF) :
    parseDTxtLine ref1 ref2 (r.txtLine ref1 ref2).toList = some r := by
  obtain ⟨h1, h2, h3, h4, h5, _⟩ := h
  rw [DRow.txtLine_toList]
  unfold parseDTxtLine
  simp only [stripPrefix_append, untilCS_append _ h1, untilCS_append _ h2, untilCS_append _ h3, untilCS_append _ h4]
  unfold DRow.txtTail
  by_cases hi : r.info = ""
  · simp only [hi, bne_self_eq_false, Bool.false_eq_true, ↓reduceIte, append_nil, untilCS_none _ h5, String.ofList_toList]
    cases r
    simp_all
  · have : (r.info != "") = true := by simpa using hi
    simp only [this, ↓reduceIte, untilCS_append _ h5, stripPrefix_append, String.ofList_toList]

theorem DRow.txtLine_noNL {ref1 ref2 : String} (hr1 : NoNL ref1) (hr2 : NoNL ref2) {r : DRow} (h : r.TxtWF) :
    NoNL (r.txtLine ref1 ref2) := by
  have hf := h.2.2.2.2.2
  have a1 := hf r.typ (by simp [DRow.fields]) '\n' (by simp)
  have a2 := hf r.src (by simp [DRow.fields]) '\n' (by simp)
  have a3 := hf r.dst (by simp [DRow.fields]) '\n' (by simp)
  have a4 := hf r.c1 (by simp [DRow.fields]) '\n' (by simp)
  have a5 := hf r.c2 (by simp [DRow.fields]) '\n' (by simp)
  have a6 := hf r.info (by simp [DRow.fields]) '\n' (by simp)
  unfold NoNL at *
  rw [DRow.txtLine_toList]
  unfold DRow.txtTail
  split <;> simp [String.toList_append, a1, a2, a3, a4, a5, a6, hr1, hr2]

def renderDiffTxt (ref1 ref2 : String) (rows : List DRow) : String :=
  "\n".intercalate ("Connectivity diff:" :: rows.map (DRow.txtLine ref1 ref2)) ++ "\n"

theorem diffTxt_eq (ref1 ref2 : String) (ds : List DConn) :
    diffTxt ref1 ref2 ds = renderDiffTxt ref1 ref2 (diffRows (DRow.txtLine ref1 ref2) ds) := by
  unfold diffTxt renderDiffTxt; rw [diffLines_eq]

/-- the rows of a txt diff output: the title line, then one row per line -/
def parseDiffTxt (ref1 ref2 : String) (s : String) : Option (List DRow) :=
  match linesOf s with
  | _ :: rest => if rest.getLast? = some [] then parseAll (parseDTxtLine ref1 ref2) rest.dropLast else none
  | [] => none

theorem parseDiffTxt_renderDiffTxt {ref1 ref2 : String} (hr1 : NoNL ref1) (hr2 : NoNL ref2) {rows : List DRow}
    (h : ∀ r ∈ rows, r.TxtWF) : parseDiffTxt ref1 ref2 (renderDiffTxt ref1 ref2 rows) = some rows := by
  unfold parseDiffTxt renderDiffTxt
  rw [linesOf_intercalate_nl (cons_ne_nil _ _)]
  · simp only [map_cons, cons_append, getLast?_append, getLast?_singleton, Option.some_or, dropLast_concat, map_map, ↓reduceIte]
    exact parseAll_map _ (String.toList ∘ DRow.txtLine ref1 ref2) rows (fun r hr => parseDTxtLine_txtLine ref1 ref2 (h r hr))
  · intro l hl
    simp only [mem_cons, mem_map] at hl
    rcases hl with rfl | ⟨x, hx, rfl⟩
    · decide
    · exact DRow.txtLine_noNL hr1 hr2 (h x hx)

end DiffTxt

end Format
end Netpol
