import Netpol.Proofs.FormatParse
import Netpol.Proofs.FormatExposure
/-! Parse-back of the list formats with exposure sections (`listTxtX`, `listJsonX`, `listCsvX`, `listMdX`).

Every output is cut into tokens (lines; csv: records), the tokens are cut into segments at the section markers
(`segments`), and every segment is read back as rows. The result is the triple (base table, egress rows, ingress rows)
— for txt also the lines of the unprotected workloads — as the renderers received them: an ingress row comes back with
`src` = the representative peer / IP block and `dst` = the exposed workload although the formats print the workload
first (a renderer printing the columns in the other order would falsify the theorems for any row with src ≠ dst). -/
set_option linter.unusedSimpArgs false
namespace Netpol
namespace Format
open List

-- ------------------------------------------------------------------------------------------
-- segments of a token list

section Segments
variable {T : Type}

/-- the tokens before the first marker, and for every marker the tokens up to the next one -/
def segments (mk : T → Option Nat) : List T → List T × List (Nat × List T)
  | [] => ([], [])
  | t :: ts =>
    match mk t with
    | some k => ([], (k, (segments mk ts).1) :: (segments mk ts).2)
    | none => (t :: (segments mk ts).1, (segments mk ts).2)

theorem segments_append {mk : T → Option Nat} {s : List T} (h : ∀ t ∈ s, mk t = none) (rest : List T) :
    segments mk (s ++ rest) = (s ++ (segments mk rest).1, (segments mk rest).2) := by
  induction s with
  | nil => rfl
  | cons t ts ih =>
    have ht := h t mem_cons_self
    have := ih (fun x hx => h x (mem_cons_of_mem _ hx))
    simp [segments, ht, this]

theorem segments_marker {mk : T → Option Nat} {m : T} {k : Nat} (h : mk m = some k) (rest : List T) :
    segments mk (m :: rest) = ([], (k, (segments mk rest).1) :: (segments mk rest).2) := by
  simp [segments, h]

theorem segments_plain {mk : T → Option Nat} {s : List T} (h : ∀ t ∈ s, mk t = none) : segments mk s = (s, []) := by
  have := segments_append h []
  simpa [segments] using this

/-- the segment of a marker (empty when the marker does not occur) -/
def segOf (segs : List (Nat × List T)) (k : Nat) : List T :=
  match segs.find? (·.1 == k) with
  | some s => s.2
  | none => []

/-- an optional section: nothing, or a marker followed by tokens -/
def optSection (m : T) (body : List T) (present : Bool) : List T := if present then m :: body else []

/-- a section of an output: its marker, the number of the marker, its tokens, and whether it is printed -/
structure Sec (T : Type) where
  marker : T
  id : Nat
  body : List T
  present : Bool

/-- tokens before the first marker followed by optional sections -/
theorem segments_sections {mk : T → Option Nat} {S0 : List T} (h0 : ∀ t ∈ S0, mk t = none) :
    ∀ (secs : List (Sec T)), (∀ s ∈ secs, mk s.marker = some s.id ∧ ∀ t ∈ s.body, mk t = none) →
    segments mk (S0 ++ secs.flatMap fun s => optSection s.marker s.body s.present) =
      (S0, (secs.filter (·.present)).map fun s => (s.id, s.body))
  | [], _ => by simpa using segments_plain h0
  | s :: secs, h => by
    have ih := segments_sections (S0 := s.body) (h s mem_cons_self).2 secs (fun x hx => h x (mem_cons_of_mem _ hx))
    rw [segments_append h0, flatMap_cons]
    have ih0 := segments_sections (S0 := ([] : List T)) (by simp) secs (fun x hx => h x (mem_cons_of_mem _ hx))
    simp only [nil_append] at ih0
    cases hp : s.present
    · simp only [optSection, hp, Bool.false_eq_true, ↓reduceIte, nil_append, filter_cons]
      simp only [optSection] at ih0
      rw [ih0]
      simp
    · simp only [optSection, hp, ↓reduceIte, cons_append, filter_cons, map_cons]
      simp only [optSection] at ih
      rw [segments_marker (h s mem_cons_self).1, ih]
      simp

end Segments

-- ------------------------------------------------------------------------------------------
-- lines of joined texts (pieces may hold newlines)

section Lines

theorem splitOnChar_append_sep (c : Char) : ∀ (a b : List Char),
    splitOnChar c (a ++ c :: b) = splitOnChar c a ++ splitOnChar c b
  | [], b => by simp [splitOnChar]
  | x :: a, b => by
    have ih := splitOnChar_append_sep c a b
    by_cases hx : x = c
    · simp [splitOnChar, hx, ih]
    · obtain ⟨l, ls, hl⟩ := exists_cons_of_ne_nil (splitOnChar_ne_nil c a)
      simp [splitOnChar, hx, ih, hl]

theorem linesOf_append_nl (a b : String) : linesOf (a ++ "\n" ++ b) = linesOf a ++ linesOf b := by
  unfold linesOf
  have : (a ++ "\n" ++ b).toList = a.toList ++ '\n' :: b.toList := by simp [String.toList_append]
  rw [this, splitOnChar_append_sep]

/-- the lines of a join are the lines of the pieces -/
theorem linesOf_intercalate_flatMap : ∀ {ls : List String}, ls ≠ [] → linesOf ("\n".intercalate ls) = ls.flatMap linesOf
  | [], h => absurd rfl h
  | [l], _ => by simp
  | l :: l' :: ls, _ => by
    rw [String.intercalate_cons_cons, linesOf_append_nl, linesOf_intercalate_flatMap (cons_ne_nil l' ls)]
    simp

theorem linesOf_noNL {s : String} (h : NoNL s) : linesOf s = [s.toList] := splitOnChar_of_not_mem h

theorem flatMap_linesOf_noNL {ls : List String} (h : ∀ l ∈ ls, NoNL l) : ls.flatMap linesOf = ls.map String.toList := by
  induction ls with
  | nil => rfl
  | cons l ls ih =>
    rw [flatMap_cons, map_cons, linesOf_noNL (h l mem_cons_self), ih (fun x hx => h x (mem_cons_of_mem _ hx))]
    rfl

/-- the lines of an exposure subsection: the lines of its header (which ends in a newline), the lines, an empty line -/
theorem linesOf_subSection {lines : List String} (hdr : String) (h : ∀ l ∈ lines, NoNL l) :
    linesOf (subSection lines (hdr ++ "\n")) =
      if lines.isEmpty then [[]] else linesOf hdr ++ lines.map String.toList ++ [[]] := by
  unfold subSection
  cases hl : lines.isEmpty
  · have hne : lines ≠ [] := by intro e; simp [e] at hl
    simp only [Bool.false_eq_true, ↓reduceIte]
    rw [show hdr ++ "\n" ++ "\n".intercalate lines ++ "\n" = hdr ++ "\n" ++ ("\n".intercalate lines ++ "\n") by
      simp [String.append_assoc]]
    rw [linesOf_append_nl, linesOf_intercalate_nl hne h, append_assoc]
  · simp [linesOf, splitOnChar]

end Lines

-- ------------------------------------------------------------------------------------------
-- csv

section CsvX

def csvMX : List String := ["Exposure Analysis Result:", "", ""]
def csvMEg : List String := ["Egress Exposure:", "", ""]
def csvMIng : List String := ["Ingress Exposure:", "", ""]
def csvHeaderIng : List String := ["dst", "src", "conn"]

def Row.csvFieldsIng (r : Row) : List String := [r.dst, r.src, r.conn]

/-- `formatCSV.writeOutput` with exposure results, on the three tables -/
def renderCsvX (base eg ing : List Row) : String :=
  renderCsv base ++ csvRecord csvMX ++
    (if eg.isEmpty then "" else String.join (csvRecord csvMEg :: csvRecord csvHeader :: eg.map Row.csv)) ++
    (if ing.isEmpty then "" else String.join (csvRecord csvMIng :: csvRecord csvHeaderIng ::
      ing.map fun r => csvRecord [r.dst, r.src, r.conn]))

theorem listCsvX_eq (conns : List Conn) (xs : List XPeerF) :
    listCsvX conns xs = renderCsvX (table conns) (egressRows conns xs) (ingressRows conns xs) := rfl

/-- the records of the output -/
def csvXRecords (base eg ing : List Row) : List (List String) :=
  csvHeader :: base.map Row.csvFields ++ [csvMX] ++
    optSection csvMEg (csvHeader :: eg.map Row.csvFields) (!eg.isEmpty) ++
    optSection csvMIng (csvHeaderIng :: ing.map Row.csvFieldsIng) (!ing.isEmpty)

theorem renderCsvX_records (base eg ing : List Row) :
    renderCsvX base eg ing = String.join ((csvXRecords base eg ing).map csvRecord) := by
  have e1 : Row.csv = csvRecord ∘ Row.csvFields := rfl
  have e2 : (fun r : Row => csvRecord [r.dst, r.src, r.conn]) = csvRecord ∘ Row.csvFieldsIng := rfl
  have e3 : csvHeader = ["src", "dst", "conn"] := rfl
  unfold renderCsvX csvXRecords optSection renderCsv
  rw [e1, e2]
  cases eg <;> cases ing <;> simp [String.join_append, map_map, String.append_assoc, e3]

/-- a row of an exposure output: csv well-formed, and a connection string (the section markers are records whose third
field is empty) -/
def Row.CsvXWF (r : Row) : Prop := r.CsvWF ∧ r.conn ≠ ""
instance (r : Row) : Decidable r.CsvXWF := by unfold Row.CsvXWF; infer_instance

def csvMk (rec : List (List Char)) : Option Nat :=
  if rec = csvMX.map String.toList then some 1
  else if rec = csvMEg.map String.toList then some 2
  else if rec = csvMIng.map String.toList then some 3
  else none

def recRow : List (List Char) → Option Row
  | [a, b, c] => some ⟨String.ofList a, String.ofList b, String.ofList c⟩
  | _ => none

/-- a record of the ingress section: destination first -/
def recRowIng : List (List Char) → Option Row
  | [a, b, c] => some ⟨String.ofList b, String.ofList a, String.ofList c⟩
  | _ => none

/-- the three tables of a csv output with exposure sections -/
def parseCsvX (s : String) : Option (List Row × List Row × List Row) :=
  let lines := linesOf s
  if lines.getLast? ≠ some [] then none
  else
    let sg := segments csvMk (lines.dropLast.map (csvSplit · false))
    if !sg.2.any (·.1 == 1) then none
    else
      match parseAll recRow (sg.1.drop 1), parseAll recRow ((segOf sg.2 2).drop 1), parseAll recRowIng ((segOf sg.2 3).drop 1) with
      | some b, some e, some i => some (b, e, i)
      | _, _, _ => none

theorem csvMk_row {r : Row} (h : r.conn ≠ "") (fs : List String) (hf : fs = r.csvFields ∨ fs = r.csvFieldsIng) :
    csvMk (fs.map String.toList) = none := by
  have hc : r.conn.toList ≠ [] := by
    intro e; apply h; apply String.toList_injective; simpa using e
  rcases hf with rfl | rfl <;>
    simp [csvMk, Row.csvFields, Row.csvFieldsIng, csvMX, csvMEg, csvMIng, hc]

theorem recRow_fields (r : Row) : recRow (r.csvFields.map String.toList) = some r := by simp [recRow, Row.csvFields]
theorem recRowIng_fields (r : Row) : recRowIng (r.csvFieldsIng.map String.toList) = some r := by simp [recRowIng, Row.csvFieldsIng]

/-- records written one after the other are read back as their field lists -/
theorem csv_records_roundtrip {R : List (List String)} (hne : R ≠ [])
    (h : ∀ fs ∈ R, fs ≠ [] ∧ ∀ f ∈ fs, Free ['"', '\n'] f) :
    (linesOf (String.join (R.map csvRecord))).getLast? = some [] ∧
    (linesOf (String.join (R.map csvRecord))).dropLast.map (csvSplit · false) = R.map (·.map String.toList) := by
  have e : R.map csvRecord = (R.map csvLine).map (· ++ "\n") := by rw [map_map]; rfl
  rw [e, join_records (by simpa using hne), linesOf_intercalate_nl (by simpa using hne)]
  · refine ⟨by simp, ?_⟩
    rw [dropLast_concat, map_map, map_map]
    apply map_congr_left
    intro fs hfs
    obtain ⟨h1, h2⟩ := h fs hfs
    simp only [Function.comp]
    exact csvSplit_csvLine h1 (fun f hf => h2 f hf '"' (by simp))
  · intro l hl
    obtain ⟨fs, hfs, rfl⟩ := mem_map.mp hl
    exact csvLine_noNL (fun f hf => (h fs hfs).2 f hf '\n' (by simp))

theorem Row.csvFields_wf {r : Row} (h : r.CsvWF) : r.csvFields ≠ [] ∧ ∀ f ∈ r.csvFields, Free ['"', '\n'] f := by
  obtain ⟨h1, h2, h3⟩ := h
  refine ⟨by simp [Row.csvFields], ?_⟩
  intro f hf
  simp only [Row.csvFields, mem_cons, not_mem_nil, or_false] at hf
  rcases hf with rfl | rfl | rfl <;> assumption

theorem Row.csvFieldsIng_wf {r : Row} (h : r.CsvWF) : r.csvFieldsIng ≠ [] ∧ ∀ f ∈ r.csvFieldsIng, Free ['"', '\n'] f := by
  obtain ⟨h1, h2, h3⟩ := h
  refine ⟨by simp [Row.csvFieldsIng], ?_⟩
  intro f hf
  simp only [Row.csvFieldsIng, mem_cons, not_mem_nil, or_false] at hf
  rcases hf with rfl | rfl | rfl <;> assumption

theorem csvXRecords_wf {base eg ing : List Row} (hb : ∀ r ∈ base, r.CsvXWF) (he : ∀ r ∈ eg, r.CsvXWF) (hi : ∀ r ∈ ing, r.CsvXWF) :
    ∀ fs ∈ csvXRecords base eg ing, fs ≠ [] ∧ ∀ f ∈ fs, Free ['"', '\n'] f := by
  intro fs hfs
  unfold csvXRecords optSection at hfs
  simp only [mem_cons, mem_append, mem_map, not_mem_nil, or_false] at hfs
  rcases hfs with (((rfl | ⟨r, hr, rfl⟩) | rfl) | hfs) | hfs
  · decide
  · exact Row.csvFields_wf (hb r hr).1
  · decide
  · split at hfs
    · simp only [mem_cons, mem_map] at hfs
      rcases hfs with rfl | rfl | ⟨r, hr, rfl⟩
      · decide
      · decide
      · exact Row.csvFields_wf (he r hr).1
    · cases hfs
  · split at hfs
    · simp only [mem_cons, mem_map] at hfs
      rcases hfs with rfl | rfl | ⟨r, hr, rfl⟩
      · decide
      · decide
      · exact Row.csvFieldsIng_wf (hi r hr).1
    · cases hfs

theorem csvMk_rows {rows : List Row} (h : ∀ r ∈ rows, r.CsvXWF) :
    (∀ t ∈ (rows.map Row.csvFields).map (·.map String.toList), csvMk t = none) ∧
    (∀ t ∈ (rows.map Row.csvFieldsIng).map (·.map String.toList), csvMk t = none) := by
  constructor <;> intro t ht
  · obtain ⟨fs, hfs, rfl⟩ := mem_map.mp ht
    obtain ⟨r, hr, rfl⟩ := mem_map.mp hfs
    exact csvMk_row (h r hr).2 _ (Or.inl rfl)
  · obtain ⟨fs, hfs, rfl⟩ := mem_map.mp ht
    obtain ⟨r, hr, rfl⟩ := mem_map.mp hfs
    exact csvMk_row (h r hr).2 _ (Or.inr rfl)

/-- the csv output with exposure sections is read back to its three tables -/
theorem parseCsvX_renderCsvX {base eg ing : List Row} (hb : ∀ r ∈ base, r.CsvXWF) (he : ∀ r ∈ eg, r.CsvXWF)
    (hi : ∀ r ∈ ing, r.CsvXWF) : parseCsvX (renderCsvX base eg ing) = some (base, eg, ing) := by
  unfold parseCsvX
  rw [renderCsvX_records]
  obtain ⟨hl, hr⟩ := csv_records_roundtrip (R := csvXRecords base eg ing) (by simp [csvXRecords]) (csvXRecords_wf hb he hi)
  simp only [hl, hr, ne_eq, not_true_eq_false, ↓reduceIte]
  have hbm := (csvMk_rows hb).1
  have hem := (csvMk_rows he).1
  have him := (csvMk_rows hi).2
  have mH : csvMk (csvHeader.map String.toList) = none := by decide
  have mHI : csvMk (csvHeaderIng.map String.toList) = none := by decide
  have mX : csvMk (csvMX.map String.toList) = some 1 := by decide
  have mE : csvMk (csvMEg.map String.toList) = some 2 := by decide
  have mI : csvMk (csvMIng.map String.toList) = some 3 := by decide
  have pb : parseAll recRow ((base.map Row.csvFields).map (·.map String.toList)) = some base := by
    rw [map_map]; exact parseAll_map _ _ _ (fun r _ => recRow_fields r)
  have pe : parseAll recRow ((eg.map Row.csvFields).map (·.map String.toList)) = some eg := by
    rw [map_map]; exact parseAll_map _ _ _ (fun r _ => recRow_fields r)
  have pi : parseAll recRowIng ((ing.map Row.csvFieldsIng).map (·.map String.toList)) = some ing := by
    rw [map_map]; exact parseAll_map _ _ _ (fun r _ => recRowIng_fields r)
  have hsegI : ∀ (present : Bool), segments csvMk ((optSection csvMIng (csvHeaderIng :: ing.map Row.csvFieldsIng) present).map (·.map String.toList)) =
      ([], if present then [(3, csvHeaderIng.map String.toList :: (ing.map Row.csvFieldsIng).map (·.map String.toList))] else []) := by
    intro present
    cases present
    · simp [optSection, segments]
    · simp only [optSection, ↓reduceIte, map_cons]
      rw [segments_marker mI, segments_plain]
      intro t ht
      rcases mem_cons.mp ht with rfl | ht
      · exact mHI
      · exact him t ht
  have hsegE : ∀ (present : Bool) (rest : List (List (List Char))) (s0 : List (List (List Char))) (sg : List (Nat × List (List (List Char)))),
      segments csvMk rest = (s0, sg) →
      segments csvMk ((optSection csvMEg (csvHeader :: eg.map Row.csvFields) present).map (·.map String.toList) ++ rest) =
      if present then ([], (2, csvHeader.map String.toList :: (eg.map Row.csvFields).map (·.map String.toList) ++ s0) :: sg) else (s0, sg) := by
    intro present rest s0 sg hrest
    cases present
    · simp [optSection, hrest]
    · simp only [optSection, ↓reduceIte, map_cons, cons_append]
      have hnone : ∀ t ∈ csvHeader.map String.toList :: (eg.map Row.csvFields).map (·.map String.toList), csvMk t = none := by
        intro t ht
        rcases mem_cons.mp ht with rfl | ht
        · exact mH
        · exact hem t ht
      rw [segments_marker mE, ← cons_append, segments_append hnone, hrest]
      rfl
  unfold csvXRecords
  simp only [map_cons, map_append, cons_append, append_assoc, nil_append]
  rw [← cons_append, segments_append (s := csvHeader.map String.toList :: (base.map Row.csvFields).map (·.map String.toList))
    (by intro t ht; rcases mem_cons.mp ht with rfl | ht; exact mH; exact hbm t ht)]
  rw [segments_marker mX, hsegE _ _ _ _ (hsegI _)]
  cases heg : eg.isEmpty <;> cases hing : ing.isEmpty <;>
    simp [segOf, pb, pe, pi, parseAll, List.isEmpty_iff.mp, heg, hing] <;>
    simp_all [List.isEmpty_iff, parseAll]

end CsvX

-- ------------------------------------------------------------------------------------------
-- md

section MdX

def mdMX : String := "## Exposure Analysis Result:"
def mdMEg : String := "### Egress Exposure:"
def mdMIng : String := "### Ingress Exposure:"
def mdHeader1Ing : String := "| dst | src | conn |"

/-- a row of the ingress section: destination first -/
def Row.mdIng (r : Row) : String := "| " ++ r.dst ++ " | " ++ r.src ++ " | " ++ r.conn ++ " |"

/-- `formatMD.writeOutput` with exposure results, on the three tables -/
def renderMdX (base eg ing : List Row) : String :=
  "\n".intercalate ((mdHeader :: base.map Row.md) ++ ["## Exposure Analysis Result:",
    subSection (eg.map Row.md) ("### Egress Exposure:\n" ++ mdHeader ++ "\n"),
    subSection (ing.map Row.mdIng) ("### Ingress Exposure:\n| dst | src | conn |\n|-----|-----|------|\n")])

theorem listMdX_eq (conns : List Conn) (xs : List XPeerF) :
    listMdX conns xs = renderMdX (table conns) (egressRows conns xs) (ingressRows conns xs) := rfl

theorem Row.mdIng_toList (r : Row) : r.mdIng.toList = mdCells [r.dst.toList, r.src.toList, r.conn.toList] := by
  simp [Row.mdIng, mdCells, pad, String.toList_append, intercalate_cons_cons, intercalate_singleton]

def parseMdLineIng (l : List Char) : Option Row :=
  match parseMdCells l with
  | some [a, b, c] => some ⟨String.ofList b, String.ofList a, String.ofList c⟩
  | _ => none

theorem parseMdLineIng_mdIng {r : Row} (h : r.MdWF) : parseMdLineIng r.mdIng.toList = some r := by
  obtain ⟨h1, h2, h3⟩ := h
  unfold parseMdLineIng
  rw [Row.mdIng_toList, parseMdCells_mdCells]
  · simp
  · intro f hf
    simp only [mem_cons, not_mem_nil, or_false] at hf
    rcases hf with rfl | rfl | rfl
    · exact h2 '|' (by simp)
    · exact h1 '|' (by simp)
    · exact h3 '|' (by simp)

theorem Row.mdIng_noNL {r : Row} (h : r.MdWF) : NoNL r.mdIng := by
  obtain ⟨h1, h2, h3⟩ := h
  unfold NoNL
  rw [Row.mdIng_toList]
  apply mdCells_noNL
  intro f hf
  simp only [mem_cons, not_mem_nil, or_false] at hf
  rcases hf with rfl | rfl | rfl
  · exact h2 '\n' (by simp)
  · exact h1 '\n' (by simp)
  · exact h3 '\n' (by simp)

def mdMk (l : List Char) : Option Nat :=
  if l = mdMX.toList then some 1 else if l = mdMEg.toList then some 2 else if l = mdMIng.toList then some 3 else none

theorem mdCells_head (fs : List (List Char)) : (mdCells fs).head? = some '|' := by
  unfold mdCells
  cases h : fs.map pad ++ [[]] with
  | nil => simp at h
  | cons x xs => simp [cons_append, h, intercalate_cons_cons]

theorem mdMk_of_head {l : List Char} (h : l.head? = some '|') : mdMk l = none := by
  unfold mdMk
  have a1 : l ≠ mdMX.toList := by intro e; rw [e] at h; revert h; decide
  have a2 : l ≠ mdMEg.toList := by intro e; rw [e] at h; revert h; decide
  have a3 : l ≠ mdMIng.toList := by intro e; rw [e] at h; revert h; decide
  simp [a1, a2, a3]

theorem mdMk_md (r : Row) : mdMk r.md.toList = none := mdMk_of_head (by rw [Row.md_toList]; exact mdCells_head _)
theorem mdMk_mdIng (r : Row) : mdMk r.mdIng.toList = none := mdMk_of_head (by rw [Row.mdIng_toList]; exact mdCells_head _)

theorem mdCells_ne_nil (fs : List (List Char)) : mdCells fs ≠ [] := by
  intro e; have := mdCells_head fs; rw [e] at this; cases this

/-- the lines of the md output with exposure sections -/
def mdXLines (base eg ing : List Row) : List (List Char) :=
  [mdHeader1.toList, mdHeader2.toList] ++ base.map (fun r => r.md.toList) ++ [mdMX.toList] ++
    (if eg.isEmpty then [[]] else [mdMEg.toList, mdHeader1.toList, mdHeader2.toList] ++ eg.map (fun r => r.md.toList) ++ [[]]) ++
    (if ing.isEmpty then [[]] else [mdMIng.toList, mdHeader1Ing.toList, mdHeader2.toList] ++ ing.map (fun r => r.mdIng.toList) ++ [[]])

theorem linesOf_renderMdX {base eg ing : List Row} (hb : ∀ r ∈ base, r.MdWF) (he : ∀ r ∈ eg, r.MdWF) (hi : ∀ r ∈ ing, r.MdWF) :
    linesOf (renderMdX base eg ing) = mdXLines base eg ing := by
  unfold renderMdX mdXLines
  rw [linesOf_intercalate_flatMap (by simp)]
  have e1 : linesOf mdHeader = [mdHeader1.toList, mdHeader2.toList] := by decide
  have e2 : linesOf "## Exposure Analysis Result:" = [mdMX.toList] := by decide
  have e3 : linesOf ("### Egress Exposure:\n" ++ mdHeader) = [mdMEg.toList, mdHeader1.toList, mdHeader2.toList] := by decide
  have e4 : "### Ingress Exposure:\n| dst | src | conn |\n|-----|-----|------|\n" =
      "### Ingress Exposure:\n| dst | src | conn |\n|-----|-----|------|" ++ "\n" := by decide
  have e5 : linesOf "### Ingress Exposure:\n| dst | src | conn |\n|-----|-----|------|" =
      [mdMIng.toList, mdHeader1Ing.toList, mdHeader2.toList] := by decide
  have hbn : ∀ l ∈ base.map Row.md, NoNL l := by
    intro l hl; obtain ⟨r, hr, rfl⟩ := mem_map.mp hl; exact Row.md_noNL (hb r hr)
  have hen : ∀ l ∈ eg.map Row.md, NoNL l := by
    intro l hl; obtain ⟨r, hr, rfl⟩ := mem_map.mp hl; exact Row.md_noNL (he r hr)
  have hin : ∀ l ∈ ing.map Row.mdIng, NoNL l := by
    intro l hl; obtain ⟨r, hr, rfl⟩ := mem_map.mp hl; exact Row.mdIng_noNL (hi r hr)
  simp only [cons_append, flatMap_cons, flatMap_append, flatMap_nil, append_nil]
  rw [e1, e2, flatMap_linesOf_noNL hbn, linesOf_subSection _ hen, e4, linesOf_subSection _ hin, e3, e5]
  simp [map_map, append_assoc]
  rfl

/-- the three tables of an md output with exposure sections -/
def parseMdX (s : String) : Option (List Row × List Row × List Row) :=
  let sg := segments mdMk ((linesOf s).filter (!·.isEmpty))
  if !sg.2.any (·.1 == 1) then none
  else
    match parseAll parseMdLine (sg.1.drop 2), parseAll parseMdLine ((segOf sg.2 2).drop 2),
        parseAll parseMdLineIng ((segOf sg.2 3).drop 2) with
    | some b, some e, some i => some (b, e, i)
    | _, _, _ => none

theorem filter_nonempty_map {α : Type} (f : α → List Char) (l : List α) (h : ∀ a, f a ≠ []) :
    (l.map f).filter (!·.isEmpty) = l.map f := by
  apply filter_eq_self.mpr
  intro x hx
  obtain ⟨a, _, rfl⟩ := mem_map.mp hx
  simpa using h a

theorem Row.md_ne_nil (r : Row) : r.md.toList ≠ [] := by rw [Row.md_toList]; exact mdCells_ne_nil _
theorem Row.mdIng_ne_nil (r : Row) : r.mdIng.toList ≠ [] := by rw [Row.mdIng_toList]; exact mdCells_ne_nil _

/-- the md output with exposure sections is read back to its three tables -/
theorem parseMdX_renderMdX {base eg ing : List Row} (hb : ∀ r ∈ base, r.MdWF) (he : ∀ r ∈ eg, r.MdWF) (hi : ∀ r ∈ ing, r.MdWF) :
    parseMdX (renderMdX base eg ing) = some (base, eg, ing) := by
  unfold parseMdX
  rw [linesOf_renderMdX hb he hi]
  let secs : List (Sec (List Char)) :=
    [⟨mdMX.toList, 1, [], true⟩,
     ⟨mdMEg.toList, 2, [mdHeader1.toList, mdHeader2.toList] ++ eg.map (fun r => r.md.toList), !eg.isEmpty⟩,
     ⟨mdMIng.toList, 3, [mdHeader1Ing.toList, mdHeader2.toList] ++ ing.map (fun r => r.mdIng.toList), !ing.isEmpty⟩]
  have htok : (mdXLines base eg ing).filter (!·.isEmpty) =
      ([mdHeader1.toList, mdHeader2.toList] ++ base.map (fun r => r.md.toList)) ++
        secs.flatMap fun s => optSection s.marker s.body s.present := by
    unfold mdXLines
    simp only [filter_append, filter_nonempty_map _ _ Row.md_ne_nil]
    have c1 : [mdHeader1.toList, mdHeader2.toList].filter (!·.isEmpty) = [mdHeader1.toList, mdHeader2.toList] := by decide
    have c2 : [mdMX.toList].filter (!·.isEmpty) = [mdMX.toList] := by decide
    have c3 : [mdMEg.toList, mdHeader1.toList, mdHeader2.toList].filter (!·.isEmpty) =
        [mdMEg.toList, mdHeader1.toList, mdHeader2.toList] := by decide
    have c4 : [mdMIng.toList, mdHeader1Ing.toList, mdHeader2.toList].filter (!·.isEmpty) =
        [mdMIng.toList, mdHeader1Ing.toList, mdHeader2.toList] := by decide
    have c5 : [([] : List Char)].filter (!·.isEmpty) = [] := by decide
    have hfE : filter (fun x : List Char => !x.isEmpty)
        (mdMEg.toList :: mdHeader1.toList :: mdHeader2.toList :: (eg.map (fun r => r.md.toList) ++ [[]])) =
        mdMEg.toList :: mdHeader1.toList :: mdHeader2.toList :: eg.map (fun r => r.md.toList) := by
      show filter _ ([mdMEg.toList, mdHeader1.toList, mdHeader2.toList] ++ (eg.map (fun r => r.md.toList) ++ [[]])) = _
      rw [filter_append, c3, filter_append, filter_nonempty_map _ _ Row.md_ne_nil, c5]; simp
    have hfI : filter (fun x : List Char => !x.isEmpty)
        (mdMIng.toList :: mdHeader1Ing.toList :: mdHeader2.toList :: (ing.map (fun r => r.mdIng.toList) ++ [[]])) =
        mdMIng.toList :: mdHeader1Ing.toList :: mdHeader2.toList :: ing.map (fun r => r.mdIng.toList) := by
      show filter _ ([mdMIng.toList, mdHeader1Ing.toList, mdHeader2.toList] ++ (ing.map (fun r => r.mdIng.toList) ++ [[]])) = _
      rw [filter_append, c4, filter_append, filter_nonempty_map _ _ Row.mdIng_ne_nil, c5]; simp
    rw [c1, c2]
    cases hE : eg.isEmpty <;> cases hI : ing.isEmpty <;>
      simp only [secs, hfE, hfI, optSection, hE, hI, Bool.false_eq_true, ↓reduceIte, filter_append, c3, c4, c5, Bool.not_false, Bool.not_true,
        filter_nonempty_map _ _ Row.md_ne_nil, filter_nonempty_map _ _ Row.mdIng_ne_nil, flatMap_cons, flatMap_nil, append_nil,
        nil_append, cons_append, append_assoc]
  rw [htok, segments_sections]
  · have pb : parseAll parseMdLine (base.map fun r => r.md.toList) = some base :=
      parseAll_map _ _ _ (fun r hr => parseMdLine_md (hb r hr))
    have pe : parseAll parseMdLine (eg.map fun r => r.md.toList) = some eg :=
      parseAll_map _ _ _ (fun r hr => parseMdLine_md (he r hr))
    have pi : parseAll parseMdLineIng (ing.map fun r => r.mdIng.toList) = some ing :=
      parseAll_map _ _ _ (fun r hr => parseMdLineIng_mdIng (hi r hr))
    have hE0 : eg.isEmpty = true → eg = [] := fun h => List.isEmpty_iff.mp h
    have hI0 : ing.isEmpty = true → ing = [] := fun h => List.isEmpty_iff.mp h
    cases hE : eg.isEmpty <;> cases hI : ing.isEmpty <;> simp_all [secs, segOf, parseAll]
  · intro t ht
    simp only [cons_append, nil_append, mem_cons, mem_map] at ht
    rcases ht with rfl | rfl | ⟨r, _, rfl⟩
    · decide
    · decide
    · exact mdMk_md r
  · intro sc hsc
    simp only [secs, mem_cons, not_mem_nil, or_false] at hsc
    rcases hsc with rfl | rfl | rfl
    · exact ⟨(by decide : mdMk mdMX.toList = some 1), by simp⟩
    · refine ⟨(by decide : mdMk mdMEg.toList = some 2), ?_⟩
      intro t ht
      simp only [cons_append, nil_append, mem_cons, mem_map] at ht
      rcases ht with rfl | rfl | ⟨r, _, rfl⟩
      · decide
      · decide
      · exact mdMk_md r
    · refine ⟨(by decide : mdMk mdMIng.toList = some 3), ?_⟩
      intro t ht
      simp only [cons_append, nil_append, mem_cons, mem_map] at ht
      rcases ht with rfl | rfl | ⟨r, _, rfl⟩
      · decide
      · decide
      · exact mdMk_mdIng r

end MdX

-- ------------------------------------------------------------------------------------------
-- txt

section TxtX

/-- lines, each terminated by a newline -/
def tb (ls : List String) : String := String.join (ls.map (· ++ "\n"))

theorem tb_append (a b : List String) : tb (a ++ b) = tb a ++ tb b := by simp [tb, String.join_append]

theorem tb_nil : tb [] = "" := by simp [tb]

theorem tb_cons (a : String) (l : List String) : tb (a :: l) = a ++ "\n" ++ tb l := by simp [tb]

theorem tb_eq {ls : List String} (h : ls ≠ []) : tb ls = "\n".intercalate ls ++ "\n" := join_records h

theorem linesOf_tb {ls : List String} (h : ∀ l ∈ ls, NoNL l) : linesOf (tb ls) = ls.map String.toList ++ [[]] := by
  by_cases hne : ls = []
  · subst hne; simp [tb, linesOf, splitOnChar]
  · rw [tb_eq hne, linesOf_intercalate_nl hne h]

def txtMX : String := "Exposure Analysis Result:"
def txtMEg : String := "Egress Exposure:"
def txtMIng : String := "Ingress Exposure:"
def txtMU : String := "Workloads not protected by network policies:"

def egLine (w : Nat) (r : Row) : String := padRight r.src w ++ " \t=> \t" ++ r.dst ++ " : " ++ r.conn
def ingLine (w : Nat) (r : Row) : String := padRight r.dst w ++ " \t<= \t" ++ r.src ++ " : " ++ r.conn

/-- `formatText.writeOutput` with exposure results, on the tables, the unprotected lines and the column width -/
def txtRes (res : String) : String := if res != "" && res != "\n" then res ++ "\n" else res

def renderTxtX (base eg ing : List Row) (unp : List String) (w : Nat) : String :=
  txtRes (renderTxt base) ++ "Exposure Analysis Result:\n" ++ subSection (eg.map (egLine w)) "Egress Exposure:\n" ++
    subSection (ing.map (ingLine w)) ((if eg.isEmpty then "" else "\n") ++ "Ingress Exposure:\n") ++
    subSection unp "\nWorkloads not protected by network policies:\n"

theorem listTxtX_eq (conns : List Conn) (xs : List XPeerF) :
    listTxtX conns xs = renderTxtX (rowsTxt conns) (egressRows conns xs) (ingressRows conns xs) (unprotectedLines xs)
      (xs.foldl (fun m p => max m p.peer.str.utf8ByteSize) 0) := by
  unfold listTxtX renderTxtX
  rw [listTxt_eq]
  rfl

/-- all lines of the output, in order (without the final empty piece) -/
def txtXLines (base eg ing : List Row) (unp : List String) (w : Nat) : List String :=
  base.map Row.txtLine ++ [""] ++ [txtMX] ++
    (if eg.isEmpty then [] else txtMEg :: eg.map (egLine w)) ++
    (if ing.isEmpty then [] else (if eg.isEmpty then [] else [""]) ++ txtMIng :: ing.map (ingLine w)) ++
    (if unp.isEmpty then [] else "" :: txtMU :: unp)

theorem subSection_tb (lines hdr : List String) : subSection lines (tb hdr) = if lines.isEmpty then "" else tb (hdr ++ lines) := by
  unfold subSection
  cases h : lines.isEmpty
  · have hne : lines ≠ [] := by intro e; simp [e] at h
    simp only [Bool.false_eq_true, ↓reduceIte]
    rw [tb_append, tb_eq hne, String.append_assoc]
  · rfl

theorem renderTxt_ne {base : List Row} (hne : base ≠ []) (h : ∀ r ∈ base, r.TxtWF) :
    (renderTxt base != "" && renderTxt base != "\n") = true := by
  obtain ⟨r, rs, rfl⟩ := exists_cons_of_ne_nil hne
  have hl : NoNL r.txtLine := Row.txtLine_noNL (h r mem_cons_self)
  have hn := Row.txtLine_ne_nil r
  have e : (renderTxt (r :: rs)).toList = r.txtLine.toList ++ '\n' :: (if rs = [] then [] else (renderTxt rs).toList) := by
    unfold renderTxt
    cases rs with
    | nil => simp [String.toList_append]
    | cons r' rs' => simp [String.toList_append, String.intercalate_cons_cons]
  have h1 : renderTxt (r :: rs) ≠ "" := by
    intro e'
    have := congrArg String.toList e'
    rw [e] at this
    simp at this
  have h2 : renderTxt (r :: rs) ≠ "\n" := by
    intro e'
    have := congrArg String.toList e'
    obtain ⟨c, cs, hc⟩ := exists_cons_of_ne_nil hn
    have hcn : c ≠ '\n' := by
      intro ec
      apply hl
      show '\n' ∈ r.txtLine.toList
      rw [hc, ec]; exact mem_cons_self
    have h3 : ("\n" : String).toList = ['\n'] := by decide
    rw [e, h3, hc] at this
    simp only [cons_append, cons.injEq] at this
    exact hcn this.1
  simp [h1, h2]

theorem renderTxtX_tb {base eg ing : List Row} {unp : List String} (w : Nat) (hb : ∀ r ∈ base, r.TxtWF) :
    renderTxtX base eg ing unp w = tb (txtXLines base eg ing unp w) := by
  unfold renderTxtX txtXLines
  have e1 : "Exposure Analysis Result:\n" = tb [txtMX] := by decide
  have e2 : "Egress Exposure:\n" = tb [txtMEg] := by decide
  have e3 : "\nWorkloads not protected by network policies:\n" = tb ["", txtMU] := by decide
  have e4 : (if eg.isEmpty then "" else "\n") ++ "Ingress Exposure:\n" = tb ((if eg.isEmpty then [] else [""]) ++ [txtMIng]) := by
    cases eg.isEmpty <;> decide
  have e0 : txtRes (renderTxt base) = tb (base.map Row.txtLine ++ [""]) := by
    unfold txtRes
    by_cases hne : base = []
    · subst hne; decide
    · simp only [renderTxt_ne hne hb, ↓reduceIte]
      rw [tb_append, show renderTxt base = tb (base.map Row.txtLine) from (tb_eq (by simpa using hne)).symm]
      congr 1
  rw [e0, e1, e2, e3, e4, subSection_tb, subSection_tb, subSection_tb]
  have m1 : (eg.map (egLine w)).isEmpty = eg.isEmpty := by cases eg <;> rfl
  have m2 : (ing.map (ingLine w)).isEmpty = ing.isEmpty := by cases ing <;> rfl
  rw [m1, m2]
  cases hE : eg.isEmpty <;> cases hI : ing.isEmpty <;> cases hU : unp.isEmpty <;>
    simp [tb_append, tb_nil, tb_cons, String.append_assoc]

theorem padRight_toList (s : String) (w : Nat) : (padRight s w).toList = s.toList ++ replicate (w - s.length) ' ' := by
  simp [padRight, String.toList_append]

theorem replicate_append_cons (k : Nat) (c : Char) (X : List Char) : replicate k c ++ c :: X = c :: (replicate k c ++ X) := by
  induction k with
  | zero => rfl
  | succ n ih => simp [replicate_succ, ih]

theorem dropWhile_spaces (k : Nat) (Z : List Char) :
    dropWhile (· == ' ') (' ' :: (replicate k ' ' ++ '\t' :: Z)) = '\t' :: Z := by
  induction k with
  | zero => simp [dropWhile]
  | succ n ih =>
    simp only [dropWhile_cons, beq_self_eq_true, ↓reduceIte, replicate_succ, cons_append] at ih ⊢
    exact ih

/-- `PEER<blanks> \t<arrow> \tOTHER : CONN`: the padded peer, the other end, the connection string -/
def parseXLine (arrow : List Char) (l : List Char) : Option (List Char × List Char × List Char) :=
  let a := untilChar ' ' l
  match stripPrefix ('\t' :: arrow ++ [' ', '\t']) (a.2.dropWhile (· == ' ')) with
  | none => none
  | some body =>
    let c := untilChar ':' body.reverse
    match c.2 with
    | x :: y :: o => if x = ':' ∧ y = ' ' ∧ c.1.getLast? = some ' ' then some (a.1, o.reverse, c.1.dropLast.reverse) else none
    | _ => none

theorem parseXLine_line (arrow peer other conn : List Char) (k : Nat) (h1 : ' ' ∉ peer) (h3 : ':' ∉ conn) :
    parseXLine arrow (peer ++ (replicate k ' ' ++ ' ' :: ('\t' :: arrow ++ [' ', '\t']) ++ (other ++ ' ' :: ':' :: ' ' :: conn))) =
      some (peer, other, conn) := by
  unfold parseXLine
  have e1 : replicate k ' ' ++ ' ' :: ('\t' :: arrow ++ [' ', '\t']) ++ (other ++ ' ' :: ':' :: ' ' :: conn) =
      ' ' :: (replicate k ' ' ++ '\t' :: (arrow ++ [' ', '\t'] ++ (other ++ ' ' :: ':' :: ' ' :: conn))) := by
    rw [append_assoc, cons_append, replicate_append_cons]; simp
  rw [e1, untilChar_append h1]
  simp only [dropWhile_spaces]
  have e2 : '\t' :: (arrow ++ [' ', '\t'] ++ (other ++ ' ' :: ':' :: ' ' :: conn)) =
      ('\t' :: arrow ++ [' ', '\t']) ++ (other ++ ' ' :: ':' :: ' ' :: conn) := by simp
  rw [e2, stripPrefix_append]
  have e3 : (other ++ ' ' :: ':' :: ' ' :: conn).reverse = (conn.reverse ++ [' ']) ++ ':' :: (' ' :: other.reverse) := by simp
  have h4 : ':' ∉ conn.reverse ++ [' '] := by
    simp only [mem_append, mem_reverse, mem_cons, not_mem_nil, or_false, not_or]
    exact ⟨h3, by decide⟩
  simp only [e3, untilChar_append h4]
  simp

def txtMk (l : List Char) : Option Nat :=
  if l = txtMX.toList then some 1 else if l = txtMEg.toList then some 2 else if l = txtMIng.toList then some 3
  else if l = txtMU.toList then some 4 else none

theorem txtMk_of_gt {l : List Char} (h : '>' ∈ l) : txtMk l = none := by
  unfold txtMk
  have a1 : l ≠ txtMX.toList := by intro e; rw [e] at h; revert h; decide
  have a2 : l ≠ txtMEg.toList := by intro e; rw [e] at h; revert h; decide
  have a3 : l ≠ txtMIng.toList := by intro e; rw [e] at h; revert h; decide
  have a4 : l ≠ txtMU.toList := by intro e; rw [e] at h; revert h; decide
  simp [a1, a2, a3, a4]

theorem txtMk_of_tab {l : List Char} (h : '\t' ∈ l) : txtMk l = none := by
  unfold txtMk
  have a1 : l ≠ txtMX.toList := by intro e; rw [e] at h; revert h; decide
  have a2 : l ≠ txtMEg.toList := by intro e; rw [e] at h; revert h; decide
  have a3 : l ≠ txtMIng.toList := by intro e; rw [e] at h; revert h; decide
  have a4 : l ≠ txtMU.toList := by intro e; rw [e] at h; revert h; decide
  simp [a1, a2, a3, a4]

/-- an egress exposure row: no blank in the exposed peer, no colon in the connection string, no newline -/
def Row.EgWF (r : Row) : Prop := Free [' ', '\n'] r.src ∧ NoNL r.dst ∧ Free [':', '\n'] r.conn
instance (r : Row) : Decidable r.EgWF := by unfold Row.EgWF; infer_instance

/-- an ingress exposure row: the exposed peer is the destination -/
def Row.IngWF (r : Row) : Prop := Free [' ', '\n'] r.dst ∧ NoNL r.src ∧ Free [':', '\n'] r.conn
instance (r : Row) : Decidable r.IngWF := by unfold Row.IngWF; infer_instance

theorem egLine_toList (w : Nat) (r : Row) : (egLine w r).toList =
    r.src.toList ++ (replicate (w - r.src.length) ' ' ++ ' ' :: ('\t' :: "=>".toList ++ [' ', '\t']) ++
      (r.dst.toList ++ ' ' :: ':' :: ' ' :: r.conn.toList)) := by
  simp [egLine, String.toList_append, padRight_toList]

theorem ingLine_toList (w : Nat) (r : Row) : (ingLine w r).toList =
    r.dst.toList ++ (replicate (w - r.dst.length) ' ' ++ ' ' :: ('\t' :: "<=".toList ++ [' ', '\t']) ++
      (r.src.toList ++ ' ' :: ':' :: ' ' :: r.conn.toList)) := by
  simp [ingLine, String.toList_append, padRight_toList]

def parseEgLine (l : List Char) : Option Row :=
  (parseXLine "=>".toList l).map fun t => ⟨String.ofList t.1, String.ofList t.2.1, String.ofList t.2.2⟩

/-- an ingress line `PEER <= OTHER : CONN` is the row OTHER → PEER -/
def parseIngLine (l : List Char) : Option Row :=
  (parseXLine "<=".toList l).map fun t => ⟨String.ofList t.2.1, String.ofList t.1, String.ofList t.2.2⟩

theorem parseEgLine_egLine (w : Nat) {r : Row} (h : r.EgWF) : parseEgLine (egLine w r).toList = some r := by
  unfold parseEgLine
  rw [egLine_toList, parseXLine_line _ _ _ _ _ (h.1 ' ' (by simp)) (h.2.2 ':' (by simp))]
  simp

theorem parseIngLine_ingLine (w : Nat) {r : Row} (h : r.IngWF) : parseIngLine (ingLine w r).toList = some r := by
  unfold parseIngLine
  rw [ingLine_toList, parseXLine_line _ _ _ _ _ (h.1 ' ' (by simp)) (h.2.2 ':' (by simp))]
  simp

theorem egLine_props (w : Nat) {r : Row} (h : r.EgWF) : NoNL (egLine w r) ∧ '\t' ∈ (egLine w r).toList := by
  have a1 := h.1 '\n' (by simp); have a2 := h.2.1; have a3 := h.2.2 '\n' (by simp)
  unfold NoNL at *
  rw [egLine_toList]
  constructor
  · simp [a1, a2, a3]
  · simp

theorem ingLine_props (w : Nat) {r : Row} (h : r.IngWF) : NoNL (ingLine w r) ∧ '\t' ∈ (ingLine w r).toList := by
  have a1 := h.1 '\n' (by simp); have a2 := h.2.1; have a3 := h.2.2 '\n' (by simp)
  unfold NoNL at *
  rw [ingLine_toList]
  constructor
  · simp [a1, a2, a3]
  · simp

/-- a line of the unprotected-workloads section -/
def UnpOK (u : String) : Prop := NoNL u ∧ u.toList ≠ [] ∧ txtMk u.toList = none
instance (u : String) : Decidable (UnpOK u) := by unfold UnpOK; infer_instance

/-- the tables and the unprotected-workload lines of a txt output with exposure sections -/
def parseTxtX (s : String) : Option (List Row × List Row × List Row × List String) :=
  let sg := segments txtMk ((linesOf s).filter (!·.isEmpty))
  if !sg.2.any (·.1 == 1) then none
  else
    match parseAll parseTxtLine sg.1, parseAll parseEgLine (segOf sg.2 2), parseAll parseIngLine (segOf sg.2 3) with
    | some b, some e, some i => some (b, e, i, (segOf sg.2 4).map String.ofList)
    | _, _, _ => none

theorem Row.txtLine_gt (r : Row) : '>' ∈ r.txtLine.toList := by simp [Row.txtLine, String.toList_append]

/-- the txt output with exposure sections is read back to its tables and unprotected-workload lines -/
theorem parseTxtX_renderTxtX {base eg ing : List Row} {unp : List String} (w : Nat) (hb : ∀ r ∈ base, r.TxtWF)
    (he : ∀ r ∈ eg, r.EgWF) (hi : ∀ r ∈ ing, r.IngWF) (hu : ∀ u ∈ unp, UnpOK u) :
    parseTxtX (renderTxtX base eg ing unp w) = some (base, eg, ing, unp) := by
  unfold parseTxtX
  have hnl : ∀ l ∈ txtXLines base eg ing unp w, NoNL l := by
    intro l hl
    unfold txtXLines at hl
    simp only [mem_append, mem_map, mem_cons, not_mem_nil, or_false] at hl
    rcases hl with ((((⟨r, hr, rfl⟩ | rfl) | rfl) | hl) | hl) | hl
    · exact Row.txtLine_noNL (hb r hr)
    · decide
    · decide
    · split at hl
      · cases hl
      · simp only [mem_cons, mem_map] at hl
        rcases hl with rfl | ⟨r, hr, rfl⟩
        · decide
        · exact (egLine_props w (he r hr)).1
    · split at hl
      · cases hl
      · simp only [mem_append, mem_cons, mem_map] at hl
        rcases hl with hl | rfl | ⟨r, hr, rfl⟩
        · split at hl
          · cases hl
          · simp only [mem_cons, not_mem_nil, or_false] at hl; subst hl; decide
        · decide
        · exact (ingLine_props w (hi r hr)).1
    · split at hl
      · cases hl
      · simp only [mem_cons] at hl
        rcases hl with rfl | rfl | hl
        · decide
        · decide
        · exact (hu l hl).1
  rw [renderTxtX_tb w hb, linesOf_tb hnl]
  let secs : List (Sec (List Char)) :=
    [⟨txtMX.toList, 1, [], true⟩,
     ⟨txtMEg.toList, 2, eg.map (fun r => (egLine w r).toList), !eg.isEmpty⟩,
     ⟨txtMIng.toList, 3, ing.map (fun r => (ingLine w r).toList), !ing.isEmpty⟩,
     ⟨txtMU.toList, 4, unp.map String.toList, !unp.isEmpty⟩]
  have hegne : ∀ r, (egLine w r).toList ≠ [] := by intro r; rw [egLine_toList]; simp
  have hingne : ∀ r, (ingLine w r).toList ≠ [] := by intro r; rw [ingLine_toList]; simp
  have hunpf : (unp.map String.toList).filter (!·.isEmpty) = unp.map String.toList := by
    apply filter_eq_self.mpr
    intro x hx
    obtain ⟨u, hu', rfl⟩ := mem_map.mp hx
    simpa using (hu u hu').2.1
  have htok : ((txtXLines base eg ing unp w).map String.toList ++ [[]]).filter (!·.isEmpty) =
      base.map (fun r => r.txtLine.toList) ++ secs.flatMap fun s => optSection s.marker s.body s.present := by
    unfold txtXLines
    have fne : ∀ (x : List Char) (l : List (List Char)), x ≠ [] →
        filter (fun y : List Char => !y.isEmpty) (x :: l) = x :: filter (fun y : List Char => !y.isEmpty) l := by
      intro x l hx; cases x with
      | nil => exact absurd rfl hx
      | cons a as => simp
    have fnil : ∀ (l : List (List Char)),
        filter (fun y : List Char => !y.isEmpty) ([] :: l) = filter (fun y : List Char => !y.isEmpty) l := by
      intro l; simp
    have e0 : ("" : String).toList = [] := by decide
    have n1 : txtMX.toList ≠ [] := by decide
    have n2 : txtMEg.toList ≠ [] := by decide
    have n3 : txtMIng.toList ≠ [] := by decide
    have n4 : txtMU.toList ≠ [] := by decide
    have fb : (base.map (fun r => r.txtLine.toList)).filter (!·.isEmpty) = base.map (fun r => r.txtLine.toList) :=
      filter_nonempty_map _ _ Row.txtLine_ne_nil
    have fe := filter_nonempty_map (fun r => (egLine w r).toList) eg hegne
    have fi := filter_nonempty_map (fun r => (ingLine w r).toList) ing hingne
    have fb' : filter (fun x : List Char => !x.isEmpty) (map (String.toList ∘ Row.txtLine) base) =
        map (fun r => r.txtLine.toList) base := fb
    have fe' : filter (fun x : List Char => !x.isEmpty) (map (String.toList ∘ egLine w) eg) =
        map (fun r => (egLine w r).toList) eg := fe
    have fi' : filter (fun x : List Char => !x.isEmpty) (map (String.toList ∘ ingLine w) ing) =
        map (fun r => (ingLine w r).toList) ing := fi
    cases hE : eg.isEmpty <;> cases hI : ing.isEmpty <;> cases hU : unp.isEmpty <;>
      simp only [secs, fb', fe', fi', hE, hI, hU, Bool.false_eq_true, ↓reduceIte, map_append, map_cons, map_nil, map_map, Function.comp,
        filter_append, append_nil, nil_append, Bool.not_false, Bool.not_true, optSection, flatMap_cons, flatMap_nil,
        append_assoc, e0, fnil, fne _ _ n1, fne _ _ n2, fne _ _ n3, fne _ _ n4, fb, fe, fi, hunpf, filter_nil, cons_append]
  rw [htok, segments_sections]
  · have pb : parseAll parseTxtLine (base.map fun r => r.txtLine.toList) = some base :=
      parseAll_map _ _ _ (fun r hr => parseTxtLine_txtLine (hb r hr))
    have pe : parseAll parseEgLine (eg.map fun r => (egLine w r).toList) = some eg :=
      parseAll_map _ _ _ (fun r hr => parseEgLine_egLine w (he r hr))
    have pi : parseAll parseIngLine (ing.map fun r => (ingLine w r).toList) = some ing :=
      parseAll_map _ _ _ (fun r hr => parseIngLine_ingLine w (hi r hr))
    have pu : (unp.map String.toList).map String.ofList = unp := by
      rw [map_map]; conv => rhs; rw [← map_id unp]
      apply map_congr_left; intro a _; simp
    have hE0 : eg.isEmpty = true → eg = [] := fun h => List.isEmpty_iff.mp h
    have hI0 : ing.isEmpty = true → ing = [] := fun h => List.isEmpty_iff.mp h
    have hU0 : unp.isEmpty = true → unp = [] := fun h => List.isEmpty_iff.mp h
    cases hE : eg.isEmpty <;> cases hI : ing.isEmpty <;> cases hU : unp.isEmpty <;> simp_all [secs, segOf, parseAll]
  · intro t ht
    obtain ⟨r, _, rfl⟩ := mem_map.mp ht
    exact txtMk_of_gt (Row.txtLine_gt r)
  · intro sc hsc
    simp only [secs, mem_cons, not_mem_nil, or_false] at hsc
    rcases hsc with rfl | rfl | rfl | rfl
    · exact ⟨(by decide : txtMk txtMX.toList = some 1), by simp⟩
    · refine ⟨(by decide : txtMk txtMEg.toList = some 2), ?_⟩
      intro t ht
      obtain ⟨r, hr, rfl⟩ := mem_map.mp ht
      exact txtMk_of_tab (egLine_props w (he r hr)).2
    · refine ⟨(by decide : txtMk txtMIng.toList = some 3), ?_⟩
      intro t ht
      obtain ⟨r, hr, rfl⟩ := mem_map.mp ht
      exact txtMk_of_tab (ingLine_props w (hi r hr)).2
    · refine ⟨(by decide : txtMk txtMU.toList = some 4), ?_⟩
      intro t ht
      obtain ⟨u, hu', rfl⟩ := mem_map.mp ht
      exact (hu u hu').2.2

theorem txtMk_of_last {l : List Char} (h : l.getLast? = some 's') : txtMk l = none := by
  unfold txtMk
  have a1 : l ≠ txtMX.toList := by intro e; rw [e] at h; revert h; decide
  have a2 : l ≠ txtMEg.toList := by intro e; rw [e] at h; revert h; decide
  have a3 : l ≠ txtMIng.toList := by intro e; rw [e] at h; revert h; decide
  have a4 : l ≠ txtMU.toList := by intro e; rw [e] at h; revert h; decide
  simp [a1, a2, a3, a4]

/-- the lines `PEER is not protected on Ingress / Egress` are well-formed lines of the last txt section -/
theorem unprotectedLines_ok {xs : List XPeerF} (h : ∀ p ∈ xs, NoNL p.peer.str) : ∀ u ∈ unprotectedLines xs, UnpOK u := by
  intro u hu
  unfold unprotectedLines at hu
  obtain ⟨p, hp, hup⟩ := mem_flatMap.mp (mem_sortStrings.mp hu)
  have hn := h p hp
  unfold NoNL at hn
  have key : ∀ (sfx : String), (sfx = " is not protected on Ingress" ∨ sfx = " is not protected on Egress") →
      UnpOK (p.peer.str ++ sfx) := by
    intro sfx hs
    rcases hs with rfl | rfl
    · refine ⟨?_, ?_, ?_⟩
      · unfold NoNL; simp [String.toList_append, hn]
      · simp [String.toList_append]
      · apply txtMk_of_last; simp [String.toList_append, getLast?_append]
    · refine ⟨?_, ?_, ?_⟩
      · unfold NoNL; simp [String.toList_append, hn]
      · simp [String.toList_append]
      · apply txtMk_of_last; simp [String.toList_append, getLast?_append]
  simp only [mem_append] at hup
  rcases hup with hup | hup
  · split at hup
    · simp only [mem_cons, not_mem_nil, or_false] at hup; subst hup; exact key _ (Or.inl rfl)
    · cases hup
  · split at hup
    · simp only [mem_cons, not_mem_nil, or_false] at hup; subst hup; exact key _ (Or.inr rfl)
    · cases hup

end TxtX

-- ------------------------------------------------------------------------------------------
-- json

section JsonX

/-- a key / value line at indentation `n` -/
def jsonKVAt (n : Nat) (key v : String) (comma : Bool) : String :=
  spaces n ++ "\"" ++ key ++ "\": " ++ jsonStr v ++ (if comma then "," else "")

/-- the lines of one array element at indentation `n` -/
def jsonElemLines (n : Nat) (r : Row) (last : Bool) : List String :=
  [spaces n ++ "{", jsonKVAt (n + 2) "src" r.src true, jsonKVAt (n + 2) "dst" r.dst true, jsonKVAt (n + 2) "conn" r.conn false,
    spaces n ++ (if last then "}" else "},")]

/-- the lines of the elements of an array at indentation `n` -/
def jsonRowLines (n : Nat) : List Row → List String
  | [] => []
  | [r] => jsonElemLines n r true
  | r :: r' :: rs => jsonElemLines n r false ++ jsonRowLines n (r' :: rs)

/-- the element of `jsonRows` at depth `d` -/
def jsonElem (d : Nat) (r : Row) : String :=
  spaces (2 * d) ++ "{\n" ++ spaces (2 * d + 2) ++ "\"src\": " ++ jsonStr r.src ++ ",\n" ++ spaces (2 * d + 2) ++ "\"dst\": " ++
    jsonStr r.dst ++ ",\n" ++ spaces (2 * d + 2) ++ "\"conn\": " ++ jsonStr r.conn ++ "\n" ++ spaces (2 * d) ++ "}"

theorem jsonElem_eq (d : Nat) (r : Row) : jsonElem d r = "\n".intercalate (jsonElemLines (2 * d) r true) := by
  unfold jsonElem jsonElemLines jsonKVAt
  apply String.toList_injective
  simp [String.toList_append]

theorem jsonRowLines_ne_nil (n : Nat) {rows : List Row} (h : rows ≠ []) : jsonRowLines n rows ≠ [] := by
  match rows, h with
  | [r], _ => simp [jsonRowLines, jsonElemLines]
  | r :: r' :: rs, _ => simp [jsonRowLines, jsonElemLines]

theorem intercalate_jsonElems (d : Nat) : ∀ {rows : List Row}, rows ≠ [] →
    ",\n".intercalate (rows.map (jsonElem d)) = "\n".intercalate (jsonRowLines (2 * d) rows)
  | [], h => absurd rfl h
  | [r], _ => by simp [jsonRowLines, jsonElem_eq]
  | r :: r' :: rs, _ => by
    have ih := intercalate_jsonElems d (cons_ne_nil r' rs)
    rw [map_cons, map_cons, String.intercalate_cons_cons, ← map_cons, ih, jsonRowLines]
    obtain ⟨x, xs, hx⟩ := exists_cons_of_ne_nil (jsonRowLines_ne_nil (2 * d) (cons_ne_nil r' rs))
    rw [hx, jsonElem_eq]
    unfold jsonElemLines
    apply String.toList_injective
    simp [String.toList_append]

/-- the lines of `KEY: ARRAY SUFFIX` -/
def jsonArrLines (key : String) (d : Nat) (rows : List Row) (emptyTxt suffix : String) : List String :=
  if rows.isEmpty then [key ++ emptyTxt ++ suffix]
  else [key ++ "["] ++ jsonRowLines (2 * d) rows ++ [spaces (2 * d - 2) ++ "]" ++ suffix]

theorem jsonRows_lines (key : String) (d : Nat) (rows : List Row) (isNil : Bool) (emptyTxt suffix : String)
    (hE : rows.isEmpty = true → jsonRows d rows isNil = emptyTxt) (hN : rows.isEmpty = false → isNil = false) :
    key ++ jsonRows d rows isNil ++ suffix = "\n".intercalate (jsonArrLines key d rows emptyTxt suffix) := by
  unfold jsonArrLines
  cases hr : rows.isEmpty
  · have hne : rows ≠ [] := by intro e; simp [e] at hr
    have e1 : jsonRows d rows isNil = "[\n" ++ ",\n".intercalate (rows.map (jsonElem d)) ++ "\n" ++ spaces (2 * d - 2) ++ "]" := by
      unfold jsonRows
      simp only [hN hr, hr, Bool.false_eq_true, ↓reduceIte]
      rfl
    rw [e1, intercalate_jsonElems d hne]
    obtain ⟨x, xs, hx⟩ := exists_cons_of_ne_nil (jsonRowLines_ne_nil (2 * d) hne)
    simp only [Bool.false_eq_true, ↓reduceIte]
    rw [hx, String.intercalate_append_of_ne_nil (by simp) (by simp), singleton_append, String.intercalate_cons_cons]
    apply String.toList_injective
    simp [String.toList_append]
  · simp [hE hr]

def jK1 : String := "  \"connlist_results\": "
def jKX : String := "  \"exposure_results\": {"
def jK3 : String := "    \"egress_exposure\": "
def jK4 : String := "    \"ingress_exposure\": "

/-- `formatJSON.writeOutput` with exposure results, on the three tables -/
def renderJsonX (base eg ing : List Row) : String :=
  "{\n  \"connlist_results\": " ++ jsonRows 2 base false ++ ",\n  \"exposure_results\": {\n    \"egress_exposure\": " ++
    jsonRows 3 eg eg.isEmpty ++ ",\n    \"ingress_exposure\": " ++ jsonRows 3 ing ing.isEmpty ++ "\n  }\n}"

theorem listJsonX_eq (conns : List Conn) (xs : List XPeerF) :
    listJsonX conns xs = renderJsonX (table conns) (egressRows conns xs) (ingressRows conns xs) := rfl

/-- the lines of the json output with exposure sections -/
def jsonXLines (base eg ing : List Row) : List String :=
  ["{"] ++ jsonArrLines jK1 2 base "[]" "," ++ [jKX] ++ jsonArrLines jK3 3 eg "null" "," ++ jsonArrLines jK4 3 ing "null" "" ++
    ["  }", "}"]

theorem jsonArrLines_ne_nil (key : String) (d : Nat) (rows : List Row) (e s : String) : jsonArrLines key d rows e s ≠ [] := by
  unfold jsonArrLines; split <;> simp

theorem renderJsonX_lines (base eg ing : List Row) : renderJsonX base eg ing = "\n".intercalate (jsonXLines base eg ing) := by
  unfold jsonXLines
  have n1 := jsonArrLines_ne_nil jK1 2 base "[]" ","
  have n2 := jsonArrLines_ne_nil jK3 3 eg "null" ","
  have n3 := jsonArrLines_ne_nil jK4 3 ing "null" ""
  rw [String.intercalate_append_of_ne_nil (by simp) (by simp),
    String.intercalate_append_of_ne_nil (by simp) n3,
    String.intercalate_append_of_ne_nil (by simp) n2,
    String.intercalate_append_of_ne_nil (by simp) (by simp),
    String.intercalate_append_of_ne_nil (by simp) n1]
  rw [← jsonRows_lines jK1 2 base false "[]" "," (by intro h; simp [jsonRows, h]) (by intro _; rfl),
    ← jsonRows_lines jK3 3 eg eg.isEmpty "null" "," (by intro h; simp [jsonRows, h]) (by intro h; exact h),
    ← jsonRows_lines jK4 3 ing ing.isEmpty "null" "" (by intro h; simp [jsonRows, h]) (by intro h; exact h)]
  unfold renderJsonX jK1 jKX jK3 jK4
  apply String.toList_injective
  simp [String.toList_append]

def parseKVAt (n : Nat) (key : String) (comma : Bool) (l : List Char) : Option (List Char) :=
  match stripPrefix (spaces n ++ "\"" ++ key ++ "\": \"").toList l with
  | none => none
  | some r =>
    let a := untilChar '"' r
    if a.2 = (if comma then "\",".toList else "\"".toList) then some a.1 else none

theorem parseKVAt_jsonKVAt (n : Nat) (key : String) {v : String} (h : JsonPlain v) (comma : Bool) :
    parseKVAt n key comma (jsonKVAt n key v comma).toList = some v.toList := by
  unfold parseKVAt
  have e : (jsonKVAt n key v comma).toList =
      (spaces n ++ "\"" ++ key ++ "\": \"").toList ++ (v.toList ++ '"' :: (if comma then [','] else [])) := by
    cases comma <;> simp [jsonKVAt, String.toList_append, jsonStr_plain h]
  rw [e, stripPrefix_append]
  simp only [untilChar_append h.noQuote]
  cases comma <;> simp

/-- array elements at indentation `n`, five lines each -/
def parseRowsAt (n : Nat) : List (List Char) → Option (List Row)
  | [] => some []
  | l1 :: l2 :: l3 :: l4 :: l5 :: rest =>
    if l1 = (spaces n ++ "{").toList ∧ (l5 = (spaces n ++ "}").toList ∨ l5 = (spaces n ++ "},").toList) then
      match parseKVAt (n + 2) "src" true l2, parseKVAt (n + 2) "dst" true l3, parseKVAt (n + 2) "conn" false l4, parseRowsAt n rest with
      | some s, some d, some c, some rs => some (⟨String.ofList s, String.ofList d, String.ofList c⟩ :: rs)
      | _, _, _, _ => none
    else none
  | _ => none

theorem parseRowsAt_rowLines (n : Nat) : ∀ {rows : List Row}, (∀ r ∈ rows, r.JsonWF) →
    parseRowsAt n ((jsonRowLines n rows).map String.toList) = some rows
  | [], _ => by simp [jsonRowLines, parseRowsAt]
  | [r], h => by
    obtain ⟨h1, h2, h3⟩ := h r mem_cons_self
    simp [jsonRowLines, jsonElemLines, parseRowsAt, parseKVAt_jsonKVAt, h1, h2, h3]
  | r :: r' :: rs, h => by
    obtain ⟨h1, h2, h3⟩ := h r mem_cons_self
    have ih := parseRowsAt_rowLines n (fun x hx => h x (mem_cons_of_mem _ hx) : ∀ x ∈ r' :: rs, x.JsonWF)
    rw [jsonRowLines]
    simp only [jsonElemLines, map_append, map_cons, map_nil, cons_append, nil_append]
    unfold parseRowsAt
    simp [parseKVAt_jsonKVAt, h1, h2, h3, ih]

theorem spaces_toList (n : Nat) : (spaces n).toList = replicate n ' ' := by simp [spaces]

theorem jsonKVAt_noNL (n : Nat) (key : String) (hk : NoNL key) {v : String} (h : JsonPlain v) (comma : Bool) :
    NoNL (jsonKVAt n key v comma) := by
  have := h.noNL
  unfold NoNL at *
  cases comma <;> simp [jsonKVAt, String.toList_append, jsonStr_plain h, this, hk, spaces_toList]

theorem jsonRowLines_noNL (n : Nat) : ∀ {rows : List Row}, (∀ r ∈ rows, r.JsonWF) → ∀ l ∈ jsonRowLines n rows, NoNL l
  | [], _ => by simp [jsonRowLines]
  | [r], h => by
    obtain ⟨h1, h2, h3⟩ := h r mem_cons_self
    intro l hl
    simp only [jsonRowLines, jsonElemLines, mem_cons, not_mem_nil, or_false] at hl
    rcases hl with rfl | rfl | rfl | rfl | rfl
    · unfold NoNL; simp [String.toList_append, spaces_toList]
    · exact jsonKVAt_noNL _ _ (by decide) h1 _
    · exact jsonKVAt_noNL _ _ (by decide) h2 _
    · exact jsonKVAt_noNL _ _ (by decide) h3 _
    · unfold NoNL; simp [String.toList_append, spaces_toList]
  | r :: r' :: rs, h => by
    obtain ⟨h1, h2, h3⟩ := h r mem_cons_self
    have ih := jsonRowLines_noNL n (fun x hx => h x (mem_cons_of_mem _ hx) : ∀ x ∈ r' :: rs, x.JsonWF)
    intro l hl
    rw [jsonRowLines] at hl
    simp only [jsonElemLines, cons_append, nil_append, mem_cons] at hl
    rcases hl with rfl | rfl | rfl | rfl | rfl | hl
    · unfold NoNL; simp [String.toList_append, spaces_toList]
    · exact jsonKVAt_noNL _ _ (by decide) h1 _
    · exact jsonKVAt_noNL _ _ (by decide) h2 _
    · exact jsonKVAt_noNL _ _ (by decide) h3 _
    · unfold NoNL; simp [String.toList_append, spaces_toList]
    · exact ih l hl

def jsonMk (l : List Char) : Option Nat :=
  if l = (jK1 ++ "[").toList ∨ l = (jK1 ++ "[]" ++ ",").toList then some 1
  else if l = jKX.toList then some 2
  else if l = (jK3 ++ "[").toList ∨ l = (jK3 ++ "null" ++ ",").toList then some 3
  else if l = (jK4 ++ "[").toList ∨ l = (jK4 ++ "null" ++ "").toList then some 4
  else none

/-- a line indented by at least five blanks is no key line -/
theorem jsonMk_of_spaces {l : List Char} (h2 : l[2]? = some ' ') (h4 : l[4]? = some ' ') : jsonMk l = none := by
  unfold jsonMk
  have a1 : l ≠ (jK1 ++ "[").toList := by intro e; rw [e] at h2; revert h2; decide
  have a2 : l ≠ (jK1 ++ "[]" ++ ",").toList := by intro e; rw [e] at h2; revert h2; decide
  have a3 : l ≠ jKX.toList := by intro e; rw [e] at h2; revert h2; decide
  have a4 : l ≠ (jK3 ++ "[").toList := by intro e; rw [e] at h4; revert h4; decide
  have a5 : l ≠ (jK3 ++ "null" ++ ",").toList := by intro e; rw [e] at h4; revert h4; decide
  have a6 : l ≠ (jK4 ++ "[").toList := by intro e; rw [e] at h4; revert h4; decide
  have a7 : l ≠ (jK4 ++ "null" ++ "").toList := by intro e; rw [e] at h4; revert h4; decide
  simp only [a1, a2, a3, a4, a5, a6, a7, false_or, or_self, ↓reduceIte]

theorem jsonMk_kv (n : Nat) (hn : 5 ≤ n) (key v : String) (comma : Bool) : jsonMk (jsonKVAt n key v comma).toList = none := by
  have e : (jsonKVAt n key v comma).toList = replicate n ' ' ++
      ("\"" ++ key ++ "\": " ++ jsonStr v ++ (if comma then "," else "")).toList := by
    simp [jsonKVAt, String.toList_append, spaces_toList]
  apply jsonMk_of_spaces
  · rw [e, getElem?_append_left (by simp; omega), getElem?_replicate]; simp; omega
  · rw [e, getElem?_append_left (by simp; omega), getElem?_replicate]; simp; omega

/-- the three tables of a json output with exposure sections -/
def parseJsonX (s : String) : Option (List Row × List Row × List Row) :=
  let sg := segments jsonMk (linesOf s)
  if sg.2.map (·.1) ≠ [1, 2, 3, 4] then none
  else
    match parseRowsAt 4 (segOf sg.2 1).dropLast, parseRowsAt 6 (segOf sg.2 3).dropLast,
        parseRowsAt 6 (segOf sg.2 4).dropLast.dropLast.dropLast with
    | some b, some e, some i => some (b, e, i)
    | _, _, _ => none

theorem jsonMk_rowLines (n : Nat) (hn : n = 4 ∨ n = 6) : ∀ (rows : List Row), ∀ l ∈ jsonRowLines n rows, jsonMk l.toList = none
  | [], l, hl => by simp [jsonRowLines] at hl
  | [r], l, hl => by
    simp only [jsonRowLines, jsonElemLines, mem_cons, not_mem_nil, or_false] at hl
    rcases hl with rfl | rfl | rfl | rfl | rfl
    · rcases hn with rfl | rfl <;> decide
    · exact jsonMk_kv _ (by omega) _ _ _
    · exact jsonMk_kv _ (by omega) _ _ _
    · exact jsonMk_kv _ (by omega) _ _ _
    · rcases hn with rfl | rfl <;> decide
  | r :: r' :: rs, l, hl => by
    rw [jsonRowLines] at hl
    simp only [jsonElemLines, cons_append, nil_append, mem_cons] at hl
    rcases hl with rfl | rfl | rfl | rfl | rfl | hl
    · rcases hn with rfl | rfl <;> decide
    · exact jsonMk_kv _ (by omega) _ _ _
    · exact jsonMk_kv _ (by omega) _ _ _
    · exact jsonMk_kv _ (by omega) _ _ _
    · rcases hn with rfl | rfl <;> decide
    · exact jsonMk_rowLines n hn (r' :: rs) l hl

/-- the json output with exposure sections is read back to its three tables -/
theorem parseJsonX_renderJsonX {base eg ing : List Row} (hb : ∀ r ∈ base, r.JsonWF) (he : ∀ r ∈ eg, r.JsonWF)
    (hi : ∀ r ∈ ing, r.JsonWF) : parseJsonX (renderJsonX base eg ing) = some (base, eg, ing) := by
  unfold parseJsonX
  have hnl : ∀ l ∈ jsonXLines base eg ing, NoNL l := by
    intro l hl
    unfold jsonXLines jsonArrLines at hl
    simp only [mem_append, mem_cons, not_mem_nil, or_false] at hl
    rcases hl with ((((rfl | hl) | rfl) | hl) | hl) | rfl | rfl
    · decide
    · split at hl
      · simp only [mem_cons, not_mem_nil, or_false] at hl; subst hl; decide
      · simp only [mem_append, mem_cons, not_mem_nil, or_false] at hl
        rcases hl with (rfl | hl) | rfl
        · decide
        · exact jsonRowLines_noNL _ hb l hl
        · decide
    · decide
    · split at hl
      · simp only [mem_cons, not_mem_nil, or_false] at hl; subst hl; decide
      · simp only [mem_append, mem_cons, not_mem_nil, or_false] at hl
        rcases hl with (rfl | hl) | rfl
        · decide
        · exact jsonRowLines_noNL _ he l hl
        · decide
    · split at hl
      · simp only [mem_cons, not_mem_nil, or_false] at hl; subst hl; decide
      · simp only [mem_append, mem_cons, not_mem_nil, or_false] at hl
        rcases hl with (rfl | hl) | rfl
        · decide
        · exact jsonRowLines_noNL _ hi l hl
        · decide
    · decide
    · decide
  rw [renderJsonX_lines, linesOf_intercalate (by simp [jsonXLines]) hnl]
  let secs : List (Sec (List Char)) :=
    [⟨(if base.isEmpty then jK1 ++ "[]" ++ "," else jK1 ++ "[").toList, 1,
        if base.isEmpty then [] else (jsonRowLines 4 base).map String.toList ++ [(spaces 2 ++ "]" ++ ",").toList], true⟩,
     ⟨jKX.toList, 2, [], true⟩,
     ⟨(if eg.isEmpty then jK3 ++ "null" ++ "," else jK3 ++ "[").toList, 3,
        if eg.isEmpty then [] else (jsonRowLines 6 eg).map String.toList ++ [(spaces 4 ++ "]" ++ ",").toList], true⟩,
     ⟨(if ing.isEmpty then jK4 ++ "null" ++ "" else jK4 ++ "[").toList, 4,
        (if ing.isEmpty then [] else (jsonRowLines 6 ing).map String.toList ++ [(spaces 4 ++ "]" ++ "").toList]) ++
          ["  }".toList, "}".toList], true⟩]
  have htok : (jsonXLines base eg ing).map String.toList =
      ["{".toList] ++ secs.flatMap fun s => optSection s.marker s.body s.present := by
    unfold jsonXLines jsonArrLines
    cases hB : base.isEmpty <;> cases hE : eg.isEmpty <;> cases hI : ing.isEmpty <;>
      simp [secs, optSection, hB, hE, hI]
  rw [htok, segments_sections]
  · have pb := parseRowsAt_rowLines 4 hb
    have pe := parseRowsAt_rowLines 6 he
    have pi := parseRowsAt_rowLines 6 hi
    have hB0 : base.isEmpty = true → base = [] := fun h => List.isEmpty_iff.mp h
    have hE0 : eg.isEmpty = true → eg = [] := fun h => List.isEmpty_iff.mp h
    have hI0 : ing.isEmpty = true → ing = [] := fun h => List.isEmpty_iff.mp h
    cases hB : base.isEmpty <;> cases hE : eg.isEmpty <;> cases hI : ing.isEmpty <;>
      simp_all [secs, segOf, parseRowsAt, dropLast_concat, dropLast_append_of_ne_nil]
  · intro t ht
    simp only [mem_cons, not_mem_nil, or_false] at ht
    subst ht; decide
  · intro sc hsc
    simp only [secs, mem_cons, not_mem_nil, or_false] at hsc
    rcases hsc with rfl | rfl | rfl | rfl
    · constructor
      · show jsonMk (if base.isEmpty then jK1 ++ "[]" ++ "," else jK1 ++ "[").toList = some 1
        cases base.isEmpty <;> decide
      · intro t ht
        split at ht
        · cases ht
        · simp only [mem_append, mem_map, mem_cons, not_mem_nil, or_false] at ht
          rcases ht with ⟨l, hl, rfl⟩ | rfl
          · exact jsonMk_rowLines 4 (Or.inl rfl) base l hl
          · decide
    · exact ⟨(by decide : jsonMk jKX.toList = some 2), by simp⟩
    · constructor
      · show jsonMk (if eg.isEmpty then jK3 ++ "null" ++ "," else jK3 ++ "[").toList = some 3
        cases eg.isEmpty <;> decide
      · intro t ht
        split at ht
        · cases ht
        · simp only [mem_append, mem_map, mem_cons, not_mem_nil, or_false] at ht
          rcases ht with ⟨l, hl, rfl⟩ | rfl
          · exact jsonMk_rowLines 6 (Or.inr rfl) eg l hl
          · decide
    · constructor
      · show jsonMk (if ing.isEmpty then jK4 ++ "null" ++ "" else jK4 ++ "[").toList = some 4
        cases ing.isEmpty <;> decide
      · intro t ht
        simp only [mem_append, mem_cons, not_mem_nil, or_false] at ht
        rcases ht with ht | rfl | rfl
        · split at ht
          · cases ht
          · simp only [mem_append, mem_map, mem_cons, not_mem_nil, or_false] at ht
            rcases ht with ⟨l, hl, rfl⟩ | rfl
            · exact jsonMk_rowLines 6 (Or.inr rfl) ing l hl
            · decide
        · decide
        · decide

end JsonX

end Format
end Netpol
