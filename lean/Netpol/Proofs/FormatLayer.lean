import Netpol.Model.Format
import Netpol.Proofs.DiffLayer
/-! Lemmas about the formatter model (`Model/Format.lean`).

* A  sorting: a sort by a total, transitive order that is antisymmetric on the input is a function of the multiset
     (`mergeSort_eq_of_perm`), `sortStrings`, `sortRows`;
* B  `dedupKey` (the `visited` sets of the dot formatters) and `nsGroups` under permutation;
* C  the formatters as `render (rows …)`: the row tables are permutations of the rows of the input;
* D  (in `Proofs/FormatParse.lean`) character-level lemmas and the parse-back functions of every format;
* E  the diff with the peers kept (`diffConnsLists`) against `Diff.diffLists`. -/
namespace Netpol
namespace Format
open List Engine

-- ------------------------------------------------------------------------------------------
-- A. sorting

section Sorting
variable {α : Type}

/-- two sorts of permuted inputs agree when the order is antisymmetric on the elements -/
theorem mergeSort_eq_of_perm {le : α → α → Bool}
    (trans : ∀ a b c, le a b → le b c → le a c) (total : ∀ a b, le a b || le b a)
    {l l' : List α} (anti : ∀ a b, a ∈ l → b ∈ l → le a b → le b a → a = b) (h : l ~ l') :
    l.mergeSort le = l'.mergeSort le := by
  apply Perm.eq_of_pairwise (le := fun a b => le a b = true)
  · intro a b ha hb
    have ha' : a ∈ l := (mergeSort_perm l le).mem_iff.mp ha
    have hb' : b ∈ l := h.symm.mem_iff.mp ((mergeSort_perm l' le).mem_iff.mp hb)
    exact anti a b ha' hb'
  · exact pairwise_mergeSort trans total l
  · exact pairwise_mergeSort trans total l'
  · exact (mergeSort_perm l le).trans (h.trans (mergeSort_perm l' le).symm)

theorem str_lt_or_eq_of_le {a b : String} (h : a ≤ b) : a < b ∨ a = b := Std.le_iff_lt_or_eq.mp h

theorem str_le_of_lt {a b : String} (h : a < b) : a ≤ b := Std.le_of_lt h

theorem str_trichotomy (a b : String) : a < b ∨ a = b ∨ b < a := by
  rcases String.le_total a b with h | h
  · rcases str_lt_or_eq_of_le h with h | h
    · exact Or.inl h
    · exact Or.inr (Or.inl h)
  · rcases str_lt_or_eq_of_le h with h | h
    · exact Or.inr (Or.inr h)
    · exact Or.inr (Or.inl h.symm)

theorem strLE_trans (a b c : String) : decide (a ≤ b) = true → decide (b ≤ c) = true → decide (a ≤ c) = true := by
  simp only [decide_eq_true_eq]; exact String.le_trans

theorem strLE_total (a b : String) : (decide (a ≤ b) || decide (b ≤ a)) = true := by
  simp only [Bool.or_eq_true, decide_eq_true_eq]; exact String.le_total a b

/-- `sort.Strings` is a function of the multiset of strings -/
theorem sortStrings_perm {l l' : List String} (h : l ~ l') : sortStrings l = sortStrings l' := by
  unfold sortStrings
  apply mergeSort_eq_of_perm strLE_trans strLE_total _ h
  intro a b _ _ hab hba
  simp only [decide_eq_true_eq] at hab hba
  exact String.le_antisymm hab hba

theorem sortStrings_perm_self (l : List String) : sortStrings l ~ l := mergeSort_perm l _

theorem mem_sortStrings {l : List String} {s : String} : s ∈ sortStrings l ↔ s ∈ l :=
  (sortStrings_perm_self l).mem_iff

/-- sorting by the image under `f` commutes with mapping `f` -/
theorem map_mergeSort_by (f : α → String) (l : List α) :
    (l.mergeSort fun a b => decide (f a ≤ f b)).map f = sortStrings (l.map f) := by
  unfold sortStrings
  exact map_mergeSort (fun _ _ _ _ => rfl)

theorem sortBy_perm_self (f : α → String) (l : List α) : (l.mergeSort fun a b => decide (f a ≤ f b)) ~ l :=
  mergeSort_perm l _

/-- the order of `sortConnFields`: lexicographic on (src, dst, conn) -/
def Row.le (a b : Row) : Bool := !(Row.less b a)

theorem not_lt_iff_of_ne {x y : String} (h : y ≠ x) : ¬ y < x ↔ x < y := by
  constructor
  · intro hn
    rcases str_trichotomy x y with h1 | h1 | h1
    · exact h1
    · exact absurd h1.symm h
    · exact absurd h1 hn
  · intro hlt hgt
    exact String.lt_irrefl _ (String.lt_trans hlt hgt)

theorem Row.le_iff (a b : Row) : Row.le a b = true ↔
    a.src < b.src ∨ (a.src = b.src ∧ (a.dst < b.dst ∨ (a.dst = b.dst ∧ a.conn ≤ b.conn))) := by
  unfold Row.le Row.less
  by_cases h : b.src = a.src
  · by_cases h' : b.dst = a.dst
    · simp [h, h']
    · have hne : (b.dst != a.dst) = true := by simpa using h'
      simp only [h, bne_self_eq_false, Bool.false_eq_true, ↓reduceIte, hne, Bool.not_eq_eq_eq_not, Bool.not_true,
        decide_eq_false_iff_not, String.lt_irrefl, true_and, false_or]
      rw [not_lt_iff_of_ne h']
      constructor
      · exact Or.inl
      · rintro (hlt | ⟨heq, _⟩)
        · exact hlt
        · exact absurd heq.symm h'
  · have hne : (b.src != a.src) = true := by simpa using h
    simp only [hne, ↓reduceIte, Bool.not_eq_eq_eq_not, Bool.not_true, decide_eq_false_iff_not]
    rw [not_lt_iff_of_ne h]
    constructor
    · exact Or.inl
    · rintro (hlt | ⟨heq, _⟩)
      · exact hlt
      · exact absurd heq.symm h

theorem Row.le_trans (a b c : Row) : Row.le a b = true → Row.le b c = true → Row.le a c = true := by
  simp only [Row.le_iff]
  rintro (h1 | ⟨h1, h1'⟩) (h2 | ⟨h2, h2'⟩)
  · exact Or.inl (String.lt_trans h1 h2)
  · exact Or.inl (h2 ▸ h1)
  · exact Or.inl (h1 ▸ h2)
  · refine Or.inr ⟨h1.trans h2, ?_⟩
    rcases h1' with h3 | ⟨h3, h3'⟩ <;> rcases h2' with h4 | ⟨h4, h4'⟩
    · exact Or.inl (String.lt_trans h3 h4)
    · exact Or.inl (h4 ▸ h3)
    · exact Or.inl (h3 ▸ h4)
    · exact Or.inr ⟨h3.trans h4, String.le_trans h3' h4'⟩

theorem Row.le_total (a b : Row) : (Row.le a b || Row.le b a) = true := by
  simp only [Bool.or_eq_true, Row.le_iff]
  rcases str_trichotomy a.src b.src with h | h | h
  · exact Or.inl (Or.inl h)
  · rcases str_trichotomy a.dst b.dst with h' | h' | h'
    · exact Or.inl (Or.inr ⟨h, Or.inl h'⟩)
    · rcases String.le_total a.conn b.conn with h'' | h''
      · exact Or.inl (Or.inr ⟨h, Or.inr ⟨h', h''⟩⟩)
      · exact Or.inr (Or.inr ⟨h.symm, Or.inr ⟨h'.symm, h''⟩⟩)
    · exact Or.inr (Or.inr ⟨h.symm, Or.inl h'⟩)
  · exact Or.inr (Or.inl h)

/-- the order is antisymmetric on rows: the sort key is total -/
theorem Row.eq_of_le_le {a b : Row} (h1 : Row.le a b = true) (h2 : Row.le b a = true) : a = b := by
  rw [Row.le_iff] at h1 h2
  have irr : ∀ {x y : String}, x < y → y < x → False := fun h h' => String.lt_irrefl _ (String.lt_trans h h')
  rcases h1 with h1 | ⟨h1, h1'⟩ <;> rcases h2 with h2 | ⟨h2, h2'⟩
  · exact (irr h1 h2).elim
  · exact absurd (h2 ▸ h1) (String.lt_irrefl _)
  · exact absurd (h1 ▸ h2) (String.lt_irrefl _)
  · rcases h1' with h3 | ⟨h3, h3'⟩ <;> rcases h2' with h4 | ⟨h4, h4'⟩
    · exact (irr h3 h4).elim
    · exact absurd (h4 ▸ h3) (String.lt_irrefl _)
    · exact absurd (h3 ▸ h4) (String.lt_irrefl _)
    · cases a; cases b
      simp only [Row.mk.injEq]
      exact ⟨h1, h3, String.le_antisymm h3' h4'⟩

/-- distinct (src, dst) pairs: one row per ordered pair of peers -/
def KeysDistinct (l : List Row) : Prop := l.Pairwise fun a b => ¬ (a.src = b.src ∧ a.dst = b.dst)

/-- `sortConnFields` is a function of the multiset of rows -/
theorem sortRows_perm {l l' : List Row} (h : l ~ l') : sortRows l = sortRows l' := by
  unfold sortRows
  apply mergeSort_eq_of_perm (le := fun a b => !(Row.less b a)) Row.le_trans Row.le_total _ h
  intro a b _ _ hab hba
  exact Row.eq_of_le_le hab hba

theorem sortRows_perm_self (l : List Row) : sortRows l ~ l := mergeSort_perm l _

end Sorting

-- ------------------------------------------------------------------------------------------
-- B. `dedupKey`, `nsGroups`

section Dedup
variable {α : Type}

theorem dedupKey_subset (key : α → String) (l : List α) : ∀ x, x ∈ dedupKey key l → x ∈ l := by
  induction l with
  | nil => intro x h; cases h
  | cons a xs ih =>
    intro x h
    simp only [dedupKey, mem_cons, mem_filter] at h
    rcases h with rfl | ⟨h, _⟩
    · exact mem_cons_self
    · exact mem_cons_of_mem _ (ih x h)

/-- one element per key -/
theorem dedupKey_pairwise (key : α → String) (l : List α) :
    (dedupKey key l).Pairwise (fun a b => key a ≠ key b) := by
  induction l with
  | nil => exact Pairwise.nil
  | cons a xs ih =>
    simp only [dedupKey, pairwise_cons, mem_filter]
    refine ⟨?_, ih.sublist filter_sublist⟩
    rintro y ⟨_, hy⟩ heq
    simp [heq] at hy

theorem dedupKey_nodup (key : α → String) (l : List α) : (dedupKey key l).Nodup :=
  (dedupKey_pairwise key l).imp (fun h heq => h (by rw [heq]))

/-- equal keys, equal elements: what the `visited` sets of the dot formatters assume of `Peer.String()` -/
def KeyInj (key : α → String) (l : List α) : Prop := ∀ x ∈ l, ∀ y ∈ l, key x = key y → x = y

theorem KeyInj.perm {key : α → String} {l l' : List α} (h : KeyInj key l) (hp : l ~ l') : KeyInj key l' :=
  fun x hx y hy => h x (hp.mem_iff.mpr hx) y (hp.mem_iff.mpr hy)

theorem KeyInj.tail {key : α → String} {a : α} {l : List α} (h : KeyInj key (a :: l)) : KeyInj key l :=
  fun x hx y hy => h x (mem_cons_of_mem _ hx) y (mem_cons_of_mem _ hy)

theorem mem_dedupKey {key : α → String} {l : List α} (h : KeyInj key l) {x : α} :
    x ∈ dedupKey key l ↔ x ∈ l := by
  refine ⟨dedupKey_subset key l x, ?_⟩
  induction l with
  | nil => intro hx; cases hx
  | cons a xs ih =>
    intro hx
    simp only [dedupKey, mem_cons, mem_filter]
    rcases mem_cons.mp hx with rfl | hx'
    · exact Or.inl rfl
    · by_cases hk : key x = key a
      · exact Or.inl (h x hx a mem_cons_self hk)
      · exact Or.inr ⟨ih h.tail hx', by simpa using hk⟩

/-- the set of first visits does not depend on the order of the visits -/
theorem dedupKey_perm {key : α → String} {l l' : List α} (h : KeyInj key l) (hp : l ~ l') :
    dedupKey key l ~ dedupKey key l' := by
  rw [perm_ext_iff_of_nodup (dedupKey_nodup key l) (dedupKey_nodup key l')]
  intro a
  rw [mem_dedupKey h, mem_dedupKey (h.perm hp)]
  exact hp.mem_iff

theorem keyInj_id (l : List String) : KeyInj id l := fun _ _ _ _ h => h

theorem nsGroups_perm {m m' : List (String × String)} (h : m ~ m') (color : String) :
    nsGroups m color = nsGroups m' color := by
  unfold nsGroups
  rw [sortStrings_perm (dedupKey_perm (keyInj_id _) (h.map (·.1)))]
  congr 1
  funext ns
  rw [sortStrings_perm ((h.filter _).map _)]

end Dedup

-- ------------------------------------------------------------------------------------------
-- B2. every formatter under a permutation of its input

section PermInvariance

theorem listTxt_perm {c c' : List Conn} (h : c ~ c') : listTxt c = listTxt c' := by
  unfold listTxt
  rw [sortStrings_perm (h.map _)]

/-- no two connections with the same (src, dst) strings -/
def ConnKeysDistinct (c : List Conn) : Prop := KeysDistinct (c.map Conn.row)

theorem table_perm {c c' : List Conn} (h : c ~ c') : table c = table c' :=
  sortRows_perm (h.map _)

theorem listJson_perm {c c' : List Conn} (h : c ~ c') : listJson c = listJson c' := by
  unfold listJson; rw [table_perm h]

theorem listCsv_perm {c c' : List Conn} (h : c ~ c') : listCsv c = listCsv c' := by
  unfold listCsv; rw [table_perm h]

theorem listMd_perm {c c' : List Conn} (h : c ~ c') : listMd c = listMd c' := by
  unfold listMd; rw [table_perm h]

/-- the peers the dot formatter visits -/
def listVisitSeq (conns : List Conn) (peers : List PeerInfo) : List PeerInfo :=
  conns.flatMap (fun c => [c.src, c.dst]) ++ peers.filter (!·.isIP)

/-- peers with the same `String()` are the same peer (name, namespace, kind, type) -/
def PeersConsistent (conns : List Conn) (peers : List PeerInfo) : Prop := KeyInj (·.str) (listVisitSeq conns peers)

theorem listVisitSeq_perm {c c' : List Conn} {p p' : List PeerInfo} (h : c ~ c') (hp : p ~ p') :
    listVisitSeq c p ~ listVisitSeq c' p' :=
  (h.flatMap_right _).append (hp.filter _)

theorem listVisited_perm {c c' : List Conn} {p p' : List PeerInfo} (hc : PeersConsistent c p) (h : c ~ c') (hp : p ~ p') :
    listVisited c p ~ listVisited c' p' :=
  dedupKey_perm hc (listVisitSeq_perm h hp)

theorem listNodeLines_perm {c c' : List Conn} {p p' : List PeerInfo} (hc : PeersConsistent c p) (h : c ~ c') (hp : p ~ p') :
    listNodeLines c p = listNodeLines c' p' := by
  unfold listNodeLines
  have hv := listVisited_perm hc h hp
  simp only
  rw [nsGroups_perm ((hv.filter _).map _), sortStrings_perm ((hv.filter _).map _)]

theorem listDot_perm {c c' : List Conn} {p p' : List PeerInfo} (hc : PeersConsistent c p) (h : c ~ c') (hp : p ~ p') :
    listDot c p = listDot c' p' := by
  unfold listDot
  rw [listNodeLines_perm hc h hp, sortStrings_perm (h.map _)]

theorem diffPart_perm (line : DRow → String) {ds ds' : List DConn} (h : ds ~ ds') (ing : Bool) (typ : String) :
    diffPart line ds ing typ = diffPart line ds' ing typ := by
  unfold diffPart
  rw [sortStrings_perm ((h.filter _).map _)]

theorem diffLines_perm (line : DRow → String) {ds ds' : List DConn} (h : ds ~ ds') :
    diffLines line ds = diffLines line ds' := by
  unfold diffLines
  simp only [diffPart_perm line h]

theorem diffTxt_perm (ref1 ref2 : String) {ds ds' : List DConn} (h : ds ~ ds') : diffTxt ref1 ref2 ds = diffTxt ref1 ref2 ds' := by
  unfold diffTxt; rw [diffLines_perm _ h]

theorem diffMd_perm (ref1 ref2 : String) {ds ds' : List DConn} (h : ds ~ ds') : diffMd ref1 ref2 ds = diffMd ref1 ref2 ds' := by
  unfold diffMd; rw [diffLines_perm _ h]

theorem diffCsv_perm (ref1 ref2 : String) {ds ds' : List DConn} (h : ds ~ ds') : diffCsv ref1 ref2 ds = diffCsv ref1 ref2 ds' := by
  unfold diffCsv; rw [diffLines_perm _ h]

theorem diffDotSeq_perm {ds ds' : List DConn} (h : ds ~ ds') : diffDotSeq ds ~ diffDotSeq ds' := by
  unfold diffDotSeq
  simp only [flatMap_cons, flatMap_nil, append_nil]
  exact (h.filter _).append ((h.filter _).append ((h.filter _).append (h.filter _)))

/-- the (peer, colour) visits of the diff dot formatter -/
def diffVisitSeq (ds : List DConn) : List (PeerInfo × String) :=
  (diffDotSeq ds).flatMap fun d => [(d.src, diffNodeColor d.typ d.newSrc), (d.dst, diffNodeColor d.typ d.newDst)]

/-- every visit of a peer string shows the same peer with the same colour -/
def DiffPeersConsistent (ds : List DConn) : Prop := KeyInj (·.1.str) (diffVisitSeq ds)

theorem diffVisited_perm {ds ds' : List DConn} (hc : DiffPeersConsistent ds) (h : ds ~ ds') :
    diffVisited ds ~ diffVisited ds' :=
  dedupKey_perm hc ((diffDotSeq_perm h).flatMap_right _)

theorem diffNodeLines_perm {ds ds' : List DConn} (hc : DiffPeersConsistent ds) (h : ds ~ ds') :
    diffNodeLines ds = diffNodeLines ds' := by
  unfold diffNodeLines
  have hv := diffVisited_perm hc h
  simp only
  rw [nsGroups_perm ((hv.filter _).map _), sortStrings_perm ((hv.filter _).map _)]

theorem diffDot_perm (ref1 : String) {ds ds' : List DConn} (hc : DiffPeersConsistent ds) (h : ds ~ ds') :
    diffDot ref1 ds = diffDot ref1 ds' := by
  unfold diffDot
  have hs := diffDotSeq_perm h
  simp only
  rw [diffNodeLines_perm hc h, sortStrings_perm ((hs.filter _).map _), sortStrings_perm ((hs.filter _).map _)]

theorem diffIsEmpty_perm {ds ds' : List DConn} (h : ds ~ ds') : diffIsEmpty ds = diffIsEmpty ds' := by
  unfold diffIsEmpty
  congr 1
  rw [Bool.eq_iff_iff]
  simp only [any_eq_true]
  exact ⟨fun ⟨x, hx, hp⟩ => ⟨x, h.mem_iff.mp hx, hp⟩, fun ⟨x, hx, hp⟩ => ⟨x, h.mem_iff.mpr hx, hp⟩⟩

end PermInvariance

-- ------------------------------------------------------------------------------------------
-- C. the formatters as `render (rows …)`

section Tables

/-- the rows in the order of the txt output (`sort.Strings` of the lines) -/
def rowsTxt (conns : List Conn) : List Row :=
  (conns.map Conn.row).mergeSort fun a b => decide (a.txtLine ≤ b.txtLine)

def renderTxt (rows : List Row) : String := "\n".intercalate (rows.map Row.txtLine) ++ "\n"

theorem listTxt_eq (conns : List Conn) : listTxt conns = renderTxt (rowsTxt conns) := by
  unfold listTxt renderTxt rowsTxt
  rw [map_mergeSort_by, map_map]
  rfl

theorem rowsTxt_perm (conns : List Conn) : rowsTxt conns ~ conns.map Conn.row := mergeSort_perm _ _

theorem table_perm_rows (conns : List Conn) : table conns ~ conns.map Conn.row := sortRows_perm_self _

/-- an edge line of a dot graph -/
structure DotEdge where
  src : String
  dst : String
  label : String
  color : String
  fontColor : String
deriving Repr, DecidableEq, Inhabited

def DotEdge.line (e : DotEdge) : String := edgeLine e.src e.dst e.label e.color e.fontColor

def Row.edge (r : Row) : DotEdge := ⟨r.src, r.dst, r.conn, "gold2", "darkgreen"⟩

theorem Row.dotEdge_eq (r : Row) : r.dotEdge = r.edge.line := rfl

/-- the rows in the order of the edges of the dot output -/
def rowsDot (conns : List Conn) : List Row :=
  (conns.map Conn.row).mergeSort fun a b => decide (a.dotEdge ≤ b.dotEdge)

def renderDot (nodeLines : List String) (rows : List Row) : String :=
  "\n".intercalate (["digraph {"] ++ nodeLines ++ rows.map Row.dotEdge ++ ["}"])

theorem listDot_eq (conns : List Conn) (peers : List PeerInfo) :
    listDot conns peers = renderDot (listNodeLines conns peers) (rowsDot conns) := by
  unfold listDot renderDot rowsDot
  rw [map_mergeSort_by, map_map]
  rfl

theorem rowsDot_perm (conns : List Conn) : rowsDot conns ~ conns.map Conn.row := mergeSort_perm _ _

-- diff

/-- one block of the diff table: the rows of a category and kind in the order of their lines -/
def diffRowsPart (line : DRow → String) (ds : List DConn) (ing : Bool) (typ : String) : List DRow :=
  ((ds.filter fun d => d.typ == typ && d.isIngress == ing).map DConn.row).mergeSort fun a b => decide (line a ≤ line b)

/-- the table of the txt / csv / md diff formats, in output order -/
def diffRows (line : DRow → String) (ds : List DConn) : List DRow :=
  diffRowsPart line ds false "changed" ++ diffRowsPart line ds false "added" ++ diffRowsPart line ds false "removed" ++
  diffRowsPart line ds true "changed" ++ diffRowsPart line ds true "added" ++ diffRowsPart line ds true "removed"

theorem diffPart_eq (line : DRow → String) (ds : List DConn) (ing : Bool) (typ : String) :
    diffPart line ds ing typ = (diffRowsPart line ds ing typ).map line := by
  unfold diffPart diffRowsPart
  rw [map_mergeSort_by, map_map]
  rfl

theorem diffLines_eq (line : DRow → String) (ds : List DConn) : diffLines line ds = (diffRows line ds).map line := by
  unfold diffLines diffRows
  simp only [diffPart_eq, map_append]

/-- the entries the txt / csv / md diff formats report -/
def DConn.reported (d : DConn) : Bool := d.typ == "changed" || d.typ == "added" || d.typ == "removed"

theorem filter_or_perm {α : Type} (p q : α → Bool) (hd : ∀ x, p x = true → q x = true → False) (l : List α) :
    l.filter p ++ l.filter q ~ l.filter (fun x => p x || q x) := by
  induction l with
  | nil => exact Perm.nil
  | cons x xs ih =>
    cases hp : p x <;> cases hq : q x
    · simpa [filter_cons, hp, hq] using ih
    · simp only [filter_cons, hp, hq, Bool.false_eq_true, ↓reduceIte, Bool.or_true]
      exact perm_middle.trans (ih.cons x)
    · simp only [filter_cons, hp, hq, ↓reduceIte, Bool.or_false, cons_append]
      exact ih.cons x
    · exact absurd hq (by intro h; exact hd x hp h)

theorem count_filter_ite {α : Type} [BEq α] [LawfulBEq α] (p : α → Bool) (a : α) (l : List α) :
    count a (l.filter p) = if p a then count a l else 0 := by
  split
  · rename_i h; exact count_filter h
  · rename_i h
    rw [count_eq_zero]
    intro hm
    exact h (mem_filter.mp hm).2

/-- the six blocks together hold every reported entry once -/
theorem diffBlocks_perm (ds : List DConn) :
    (ds.filter fun d => d.typ == "changed" && d.isIngress == false) ++ (ds.filter fun d => d.typ == "added" && d.isIngress == false) ++
    (ds.filter fun d => d.typ == "removed" && d.isIngress == false) ++ (ds.filter fun d => d.typ == "changed" && d.isIngress == true) ++
    (ds.filter fun d => d.typ == "added" && d.isIngress == true) ++ (ds.filter fun d => d.typ == "removed" && d.isIngress == true) ~
    ds.filter DConn.reported := by
  rw [perm_iff_count]
  intro a
  simp only [count_append, count_filter_ite, DConn.reported]
  by_cases h1 : a.typ = "changed"
  · cases a.isIngress <;> simp [h1]
  · by_cases h2 : a.typ = "added"
    · cases a.isIngress <;> simp [h2]
    · by_cases h3 : a.typ = "removed"
      · cases a.isIngress <;> simp [h3]
      · simp [h1, h2, h3]

/-- the table of the txt / csv / md diff formats holds exactly the changed, added and removed entries -/
theorem diffRows_perm (line : DRow → String) (ds : List DConn) :
    diffRows line ds ~ (ds.filter DConn.reported).map DConn.row := by
  refine Perm.trans ?_ ((diffBlocks_perm ds).map DConn.row)
  unfold diffRows diffRowsPart
  simp only [map_append]
  exact ((((((mergeSort_perm _ _).append (mergeSort_perm _ _)).append (mergeSort_perm _ _)).append
    (mergeSort_perm _ _)).append (mergeSort_perm _ _)).append (mergeSort_perm _ _))

/-- the edge of a diff entry -/
def DRow.edge (ref1 : String) (r : DRow) : DotEdge :=
  if r.typ == "unchanged" then ⟨r.src, r.dst, r.c1, "grey", "grey"⟩
  else if r.typ == "changed" then ⟨r.src, r.dst, r.c2 ++ " (" ++ ref1 ++ ": " ++ r.c1 ++ ")", "magenta", "magenta"⟩
  else if r.typ == "removed" then ⟨r.src, r.dst, r.c1, "red2", "red2"⟩
  else ⟨r.src, r.dst, r.c2, "#008000", "#008000"⟩

/-- the four diff types -/
def DConn.drawn (d : DConn) : Bool := d.typ == "unchanged" || d.typ == "changed" || d.typ == "added" || d.typ == "removed"

theorem DConn.dotEdge_eq (ref1 : String) {d : DConn} (h : d.drawn = true) : d.dotEdge ref1 = (d.row.edge ref1).line := by
  unfold DConn.dotEdge DRow.edge DotEdge.line DConn.row
  simp only [DConn.drawn, Bool.or_eq_true] at h
  by_cases h1 : (d.typ == "unchanged") = true
  · simp [h1]
  · by_cases h2 : (d.typ == "changed") = true
    · simp [h1, h2]
    · by_cases h3 : (d.typ == "removed") = true
      · simp [h1, h2, h3]
      · have h4 : (d.typ == "added") = true := by
          rcases h with ((h | h) | h) | h
          · exact absurd h h1
          · exact absurd h h2
          · exact h
          · exact absurd h h3
        simp [h1, h2, h3, h4]

theorem mem_diffDotSeq {ds : List DConn} {d : DConn} : d ∈ diffDotSeq ds ↔ d ∈ ds ∧ d.drawn = true := by
  unfold diffDotSeq DConn.drawn
  simp only [flatMap_cons, flatMap_nil, append_nil, mem_append, mem_filter, Bool.or_eq_true]
  constructor
  · rintro (⟨h, ht⟩ | ⟨h, ht⟩ | ⟨h, ht⟩ | ⟨h, ht⟩)
    · exact ⟨h, Or.inl (Or.inl (Or.inl ht))⟩
    · exact ⟨h, Or.inl (Or.inl (Or.inr ht))⟩
    · exact ⟨h, Or.inl (Or.inr ht)⟩
    · exact ⟨h, Or.inr ht⟩
  · rintro ⟨h, ((ht | ht) | ht) | ht⟩
    · exact Or.inl ⟨h, ht⟩
    · exact Or.inr (Or.inl ⟨h, ht⟩)
    · exact Or.inr (Or.inr (Or.inl ⟨h, ht⟩))
    · exact Or.inr (Or.inr (Or.inr ⟨h, ht⟩))

/-- the dot diff walks every entry of the four types once -/
theorem diffDotSeq_perm_filter (ds : List DConn) : diffDotSeq ds ~ ds.filter DConn.drawn := by
  unfold diffDotSeq
  simp only [flatMap_cons, flatMap_nil, append_nil]
  rw [perm_iff_count]
  intro a
  simp only [count_append, count_filter_ite, DConn.drawn]
  by_cases h1 : a.typ = "unchanged"
  · simp [h1]
  · by_cases h2 : a.typ = "changed"
    · simp [h2]
    · by_cases h3 : a.typ = "added"
      · simp [h3]
      · by_cases h4 : a.typ = "removed"
        · simp [h4]
        · simp [h1, h2, h3, h4]

/-- the edges of the dot diff in output order: policy edges, then ingress-controller edges -/
def diffDotRows (ref1 : String) (ds : List DConn) : List DRow :=
  (((diffDotSeq ds).filter (!·.isIngress)).map DConn.row).mergeSort (fun a b => decide ((a.edge ref1).line ≤ (b.edge ref1).line)) ++
  (((diffDotSeq ds).filter (·.isIngress)).map DConn.row).mergeSort (fun a b => decide ((a.edge ref1).line ≤ (b.edge ref1).line))

def renderDiffDot (ref1 : String) (nodeLines : List String) (rows : List DRow) : String :=
  "\n".intercalate (["digraph {"] ++ nodeLines ++ rows.map (fun r => (r.edge ref1).line) ++ legend ++ ["}"])

theorem diffDot_eq (ref1 : String) (ds : List DConn) :
    diffDot ref1 ds = renderDiffDot ref1 (diffNodeLines ds) (diffDotRows ref1 ds) := by
  unfold diffDot renderDiffDot diffDotRows
  simp only [map_append, map_mergeSort_by (fun r : DRow => (r.edge ref1).line), map_map]
  have hmap : ∀ (p : DConn → Bool), ((diffDotSeq ds).filter p).map (DConn.dotEdge ref1) =
      ((diffDotSeq ds).filter p).map ((fun r : DRow => (r.edge ref1).line) ∘ DConn.row) := by
    intro p
    apply map_congr_left
    intro d hd
    exact DConn.dotEdge_eq ref1 (mem_diffDotSeq.mp (mem_filter.mp hd).1).2
  rw [hmap, hmap]
  simp only [append_assoc]

theorem diffDotRows_perm (ref1 : String) (ds : List DConn) :
    diffDotRows ref1 ds ~ (ds.filter DConn.drawn).map DConn.row := by
  unfold diffDotRows
  refine ((mergeSort_perm _ _).append (mergeSort_perm _ _)).trans ?_
  rw [← map_append]
  refine Perm.map _ (Perm.trans ?_ (diffDotSeq_perm_filter ds))
  have := filter_or_perm (fun d : DConn => !d.isIngress) (fun d => d.isIngress) (by intro x; cases x.isIngress <;> simp) (diffDotSeq ds)
  refine this.trans ?_
  rw [filter_eq_self.mpr]
  intro a _
  cases a.isIngress <;> rfl

end Tables

-- ------------------------------------------------------------------------------------------
-- E. the diff with peers kept (`diffConnsLists`) against the diff of `Model/Diff.lean`

section DiffTie

theorem ofLPeer_str (p : LPeer) : (PeerInfo.ofLPeer p).str = p.str := by cases p <;> rfl

/-- the classification step is that of `Diff.diffLists` with the peers kept -/
theorem classify_toDEntry (p1 p2 : List String) (kp : String × Diff.Pair) :
    (classify p1 p2 kp).map DConn.toDEntry = DiffLayer.classify p1 p2 kp := by
  obtain ⟨k, pr⟩ := kp
  cases hf : pr.first <;> cases hs : pr.second <;>
    simp [classify, DiffLayer.classify, hf, hs, DConn.toDEntry, ofLPeer_str]

theorem filterMap_congr_mem {α β : Type} {f g : α → Option β} {l : List α} (h : ∀ a ∈ l, f a = g a) :
    l.filterMap f = l.filterMap g := by
  induction l with
  | nil => rfl
  | cons x xs ih =>
    simp only [filterMap_cons, h x mem_cons_self, ih (fun a ha => h a (mem_cons_of_mem _ ha))]

/-- forgetting the peers, `diffConnsLists` is `Diff.diffLists` -/
theorem diffConnsLists_toDEntry (c1 c2 : List Diff.P2P) (p1 p2 : List String) :
    (diffConnsLists c1 c2 p1 p2).map DConn.toDEntry = Diff.diffLists c1 c2 p1 p2 := by
  rw [DiffLayer.diffLists_eq]
  show ((Diff.mergeIPblocks (DiffLayer.diffMap c1 c2)).filterMap (classify p1 p2)).map DConn.toDEntry = _
  rw [map_filterMap]
  apply filterMap_congr_mem
  intro kp _
  exact classify_toDEntry p1 p2 kp

end DiffTie

end Format
end Netpol
