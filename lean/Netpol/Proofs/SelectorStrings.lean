import Netpol.Model.NP
import Netpol.Proofs.Structure

/-! The requirement strings of label selectors (`Selector.reqStrings`, model of
`labels.Requirement.String()` as used by `SelectorsFullMatch` and `UniqueKeyFromLabelsSelector`) are
faithful on selectors with Kubernetes label syntax: two selectors with the same requirement strings
select the same label sets. "Kubernetes label syntax" is needed only in the weak form `Selector.OK`:
keys and values hold none of the characters the rendering uses as punctuation (space, `=`, `!`, `,`,
`(`, `)`) nor the two separators of the map key of the representative peers (`;`, `|`), keys are not
empty, and a `NotIn` requirement has at least one value. On such selectors the list of requirement
strings is also recovered from its `;`-joined form (`intercalate_reqStrings_inj`). Core Lean only. -/
namespace Netpol
namespace SelStr

/-- a character that the rendering of a requirement does not use as punctuation -/
def okc (c : Char) : Prop :=
  c ≠ ' ' ∧ c ≠ '=' ∧ c ≠ '!' ∧ c ≠ ',' ∧ c ≠ '(' ∧ c ≠ ')' ∧ c ≠ ';' ∧ c ≠ '|'

instance : DecidablePred okc := fun c => by unfold okc; infer_instance

def okl (l : List Char) : Prop := ∀ c ∈ l, okc c

instance (l : List Char) : Decidable (okl l) := by unfold okl; infer_instance

/-- the shapes of a rendered requirement -/
inductive NF where
  | eq (k v : List Char)
  | inn (k : List Char) (vs : List (List Char))
  | notin (k : List Char) (vs : List (List Char))
  | ex (k : List Char)
  | dne (k : List Char)
deriving DecidableEq

def join (vs : List (List Char)) : List Char := [','].intercalate vs

def render : NF → List Char
  | .eq k v => k ++ '=' :: v
  | .inn k vs => k ++ ' ' :: 'i' :: 'n' :: ' ' :: '(' :: (join vs ++ [')'])
  | .notin k vs => k ++ ' ' :: 'n' :: 'o' :: 't' :: 'i' :: 'n' :: ' ' :: '(' :: (join vs ++ [')'])
  | .ex k => k
  | .dne k => '!' :: k

def NF.ok : NF → Prop
  | .eq k v => okl k ∧ okl v
  | .inn k vs => okl k ∧ (∀ v ∈ vs, okl v) ∧ vs.length ≠ 1
  | .notin k vs => okl k ∧ (∀ v ∈ vs, okl v) ∧ vs ≠ []
  | .ex k => okl k
  | .dne k => okl k

/-! ### joining with commas is injective on comma-free items -/

theorem join_nil : join [] = [] := rfl
theorem join_single (a : List Char) : join [a] = a := by simp [join, List.intercalate]
theorem join_cons_cons (a b : List Char) (l : List (List Char)) :
    join (a :: b :: l) = a ++ ',' :: join (b :: l) := by
  simp [join, List.intercalate, List.intersperse]

theorem okl_no {l : List Char} (h : okl l) :
    ' ' ∉ l ∧ '=' ∉ l ∧ '!' ∉ l ∧ ',' ∉ l ∧ '(' ∉ l ∧ ')' ∉ l :=
  ⟨fun m => (h _ m).1 rfl, fun m => (h _ m).2.1 rfl, fun m => (h _ m).2.2.1 rfl,
   fun m => (h _ m).2.2.2.1 rfl, fun m => (h _ m).2.2.2.2.1 rfl, fun m => (h _ m).2.2.2.2.2.1 rfl⟩

theorem okl_no2 {l : List Char} (h : okl l) : ';' ∉ l ∧ '|' ∉ l :=
  ⟨fun m => (h _ m).2.2.2.2.2.2.1 rfl, fun m => (h _ m).2.2.2.2.2.2.2 rfl⟩

/-- on non-empty lists of comma-free items -/
theorem join_inj_ne (A B : List (List Char)) (hA : ∀ v ∈ A, okl v) (hB : ∀ v ∈ B, okl v)
    (nA : A ≠ []) (nB : B ≠ []) (h : join A = join B) : A = B := by
  induction A generalizing B with
  | nil => exact absurd rfl nA
  | cons a as ih =>
    cases B with
    | nil => exact absurd rfl nB
    | cons b bs =>
      have ha := (okl_no (hA a (List.mem_cons_self ..))).2.2.2.1
      have hb := (okl_no (hB b (List.mem_cons_self ..))).2.2.2.1
      cases as with
      | nil =>
        cases bs with
        | nil => rw [join_single, join_single] at h; rw [h]
        | cons b2 bs' =>
          rw [join_single, join_cons_cons] at h
          exfalso
          apply ha
          rw [h]
          exact List.mem_append_right _ (List.mem_cons_self ..)
      | cons a2 as' =>
        cases bs with
        | nil =>
          rw [join_single, join_cons_cons] at h
          exfalso
          apply hb
          rw [← h]
          exact List.mem_append_right _ (List.mem_cons_self ..)
        | cons b2 bs' =>
          rw [join_cons_cons, join_cons_cons] at h
          obtain ⟨h1, h2⟩ := Structure.split_unique ha hb h
          rw [h1, ih (b2 :: bs') (fun v hv => hA v (List.mem_cons_of_mem _ hv))
            (fun v hv => hB v (List.mem_cons_of_mem _ hv)) (by simp) (by simp) h2]

theorem join_ne_nil_of_two (a b : List Char) (l : List (List Char)) : join (a :: b :: l) ≠ [] := by
  rw [join_cons_cons]
  intro h
  have : ',' ∈ a ++ ',' :: join (b :: l) := List.mem_append_right _ (List.mem_cons_self ..)
  rw [h] at this
  cases this

/-- on lists whose length is not one (the list `[""]` joins to the empty string, as `[]` does) -/
theorem join_inj_len (A B : List (List Char)) (hA : ∀ v ∈ A, okl v) (hB : ∀ v ∈ B, okl v)
    (nA : A.length ≠ 1) (nB : B.length ≠ 1) (h : join A = join B) : A = B := by
  cases A with
  | nil =>
    cases B with
    | nil => rfl
    | cons b bs =>
      cases bs with
      | nil => exact absurd rfl nB
      | cons b2 bs' => exact absurd h.symm (join_ne_nil_of_two b b2 bs')
  | cons a as =>
    cases B with
    | nil =>
      cases as with
      | nil => exact absurd rfl nA
      | cons a2 as' => exact absurd h (join_ne_nil_of_two a a2 as')
    | cons b bs => exact join_inj_ne _ _ hA hB (by simp) (by simp) h

/-! ### the rendering is injective -/

theorem append_cancel_right {α : Type} {a b : List α} {c : α} (h : a ++ [c] = b ++ [c]) : a = b :=
  List.append_cancel_right h

theorem mem_split {α : Type} (c : α) (l r : List α) : c ∈ l ++ c :: r :=
  List.mem_append_right _ (List.mem_cons_self ..)

theorem render_inj {a b : NF} (ha : a.ok) (hb : b.ok) (h : render a = render b) : a = b := by
  cases a with
  | eq k v =>
    obtain ⟨hk, hv⟩ := ha
    have nk := okl_no hk
    have nv := okl_no hv
    cases b with
    | eq k' v' =>
      obtain ⟨hk', _⟩ := hb
      obtain ⟨h1, h2⟩ := Structure.split_unique nk.2.1 (okl_no hk').2.1 h
      rw [h1, h2]
    | inn k' vs' =>
      exfalso
      have : ' ' ∈ render (.eq k v) := by rw [h]; exact mem_split _ _ _
      rcases List.mem_append.mp this with m | m
      · exact nk.1 m
      · rcases List.mem_cons.mp m with m | m
        · cases m
        · exact nv.1 m
    | notin k' vs' =>
      exfalso
      have : ' ' ∈ render (.eq k v) := by rw [h]; exact mem_split _ _ _
      rcases List.mem_append.mp this with m | m
      · exact nk.1 m
      · rcases List.mem_cons.mp m with m | m
        · cases m
        · exact nv.1 m
    | ex k' =>
      exfalso
      have : '=' ∈ render (.ex k') := by rw [← h]; exact mem_split _ _ _
      exact (okl_no hb).2.1 this
    | dne k' =>
      exfalso
      simp only [render] at h
      cases k with
      | nil => cases h
      | cons c cs =>
        have : c = '!' := by simpa using (List.cons.inj h).1
        exact (hk c (List.mem_cons_self ..)).2.2.1 this
  | inn k vs =>
    obtain ⟨hk, hvs, hlen⟩ := ha
    have nk := okl_no hk
    cases b with
    | eq k' v' =>
      exfalso
      obtain ⟨hk', hv'⟩ := hb
      have : ' ' ∈ render (.eq k' v') := by rw [← h]; exact mem_split _ _ _
      rcases List.mem_append.mp this with m | m
      · exact (okl_no hk').1 m
      · rcases List.mem_cons.mp m with m | m
        · cases m
        · exact (okl_no hv').1 m
    | inn k' vs' =>
      obtain ⟨hk', hvs', hlen'⟩ := hb
      obtain ⟨h1, h2⟩ := Structure.split_unique nk.1 (okl_no hk').1 h
      simp only [List.cons.injEq, true_and] at h2
      have := join_inj_len vs vs' hvs hvs' hlen hlen' (append_cancel_right h2)
      rw [h1, this]
    | notin k' vs' =>
      exfalso
      obtain ⟨hk', _, _⟩ := hb
      obtain ⟨_, h2⟩ := Structure.split_unique nk.1 (okl_no hk').1 h
      have := (List.cons.inj h2).1
      cases this
    | ex k' =>
      exfalso
      have : ' ' ∈ render (.ex k') := by rw [← h]; exact mem_split _ _ _
      exact (okl_no hb).1 this
    | dne k' =>
      exfalso
      simp only [render] at h
      cases k with
      | nil => cases h
      | cons c cs =>
        have : c = '!' := by simpa using (List.cons.inj h).1
        exact (hk c (List.mem_cons_self ..)).2.2.1 this
  | notin k vs =>
    obtain ⟨hk, hvs, hne⟩ := ha
    have nk := okl_no hk
    cases b with
    | eq k' v' =>
      exfalso
      obtain ⟨hk', hv'⟩ := hb
      have : ' ' ∈ render (.eq k' v') := by rw [← h]; exact mem_split _ _ _
      rcases List.mem_append.mp this with m | m
      · exact (okl_no hk').1 m
      · rcases List.mem_cons.mp m with m | m
        · cases m
        · exact (okl_no hv').1 m
    | inn k' vs' =>
      exfalso
      obtain ⟨hk', _, _⟩ := hb
      obtain ⟨_, h2⟩ := Structure.split_unique nk.1 (okl_no hk').1 h
      have := (List.cons.inj h2).1
      cases this
    | notin k' vs' =>
      obtain ⟨hk', hvs', hne'⟩ := hb
      obtain ⟨h1, h2⟩ := Structure.split_unique nk.1 (okl_no hk').1 h
      simp only [List.cons.injEq, true_and] at h2
      have := join_inj_ne vs vs' hvs hvs' hne hne' (append_cancel_right h2)
      rw [h1, this]
    | ex k' =>
      exfalso
      have : ' ' ∈ render (.ex k') := by rw [← h]; exact mem_split _ _ _
      exact (okl_no hb).1 this
    | dne k' =>
      exfalso
      simp only [render] at h
      cases k with
      | nil => cases h
      | cons c cs =>
        have : c = '!' := by simpa using (List.cons.inj h).1
        exact (hk c (List.mem_cons_self ..)).2.2.1 this
  | ex k =>
    have nk := okl_no ha
    cases b with
    | eq k' v' =>
      exfalso
      have : '=' ∈ render (.ex k) := by rw [h]; exact mem_split _ _ _
      exact nk.2.1 this
    | inn k' vs' =>
      exfalso
      have : ' ' ∈ render (.ex k) := by rw [h]; exact mem_split _ _ _
      exact nk.1 this
    | notin k' vs' =>
      exfalso
      have : ' ' ∈ render (.ex k) := by rw [h]; exact mem_split _ _ _
      exact nk.1 this
    | ex k' => simp only [render] at h; rw [h]
    | dne k' =>
      exfalso
      have : '!' ∈ render (.ex k) := by rw [h]; exact List.mem_cons_self ..
      exact nk.2.2.1 this
  | dne k =>
    cases b with
    | eq k' v' =>
      exfalso
      obtain ⟨hk', _⟩ := hb
      simp only [render] at h
      cases k' with
      | nil => cases h
      | cons c cs =>
        have : c = '!' := by simpa using (List.cons.inj h).1.symm
        exact (hk' c (List.mem_cons_self ..)).2.2.1 this
    | inn k' vs' =>
      exfalso
      obtain ⟨hk', _, _⟩ := hb
      simp only [render] at h
      cases k' with
      | nil => cases h
      | cons c cs =>
        have : c = '!' := by simpa using (List.cons.inj h).1.symm
        exact (hk' c (List.mem_cons_self ..)).2.2.1 this
    | notin k' vs' =>
      exfalso
      obtain ⟨hk', _, _⟩ := hb
      simp only [render] at h
      cases k' with
      | nil => cases h
      | cons c cs =>
        have : c = '!' := by simpa using (List.cons.inj h).1.symm
        exact (hk' c (List.mem_cons_self ..)).2.2.1 this
    | ex k' =>
      exfalso
      have : '!' ∈ render (.ex k') := by rw [← h]; exact List.mem_cons_self ..
      exact (okl_no hb).2.2.1 this
    | dne k' => simp only [render, List.cons.injEq, true_and] at h; rw [h]

/-! ### requirements -/

/-- the shape of the rendering of a requirement -/
def nf (r : Req) : NF :=
  match r.op with
  | .In =>
    if (r.vals.mergeSort (· ≤ ·)).eraseDups.length == 1 then
      .eq r.key.toList (r.vals.mergeSort (· ≤ ·)).head!.toList
    else .inn r.key.toList ((r.vals.mergeSort (· ≤ ·)).map String.toList)
  | .NotIn => .notin r.key.toList ((r.vals.mergeSort (· ≤ ·)).map String.toList)
  | .Exists => .ex r.key.toList
  | .DoesNotExist => .dne r.key.toList

theorem reqString_toList (r : Req) : (reqString r).toList = render (nf r) := by
  unfold reqString nf
  cases r.op with
  | In =>
    simp only []
    split
    · simp only [String.toList_append, render]
      show _ ++ ['='] ++ _ = _
      simp
    · simp only [String.toList_append, String.toList_intercalate, render, join]
      show _ ++ [' ', 'i', 'n', ' ', '('] ++ [','].intercalate _ ++ [')'] = _
      simp
  | NotIn =>
    simp only [String.toList_append, String.toList_intercalate, render, join]
    show _ ++ [' ', 'n', 'o', 't', 'i', 'n', ' ', '('] ++ [','].intercalate _ ++ [')'] = _
    simp
  | Exists => rfl
  | DoesNotExist =>
    simp only [String.toList_append, render]
    rfl

theorem label_toList (k v : String) : (k ++ "=" ++ v).toList = render (.eq k.toList v.toList) := by
  simp only [String.toList_append, render]
  show _ ++ ['='] ++ _ = _
  simp

/-- the meaning of a shape -/
def semNF : NF → Labels → Bool
  | .eq k v, l => l.get? (String.ofList k) == some (String.ofList v)
  | .inn k vs, l =>
    match l.get? (String.ofList k) with
    | some v => (vs.map String.ofList).contains v
    | none => false
  | .notin k vs, l =>
    match l.get? (String.ofList k) with
    | some v => !(vs.map String.ofList).contains v
    | none => true
  | .ex k, l => (l.get? (String.ofList k)).isSome
  | .dne k, l => (l.get? (String.ofList k)).isNone

theorem map_ofList_toList (vs : List String) : (vs.map String.toList).map String.ofList = vs := by
  rw [List.map_map]
  have : (String.ofList ∘ String.toList) = id := by
    funext s; simp
  rw [this, List.map_id]

theorem matches_eq_semNF (r : Req) (l : Labels) : r.matches l = semNF (nf r) l := by
  have hperm := List.mergeSort_perm r.vals (· ≤ ·)
  unfold nf
  generalize r.vals.mergeSort (· ≤ ·) = vs at hperm
  cases hop : r.op with
  | In =>
    have hm : r.matches l = match l.get? r.key with
        | some v => vs.contains v
        | none => false := by
      unfold Req.matches
      rw [hop]
      cases l.get? r.key with
      | none => rfl
      | some x => exact (hperm.contains_eq).symm
    rw [hm]
    simp only []
    by_cases hlen : (vs.eraseDups.length == 1) = true
    · rw [if_pos hlen]
      -- one value once duplicates are removed: every listed value is the first one
      have hall : ∀ y ∈ vs, y = vs.head! := by
        have h1 : vs.eraseDups.length = 1 := by simpa using hlen
        obtain ⟨z, hz⟩ := List.length_eq_one_iff.mp h1
        have hmem : ∀ y ∈ vs, y = z := by
          intro y hy
          have : y ∈ vs.eraseDups := List.mem_eraseDups.mpr hy
          rw [hz] at this
          simpa using this
        intro y hy
        cases vs with
        | nil => cases hy
        | cons v rest =>
          simp only [List.head!]
          rw [hmem y hy, hmem v (List.mem_cons_self ..)]
      cases vs with
      | nil => simp at hlen
      | cons v rest =>
        simp only [semNF, String.ofList_toList, List.head!]
        cases l.get? r.key with
        | none => rfl
        | some x =>
          show (v :: rest).contains x = (some x == some v)
          by_cases hx : x = v
          · subst hx; simp
          · have : (v :: rest).contains x = false := by
              cases hc : (v :: rest).contains x
              · rfl
              · exact absurd (by simpa [List.head!] using hall x (List.contains_iff_mem.mp hc)) hx
            rw [this]
            simp [hx]
    · rw [if_neg hlen]
      simp only [semNF, String.ofList_toList, map_ofList_toList]
  | NotIn =>
    have hm : r.matches l = match l.get? r.key with
        | some v => !vs.contains v
        | none => true := by
      unfold Req.matches
      rw [hop]
      cases l.get? r.key with
      | none => rfl
      | some x => simp only []; rw [hperm.contains_eq]
    rw [hm]
    simp only [semNF, String.ofList_toList, map_ofList_toList]
  | Exists =>
    unfold Req.matches
    rw [hop]
    simp only [semNF, String.ofList_toList]
  | DoesNotExist =>
    unfold Req.matches
    rw [hop]
    simp only [semNF, String.ofList_toList]

theorem label_sem (k v : String) (l : Labels) :
    (l.get? k == some v) = semNF (.eq k.toList v.toList) l := by
  simp only [semNF, String.ofList_toList]

/-- a requirement with label syntax -/
def _root_.Netpol.Req.OK (r : Req) : Prop :=
  okl r.key.toList ∧ (∀ v ∈ r.vals, okl v.toList) ∧ (r.op = .NotIn → r.vals ≠ []) ∧ r.key ≠ ""

instance (r : Req) : Decidable r.OK := by unfold Req.OK; infer_instance

/-- a selector with label syntax -/
def _root_.Netpol.Selector.OK (s : Selector) : Prop :=
  (∀ kv ∈ s.matchLabels, okl kv.1.toList ∧ okl kv.2.toList ∧ kv.1 ≠ "") ∧ ∀ r ∈ s.exprs, r.OK

instance (s : Selector) : Decidable s.OK := by unfold Selector.OK; infer_instance

theorem nf_ok (r : Req) (h : r.OK) : (nf r).ok := by
  obtain ⟨hk, hv, hne, _⟩ := h
  have hperm := List.mergeSort_perm r.vals (· ≤ ·)
  have hvs : ∀ v ∈ (r.vals.mergeSort (· ≤ ·)).map String.toList, okl v := by
    intro v hm
    obtain ⟨s, hs, rfl⟩ := List.mem_map.mp hm
    exact hv s (hperm.mem_iff.mp hs)
  unfold nf
  cases hop : r.op with
  | In =>
    simp only []
    split
    · rename_i hlen
      refine ⟨hk, ?_⟩
      cases hvs' : r.vals.mergeSort (· ≤ ·) with
      | nil => rw [hvs'] at hlen; cases hlen
      | cons v rest =>
        apply hvs
        rw [hvs']
        exact List.mem_map.mpr ⟨v, List.mem_cons_self .., rfl⟩
    · rename_i hlen
      refine ⟨hk, hvs, ?_⟩
      rw [List.length_map]
      intro h1
      apply hlen
      obtain ⟨z, hz⟩ := List.length_eq_one_iff.mp h1
      rw [hz]
      rfl
  | NotIn =>
    refine ⟨hk, hvs, ?_⟩
    intro h0
    have := hne hop
    apply this
    have hl : (r.vals.mergeSort (· ≤ ·)).length = 0 := by
      have := congrArg List.length h0
      simpa using this
    have := hperm.length_eq
    rw [hl] at this
    exact List.length_eq_zero_iff.mp this.symm
  | Exists => exact hk
  | DoesNotExist => exact hk

/-! ### selectors -/

/-- the shapes of the requirements of a selector -/
def itemNFs (s : Selector) : List NF :=
  (s.matchLabels.map fun kv => NF.eq kv.1.toList kv.2.toList) ++ s.exprs.map nf

/-- the requirement strings before sorting -/
def strsOf (s : Selector) : List String :=
  (s.matchLabels.map fun kv => kv.1 ++ "=" ++ kv.2) ++ s.exprs.map reqString

theorem reqStrings_perm (s : Selector) : s.reqStrings.Perm (strsOf s) := by
  unfold Selector.reqStrings strsOf
  refine ((List.mergeSort_perm _ _).map _).trans ?_
  rw [List.map_append, List.map_map, List.map_map]
  exact List.Perm.refl _

theorem matches_eq_all (s : Selector) (l : Labels) :
    s.matches l = (itemNFs s).all (semNF · l) := by
  unfold Selector.matches itemNFs
  rw [List.all_append, List.all_map, List.all_map]
  congr 1
  · apply List.all_congr rfl
    intro kv
    exact label_sem kv.1 kv.2 l
  · apply List.all_congr rfl
    intro r
    exact matches_eq_semNF r l

theorem itemNFs_ok (s : Selector) (h : s.OK) : ∀ a ∈ itemNFs s, a.ok := by
  intro a ha
  rcases List.mem_append.mp ha with h1 | h1
  · obtain ⟨kv, hkv, rfl⟩ := List.mem_map.mp h1
    exact ⟨(h.1 kv hkv).1, (h.1 kv hkv).2.1⟩
  · obtain ⟨r, hr, rfl⟩ := List.mem_map.mp h1
    exact nf_ok r (h.2 r hr)

theorem mem_itemNFs_str (s : Selector) {a : NF} (ha : a ∈ itemNFs s) :
    ∃ x ∈ strsOf s, x.toList = render a := by
  rcases List.mem_append.mp ha with h1 | h1
  · obtain ⟨kv, hkv, rfl⟩ := List.mem_map.mp h1
    exact ⟨_, List.mem_append_left _ (List.mem_map.mpr ⟨kv, hkv, rfl⟩), label_toList _ _⟩
  · obtain ⟨r, hr, rfl⟩ := List.mem_map.mp h1
    exact ⟨_, List.mem_append_right _ (List.mem_map.mpr ⟨r, hr, rfl⟩), reqString_toList r⟩

theorem mem_strsOf_nf (s : Selector) {x : String} (hx : x ∈ strsOf s) :
    ∃ a ∈ itemNFs s, x.toList = render a := by
  rcases List.mem_append.mp hx with h1 | h1
  · obtain ⟨kv, hkv, rfl⟩ := List.mem_map.mp h1
    exact ⟨_, List.mem_append_left _ (List.mem_map.mpr ⟨kv, hkv, rfl⟩), label_toList _ _⟩
  · obtain ⟨r, hr, rfl⟩ := List.mem_map.mp h1
    exact ⟨_, List.mem_append_right _ (List.mem_map.mpr ⟨r, hr, rfl⟩), reqString_toList r⟩

theorem itemNFs_sub {s t : Selector} (hs : s.OK) (ht : t.OK)
    (h : ∀ x, x ∈ s.reqStrings → x ∈ t.reqStrings) : ∀ a ∈ itemNFs s, a ∈ itemNFs t := by
  intro a ha
  obtain ⟨x, hx, hxa⟩ := mem_itemNFs_str s ha
  have hx' : x ∈ strsOf t :=
    (reqStrings_perm t).mem_iff.mp (h x ((reqStrings_perm s).mem_iff.mpr hx))
  obtain ⟨b, hb, hxb⟩ := mem_strsOf_nf t hx'
  have : a = b := render_inj (itemNFs_ok s hs a ha) (itemNFs_ok t ht b hb) (hxa.symm.trans hxb)
  rw [this]
  exact hb

/-- selectors with label syntax and the same requirement strings select the same label sets -/
theorem reqStrings_faithful (s t : Selector) (hs : s.OK) (ht : t.OK)
    (h : s.reqStrings = t.reqStrings) (l : Labels) : s.matches l = t.matches l := by
  rw [matches_eq_all, matches_eq_all, Bool.eq_iff_iff, List.all_eq_true, List.all_eq_true]
  constructor
  · intro hall a ha
    exact hall a (itemNFs_sub ht hs (fun x hx => h ▸ hx) a ha)
  · intro hall a ha
    exact hall a (itemNFs_sub hs ht (fun x hx => h ▸ hx) a ha)

/-! ### the `;`-joined requirement strings (the map key of the representative peers) -/

/-- joining with a separator character -/
def ijoin (sep : Char) (vs : List (List Char)) : List Char := [sep].intercalate vs

theorem ijoin_nil (sep : Char) : ijoin sep [] = [] := rfl
theorem ijoin_single (sep : Char) (a : List Char) : ijoin sep [a] = a := by
  simp [ijoin, List.intercalate]
theorem ijoin_cons_cons (sep : Char) (a b : List Char) (l : List (List Char)) :
    ijoin sep (a :: b :: l) = a ++ sep :: ijoin sep (b :: l) := by
  simp [ijoin, List.intercalate, List.intersperse]

theorem join_eq_ijoin (vs : List (List Char)) : join vs = ijoin ',' vs := rfl

theorem mem_ijoin {sep c : Char} {vs : List (List Char)} (h : c ∈ ijoin sep vs) :
    c = sep ∨ ∃ v ∈ vs, c ∈ v := by
  induction vs with
  | nil => cases h
  | cons a as ih =>
    cases as with
    | nil =>
      rw [ijoin_single] at h
      exact Or.inr ⟨a, List.mem_cons_self .., h⟩
    | cons b bs =>
      rw [ijoin_cons_cons] at h
      rcases List.mem_append.mp h with h1 | h1
      · exact Or.inr ⟨a, List.mem_cons_self .., h1⟩
      · rcases List.mem_cons.mp h1 with h2 | h2
        · exact Or.inl h2
        · rcases ih h2 with h3 | ⟨v, hv, h3⟩
          · exact Or.inl h3
          · exact Or.inr ⟨v, List.mem_cons_of_mem _ hv, h3⟩

theorem ijoin_inj_ne (sep : Char) (A B : List (List Char)) (hA : ∀ v ∈ A, sep ∉ v)
    (hB : ∀ v ∈ B, sep ∉ v) (nA : A ≠ []) (nB : B ≠ []) (h : ijoin sep A = ijoin sep B) : A = B := by
  induction A generalizing B with
  | nil => exact absurd rfl nA
  | cons a as ih =>
    cases B with
    | nil => exact absurd rfl nB
    | cons b bs =>
      have ha := hA a (List.mem_cons_self ..)
      have hb := hB b (List.mem_cons_self ..)
      cases as with
      | nil =>
        cases bs with
        | nil => rw [ijoin_single, ijoin_single] at h; rw [h]
        | cons b2 bs' =>
          rw [ijoin_single, ijoin_cons_cons] at h
          exfalso
          apply ha
          rw [h]
          exact List.mem_append_right _ (List.mem_cons_self ..)
      | cons a2 as' =>
        cases bs with
        | nil =>
          rw [ijoin_single, ijoin_cons_cons] at h
          exfalso
          apply hb
          rw [← h]
          exact List.mem_append_right _ (List.mem_cons_self ..)
        | cons b2 bs' =>
          rw [ijoin_cons_cons, ijoin_cons_cons] at h
          obtain ⟨h1, h2⟩ := Structure.split_unique ha hb h
          rw [h1, ih (b2 :: bs') (fun v hv => hA v (List.mem_cons_of_mem _ hv))
            (fun v hv => hB v (List.mem_cons_of_mem _ hv)) (by simp) (by simp) h2]

theorem ijoin_ne_nil (sep : Char) (a : List Char) (l : List (List Char)) (ha : a ≠ []) :
    ijoin sep (a :: l) ≠ [] := by
  cases l with
  | nil => rw [ijoin_single]; exact ha
  | cons b bs =>
    rw [ijoin_cons_cons]
    intro h
    exact ha (List.append_eq_nil_iff.mp h).1

/-- joining is injective on lists of non-empty items that do not hold the separator -/
theorem ijoin_inj (sep : Char) (A B : List (List Char)) (hA : ∀ v ∈ A, sep ∉ v ∧ v ≠ [])
    (hB : ∀ v ∈ B, sep ∉ v ∧ v ≠ []) (h : ijoin sep A = ijoin sep B) : A = B := by
  cases A with
  | nil =>
    cases B with
    | nil => rfl
    | cons b bs => exact absurd h.symm (ijoin_ne_nil sep b bs (hB b (List.mem_cons_self ..)).2)
  | cons a as =>
    cases B with
    | nil => exact absurd h (ijoin_ne_nil sep a as (hA a (List.mem_cons_self ..)).2)
    | cons b bs =>
      exact ijoin_inj_ne sep _ _ (fun v hv => (hA v hv).1) (fun v hv => (hB v hv).1) (by simp)
        (by simp) h

/-- the characters the rendering adds -/
def punct : List Char := [' ', '=', '!', ',', '(', ')', 'i', 'n', 'o', 't']

theorem okl_mem_vs {vs : List (List Char)} (h : ∀ v ∈ vs, okl v) {c : Char} (hc : c ∈ join vs) :
    c ∈ punct ∨ okc c := by
  rw [join_eq_ijoin] at hc
  rcases mem_ijoin hc with h1 | ⟨v, hv, h1⟩
  · subst h1; exact Or.inl (by decide)
  · exact Or.inr (h v hv c h1)

/-- a rendered requirement holds punctuation and characters of its keys and values only -/
theorem render_chars {a : NF} (ha : a.ok) {c : Char} (hc : c ∈ render a) : c ∈ punct ∨ okc c := by
  cases a with
  | eq k v =>
    simp only [render, List.mem_append, List.mem_cons] at hc
    rcases hc with h | h | h
    · exact Or.inr (ha.1 c h)
    · subst h; exact Or.inl (by decide)
    · exact Or.inr (ha.2 c h)
  | inn k vs =>
    simp only [render, List.mem_append, List.mem_cons, List.not_mem_nil, or_false] at hc
    rcases hc with h | h | h | h | h | h | h | h
    · exact Or.inr (ha.1 c h)
    · subst h; exact Or.inl (by decide)
    · subst h; exact Or.inl (by decide)
    · subst h; exact Or.inl (by decide)
    · subst h; exact Or.inl (by decide)
    · subst h; exact Or.inl (by decide)
    · exact okl_mem_vs ha.2.1 h
    · subst h; exact Or.inl (by decide)
  | notin k vs =>
    simp only [render, List.mem_append, List.mem_cons, List.not_mem_nil, or_false] at hc
    rcases hc with h | h | h | h | h | h | h | h | h | h | h
    · exact Or.inr (ha.1 c h)
    · subst h; exact Or.inl (by decide)
    · subst h; exact Or.inl (by decide)
    · subst h; exact Or.inl (by decide)
    · subst h; exact Or.inl (by decide)
    · subst h; exact Or.inl (by decide)
    · subst h; exact Or.inl (by decide)
    · subst h; exact Or.inl (by decide)
    · subst h; exact Or.inl (by decide)
    · exact okl_mem_vs ha.2.1 h
    · subst h; exact Or.inl (by decide)
  | ex k => exact Or.inr (ha c hc)
  | dne k =>
    simp only [render, List.mem_cons] at hc
    rcases hc with h | h
    · subst h; exact Or.inl (by decide)
    · exact Or.inr (ha c h)

theorem render_no_sep {a : NF} (ha : a.ok) : ';' ∉ render a ∧ '|' ∉ render a := by
  constructor
  · intro h
    rcases render_chars ha h with h1 | h1
    · revert h1; decide
    · exact h1.2.2.2.2.2.2.1 rfl
  · intro h
    rcases render_chars ha h with h1 | h1
    · revert h1; decide
    · exact h1.2.2.2.2.2.2.2 rfl

/-- the key of an `Exists` requirement is not empty (the other shapes are never rendered empty) -/
def NF.ne : NF → Prop
  | .ex k => k ≠ []
  | _ => True

theorem render_ne_nil {a : NF} (ha : a.ne) : render a ≠ [] := by
  cases a with
  | eq k v => simp [render]
  | inn k vs => simp [render]
  | notin k vs => simp [render]
  | ex k => exact ha
  | dne k => simp [render]

theorem toList_ne_nil {s : String} (h : s ≠ "") : s.toList ≠ [] := by
  intro h0
  apply h
  apply String.toList_inj.mp
  rw [h0]
  rfl

theorem nf_ne (r : Req) (h : r.key ≠ "") : (nf r).ne := by
  unfold nf
  cases r.op with
  | In => simp only []; split <;> trivial
  | NotIn => trivial
  | Exists => exact toList_ne_nil h
  | DoesNotExist => trivial

theorem itemNFs_ne (s : Selector) (h : s.OK) : ∀ a ∈ itemNFs s, a.ne := by
  intro a ha
  rcases List.mem_append.mp ha with h1 | h1
  · obtain ⟨kv, _, rfl⟩ := List.mem_map.mp h1
    trivial
  · obtain ⟨r, hr, rfl⟩ := List.mem_map.mp h1
    exact nf_ne r (h.2 r hr).2.2.2

/-- a requirement string of a selector with label syntax: not empty, and without the separators -/
theorem reqStrings_item (s : Selector) (hs : s.OK) {x : String} (hx : x ∈ s.reqStrings) :
    ';' ∉ x.toList ∧ '|' ∉ x.toList ∧ x.toList ≠ [] := by
  obtain ⟨a, ha, hxa⟩ := mem_strsOf_nf s ((reqStrings_perm s).mem_iff.mp hx)
  rw [hxa]
  obtain ⟨h1, h2⟩ := render_no_sep (itemNFs_ok s hs a ha)
  exact ⟨h1, h2, render_ne_nil (itemNFs_ne s hs a ha)⟩

theorem toList_intercalate_semicolon (l : List String) :
    (";".intercalate l).toList = ijoin ';' (l.map String.toList) := by
  rw [String.toList_intercalate]
  rfl

/-- the list of requirement strings is recovered from its `;`-joined form -/
theorem intercalate_reqStrings_inj (s t : Selector) (hs : s.OK) (ht : t.OK)
    (h : ";".intercalate s.reqStrings = ";".intercalate t.reqStrings) :
    s.reqStrings = t.reqStrings := by
  have h' := congrArg String.toList h
  rw [toList_intercalate_semicolon, toList_intercalate_semicolon] at h'
  have := ijoin_inj ';' _ _
    (fun v hv => by
      obtain ⟨x, hx, rfl⟩ := List.mem_map.mp hv
      exact ⟨(reqStrings_item s hs hx).1, (reqStrings_item s hs hx).2.2⟩)
    (fun v hv => by
      obtain ⟨x, hx, rfl⟩ := List.mem_map.mp hv
      exact ⟨(reqStrings_item t ht hx).1, (reqStrings_item t ht hx).2.2⟩) h'
  have h2 := congrArg (List.map String.ofList) this
  rw [map_ofList_toList, map_ofList_toList] at h2
  exact h2

/-- the `;`-joined form does not hold the separator `|` of the pair key -/
theorem intercalate_reqStrings_no_bar (s : Selector) (hs : s.OK) :
    '|' ∉ (";".intercalate s.reqStrings).toList := by
  rw [toList_intercalate_semicolon]
  intro h
  rcases mem_ijoin h with h1 | ⟨v, hv, h1⟩
  · cases h1
  · obtain ⟨x, hx, rfl⟩ := List.mem_map.mp hv
    exact (reqStrings_item s hs hx).2.1 h1

/-- a selector is empty iff it has no requirement string -/
theorem reqStrings_eq_nil_iff (s : Selector) : s.reqStrings = [] ↔ s.isEmpty = true := by
  have hl : s.reqStrings.length = s.matchLabels.length + s.exprs.length := by
    rw [(reqStrings_perm s).length_eq]
    simp [strsOf]
  unfold Selector.isEmpty
  rw [Bool.and_eq_true, List.isEmpty_iff, List.isEmpty_iff]
  constructor
  · intro h
    rw [h] at hl
    simp only [List.length_nil] at hl
    exact ⟨List.length_eq_zero_iff.mp (by omega), List.length_eq_zero_iff.mp (by omega)⟩
  · rintro ⟨h1, h2⟩
    rw [h1, h2] at hl
    exact List.length_eq_zero_iff.mp hl

end SelStr
end Netpol
