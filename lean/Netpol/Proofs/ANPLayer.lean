import Netpol.Model.ANP
import Netpol.Spec.K8s
import Netpol.Properties.C11

/-! The AdminNetworkPolicy layer (`Netpol.Model.ANP`: `ARule.conns`, `PolicyConns.updateWithRule`,
`adminPolicyConns`, `PolicyConns.collectANP`, `collectNetpols`, `collectBANP`, `determinesAll`)
against the declarative "first matching rule" specification `Spec.firstMatch`. Core Lean only. -/
namespace Netpol

/-! ### weak well-formedness of connection sets

`ARule.conns` folds `addConnection` over the ports of a rule. When the ports seen so far fill all
three protocols the intermediate result becomes the AllowAll form, and before the repair of
`AddConnection` a later `addConnection` stored an entry next to the AllowAll flag. Such a value is
outside `ConnSet.WF`, so the lemmas of `Netpol.Proofs.ConnSet` do not apply to it directly. `WFw`
drops the clause "AllowAll has no entries"; `subtract` (receiver) and `union` (argument) are
characterised for `WFw` values below, which is all `updateWithRule` needs. Since the repair
(`AddConnection` is a no-op on the AllowAll form) the fold stays inside `WF`
(`ConnSet.wf_addConnection`); `WFw` is kept as the weaker, sufficient invariant. -/

namespace ConnSet
open CSet

/-- weak well-formedness: entries are well-formed and non-empty; the AllowAll flag may coexist
with entries -/
def WFw (c : ConnSet) : Prop := ∀ pr ps, c.get pr = some ps → ps.WF ∧ ps.isEmpty = false

theorem WF.weak {c : ConnSet} (h : c.WF) : c.WFw := h.2

theorem WFw.wf_of_not_allowAll {c : ConnSet} (h : c.WFw) (ha : c.allowAll = false) : c.WF :=
  wf_of_entries ha h

theorem WFw.den_inRange {c : ConnSet} (h : c.WFw) {pr : Proto} {p : Int} (hd : c.den pr p) :
    inRange p := by
  rcases hd with hd | ⟨ps, hg, hm⟩
  · exact hd.2
  · exact (h pr ps hg).1.range hm

theorem WFw.den_of_allowAll {c : ConnSet} (h : c.WFw) (ha : c.allowAll = true) (pr : Proto)
    (p : Int) : c.den pr p ↔ inRange p :=
  ⟨h.den_inRange, fun hp => Or.inl ⟨ha, hp⟩⟩

theorem isEmpty_of_allowAll {c : ConnSet} (ha : c.allowAll = true) : c.isEmpty = false := by
  simp [isEmpty, ha]

theorem wfw_mk (b : Bool) : (mk' b).WFw := (wf_mk b).weak

theorem wfw_addConnectionRaw {c : ConnSet} {ps : PortSet} (pr : Proto) (hc : c.WFw) (hp : ps.WF) :
    (c.addConnectionRaw pr ps).WFw := by
  unfold addConnectionRaw
  split
  · exact hc
  · rename_i hne
    have hne' : ps.isEmpty = false := by simpa using hne
    split
    · rename_i cur hcur
      intro pr' ps' hg
      rw [get_set] at hg
      split at hg
      · cases hg
        exact ⟨PortSet.wf_union (hc _ _ hcur).1 hp, PortSet.union_isEmpty_right _ hp hne'⟩
      · exact hc pr' ps' hg
    · intro pr' ps' hg
      rw [get_set] at hg
      split at hg
      · cases hg
        exact ⟨hp, hne'⟩
      · exact hc pr' ps' hg

theorem wfw_checkIfAll {c : ConnSet} (h : c.WFw) : c.checkIfAll.WFw := by
  unfold checkIfAll
  split
  · exact wfw_mk true
  · exact h

/-- `AddConnection` preserves weak well-formedness without any side condition -/
theorem wfw_addConnection {c : ConnSet} {ps : PortSet} (pr : Proto) (hc : c.WFw) (hp : ps.WF) :
    (c.addConnection pr ps).WFw := by
  cases h : c.allowAll
  · rw [addConnection_of_not_allowAll h]
    exact wfw_checkIfAll (wfw_addConnectionRaw pr hc hp)
  · rw [addConnection_of_allowAll h]
    exact hc

theorem allowAll_addConnectionRaw (c : ConnSet) (pr : Proto) (ps : PortSet) :
    (c.addConnectionRaw pr ps).allowAll = c.allowAll := by
  unfold addConnectionRaw
  split
  · rfl
  · split <;> simp

/-- `addAllConns` on the receiver of `Subtract`, for a weakly well-formed receiver -/
theorem expandAll_w {c : ConnSet} (hc : c.WFw) :
    (expandAll c).WF ∧ (expandAll c).allowAll = false ∧
      ∀ pr p, (expandAll c).den pr p ↔ c.den pr p := by
  cases ha : c.allowAll
  · have : expandAll c = c := by simp [expandAll, ha]
    rw [this]
    exact ⟨hc.wf_of_not_allowAll ha, ha, fun _ _ => Iff.rfl⟩
  · have hget : ∀ pr, ({ c with allowAll := false } : ConnSet).get pr = c.get pr := by
      intro pr; cases pr <;> rfl
    have h0 : ({ c with allowAll := false } : ConnSet).WF :=
      wf_of_entries rfl (fun pr ps hg => hc pr ps (by rw [← hget]; exact hg))
    have hfull : (PortSet.mk' true).isEmpty = false := by decide
    have hexp : expandAll c =
        ((({ c with allowAll := false } : ConnSet).addConnectionRaw .TCP
          (PortSet.mk' true)).addConnectionRaw .UDP (PortSet.mk' true)).addConnectionRaw .SCTP
          (PortSet.mk' true) := by
      simp [expandAll, ha, addAllConns, Proto.all]
    have ne : ∀ {d : ConnSet}, d.allowAll = false →
        (d.allowAll = true → (PortSet.mk' true).isEmpty = true) := by
      intro d hd h; rw [hd] at h; exact absurd h (by decide)
    have a0 : ({ c with allowAll := false } : ConnSet).allowAll = false := rfl
    have w1 := wf_addConnectionRaw .TCP h0 (PortSet.wf_mk' true) (ne a0)
    have a1 : (({ c with allowAll := false } : ConnSet).addConnectionRaw .TCP
        (PortSet.mk' true)).allowAll = false := by rw [allowAll_addConnectionRaw]
    have w2 := wf_addConnectionRaw .UDP w1 (PortSet.wf_mk' true) (ne a1)
    have a2 : ((({ c with allowAll := false } : ConnSet).addConnectionRaw .TCP
        (PortSet.mk' true)).addConnectionRaw .UDP (PortSet.mk' true)).allowAll = false := by
      rw [allowAll_addConnectionRaw, allowAll_addConnectionRaw]
    have w3 := wf_addConnectionRaw .SCTP w2 (PortSet.wf_mk' true) (ne a2)
    rw [hexp]
    refine ⟨w3, by rw [allowAll_addConnectionRaw, a2], ?_⟩
    intro pr p
    rw [den_addConnectionRaw, den_addConnectionRaw, den_addConnectionRaw,
      hc.den_of_allowAll ha, den_of_not_allowAll a0, hget]
    have hm : memL (PortSet.mk' true).ports p ↔ inRange p := by
      rw [PortSet.mk'_true]; exact memL_full p
    rw [hm]
    constructor
    · rintro (((⟨ps, hg, hmem⟩ | h) | h) | h)
      · exact (hc pr ps hg).1.range hmem
      · exact h.2
      · exact h.2
      · exact h.2
    · intro h
      cases pr
      · exact Or.inl (Or.inl (Or.inr ⟨rfl, h⟩))
      · exact Or.inl (Or.inr ⟨rfl, h⟩)
      · exact Or.inr ⟨rfl, h⟩

theorem subtract_eq_expand (c : ConnSet) {o : ConnSet} (h1 : o.isEmpty = false)
    (h2 : o.allowAll = false) : c.subtract o = (expandAll c).subtract o := by
  rw [subtract_eq, subtract_eq, h1, h2]
  simp only [Bool.false_eq_true, if_false]
  congr 1
  unfold expandAll
  split
  · rename_i h
    have : (({ c with allowAll := false } : ConnSet).addAllConns).allowAll = false := by
      simp [addAllConns, Proto.all, allowAll_addConnectionRaw]
    simp [this]
  · simp

/-- `Subtract` with a weakly well-formed receiver -/
theorem wfw_subtract {c o : ConnSet} (hc : c.WFw) (ho : o.WF) : (c.subtract o).WFw := by
  cases h1 : o.isEmpty
  · cases h2 : o.allowAll
    · rw [subtract_eq_expand c h1 h2]
      exact (wf_subtract (expandAll_w hc).1 ho).weak
    · rw [subtract_eq, h1, h2]
      exact wfw_mk false
  · rw [subtract_eq, h1]
    exact hc

theorem den_subtract_w {c o : ConnSet} (hc : c.WFw) (ho : o.WF) (pr : Proto) (p : Int) :
    (c.subtract o).den pr p ↔ c.den pr p ∧ ¬ o.den pr p := by
  cases h1 : o.isEmpty
  · cases h2 : o.allowAll
    · rw [subtract_eq_expand c h1 h2, den_subtract (expandAll_w hc).1 ho, (expandAll_w hc).2.2]
    · rw [subtract_eq, h1, h2, den_of_allowAll ho h2]
      constructor
      · intro h; exact absurd h (den_mk_none pr p)
      · rintro ⟨h3, h4⟩; exact absurd (hc.den_inRange h3) h4
  · rw [subtract_eq, h1]
    exact ⟨fun h => ⟨h, not_den_of_isEmpty h1 pr p⟩, fun h => h.1⟩

/-- `Union` with a weakly well-formed argument gives a well-formed result -/
theorem wf_union_w {c o : ConnSet} (hc : c.WF) (ho : o.WFw) : (c.union o).WF := by
  cases hb : o.allowAll
  · exact wf_union hc (ho.wf_of_not_allowAll hb)
  · unfold union
    split
    · exact hc
    · exact wf_mk true

theorem den_union_w {c o : ConnSet} (hc : c.WF) (ho : o.WFw) (pr : Proto) (p : Int) :
    (c.union o).den pr p ↔ c.den pr p ∨ o.den pr p := by
  cases hb : o.allowAll
  · exact den_union hc (ho.wf_of_not_allowAll hb) pr p
  · unfold union
    split
    · rename_i h1
      rw [isEmpty_of_allowAll hb, Bool.or_false] at h1
      rw [den_of_allowAll hc h1]
      exact ⟨Or.inl, fun h => h.elim id ho.den_inRange⟩
    · rw [den_mk_all]
      exact ⟨fun h => Or.inr (Or.inl ⟨hb, h⟩), fun h => h.elim hc.den_inRange ho.den_inRange⟩

/-- the AllowAll flag forces the full denotation (no well-formedness needed) -/
theorem den_of_allowAll_flag {c : ConnSet} (h : c.allowAll = true) (pr : Proto) {p : Int}
    (hp : inRange p) : c.den pr p := Or.inl ⟨h, hp⟩

end ConnSet

/-! ### definitions -/

/-- the specification-level end of a model peer (an IP peer is represented by its first address;
admin policies never match IP peers) -/
def KPeer.toEnd' (k : KPeer) : Spec.End :=
  match k with
  | .pod p (some ns) => .pod p ns.labels
  | .pod p none => .pod p []
  | .ip r => .ip (match r with | i :: _ => i.lo | [] => 0)

/-- an admin-policy port is inside the port range (API validation) -/
def APort.Valid (q : APort) : Prop :=
  match q with
  | .num _ n => 1 ≤ n ∧ n ≤ 65535
  | .range _ a b => 1 ≤ a ∧ b ≤ 65535
  | .named _ => True

instance (q : APort) : Decidable q.Valid := by
  cases q <;> (simp only [APort.Valid]; infer_instance)

/-- every port of an optional port list is valid -/
def ARule.PortsValid (ports : Option (List APort)) : Prop :=
  ∀ ps, ports = some ps → ∀ q ∈ ps, q.Valid

/-- the container ports of a pod peer are inside the port range (API validation) -/
def KPeer.ValidPorts (k : KPeer) : Prop :=
  match k with
  | .pod p _ => ∀ c ∈ p.ports, 1 ≤ c.port ∧ c.port ≤ 65535
  | .ip _ => True

instance (k : KPeer) : Decidable k.ValidPorts := by
  cases k <;> (simp only [KPeer.ValidPorts]; infer_instance)

/-! ### 1. `ARule.conns` -/

namespace ARule
open CSet

/-- one step of the fold of `ARule.conns` -/
def connStep (dst : KPeer) (res : ConnSet) (ap : APort) : ConnSet :=
  match ap with
  | .num pr n => res.addConnection (pr.getD .TCP) ((PortSet.mk' false).addPort (.num n))
  | .named name =>
    match dst with
    | .pod pod _ =>
      match pod.convertNamedPort name with
      | none => res
      | some (pr, n) => res.addConnection pr ((PortSet.mk' false).addPort (.num n))
    | .ip _ => res
  | .range pr a b =>
    if NetPol.isEmptyPortRange a b then res
    else res.addConnection (pr.getD .TCP) ((PortSet.mk' false).addPortRange a b)

theorem conns_some (ps : List APort) (dst : KPeer) :
    conns (some ps) dst = ps.foldl (connStep dst) (ConnSet.mk' false) := rfl

theorem conns_none (dst : KPeer) : conns none dst = ConnSet.mk' true := rfl

theorem mem_range_port (a b x : Int) :
    memL ((PortSet.mk' false).addPortRange a b).ports x ↔ a ≤ x ∧ x ≤ b := by
  rw [PortSet.mem_addPortRange, PortSet.mk'_false]
  simp [memL_nil]

theorem mem_single_port (n x : Int) :
    memL ((PortSet.mk' false).addPort (.num n)).ports x ↔ x = n := by
  have : (PortSet.mk' false).addPort (.num n) = (PortSet.mk' false).addPortRange n n := rfl
  rw [this, mem_range_port]
  omega

theorem wf_single_port {n : Int} (h : 1 ≤ n ∧ n ≤ 65535) :
    ((PortSet.mk' false).addPort (.num n)).WF :=
  PortSet.wf_addPort_num (PortSet.wf_mk' false) h

/-- adding the single port `n` of protocol `q` (`hn`: on the AllowAll form nothing is added) -/
theorem den_add_single (res : ConnSet) (q : Proto) {n : Int} (hn : 1 ≤ n ∧ n ≤ 65535) (pr : Proto)
    (x : Int) :
    (res.addConnection q ((PortSet.mk' false).addPort (.num n))).den pr x ↔
      res.den pr x ∨ (pr = q ∧ x = n) := by
  rw [ConnSet.den_addConnection _ _ (wf_single_port hn), mem_single_port]

theorem aPortMatches_named_pod (name : String) (d : Pod) (nsl : Labels) (pr : Proto) (x : Int) :
    Spec.aPortMatches (.named name) (.pod d nsl) pr x =
      match d.ports.find? (fun c => c.name == name) with
      | some c => c.proto == pr && c.port == x
      | none => false := rfl

theorem connStep_spec (dst : KPeer) (hd : dst.ValidPorts) (res : ConnSet) (hres : res.WFw)
    (q : APort) (hq : q.Valid) :
    (connStep dst res q).WFw ∧ ∀ pr x, (connStep dst res q).den pr x ↔
      res.den pr x ∨ (inRange x ∧ Spec.aPortMatches q dst.toEnd' pr x = true) := by
  cases q with
  | num rpr n =>
    refine ⟨ConnSet.wfw_addConnection _ hres (wf_single_port hq), ?_⟩
    intro pr x
    show (res.addConnection _ _).den pr x ↔ _
    rw [den_add_single _ _ hq]
    refine or_congr Iff.rfl ?_
    simp only [Spec.aPortMatches, Bool.and_eq_true, beq_iff_eq, inRange]
    constructor
    · rintro ⟨rfl, rfl⟩; exact ⟨hq, rfl, rfl⟩
    · rintro ⟨_, h1, h2⟩; exact ⟨h1.symm, h2⟩
  | range rpr a b =>
    have hne : NetPol.isEmptyPortRange a b = false := by
      have : a ≠ -1 := by have := hq.1; omega
      simp [NetPol.isEmptyPortRange, noPort, this]
    have hstep : connStep dst res (.range rpr a b) =
        res.addConnection (rpr.getD .TCP) ((PortSet.mk' false).addPortRange a b) := by
      simp [connStep, hne]
    rw [hstep]
    refine ⟨ConnSet.wfw_addConnection _ hres
      (PortSet.wf_addPortRange (PortSet.wf_mk' false) hq.1 hq.2), ?_⟩
    intro pr x
    rw [ConnSet.den_addConnection _ _ (PortSet.wf_addPortRange (PortSet.wf_mk' false) hq.1 hq.2),
      mem_range_port]
    refine or_congr Iff.rfl ?_
    simp only [Spec.aPortMatches, Bool.and_eq_true, beq_iff_eq, decide_eq_true_eq, inRange]
    constructor
    · rintro ⟨rfl, h1, h2⟩
      have := hq.1; have := hq.2
      exact ⟨⟨by omega, by omega⟩, rfl, h1, h2⟩
    · rintro ⟨_, h1, h2⟩; exact ⟨h1.symm, h2⟩
  | named name =>
    cases dst with
    | ip r =>
      refine ⟨hres, ?_⟩
      intro pr x
      show res.den pr x ↔ _
      simp [KPeer.toEnd', Spec.aPortMatches]
    | pod d ns =>
      have key : ∀ nsl : Labels,
          (connStep (.pod d ns) res (.named name)).WFw ∧
            ∀ pr x, (connStep (.pod d ns) res (.named name)).den pr x ↔
              res.den pr x ∨ (inRange x ∧ Spec.aPortMatches (.named name) (.pod d nsl) pr x = true) := by
        intro nsl
        cases hfind : d.ports.find? (fun c => c.name == name) with
        | none =>
          have hstep : connStep (.pod d ns) res (.named name) = res := by
            simp [connStep, Pod.convertNamedPort, hfind]
          rw [hstep]
          refine ⟨hres, ?_⟩
          intro pr x
          rw [aPortMatches_named_pod, hfind]
          simp
        | some c =>
          have hstep : connStep (.pod d ns) res (.named name) =
              res.addConnection c.proto ((PortSet.mk' false).addPort (.num c.port)) := by
            simp [connStep, Pod.convertNamedPort, hfind]
          have hc : 1 ≤ c.port ∧ c.port ≤ 65535 := hd c (List.mem_of_find?_eq_some hfind)
          rw [hstep]
          refine ⟨ConnSet.wfw_addConnection _ hres (wf_single_port hc), ?_⟩
          intro pr x
          rw [den_add_single _ _ hc, aPortMatches_named_pod, hfind]
          refine or_congr Iff.rfl ?_
          simp only [Bool.and_eq_true, beq_iff_eq, inRange]
          constructor
          · rintro ⟨rfl, rfl⟩; exact ⟨hc, rfl, rfl⟩
          · rintro ⟨_, h1, h2⟩; exact ⟨h1.symm, h2.symm⟩
      cases ns with
      | none => exact key []
      | some n => exact key n.labels

theorem conns_fold (dst : KPeer) (hd : dst.ValidPorts) (ps : List APort)
    (hps : ∀ q ∈ ps, q.Valid) (acc : ConnSet) (hacc : acc.WFw) :
    (ps.foldl (connStep dst) acc).WFw ∧ ∀ pr x, (ps.foldl (connStep dst) acc).den pr x ↔
      acc.den pr x ∨ (inRange x ∧ ∃ q ∈ ps, Spec.aPortMatches q dst.toEnd' pr x = true) := by
  induction ps generalizing acc with
  | nil => exact ⟨hacc, fun pr x => by simp⟩
  | cons q rest ih =>
    have hs := connStep_spec dst hd acc hacc q (hps q (List.mem_cons_self ..))
    have := ih (fun q' h => hps q' (List.mem_cons_of_mem _ h)) _ hs.1
    rw [List.foldl_cons]
    refine ⟨this.1, ?_⟩
    intro pr x
    rw [this.2, hs.2]
    simp only [List.mem_cons, exists_eq_or_imp]
    constructor
    · rintro ((h | ⟨h1, h2⟩) | ⟨h1, h2⟩)
      · exact Or.inl h
      · exact Or.inr ⟨h1, Or.inl h2⟩
      · exact Or.inr ⟨h1, Or.inr h2⟩
    · rintro (h | ⟨h1, h2 | h2⟩)
      · exact Or.inl (Or.inl h)
      · exact Or.inl (Or.inr ⟨h1, h2⟩)
      · exact Or.inr ⟨h1, h2⟩

/-- the connection set of a rule's ports is weakly well-formed (`WFw`). Before the repair of
`AddConnection` a port list that fills all three protocols and then goes on left an entry next to
the AllowAll flag (outside `WF`); now the result is All Connections, see
`conns_fullThenMore_example` -/
theorem conns_wfw {ports : Option (List APort)} {dst : KPeer} (hd : dst.ValidPorts)
    (hp : PortsValid ports) : (conns ports dst).WFw := by
  cases ports with
  | none => exact ConnSet.wfw_mk true
  | some ps =>
    rw [conns_some]
    exact (conns_fold dst hd ps (hp ps rfl) _ (ConnSet.wfw_mk false)).1

/-- … and well-formed whenever it is not in the AllowAll form, or the rule has no port list -/
theorem conns_wf_of_not_allowAll {ports : Option (List APort)} {dst : KPeer} (hd : dst.ValidPorts)
    (hp : PortsValid ports) (h : (conns ports dst).allowAll = false) : (conns ports dst).WF :=
  (conns_wfw hd hp).wf_of_not_allowAll h

theorem conns_wf_none (dst : KPeer) : (conns none dst).WF := ConnSet.wf_mk true

/-- denotation of the connection set of a rule's ports -/
theorem den_conns {ports : Option (List APort)} {dst : KPeer} (hd : dst.ValidPorts)
    (hp : PortsValid ports) (pr : Proto) (x : Int) :
    (conns ports dst).den pr x ↔ inRange x ∧
      (match (generalizing := false) ports with
        | none => True
        | some ps => ∃ q ∈ ps, Spec.aPortMatches q dst.toEnd' pr x = true) := by
  cases ports with
  | none => rw [conns_none, ConnSet.den_mk_all]; simp
  | some ps =>
    rw [conns_some, (conns_fold dst hd ps (hp ps rfl) _ (ConnSet.wfw_mk false)).2]
    simp [ConnSet.den_mk_none]

/-- the statement for a pod destination, with the namespace labels of the specification end
arbitrary (`Spec.aPortMatches` does not look at them) -/
theorem den_conns_pod {ports : Option (List APort)} {p : Pod} {ns : Option NsObj}
    (hd : ∀ c ∈ p.ports, 1 ≤ c.port ∧ c.port ≤ 65535) (hp : PortsValid ports)
    (nsLabels : Labels) (pr : Proto) (x : Int) :
    (conns ports (.pod p ns)).den pr x ↔ inRange x ∧
      (match (generalizing := false) ports with
        | none => True
        | some ps => ∃ q ∈ ps, Spec.aPortMatches q (.pod p nsLabels) pr x = true) := by
  have h := den_conns (dst := .pod p ns) hd hp pr x
  have e : ∀ q, Spec.aPortMatches q (KPeer.pod p ns).toEnd' pr x =
      Spec.aPortMatches q (.pod p nsLabels) pr x := by
    intro q
    cases ns <;> cases q <;> rfl
  rw [h]
  cases ports with
  | none => exact Iff.rfl
  | some ps => simp only [e]

theorem conns_wfw_pod {ports : Option (List APort)} {p : Pod} {ns : Option NsObj}
    (hd : ∀ c ∈ p.ports, 1 ≤ c.port ∧ c.port ≤ 65535) (hp : PortsValid ports) :
    (conns ports (.pod p ns)).WFw := conns_wfw (dst := .pod p ns) hd hp

/-- Bool form used for `Spec.aRuleMatches` -/
theorem den_conns_any {ports : Option (List APort)} {dst : KPeer} (hd : dst.ValidPorts)
    (hp : PortsValid ports) (pr : Proto) (x : Int) :
    (conns ports dst).den pr x ↔ inRange x ∧
      (match (generalizing := false) ports with
        | none => true
        | some ps => ps.any (Spec.aPortMatches · dst.toEnd' pr x)) = true := by
  rw [den_conns hd hp]
  cases ports with
  | none => simp
  | some ps => simp [List.any_eq_true]

end ARule

/-! ### policy connections: invariant and verdict -/

namespace PolicyConns
open ConnSet

/-- the three sets are well-formed -/
def WF (pc : PolicyConns) : Prop := pc.allowed.WF ∧ pc.pass.WF ∧ pc.denied.WF

/-- the three sets are well-formed and pairwise disjoint as sets of points -/
def Inv (pc : PolicyConns) : Prop :=
  pc.allowed.WF ∧ pc.pass.WF ∧ pc.denied.WF ∧
    (∀ pr x, ¬ (pc.allowed.den pr x ∧ pc.denied.den pr x)) ∧
    (∀ pr x, ¬ (pc.allowed.den pr x ∧ pc.pass.den pr x)) ∧
    (∀ pr x, ¬ (pc.denied.den pr x ∧ pc.pass.den pr x))

/-- the three sets are the level sets of the verdict function `f` -/
def Agrees (pc : PolicyConns) (f : Proto → Int → Option Action) : Prop :=
  ∀ pr x, (pc.allowed.den pr x ↔ f pr x = some .Allow) ∧
    (pc.denied.den pr x ↔ f pr x = some .Deny) ∧
    (pc.pass.den pr x ↔ f pr x = some .Pass)

/-- the verdict a `PolicyConns` gives to a point (computable: `den` is decidable) -/
def verdict (pc : PolicyConns) (pr : Proto) (x : Int) : Option Action :=
  if pc.allowed.den pr x then some .Allow
  else if pc.denied.den pr x then some .Deny
  else if pc.pass.den pr x then some .Pass
  else none

theorem Agrees.congr {pc : PolicyConns} {f g : Proto → Int → Option Action} (h : pc.Agrees f)
    (e : ∀ pr x, f pr x = g pr x) : pc.Agrees g := by
  intro pr x
  rw [← e pr x]
  exact h pr x

theorem Inv.wf {pc : PolicyConns} (h : pc.Inv) : pc.WF := ⟨h.1, h.2.1, h.2.2.1⟩

/-- agreement with any function implies pairwise disjointness -/
theorem Agrees.inv {pc : PolicyConns} {f : Proto → Int → Option Action} (hw : pc.WF)
    (h : pc.Agrees f) : pc.Inv := by
  refine ⟨hw.1, hw.2.1, hw.2.2, ?_, ?_, ?_⟩ <;>
  · intro pr x
    obtain ⟨h1, h2, h3⟩ := h pr x
    simp only [h1, h2, h3]
    rintro ⟨a, b⟩
    rw [a] at b
    cases b

theorem Agrees.verdict_eq {pc : PolicyConns} {f : Proto → Int → Option Action} (h : pc.Agrees f)
    (pr : Proto) (x : Int) : pc.verdict pr x = f pr x := by
  obtain ⟨h1, h2, h3⟩ := h pr x
  unfold verdict
  simp only [h1, h2, h3]
  cases hf : f pr x with
  | none => simp
  | some v => cases v <;> simp

/-- pairwise disjoint sets agree with their own verdict -/
theorem Inv.agrees_verdict {pc : PolicyConns} (h : pc.Inv) : pc.Agrees pc.verdict := by
  obtain ⟨_, _, _, d1, d2, d3⟩ := h
  intro pr x
  have e1 := d1 pr x
  have e2 := d2 pr x
  have e3 := d3 pr x
  unfold verdict
  by_cases a : pc.allowed.den pr x <;> by_cases b : pc.denied.den pr x <;>
    by_cases c : pc.pass.den pr x <;> simp_all

theorem wf_empty : empty.WF := ⟨wf_mk false, wf_mk false, wf_mk false⟩

theorem agrees_empty : empty.Agrees (fun _ _ => none) := by
  intro pr x
  simp [empty, den_mk_none]

/-! ### 2. `updateWithRule` -/

/-- adding a rule's connections: earlier decisions win, the rest of the rule's points get the
rule's action. `rc` only has to be weakly well-formed (what `ARule.conns` guarantees). For a BANP
(`banp = true`) the action must not be `Pass`, otherwise the model (and the Go code) errors. -/
theorem updateWithRule_agrees {pc : PolicyConns} {rc : ConnSet} {a : Action} {banp : Bool}
    {f : Proto → Int → Option Action} {m : Proto → Int → Bool}
    (hw : pc.WF) (hf : pc.Agrees f) (hrc : rc.WFw) (hm : ∀ pr x, rc.den pr x ↔ m pr x = true)
    (hb : banp = true → a ≠ .Pass) :
    ∃ pc', pc.updateWithRule rc a banp = .ok pc' ∧ pc'.WF ∧
      pc'.Agrees (fun pr x =>
        match f pr x with
        | some v => some v
        | none => if m pr x then some a else none) := by
  obtain ⟨hwa, hwp, hwd⟩ := hw
  cases a with
  | Allow =>
    have w1 := wfw_subtract (wfw_subtract hrc hwd) hwp
    refine ⟨_, rfl, ⟨wf_union_w hwa w1, hwp, hwd⟩, ?_⟩
    intro pr x
    obtain ⟨h1, h2, h3⟩ := hf pr x
    simp only [den_union_w hwa w1, den_subtract_w (wfw_subtract hrc hwd) hwp,
      den_subtract_w hrc hwd, h1, h2, h3, hm]
    cases hfx : f pr x with
    | none => cases m pr x <;> simp
    | some v => cases v <;> simp
  | Deny =>
    have w1 := wfw_subtract (wfw_subtract hrc hwa) hwp
    refine ⟨_, rfl, ⟨hwa, hwp, wf_union_w hwd w1⟩, ?_⟩
    intro pr x
    obtain ⟨h1, h2, h3⟩ := hf pr x
    simp only [den_union_w hwd w1, den_subtract_w (wfw_subtract hrc hwa) hwp,
      den_subtract_w hrc hwa, h1, h2, h3, hm]
    cases hfx : f pr x with
    | none => cases m pr x <;> simp
    | some v => cases v <;> simp
  | Pass =>
    have hbf : banp = false := by
      cases banp
      · rfl
      · exact absurd rfl (hb rfl)
    subst hbf
    have w1 := wfw_subtract (wfw_subtract hrc hwa) hwd
    refine ⟨_, rfl, ⟨hwa, wf_union_w hwp w1, hwd⟩, ?_⟩
    intro pr x
    obtain ⟨h1, h2, h3⟩ := hf pr x
    simp only [den_union_w hwp w1, den_subtract_w (wfw_subtract hrc hwa) hwd,
      den_subtract_w hrc hwa, h1, h2, h3, hm]
    cases hfx : f pr x with
    | none => cases m pr x <;> simp
    | some v => cases v <;> simp

/-- with a `Pass` rule a BANP evaluation fails -/
theorem updateWithRule_banp_pass (pc : PolicyConns) (rc : ConnSet) :
    pc.updateWithRule rc .Pass true = .error .badAction := rfl

end PolicyConns

/-! ### 3. `adminPolicyConns` -/

theorem Subject.selectsPeer_eq (s : Subject) (k : KPeer) :
    s.selectsPeer k = Spec.subjectMatches s k.toEnd' := by
  cases k with
  | ip r => rfl
  | pod p ns => cases ns <;> cases s <;> rfl

theorem ARule.selectsPeer_eq (r : ARule) (other : KPeer) :
    r.selectsPeer other = r.peers.any (Spec.subjectMatches · other.toEnd') := by
  unfold ARule.selectsPeer
  congr 1
  funext s
  exact Subject.selectsPeer_eq s other

/-- `Spec.aRuleMatches` on legal ports is "the rule selects the peer and the point is in the
rule's connection set" -/
theorem ARule.aRuleMatches_iff (r : ARule) (other dst : KPeer) (hd : dst.ValidPorts)
    (hp : ARule.PortsValid r.ports) (pr : Proto) (x : Int) :
    (inRange x ∧ Spec.aRuleMatches r other.toEnd' dst.toEnd' pr x = true) ↔
      (r.selectsPeer other = true ∧ (ARule.conns r.ports dst).den pr x) := by
  rw [ARule.den_conns_any hd hp, ARule.selectsPeer_eq]
  unfold Spec.aRuleMatches
  rw [Bool.and_eq_true]
  constructor
  · rintro ⟨h1, h2, h3⟩; exact ⟨h2, h1, h3⟩
  · rintro ⟨h1, h2, h3⟩; exact ⟨h2, h1, h3⟩

/-- the validity of a rule list: every rule has at least one peer clause (otherwise the model and
the Go code return an error) and legal ports -/
def ARule.ListValid (rules : List ARule) : Prop :=
  ∀ r ∈ rules, r.peers ≠ [] ∧ ARule.PortsValid r.ports

/-- one step of the fold of `adminPolicyConns` -/
def adminStep (other dst : KPeer) (banp : Bool) (pc : PolicyConns) (r : ARule) :
    Except Err PolicyConns :=
  if r.peers.isEmpty then .error .anpRulePeers
  else if !r.selectsPeer other then .ok pc
  else pc.updateWithRule (ARule.conns r.ports dst) r.action banp

theorem adminPolicyConns_eq (rules : List ARule) (other dst : KPeer) (banp : Bool) :
    adminPolicyConns rules other dst banp =
      rules.foldlM (adminStep other dst banp) PolicyConns.empty := rfl

theorem Spec.firstMatch_cons (r : ARule) (rest : List ARule) (other dst : Spec.End) (pr : Proto)
    (x : Int) :
    Spec.firstMatch (r :: rest) other dst pr x =
      if Spec.aRuleMatches r other dst pr x then some r.action
      else Spec.firstMatch rest other dst pr x := by
  unfold Spec.firstMatch
  rw [List.find?_cons]
  cases Spec.aRuleMatches r other dst pr x <;> simp

/-- the fold from an arbitrary accumulator: earlier decisions win, then the first matching rule -/
theorem adminPolicyConns_fold (rules : List ARule) (other dst : KPeer) (banp : Bool)
    (hd : dst.ValidPorts) (hr : ARule.ListValid rules)
    (hb : banp = true → ∀ r ∈ rules, r.action ≠ .Pass)
    (pc : PolicyConns) (f : Proto → Int → Option Action) (hw : pc.WF) (hf : pc.Agrees f) :
    ∃ pc', rules.foldlM (adminStep other dst banp) pc = .ok pc' ∧ pc'.WF ∧
      pc'.Agrees (fun pr x =>
        match f pr x with
        | some v => some v
        | none =>
          if inRange x then Spec.firstMatch rules other.toEnd' dst.toEnd' pr x else none) := by
  induction rules generalizing pc f with
  | nil =>
    refine ⟨pc, rfl, hw, hf.congr ?_⟩
    intro pr x
    cases f pr x <;> simp [Spec.firstMatch]
  | cons r rest ih =>
    have hr' : ARule.ListValid rest := fun q h => hr q (List.mem_cons_of_mem _ h)
    have hb' : banp = true → ∀ q ∈ rest, q.action ≠ .Pass :=
      fun h q hq => hb h q (List.mem_cons_of_mem _ hq)
    obtain ⟨hpe, hpv⟩ := hr r (List.mem_cons_self ..)
    have hpe' : r.peers.isEmpty = false := by
      cases h : r.peers with
      | nil => exact absurd h hpe
      | cons _ _ => rfl
    rw [List.foldlM_cons]
    cases hsel : r.selectsPeer other with
    | false =>
      have hstep : adminStep other dst banp pc r = .ok pc := by
        simp [adminStep, hpe', hsel]
      rw [hstep]
      obtain ⟨pc', e, w, a⟩ := ih hr' hb' pc f hw hf
      refine ⟨pc', e, w, a.congr ?_⟩
      intro pr x
      have hnm : Spec.aRuleMatches r other.toEnd' dst.toEnd' pr x = false := by
        unfold Spec.aRuleMatches
        rw [← ARule.selectsPeer_eq, hsel]
        rfl
      rw [Spec.firstMatch_cons, hnm]
      simp
    | true =>
      have hstep : adminStep other dst banp pc r =
          pc.updateWithRule (ARule.conns r.ports dst) r.action banp := by
        simp [adminStep, hpe', hsel]
      rw [hstep]
      obtain ⟨pc1, e1, w1, a1⟩ := PolicyConns.updateWithRule_agrees (a := r.action) (banp := banp)
        (m := fun pr x => decide (inRange x) && Spec.aRuleMatches r other.toEnd' dst.toEnd' pr x)
        hw hf (ARule.conns_wfw hd hpv)
        (by
          intro pr x
          have := ARule.aRuleMatches_iff r other dst hd hpv pr x
          rw [hsel] at this
          simp only [true_and] at this
          rw [← this, Bool.and_eq_true, decide_eq_true_eq])
        (fun h => hb h r (List.mem_cons_self ..))
      rw [e1]
      obtain ⟨pc', e, w, a⟩ := ih hr' hb' pc1 _ w1 a1
      refine ⟨pc', e, w, a.congr ?_⟩
      intro pr x
      rw [Spec.firstMatch_cons]
      cases f pr x with
      | some v => rfl
      | none =>
        by_cases hx : inRange x
        · cases hmm : Spec.aRuleMatches r other.toEnd' dst.toEnd' pr x <;> simp [hx]
        · simp [hx]

/-- `GetIngressPolicyConns` / `GetEgressPolicyConns` of an ANP agree with the first matching rule -/
theorem adminPolicyConns_spec (rules : List ARule) (other dst : KPeer)
    (hd : dst.ValidPorts) (hr : ARule.ListValid rules) :
    ∃ pc, adminPolicyConns rules other dst false = .ok pc ∧ pc.WF ∧
      pc.Agrees (fun pr x =>
        if inRange x then Spec.firstMatch rules other.toEnd' dst.toEnd' pr x else none) := by
  rw [adminPolicyConns_eq]
  obtain ⟨pc, e, w, a⟩ := adminPolicyConns_fold rules other dst false hd hr
    (fun h => by cases h) _ _ PolicyConns.wf_empty PolicyConns.agrees_empty
  exact ⟨pc, e, w, a.congr (fun _ _ => rfl)⟩

/-- the same for a BANP, whose rules must not use `Pass`; the verdict then is never `Pass` -/
theorem adminPolicyConns_banp (rules : List ARule) (other dst : KPeer)
    (hd : dst.ValidPorts) (hr : ARule.ListValid rules) (hnp : ∀ r ∈ rules, r.action ≠ .Pass) :
    ∃ pc, adminPolicyConns rules other dst true = .ok pc ∧ pc.WF ∧
      pc.Agrees (fun pr x =>
        if inRange x then Spec.firstMatch rules other.toEnd' dst.toEnd' pr x else none) := by
  rw [adminPolicyConns_eq]
  obtain ⟨pc, e, w, a⟩ := adminPolicyConns_fold rules other dst true hd hr
    (fun _ => hnp) _ _ PolicyConns.wf_empty PolicyConns.agrees_empty
  exact ⟨pc, e, w, a.congr (fun _ _ => rfl)⟩

theorem Spec.firstMatch_ne_pass (rules : List ARule) (hnp : ∀ r ∈ rules, r.action ≠ .Pass)
    (other dst : Spec.End) (pr : Proto) (x : Int) :
    Spec.firstMatch rules other dst pr x ≠ some .Pass := by
  unfold Spec.firstMatch
  cases h : rules.find? (Spec.aRuleMatches · other dst pr x) with
  | none => simp
  | some r =>
    have := hnp r (List.mem_of_find?_eq_some h)
    simpa using this

/-- a rule without peers makes the evaluation fail, whatever follows -/
theorem adminPolicyConns_no_peers (r : ARule) (rest : List ARule) (other dst : KPeer) (banp : Bool)
    (h : r.peers = []) :
    adminPolicyConns (r :: rest) other dst banp = .error .anpRulePeers := by
  rw [adminPolicyConns_eq, List.foldlM_cons]
  have : adminStep other dst banp PolicyConns.empty r = .error .anpRulePeers := by
    simp [adminStep, h]
  rw [this]
  rfl

/-! ### 4. `collectANP` -/

namespace PolicyConns
open ConnSet

/-- merging a lower-precedence policy: the earlier (higher-precedence) verdict wins -/
theorem collectANP_agrees {pc new : PolicyConns} {f g : Proto → Int → Option Action}
    (hw : pc.WF) (hf : pc.Agrees f) (hw' : new.WF) (hg : new.Agrees g) :
    (pc.collectANP new).WF ∧
      (pc.collectANP new).Agrees (fun pr x => (f pr x).orElse (fun _ => g pr x)) := by
  obtain ⟨hwa, hwp, hwd⟩ := hw
  obtain ⟨hna, hnp, hnd⟩ := hw'
  have wd := wf_subtract (wf_subtract hnd hwa) hwp
  have wa := wf_subtract (wf_subtract hna hwd) hwp
  have wp := wf_subtract (wf_subtract hnp hwd) hwa
  refine ⟨⟨wf_union hwa wa, wf_union hwp wp, wf_union hwd wd⟩, ?_⟩
  intro pr x
  obtain ⟨h1, h2, h3⟩ := hf pr x
  obtain ⟨g1, g2, g3⟩ := hg pr x
  simp only [collectANP, den_union hwa wa, den_union hwp wp, den_union hwd wd,
    den_subtract (wf_subtract hnd hwa) hwp, den_subtract hnd hwa,
    den_subtract (wf_subtract hna hwd) hwp, den_subtract hna hwd,
    den_subtract (wf_subtract hnp hwd) hwa, den_subtract hnp hwd,
    h1, h2, h3, g1, g2, g3]
  cases hfx : f pr x with
  | none => simp
  | some v => cases v <;> simp

/-! ### 5. consequences used by the engine -/

/-- `CollectAllowedConnsFromNetpols`: what the NetworkPolicies allow is added unless an ANP denied
it; the other two sets are unchanged -/
theorem collectNetpols_spec {pc : PolicyConns} {np : ConnSet} {f : Proto → Int → Option Action}
    (hw : pc.WF) (hf : pc.Agrees f) (hnp : np.WF) :
    (pc.collectNetpols np).WF ∧ (pc.collectNetpols np).denied = pc.denied ∧
      (pc.collectNetpols np).pass = pc.pass ∧
      ∀ pr x, ((pc.collectNetpols np).allowed.den pr x ↔
        f pr x = some .Allow ∨ (np.den pr x ∧ f pr x ≠ some .Deny)) := by
  obtain ⟨hwa, hwp, hwd⟩ := hw
  have w := wf_subtract hnp hwd
  refine ⟨⟨wf_union hwa w, hwp, hwd⟩, rfl, rfl, ?_⟩
  intro pr x
  obtain ⟨h1, h2, _⟩ := hf pr x
  simp only [collectNetpols, den_union hwa w, den_subtract hnp hwd, h1, h2, ne_eq]

/-- `CollectConnsFromBANP`: everything in the port range is allowed except what an ANP denied and
what the BANP denies without an ANP having allowed it -/
theorem collectBANP_spec {pc banp : PolicyConns} {f g : Proto → Int → Option Action}
    (hw : pc.WF) (hf : pc.Agrees f) (hw' : banp.WF) (hg : banp.Agrees g) :
    (pc.collectBANP banp).WF ∧ (pc.collectBANP banp).pass = pc.pass ∧
      (∀ pr x, ((pc.collectBANP banp).allowed.den pr x ↔
        inRange x ∧ f pr x ≠ some .Deny ∧ ¬ (g pr x = some .Deny ∧ f pr x ≠ some .Allow))) ∧
      (∀ pr x, ((pc.collectBANP banp).denied.den pr x ↔
        f pr x = some .Deny ∨ (g pr x = some .Deny ∧ f pr x ≠ some .Allow))) := by
  obtain ⟨hwa, hwp, hwd⟩ := hw
  obtain ⟨_, _, hbd⟩ := hw'
  have w1 := wf_subtract hbd hwa
  have w2 := wf_union hwd w1
  refine ⟨⟨wf_subtract (wf_mk true) w2, hwp, w2⟩, rfl, ?_, ?_⟩
  · intro pr x
    obtain ⟨h1, h2, _⟩ := hf pr x
    obtain ⟨_, g2, _⟩ := hg pr x
    simp only [collectBANP, den_subtract (wf_mk true) w2, den_mk_all, den_union hwd w1,
      den_subtract hbd hwa, h1, h2, g2, ne_eq, not_or]
  · intro pr x
    obtain ⟨h1, h2, _⟩ := hf pr x
    obtain ⟨_, g2, _⟩ := hg pr x
    simp only [collectBANP, den_union hwd w1, den_subtract hbd hwa, h1, h2, g2, ne_eq]

/-- after `collectBANP` every point of the port range is allowed or denied -/
theorem collectBANP_total {pc banp : PolicyConns} {f g : Proto → Int → Option Action}
    (hw : pc.WF) (hf : pc.Agrees f) (hw' : banp.WF) (hg : banp.Agrees g) (pr : Proto) {x : Int}
    (hx : inRange x) :
    (pc.collectBANP banp).allowed.den pr x ↔ ¬ (pc.collectBANP banp).denied.den pr x := by
  obtain ⟨_, _, ha, hd⟩ := collectBANP_spec hw hf hw' hg
  rw [ha, hd]
  simp [hx, not_or]

/-- `DeterminesAllConns`: when it answers true every point of the port range is decided (allowed or
denied) by the admin policies, so the lower layers cannot change the outcome -/
theorem determinesAll_spec {pc : PolicyConns} {f : Proto → Int → Option Action}
    (hw : pc.WF) (hf : pc.Agrees f) (h : pc.determinesAll = true) :
    ∀ pr x, inRange x → (f pr x = some .Allow ∨ f pr x = some .Deny) := by
  intro pr x hx
  obtain ⟨h1, h2, _⟩ := hf pr x
  have hd : (pc.allowed.copy.union pc.denied).den pr x := den_of_allowAll_flag h pr hx
  rw [den_union (wf_copy hw.1) hw.2.2, den_copy, h1, h2] at hd
  exact hd

end PolicyConns

/-! ### gluing policies: `collectANP` against the concatenated rule list -/

theorem Spec.firstMatch_append (l₁ l₂ : List ARule) (other dst : Spec.End) (pr : Proto) (x : Int) :
    Spec.firstMatch (l₁ ++ l₂) other dst pr x =
      (Spec.firstMatch l₁ other dst pr x).orElse (fun _ => Spec.firstMatch l₂ other dst pr x) := by
  induction l₁ with
  | nil => simp [Spec.firstMatch]
  | cons r rest ih =>
    rw [List.cons_append, Spec.firstMatch_cons, Spec.firstMatch_cons, ih]
    cases Spec.aRuleMatches r other dst pr x <;> simp

/-- if `pc` agrees with the first match of `rules₁` and `new` with that of `rules₂`, then
`pc.collectANP new` agrees with the first match of `rules₁ ++ rules₂` (the rule list
`Spec.anpVerdict` builds with `flatMap` over the policies in priority order) -/
theorem PolicyConns.collectANP_firstMatch {pc new : PolicyConns} {rules₁ rules₂ : List ARule}
    {other dst : Spec.End} (hw : pc.WF)
    (hf : pc.Agrees (fun pr x => if inRange x then Spec.firstMatch rules₁ other dst pr x else none))
    (hw' : new.WF)
    (hg : new.Agrees (fun pr x => if inRange x then Spec.firstMatch rules₂ other dst pr x else none)) :
    (pc.collectANP new).WF ∧ (pc.collectANP new).Agrees
      (fun pr x => if inRange x then Spec.firstMatch (rules₁ ++ rules₂) other dst pr x else none) := by
  obtain ⟨w, a⟩ := PolicyConns.collectANP_agrees hw hf hw' hg
  refine ⟨w, a.congr ?_⟩
  intro pr x
  rw [Spec.firstMatch_append]
  by_cases hx : inRange x <;> simp [hx]

/-! ### 6. non-vacuity -/

namespace ANPLayerExamples

def selAll : Selector := ⟨[], []⟩

def podA : Pod := { ns := "a", name := "pa", labels := [], ports := [] }
def podB : Pod := { ns := "b", name := "pb", labels := [], ports := [⟨"web", .TCP, 8080⟩] }

def peerA : KPeer := .pod podA (some ⟨"a", []⟩)
def peerB : KPeer := .pod podB (some ⟨"b", []⟩)

/-- deny TCP 80; then allow TCP 1-100 and the named port `web`; then pass UDP 53 -/
def rules : List ARule :=
  [ ⟨"r1", .Deny, [.nss selAll], some [.num none 80]⟩,
    ⟨"r2", .Allow, [.pods selAll selAll], some [.range (some .TCP) 1 100, .named "web"]⟩,
    ⟨"r3", .Pass, [.nss selAll], some [.num (some .UDP) 53, .num none 90]⟩ ]

example : ARule.ListValid rules := by
  intro r hr
  simp only [rules, List.mem_cons, List.not_mem_nil, or_false] at hr
  rcases hr with rfl | rfl | rfl <;>
  · refine ⟨by simp, ?_⟩
    intro ps h
    cases h
    decide

example : peerB.ValidPorts := by decide

/-- the model's answer on the example, computed -/
example : ∃ pc, adminPolicyConns rules peerA peerB false = .ok pc ∧
    pc.denied.den .TCP 80 ∧ ¬ pc.allowed.den .TCP 80 ∧ pc.allowed.den .TCP 79 ∧
    pc.allowed.den .TCP 8080 ∧ ¬ pc.allowed.den .TCP 101 ∧ pc.pass.den .UDP 53 ∧
    ¬ pc.pass.den .TCP 90 ∧ pc.allowed.den .TCP 90 ∧ pc.verdict .SCTP 5 = none := by
  refine ⟨_, rfl, ?_⟩
  decide

/-- the specification's answer on the same points -/
example : Spec.firstMatch rules peerA.toEnd' peerB.toEnd' .TCP 80 = some .Deny ∧
    Spec.firstMatch rules peerA.toEnd' peerB.toEnd' .TCP 79 = some .Allow ∧
    Spec.firstMatch rules peerA.toEnd' peerB.toEnd' .TCP 8080 = some .Allow ∧
    Spec.firstMatch rules peerA.toEnd' peerB.toEnd' .TCP 101 = none ∧
    Spec.firstMatch rules peerA.toEnd' peerB.toEnd' .UDP 53 = some .Pass ∧
    Spec.firstMatch rules peerA.toEnd' peerB.toEnd' .TCP 90 = some .Allow := by
  decide

/-- a BANP with a `Pass` rule that selects the peer is an error -/
example : adminPolicyConns rules peerA peerB true = .error .badAction := rfl

/-- the case behind `WFw`: three full ranges and one more port. Before the repair of
`AddConnection` the result was `⟨true, some TCP 80, none, none⟩`, outside `WF`; now the last port
is added to All Connections as a no-op. -/
def fullThenMore : Option (List APort) :=
  some [.range (some .TCP) 1 65535, .range (some .UDP) 1 65535, .range (some .SCTP) 1 65535,
    .num none 80]

theorem conns_fullThenMore_example :
    ARule.PortsValid fullThenMore ∧ (ARule.conns fullThenMore peerB).WF ∧
      ARule.conns fullThenMore peerB = ConnSet.mk' true := by
  refine ⟨?_, by decide, by decide⟩
  intro ps h
  cases h
  decide

/-- `collectANP`: a second policy only fills what the first left undecided -/
def rules2 : List ARule := [ ⟨"s1", .Allow, [.nss selAll], none⟩ ]

example : ∃ pc pc2, adminPolicyConns rules peerA peerB false = .ok pc ∧
    adminPolicyConns rules2 peerA peerB false = .ok pc2 ∧
    (pc.collectANP pc2).denied.den .TCP 80 ∧ ¬ (pc.collectANP pc2).allowed.den .TCP 80 ∧
    (pc.collectANP pc2).allowed.den .SCTP 5 ∧ (pc.collectANP pc2).pass.den .UDP 53 ∧
    (pc.collectANP pc2).determinesAll = false ∧
    ((pc.collectANP pc2).collectBANP PolicyConns.empty).allowed.den .UDP 53 ∧
    ¬ ((pc.collectANP pc2).collectBANP PolicyConns.empty).allowed.den .TCP 80 := by
  refine ⟨_, _, rfl, rfl, ?_⟩
  decide

/-- `determinesAll` answers true on "deny TCP 80, allow everything" -/
example : ∃ pc, adminPolicyConns
      [⟨"d", .Deny, [.nss selAll], some [.num none 80]⟩, ⟨"a", .Allow, [.nss selAll], none⟩]
      peerA peerB false = .ok pc ∧ pc.determinesAll = true := ⟨_, rfl, by decide⟩

end ANPLayerExamples

end Netpol
