import Netpol.Model.NP
import Netpol.Spec.K8s
import Netpol.Properties.C11

/-! The NetworkPolicy layer (`Netpol.Model.NP`, model of `netpol.go`) refines the pointwise
specification `Netpol.Spec` (`npPeerMatches`, `npPortMatches`, `npRuleAllows`, `npSelects`).
Core Lean only. -/
namespace Netpol
open CSet

/-! ### vocabulary -/

/-- the specification-level end of a model peer, for a chosen address of an IP peer -/
def KPeer.toEnd (k : KPeer) (a : Int) : Spec.End :=
  match k with
  | .pod p (some ns) => .pod p ns.labels
  | .pod p none => .pod p []
  | .ip _ => .ip a

/-- a rule port as the API server accepts it: a number in 1..65535, an end port ≤ 65535 -/
def NPPort.Valid (q : NPPort) : Prop :=
  match q.kind with
  | .all => True
  | .name _ => True
  | .num a e => 1 ≤ a ∧ a ≤ 65535 ∧ ∀ e', e = some e' → e' ≤ 65535

instance NPPort.decValid (q : NPPort) : Decidable q.Valid := by
  unfold NPPort.Valid
  split
  · infer_instance
  · infer_instance
  · rename_i a e _
    cases e with
    | none => exact decidable_of_iff (1 ≤ a ∧ a ≤ 65535) (by simp)
    | some e' => exact decidable_of_iff (1 ≤ a ∧ a ≤ 65535 ∧ e' ≤ 65535) (by simp)

/-- container ports are legal port numbers -/
def Pod.ValidPorts (p : Pod) : Prop := ∀ c ∈ p.ports, 1 ≤ c.port ∧ c.port ≤ 65535

instance Pod.decValidPorts (p : Pod) : Decidable p.ValidPorts := by unfold Pod.ValidPorts; infer_instance

/-- a port clause is a named port -/
def NPPort.isNamed (q : NPPort) : Prop := ∃ n, q.kind = .name n

/-- every entry of the set is a well-formed, non-empty port set (`ConnSet.WF` without the clause
"the AllowAll form has no entries") -/
def ConnSet.WFE (c : ConnSet) : Prop :=
  ∀ pr ps, c.get pr = some ps → ps.WF ∧ ps.isEmpty = false

theorem ConnSet.WF.wfe {c : ConnSet} (h : c.WF) : c.WFE := h.2

theorem ConnSet.wfe_iff_match (c : ConnSet) : c.WFE ↔ ∀ pr ∈ Proto.all, ConnSet.wfOpt (c.get pr) := by
  unfold ConnSet.WFE
  constructor
  · intro h pr _
    cases hg : c.get pr with
    | none => trivial
    | some ps => exact h pr ps hg
  · intro h pr ps hg
    have := h pr (by cases pr <;> simp [Proto.all])
    rw [hg] at this
    exact this

instance ConnSet.decWFE (c : ConnSet) : Decidable c.WFE := decidable_of_iff _ (ConnSet.wfe_iff_match c).symm

/-- the per-port step of `ruleConnections`: the port set a port clause contributes -/
def NetPol.portSetOf (port : NPPort) (dst : Option KPeer) : Except Err PortSet :=
  match port.kind with
  | .all => pure (PortSet.mk' true)
  | _ => do
    let (s, e, name) ← NetPol.portsRange port dst
    let ps0 := PortSet.mk' false
    let unresolvedOk := match dst with
      | none => true
      | some d => d.isRepresentative
    let ps1 := if unresolvedOk && NetPol.isEmptyPortRange s e && name != "" then ps0.addPort (.name name) else ps0
    pure (if !NetPol.isEmptyPortRange s e then ps1.addPortRange s e else ps1)

/-- the fold step of `ruleConnections` -/
def NetPol.rcStep (dst : Option KPeer) (res : ConnSet) (port : NPPort) : Except Err ConnSet := do
  let ps ← NetPol.portSetOf port dst
  pure (res.addConnection (port.proto.getD .TCP) ps)

theorem NetPol.ruleConnections_eq (ports : List NPPort) (dst : Option KPeer) :
    NetPol.ruleConnections ports dst =
      if ports.isEmpty then .ok (ConnSet.mk' true)
      else ports.foldlM (NetPol.rcStep dst) (ConnSet.mk' false) := by
  unfold NetPol.ruleConnections NetPol.rcStep NetPol.portSetOf
  split
  · rfl
  · congr 1
    funext res port
    cases port.kind with
    | all => rfl
    | num a e => simp only []; cases NetPol.portsRange port dst <;> rfl
    | name n => simp only []; cases NetPol.portsRange port dst <;> rfl

/-! ### the port set of one port clause -/

theorem NetPol.isEmptyPortRange_of_pos {s : Int} (e : Int) (h : 1 ≤ s) :
    NetPol.isEmptyPortRange s e = false := by
  have : s ≠ -1 := by omega
  simp [NetPol.isEmptyPortRange, noPort, this]

theorem NetPol.isEmptyPortRange_noPort : NetPol.isEmptyPortRange noPort noPort = true := by
  decide

theorem mem_empty_addPortRange (lo hi x : Int) :
    memL ((PortSet.mk' false).addPortRange lo hi).ports x ↔ lo ≤ x ∧ x ≤ hi := by
  rw [PortSet.mem_addPortRange]
  simp [PortSet.mk'_false, memL_nil]

/-- the numeric range of a `.num` clause under validity is inside the port range -/
theorem NPPort.num_range {q : NPPort} {a : Int} {e : Option Int} (hk : q.kind = .num a e)
    (hv : q.Valid) : 1 ≤ a ∧ e.getD a ≤ 65535 := by
  unfold NPPort.Valid at hv
  rw [hk] at hv
  refine ⟨hv.1, ?_⟩
  cases e with
  | none => exact hv.2.1
  | some e' => exact hv.2.2 e' rfl

theorem NetPol.portSetOf_all {q : NPPort} (dst : Option KPeer) (hk : q.kind = .all) :
    NetPol.portSetOf q dst = .ok (PortSet.mk' true) := by
  simp only [NetPol.portSetOf, hk]; rfl

theorem NetPol.portSetOf_num {q : NPPort} {a : Int} {e : Option Int} (dst : Option KPeer)
    (hk : q.kind = .num a e) (h1 : 1 ≤ a) :
    NetPol.portSetOf q dst = .ok ((PortSet.mk' false).addPortRange a (e.getD a)) := by
  simp only [NetPol.portSetOf, hk, NetPol.portsRange, bind, Except.bind, pure, Except.pure,
    NetPol.isEmptyPortRange_of_pos _ h1]
  simp

theorem NetPol.portSetOf_name_pod {q : NPPort} {n : String} (p : Pod) (ns : Option NsObj)
    (hk : q.kind = .name n) (hrep : p.isRepresentative = false) (hp : p.ValidPorts) :
    NetPol.portSetOf q (some (.pod p ns)) = .ok
      (match p.ports.find? (fun c => c.name == n) with
        | some c =>
          if c.proto = q.proto.getD .TCP then (PortSet.mk' false).addPortRange c.port c.port
          else PortSet.mk' false
        | none => PortSet.mk' false) := by
  simp only [NetPol.portSetOf, hk, NetPol.portsRange, Pod.convertNamedPort, KPeer.isRepresentative,
    hrep]
  cases hf : p.ports.find? (fun c => c.name == n) with
  | none =>
    simp [bind, Except.bind, pure, Except.pure, NetPol.isEmptyPortRange_noPort]
  | some c =>
    have hc := hp c (List.mem_of_find?_eq_some hf)
    by_cases hpr : c.proto = q.proto.getD .TCP
    · simp [bind, Except.bind, pure, Except.pure, hpr, NetPol.isEmptyPortRange_of_pos _ hc.1]
    · simp [bind, Except.bind, pure, Except.pure, hpr, NetPol.isEmptyPortRange_noPort]

/-- a port clause towards a real pod: the port set is well-formed and holds exactly the in-range
ports the specification matches -/
theorem NetPol.portSetOf_pod (q : NPPort) (p : Pod) (ns : Option NsObj) (l : Labels)
    (hrep : p.isRepresentative = false) (hv : q.Valid) (hp : p.ValidPorts) :
    ∃ ps, NetPol.portSetOf q (some (.pod p ns)) = .ok ps ∧ ps.WF ∧
      ∀ pr x, (pr = q.proto.getD .TCP ∧ memL ps.ports x) ↔
        (inRange x ∧ Spec.npPortMatches q (.pod p l) pr x = true) := by
  cases hk : q.kind with
  | all =>
    refine ⟨_, NetPol.portSetOf_all _ hk, PortSet.wf_mk' true, ?_⟩
    intro pr x
    simp only [PortSet.mk'_true, memL_full, Spec.npPortMatches, hk, Bool.and_true, beq_iff_eq]
    constructor
    · rintro ⟨h1, h2⟩; exact ⟨h2, h1.symm⟩
    · rintro ⟨h1, h2⟩; exact ⟨h2.symm, h1⟩
  | num a e =>
    have hr := NPPort.num_range hk hv
    refine ⟨_, NetPol.portSetOf_num _ hk hr.1,
      PortSet.wf_addPortRange (PortSet.wf_mk' false) hr.1 hr.2, ?_⟩
    intro pr x
    simp only [mem_empty_addPortRange, Spec.npPortMatches, hk, Bool.and_eq_true, beq_iff_eq,
      decide_eq_true_eq, inRange]
    constructor
    · rintro ⟨h1, h2, h3⟩; exact ⟨⟨by omega, by omega⟩, h1.symm, h2, h3⟩
    · rintro ⟨_, h1, h2, h3⟩; exact ⟨h1.symm, h2, h3⟩
  | name n =>
    refine ⟨_, NetPol.portSetOf_name_pod p ns hk hrep hp, ?_, ?_⟩
    · cases hf : p.ports.find? (fun c => c.name == n) with
      | none => exact PortSet.wf_mk' false
      | some c =>
        have hc := hp c (List.mem_of_find?_eq_some hf)
        simp only []
        split
        · exact PortSet.wf_addPortRange (PortSet.wf_mk' false) hc.1 hc.2
        · exact PortSet.wf_mk' false
    · intro pr x
      simp only [Spec.npPortMatches, hk]
      cases hf : p.ports.find? (fun c => c.name == n) with
      | none => simp [PortSet.mk'_false, memL_nil]
      | some c =>
        have hc := hp c (List.mem_of_find?_eq_some hf)
        simp only []
        split
        · rename_i hpr
          simp only [mem_empty_addPortRange, Bool.and_eq_true, beq_iff_eq, inRange]
          constructor
          · rintro ⟨h1, h2, h3⟩
            have : c.port = x := by omega
            subst this
            exact ⟨hc, h1.symm, by rw [hpr, h1], rfl⟩
          · rintro ⟨_, h1, _, h3⟩
            exact ⟨h1.symm, by omega, by omega⟩
        · rename_i hpr
          simp only [PortSet.mk'_false, memL_nil, and_false, Bool.and_eq_true, beq_iff_eq,
            false_iff, not_and]
          intro _ h1 h2
          exact absurd (h2.trans h1.symm) hpr

/-! ### connection sets whose AllowAll form may carry entries

Before its repair `AddConnection` on the AllowAll form stored the entry next to the flag, so the
fold of `ruleConnections` could leave `ConnSet.WF`; what it kept is `ConnSet.WFE`, the invariant
the theorems below are stated with. `Union` tests the flags first, so a `WFE` argument is as good
as a `WF` one. Since the repair (`AddConnection` is a no-op on the AllowAll form, see
`ConnSet.wf_addConnection`) the fold stays inside `WF`; `WFE` is kept as the weaker, sufficient
invariant. -/

namespace ConnSet

theorem wfe_mk (b : Bool) : (mk' b).WFE := (wf_mk b).wfe

theorem wf_of_wfe {c : ConnSet} (h : c.WFE) (ha : c.allowAll = false) : c.WF := wf_of_entries ha h

theorem WFE.den_inRange {c : ConnSet} (h : c.WFE) {pr : Proto} {p : Int} (hd : c.den pr p) :
    inRange p := by
  rcases hd with hd | ⟨ps, hg, hm⟩
  · exact hd.2
  · exact (h pr ps hg).1.range hm

theorem den_of_allowAll_wfe {c : ConnSet} (hw : c.WFE) (h : c.allowAll = true) (pr : Proto)
    (p : Int) : c.den pr p ↔ inRange p :=
  ⟨hw.den_inRange, fun hp => Or.inl ⟨h, hp⟩⟩

theorem wfe_addConnectionRaw {c : ConnSet} {ps : PortSet} (pr : Proto) (hc : c.WFE) (hp : ps.WF) :
    (c.addConnectionRaw pr ps).WFE := by
  unfold addConnectionRaw
  split
  · exact hc
  · rename_i hne
    have hne' : ps.isEmpty = false := by simpa using hne
    split
    · rename_i cur hcur
      intro pr' ps' hg
      rw [get_set] at hg
      split at hg
      · cases hg
        exact ⟨PortSet.wf_union (hc _ _ hcur).1 hp, PortSet.union_isEmpty_right _ hp hne'⟩
      · exact hc pr' ps' hg
    · intro pr' ps' hg
      rw [get_set] at hg
      split at hg
      · cases hg
        exact ⟨hp, hne'⟩
      · exact hc pr' ps' hg

theorem wfe_checkIfAll {c : ConnSet} (h : c.WFE) : c.checkIfAll.WFE := by
  unfold checkIfAll
  split
  · exact wfe_mk true
  · exact h

theorem wfe_addConnection {c : ConnSet} {ps : PortSet} (pr : Proto) (hc : c.WFE) (hp : ps.WF) :
    (c.addConnection pr ps).WFE := by
  cases h : c.allowAll
  · rw [addConnection_of_not_allowAll h]
    exact wfe_checkIfAll (wfe_addConnectionRaw pr hc hp)
  · rw [addConnection_of_allowAll h]
    exact hc

theorem isAllWithoutAllowAll_checkIfAll (c : ConnSet) :
    c.checkIfAll.isAllWithoutAllowAll = false := by
  unfold checkIfAll
  split
  · rfl
  · rename_i h; simpa using h

theorem isAllWithoutAllowAll_addConnection (c : ConnSet) (pr : Proto) (ps : PortSet) :
    (c.addConnection pr ps).isAllWithoutAllowAll = false := by
  cases h : c.allowAll
  · rw [addConnection_of_not_allowAll h]
    exact isAllWithoutAllowAll_checkIfAll _
  · rw [addConnection_of_allowAll h]
    simp [isAllWithoutAllowAll, h]

/-- `Union` with a `WFE` argument stays well-formed -/
theorem wf_union_wfe {c o : ConnSet} (hc : c.WF) (ho : o.WFE) : (c.union o).WF := by
  cases hb : o.allowAll
  · exact wf_union hc (wf_of_wfe ho hb)
  · unfold union
    split
    · exact hc
    · exact wf_mk true

theorem den_union_wfe {c o : ConnSet} (hc : c.WF) (ho : o.WFE) (pr : Proto) (p : Int) :
    (c.union o).den pr p ↔ c.den pr p ∨ o.den pr p := by
  cases hb : o.allowAll
  · exact den_union hc (wf_of_wfe ho hb) pr p
  · have he : o.isEmpty = false := by simp [isEmpty, hb]
    unfold union
    cases ha : c.allowAll
    · simp only [he, hb, Bool.or_false, Bool.false_eq_true, if_false, if_true]
      rw [den_mk_all, den_of_allowAll_wfe ho hb]
      exact ⟨Or.inr, fun h => h.elim hc.den_inRange id⟩
    · simp only [Bool.true_or, if_true]
      rw [den_of_allowAll hc ha, den_of_allowAll_wfe ho hb]
      exact ⟨Or.inl, fun h => h.elim id id⟩

end ConnSet

/-! ### `ruleConnections` -/

/-- the fold of `ruleConnections` when every port clause yields a well-formed port set -/
theorem NetPol.rc_fold (dst : Option KPeer) (P : NPPort → Proto → Int → Prop) (ports : List NPPort)
    (h : ∀ q ∈ ports, ∃ ps, NetPol.portSetOf q dst = .ok ps ∧ ps.WF ∧
      ∀ pr x, (pr = q.proto.getD .TCP ∧ memL ps.ports x) ↔ P q pr x)
    (c0 : ConnSet) (h0 : c0.WFE) (h0' : c0.isAllWithoutAllowAll = false) :
    ∃ c, ports.foldlM (NetPol.rcStep dst) c0 = .ok c ∧ c.WFE ∧ c.isAllWithoutAllowAll = false ∧
      ∀ pr x, c.den pr x ↔ c0.den pr x ∨ ∃ q ∈ ports, P q pr x := by
  induction ports generalizing c0 with
  | nil =>
    refine ⟨c0, rfl, h0, h0', ?_⟩
    intro pr x
    simp
  | cons q rest ih =>
    obtain ⟨ps, hps, hwf, hmem⟩ := h q (List.mem_cons_self ..)
    have hstep : NetPol.rcStep dst c0 q = .ok (c0.addConnection (q.proto.getD .TCP) ps) := by
      simp only [NetPol.rcStep, hps]; rfl
    obtain ⟨c, hc, hw, hi, hden⟩ := ih (fun q' hq' => h q' (List.mem_cons_of_mem _ hq'))
      (c0.addConnection (q.proto.getD .TCP) ps) (ConnSet.wfe_addConnection _ h0 hwf)
      (ConnSet.isAllWithoutAllowAll_addConnection _ _ _)
    refine ⟨c, ?_, hw, hi, ?_⟩
    · rw [List.foldlM_cons, hstep]; exact hc
    · intro pr x
      rw [hden, ConnSet.den_addConnection _ _ hwf, hmem]
      simp only [List.mem_cons, exists_eq_or_imp, or_assoc]

theorem NetPol.ruleConnections_of_steps (dst : Option KPeer) (P : NPPort → Proto → Int → Prop)
    (ports : List NPPort)
    (h : ∀ q ∈ ports, ∃ ps, NetPol.portSetOf q dst = .ok ps ∧ ps.WF ∧
      ∀ pr x, (pr = q.proto.getD .TCP ∧ memL ps.ports x) ↔ P q pr x) :
    ∃ c, NetPol.ruleConnections ports dst = .ok c ∧ c.WFE ∧ (c.allowAll = false → c.Canonical) ∧
      ∀ pr x, c.den pr x ↔ (ports.isEmpty = true ∧ inRange x) ∨ ∃ q ∈ ports, P q pr x := by
  rw [NetPol.ruleConnections_eq]
  cases he : ports.isEmpty
  · obtain ⟨c, hc, hw, hi, hden⟩ := NetPol.rc_fold dst P ports h (ConnSet.mk' false)
      (ConnSet.wfe_mk false) rfl
    refine ⟨c, by simpa using hc, hw, fun ha => ⟨ConnSet.wf_of_wfe hw ha, hi⟩, ?_⟩
    intro pr x
    rw [hden]
    simp [ConnSet.den_mk_none]
  · refine ⟨ConnSet.mk' true, rfl, ConnSet.wfe_mk true, fun ha => absurd ha (by decide), ?_⟩
    intro pr x
    have : ports = [] := by simpa using he
    subst this
    simp [ConnSet.den_mk_all]

/-- Theorem 1. `ruleConnections` towards a real pod never fails and denotes exactly the in-range
ports the specification's port clauses match. The result is `WFE`, and `WF` (indeed `Canonical`)
unless it is an AllowAll form reached before the last port clause (see the example below). -/
theorem NetPol.ruleConnections_pod (ports : List NPPort) (p : Pod) (ns : Option NsObj)
    (hrep : p.isRepresentative = false) (hv : ∀ q ∈ ports, q.Valid) (hp : p.ValidPorts) :
    ∃ c, NetPol.ruleConnections ports (some (.pod p ns)) = .ok c ∧ c.WFE ∧
      (c.allowAll = false → c.Canonical) ∧
      ∀ pr x, c.den pr x ↔ (inRange x ∧ (ports.isEmpty = true ∨
        ∃ q ∈ ports, Spec.npPortMatches q ((KPeer.pod p ns).toEnd 0) pr x = true)) := by
  have hend : ∃ l, (KPeer.pod p ns).toEnd 0 = .pod p l := by
    cases ns with
    | none => exact ⟨_, rfl⟩
    | some n => exact ⟨_, rfl⟩
  obtain ⟨l, hl⟩ := hend
  rw [hl]
  obtain ⟨c, hc, hw, hcan, hden⟩ := NetPol.ruleConnections_of_steps (some (.pod p ns))
    (fun q pr x => inRange x ∧ Spec.npPortMatches q (.pod p l) pr x = true) ports
    (fun q hq => NetPol.portSetOf_pod q p ns l hrep (hv q hq) hp)
  refine ⟨c, hc, hw, hcan, ?_⟩
  intro pr x
  rw [hden]
  constructor
  · rintro (⟨h1, h2⟩ | ⟨q, hq, h1, h2⟩)
    · exact ⟨h2, Or.inl h1⟩
    · exact ⟨h1, Or.inr ⟨q, hq, h2⟩⟩
  · rintro ⟨h1, h2 | ⟨q, hq, h2⟩⟩
    · exact Or.inl ⟨h2, h1⟩
    · exact Or.inr ⟨q, hq, h1, h2⟩

/-! IP destination -/

theorem NetPol.portSetOf_name_ip {q : NPPort} {n : String} (r : CSet) (hk : q.kind = .name n) :
    NetPol.portSetOf q (some (.ip r)) = .error .namedPortOnIP := by
  simp only [NetPol.portSetOf, hk, NetPol.portsRange]; rfl

theorem NetPol.portSetOf_ip_of_not_named (q : NPPort) (r : CSet) (hn : ¬ q.isNamed) :
    ∃ ps, NetPol.portSetOf q (some (.ip r)) = .ok ps := by
  cases hk : q.kind with
  | all => exact ⟨_, NetPol.portSetOf_all _ hk⟩
  | num a e =>
    simp only [NetPol.portSetOf, hk, NetPol.portsRange, bind, Except.bind, pure, Except.pure]
    exact ⟨_, rfl⟩
  | name n => exact absurd ⟨n, hk⟩ hn

/-- a port clause (not a named port) towards an IP block -/
theorem NetPol.portSetOf_ip (q : NPPort) (r : CSet) (a : Int) (hn : ¬ q.isNamed) (hv : q.Valid) :
    ∃ ps, NetPol.portSetOf q (some (.ip r)) = .ok ps ∧ ps.WF ∧
      ∀ pr x, (pr = q.proto.getD .TCP ∧ memL ps.ports x) ↔
        (inRange x ∧ Spec.npPortMatches q (.ip a) pr x = true) := by
  cases hk : q.kind with
  | all =>
    refine ⟨_, NetPol.portSetOf_all _ hk, PortSet.wf_mk' true, ?_⟩
    intro pr x
    simp only [PortSet.mk'_true, memL_full, Spec.npPortMatches, hk, Bool.and_true, beq_iff_eq]
    constructor
    · rintro ⟨h1, h2⟩; exact ⟨h2, h1.symm⟩
    · rintro ⟨h1, h2⟩; exact ⟨h2.symm, h1⟩
  | num a e =>
    have hr := NPPort.num_range hk hv
    refine ⟨_, NetPol.portSetOf_num _ hk hr.1,
      PortSet.wf_addPortRange (PortSet.wf_mk' false) hr.1 hr.2, ?_⟩
    intro pr x
    simp only [mem_empty_addPortRange, Spec.npPortMatches, hk, Bool.and_eq_true, beq_iff_eq,
      decide_eq_true_eq, inRange]
    constructor
    · rintro ⟨h1, h2, h3⟩; exact ⟨⟨by omega, by omega⟩, h1.symm, h2, h3⟩
    · rintro ⟨_, h1, h2, h3⟩; exact ⟨h1.symm, h2, h3⟩
  | name n => exact absurd ⟨n, hk⟩ hn

/-- a named port contributes nothing towards an IP in the specification -/
theorem Spec.npPortMatches_named_ip {q : NPPort} (hn : q.isNamed) (a : Int) (pr : Proto) (x : Int) :
    Spec.npPortMatches q (.ip a) pr x = false := by
  obtain ⟨n, hk⟩ := hn
  simp [Spec.npPortMatches, hk]

theorem NetPol.rc_fold_ip_named (r : CSet) (ports : List NPPort) (h : ∃ q ∈ ports, q.isNamed)
    (c0 : ConnSet) :
    ports.foldlM (NetPol.rcStep (some (.ip r))) c0 = .error .namedPortOnIP := by
  induction ports generalizing c0 with
  | nil => obtain ⟨q, hq, _⟩ := h; exact absurd hq (List.not_mem_nil)
  | cons q rest ih =>
    rw [List.foldlM_cons]
    by_cases hq : q.isNamed
    · obtain ⟨n, hk⟩ := hq
      simp only [NetPol.rcStep, NetPol.portSetOf_name_ip r hk]; rfl
    · obtain ⟨ps, hps⟩ := NetPol.portSetOf_ip_of_not_named q r hq
      have : ∃ q ∈ rest, q.isNamed := by
        obtain ⟨q', hq', hn⟩ := h
        rcases List.mem_cons.mp hq' with rfl | hq'
        · exact absurd hn hq
        · exact ⟨q', hq', hn⟩
      simp only [NetPol.rcStep, hps]
      exact ih this _

/-- Theorem 2 (failure, ⇐): a named port towards an IP block makes `ruleConnections` fail -/
theorem NetPol.ruleConnections_ip_named (ports : List NPPort) (r : CSet)
    (h : ∃ q ∈ ports, q.isNamed) :
    NetPol.ruleConnections ports (some (.ip r)) = .error .namedPortOnIP := by
  rw [NetPol.ruleConnections_eq]
  have : ports.isEmpty = false := by
    obtain ⟨q, hq, _⟩ := h
    cases ports with
    | nil => exact absurd hq (List.not_mem_nil)
    | cons _ _ => rfl
  simp only [this, Bool.false_eq_true, if_false]
  exact NetPol.rc_fold_ip_named r ports h _

/-- Theorem 2 (success): without named ports `ruleConnections` towards an IP block succeeds, with
the same characterisation as towards a pod, for any address `a` chosen in the block -/
theorem NetPol.ruleConnections_ip_ok (ports : List NPPort) (r : CSet) (a : Int)
    (hn : ∀ q ∈ ports, ¬ q.isNamed) (hv : ∀ q ∈ ports, q.Valid) :
    ∃ c, NetPol.ruleConnections ports (some (.ip r)) = .ok c ∧ c.WFE ∧
      (c.allowAll = false → c.Canonical) ∧
      ∀ pr x, c.den pr x ↔ (inRange x ∧ (ports.isEmpty = true ∨
        ∃ q ∈ ports, Spec.npPortMatches q ((KPeer.ip r).toEnd a) pr x = true)) := by
  obtain ⟨c, hc, hw, hcan, hden⟩ := NetPol.ruleConnections_of_steps (some (.ip r))
    (fun q pr x => inRange x ∧ Spec.npPortMatches q (.ip a) pr x = true) ports
    (fun q hq => NetPol.portSetOf_ip q r a (hn q hq) (hv q hq))
  refine ⟨c, hc, hw, hcan, ?_⟩
  intro pr x
  rw [hden]
  show _ ↔ (inRange x ∧ (ports.isEmpty = true ∨
    ∃ q ∈ ports, Spec.npPortMatches q (.ip a) pr x = true))
  constructor
  · rintro (⟨h1, h2⟩ | ⟨q, hq, h1, h2⟩)
    · exact ⟨h2, Or.inl h1⟩
    · exact ⟨h1, Or.inr ⟨q, hq, h2⟩⟩
  · rintro ⟨h1, h2 | ⟨q, hq, h2⟩⟩
    · exact Or.inl ⟨h2, h1⟩
    · exact Or.inr ⟨q, hq, h1, h2⟩

/-- without named ports the fold succeeds (no validity needed) -/
theorem NetPol.rc_fold_ip_ok (r : CSet) (ports : List NPPort) (hn : ∀ q ∈ ports, ¬ q.isNamed)
    (c0 : ConnSet) : ∃ c, ports.foldlM (NetPol.rcStep (some (.ip r))) c0 = .ok c := by
  induction ports generalizing c0 with
  | nil => exact ⟨c0, rfl⟩
  | cons q rest ih =>
    obtain ⟨ps, hps⟩ := NetPol.portSetOf_ip_of_not_named q r (hn q (List.mem_cons_self ..))
    rw [List.foldlM_cons]
    simp only [NetPol.rcStep, hps]
    exact ih (fun q' hq' => hn q' (List.mem_cons_of_mem _ hq')) _

/-- Theorem 2 (failure, ⇒): the only failure of `ruleConnections` towards an IP block is
`namedPortOnIP`, and it needs a named port -/
theorem NetPol.ruleConnections_ip_err (ports : List NPPort) (r : CSet) (e : Err)
    (h : NetPol.ruleConnections ports (some (.ip r)) = .error e) :
    e = .namedPortOnIP ∧ ∃ q ∈ ports, q.isNamed := by
  by_cases hn : ∃ q ∈ ports, q.isNamed
  · rw [NetPol.ruleConnections_ip_named ports r hn] at h
    exact ⟨(Except.error.inj h).symm, hn⟩
  · exfalso
    have hn' : ∀ q ∈ ports, ¬ q.isNamed := fun q hq hqn => hn ⟨q, hq, hqn⟩
    rw [NetPol.ruleConnections_eq] at h
    split at h
    · cases h
    · obtain ⟨c, hc⟩ := NetPol.rc_fold_ip_ok r ports hn' (ConnSet.mk' false)
      rw [hc] at h
      cases h

/-- the failure of `ruleConnections` towards an IP block, as an equivalence -/
theorem NetPol.ruleConnections_ip_err_iff (ports : List NPPort) (r : CSet) :
    (∃ e, NetPol.ruleConnections ports (some (.ip r)) = .error e) ↔ ∃ q ∈ ports, q.isNamed :=
  ⟨fun ⟨e, h⟩ => (NetPol.ruleConnections_ip_err ports r e h).2,
   fun h => ⟨_, NetPol.ruleConnections_ip_named ports r h⟩⟩

/-! ### `ruleSelectsPeer` -/

theorem NetPol.selectorsMatch_real (s : Selector) (o : Option Selector) (l : Labels) :
    NetPol.selectorsMatch s o l false = s.matches l := by
  simp [NetPol.selectorsMatch]

/-! the equations of `ruleSelectsPeer.go` (the equation compiler fails to generate them) -/
namespace NetPol.ruleSelectsPeer
variable (np : NetPol) (rest : List NPPeer)

theorem go_nil (k : KPeer) : go np k [] = .ok false := rfl
theorem go_sel_nn (k : KPeer) : go np k (.sel none none :: rest) = .error .emptyRulePeer := rfl
theorem go_ip_pod (p : Pod) (nso : Option NsObj) (c : Cidr) (ex : List Cidr) :
    go np (.pod p nso) (.ip c ex :: rest) = go np (.pod p nso) rest := rfl
theorem go_ip_ip (r : CSet) (c : Cidr) (ex : List Cidr) :
    go np (.ip r) (.ip c ex :: rest) =
      if CSet.isSubset r (ipBlockSet c ex) then .ok true else go np (.ip r) rest := rfl
theorem go_sel_ip (r : CSet) (podSel nsSel : Option Selector) (h : NPPeer.sel podSel nsSel ≠ .sel none none) :
    go np (.ip r) (.sel podSel nsSel :: rest) = go np (.ip r) rest := by
  cases podSel <;> cases nsSel <;> first | rfl | exact absurd rfl h
theorem go_sel_pod (p : Pod) (nso : Option NsObj) (podSel nsSel : Option Selector)
    (h : NPPeer.sel podSel nsSel ≠ .sel none none) :
    go np (.pod p nso) (.sel podSel nsSel :: rest) =
      if !(match nsSel with
          | none => nsMatchNil np p
          | some s => selectorsMatch s p.reprNsSel ((nso.map (·.labels)).getD []) p.isRepresentative)
      then go np (.pod p nso) rest
      else if (match podSel with
          | none => true
          | some s => selectorsMatch s p.reprPodSel p.labels p.isRepresentative)
        then .ok true else go np (.pod p nso) rest := by
  cases podSel <;> cases nsSel <;> first | rfl | exact absurd rfl h
end NetPol.ruleSelectsPeer

open NetPol.ruleSelectsPeer

theorem Spec.npPeerMatches_sel_pod (np : NetPol) (podSel nsSel : Option Selector) (p : Pod)
    (l : Labels) :
    Spec.npPeerMatches np (.sel podSel nsSel) (.pod p l) =
      ((match nsSel with
        | none => np.ns == p.ns
        | some s => s.matches l) &&
       (match podSel with
        | none => true
        | some s => s.matches p.labels)) := rfl

theorem Spec.npPeerMatches_ip_pod (np : NetPol) (c : Cidr) (ex : List Cidr) (p : Pod) (l : Labels) :
    Spec.npPeerMatches np (.ip c ex) (.pod p l) = false := rfl

theorem Spec.npPeerMatches_sel_ip (np : NetPol) (podSel nsSel : Option Selector) (a : Int) :
    Spec.npPeerMatches np (.sel podSel nsSel) (.ip a) = false := rfl

theorem Spec.npPeerMatches_ip_ip (np : NetPol) (c : Cidr) (ex : List Cidr) (a : Int) :
    Spec.npPeerMatches np (.ip c ex) (.ip a) =
      (Spec.cidrMem c a && ex.all (fun e => !Spec.cidrMem e a)) := rfl

theorem NetPol.ruleSelectsPeer_go_pod (np : NetPol) (peers : List NPPeer) (p : Pod) (ns : NsObj)
    (hrep : p.isRepresentative = false) (hne : ∀ rp ∈ peers, rp ≠ .sel none none) :
    NetPol.ruleSelectsPeer.go np (.pod p (some ns)) peers =
      .ok (peers.any (fun rp => Spec.npPeerMatches np rp (.pod p ns.labels))) := by
  induction peers with
  | nil => rfl
  | cons rp rest ih =>
    have ih' := ih (fun rp' h => hne rp' (List.mem_cons_of_mem _ h))
    have hrp := hne rp (List.mem_cons_self ..)
    rw [List.any_cons]
    cases rp with
    | ip c ex =>
      rw [go_ip_pod, ih', Spec.npPeerMatches_ip_pod, Bool.false_or]
    | sel podSel nsSel =>
      rw [go_sel_pod np rest p (some ns) podSel nsSel hrp, ih', hrep, Spec.npPeerMatches_sel_pod]
      generalize (rest.any fun rp => Spec.npPeerMatches np rp (.pod p ns.labels)) = B
      cases podSel <;> cases nsSel <;>
        simp only [NetPol.selectorsMatch_real, NetPol.nsMatchNil_real np p hrep, Option.map_some, Option.getD_some]
      · cases (np.ns == p.ns) <;> simp
      · rename_i s; cases s.matches ns.labels <;> simp
      · rename_i ps; cases (np.ns == p.ns) <;> cases ps.matches p.labels <;> simp
      · rename_i ps s; cases s.matches ns.labels <;> cases ps.matches p.labels <;> simp

/-- Theorem 3 -/
theorem NetPol.ruleSelectsPeer_pod (np : NetPol) (peers : List NPPeer) (p : Pod) (ns : NsObj)
    (hrep : p.isRepresentative = false) (hne : ∀ rp ∈ peers, rp ≠ .sel none none) :
    np.ruleSelectsPeer peers (.pod p (some ns)) =
      .ok (peers.isEmpty || peers.any (fun rp => Spec.npPeerMatches np rp (.pod p ns.labels))) := by
  unfold NetPol.ruleSelectsPeer
  cases he : peers.isEmpty
  · simp only [Bool.false_eq_true, if_false, Bool.false_or]
    exact NetPol.ruleSelectsPeer_go_pod np peers p ns hrep hne
  · rfl

theorem Cidr.toIv_lo_le_hi (c : Cidr) : c.toIv.lo ≤ c.toIv.hi := by
  have := Nat.two_pow_pos (32 - c.pfx)
  simp only [Cidr.toIv]
  omega

theorem Spec.cidrMem_iff (c : Cidr) (a : Int) : Spec.cidrMem c a = true ↔ c.toIv.mem a := by
  simp [Spec.cidrMem, Iv.mem]

theorem NetPol.memL_holes (ex : List Cidr) (acc : CSet) (x : Int) :
    memL (ex.foldl (fun acc e => CSet.addIv e.toIv acc) acc) x ↔
      memL acc x ∨ ∃ e ∈ ex, e.toIv.mem x := by
  induction ex generalizing acc with
  | nil => simp
  | cons e rest ih =>
    rw [List.foldl_cons, ih, mem_addIv]
    simp only [List.mem_cons, exists_eq_or_imp]
    constructor
    · rintro ((h | h) | h)
      · exact Or.inr (Or.inl h)
      · exact Or.inl h
      · exact Or.inr (Or.inr h)
    · rintro (h | h | h)
      · exact Or.inl (Or.inr h)
      · exact Or.inl (Or.inl h)
      · exact Or.inr h

theorem NetPol.canon_ipBlockSet (c : Cidr) (ex : List Cidr) : Canon (NetPol.ipBlockSet c ex) :=
  canon_subtract _ _ (canon_singleton _ (Cidr.toIv_lo_le_hi c))

theorem NetPol.memL_ipBlockSet (c : Cidr) (ex : List Cidr) (a : Int) :
    memL (NetPol.ipBlockSet c ex) a ↔ c.toIv.mem a ∧ ∀ e ∈ ex, ¬ e.toIv.mem a := by
  unfold NetPol.ipBlockSet
  rw [mem_subtract, NetPol.memL_holes]
  simp only [memL_cons, memL_nil, or_false, false_or, not_exists, not_and]

/-- the IP set of an `ipBlock` peer is the specification's "in the CIDR, in no except" -/
theorem NetPol.memL_ipBlockSet_iff_spec (np : NetPol) (c : Cidr) (ex : List Cidr) (a : Int) :
    memL (NetPol.ipBlockSet c ex) a ↔ Spec.npPeerMatches np (.ip c ex) (.ip a) = true := by
  rw [NetPol.memL_ipBlockSet, Spec.npPeerMatches_ip_ip, Bool.and_eq_true, List.all_eq_true,
    Spec.cidrMem_iff]
  simp only [Bool.not_eq_true', ← Bool.not_eq_true, Spec.cidrMem_iff]

theorem NetPol.isSubset_single_ipBlockSet (c : Cidr) (ex : List Cidr) (a : Int) :
    CSet.isSubset [⟨a, a⟩] (NetPol.ipBlockSet c ex) = true ↔
      Spec.cidrMem c a = true ∧ ∀ e ∈ ex, ¬ Spec.cidrMem e a = true := by
  have := CSet.contains_iff (NetPol.ipBlockSet c ex) a (NetPol.canon_ipBlockSet c ex)
  unfold CSet.contains at this
  rw [this, NetPol.memL_ipBlockSet]
  simp only [Spec.cidrMem_iff]

theorem NetPol.ruleSelectsPeer_go_ip1 (np : NetPol) (peers : List NPPeer) (a : Int)
    (hne : ∀ rp ∈ peers, rp ≠ .sel none none) :
    NetPol.ruleSelectsPeer.go np (.ip [⟨a, a⟩]) peers =
      .ok (peers.any (fun rp => Spec.npPeerMatches np rp (.ip a))) := by
  induction peers with
  | nil => rfl
  | cons rp rest ih =>
    have ih' := ih (fun rp' h => hne rp' (List.mem_cons_of_mem _ h))
    have hrp := hne rp (List.mem_cons_self ..)
    rw [List.any_cons]
    cases rp with
    | sel podSel nsSel =>
      rw [go_sel_ip np rest _ podSel nsSel hrp, ih', Spec.npPeerMatches_sel_ip, Bool.false_or]
    | ip c ex =>
      rw [go_ip_ip, ih']
      have h1 := CSet.contains_iff (NetPol.ipBlockSet c ex) a (NetPol.canon_ipBlockSet c ex)
      unfold CSet.contains at h1
      have h2 := NetPol.memL_ipBlockSet_iff_spec np c ex a
      have : CSet.isSubset [⟨a, a⟩] (NetPol.ipBlockSet c ex) =
          Spec.npPeerMatches np (.ip c ex) (.ip a) := by
        rw [Bool.eq_iff_iff, h1, h2]
      rw [this]
      cases Spec.npPeerMatches np (.ip c ex) (.ip a) <;> simp

/-- Theorem 4 -/
theorem NetPol.ruleSelectsPeer_ip1 (np : NetPol) (peers : List NPPeer) (a : Int)
    (hne : ∀ rp ∈ peers, rp ≠ .sel none none) :
    np.ruleSelectsPeer peers (.ip [⟨a, a⟩]) =
      .ok (peers.isEmpty || peers.any (fun rp => Spec.npPeerMatches np rp (.ip a))) := by
  unfold NetPol.ruleSelectsPeer
  cases he : peers.isEmpty
  · simp only [Bool.false_eq_true, if_false, Bool.false_or]
    exact NetPol.ruleSelectsPeer_go_ip1 np peers a hne
  · rfl

theorem NetPol.isSubset_range_eq (R : Iv) (hR : R.lo ≤ R.hi) (S : CSet) (hS : Canon S)
    (huni : ∀ a b, R.mem a → R.mem b → (memL S a ↔ memL S b)) (a : Int) (ha : R.mem a) :
    CSet.isSubset [R] S = CSet.isSubset [⟨a, a⟩] S := by
  have h1 := CSet.contains_iff S a hS
  unfold CSet.contains at h1
  rw [Bool.eq_iff_iff, h1, isSubset_iff _ _ (canon_singleton R hR) hS]
  simp only [memL_cons, memL_nil, or_false]
  exact ⟨fun h => h a ha, fun h x hx => (huni a x ha hx).mp h⟩

theorem NetPol.ruleSelectsPeer_go_ip_range (np : NetPol) (peers : List NPPeer) (R : Iv)
    (hR : R.lo ≤ R.hi)
    (huni : ∀ rp ∈ peers, ∀ c ex, rp = .ip c ex → (∀ a b, R.mem a → R.mem b →
      (CSet.memL (NetPol.ipBlockSet c ex) a ↔ CSet.memL (NetPol.ipBlockSet c ex) b)))
    (a : Int) (ha : R.mem a) :
    NetPol.ruleSelectsPeer.go np (.ip [R]) peers =
      NetPol.ruleSelectsPeer.go np (.ip [⟨a, a⟩]) peers := by
  induction peers with
  | nil => rfl
  | cons rp rest ih =>
    have ih' := ih (fun rp' h => huni rp' (List.mem_cons_of_mem _ h))
    cases rp with
    | sel podSel nsSel =>
      cases podSel <;> cases nsSel <;> first | rfl | exact ih'
    | ip c ex =>
      rw [go_ip_ip, go_ip_ip, ih', NetPol.isSubset_range_eq R hR _ (NetPol.canon_ipBlockSet c ex)
        (huni _ (List.mem_cons_self ..) c ex rfl) a ha]

/-- Theorem 4 (ranges): a range on which every `ipBlock` peer of the rule is uniform behaves as any
one of its addresses -/
theorem NetPol.ruleSelectsPeer_ip_range (np : NetPol) (peers : List NPPeer) (R : Iv)
    (hR : R.lo ≤ R.hi)
    (huni : ∀ rp ∈ peers, ∀ c ex, rp = .ip c ex → (∀ a b, R.mem a → R.mem b →
      (CSet.memL (NetPol.ipBlockSet c ex) a ↔ CSet.memL (NetPol.ipBlockSet c ex) b)))
    (a : Int) (ha : R.mem a) :
    np.ruleSelectsPeer peers (.ip [R]) = np.ruleSelectsPeer peers (.ip [⟨a, a⟩]) := by
  unfold NetPol.ruleSelectsPeer
  split
  · rfl
  · exact NetPol.ruleSelectsPeer_go_ip_range np peers R hR huni a ha

/-! ### `allowedConns` -/

/-- a peer the specification can speak about: a real pod together with its namespace object, or
the single address `a` -/
def KPeer.Concrete (k : KPeer) (a : Int) : Prop :=
  match k with
  | .pod p (some _) => p.isRepresentative = false
  | .pod _ none => False
  | .ip r => r = [⟨a, a⟩]

/-- a destination `ruleConnections` is characterised for: a real pod with legal container ports,
or any IP block -/
def KPeer.DstOK (k : KPeer) : Prop :=
  match k with
  | .pod p _ => p.isRepresentative = false ∧ p.ValidPorts
  | .ip _ => True

/-- a rule as the API server accepts it: valid ports, no peer with neither selector nor ipBlock -/
def NPRule.Valid (r : NPRule) : Prop :=
  (∀ q ∈ r.ports, q.Valid) ∧ ∀ rp ∈ r.peers, rp ≠ .sel none none

/-- the peer part of `Spec.npRuleAllows` -/
def Spec.npRuleSelects (np : NetPol) (r : NPRule) (other : Spec.End) : Bool :=
  r.peers.isEmpty || r.peers.any (Spec.npPeerMatches np · other)

theorem KPeer.toEnd_pod (p : Pod) (ns : Option NsObj) (a b : Int) :
    (KPeer.pod p ns).toEnd a = (KPeer.pod p ns).toEnd b := by
  cases ns <;> rfl

theorem NetPol.ruleSelectsPeer_concrete (np : NetPol) (peers : List NPPeer) (other : KPeer)
    (a : Int) (h : other.Concrete a) (hne : ∀ rp ∈ peers, rp ≠ .sel none none) :
    np.ruleSelectsPeer peers other =
      .ok (peers.isEmpty || peers.any (fun rp => Spec.npPeerMatches np rp (other.toEnd a))) := by
  cases other with
  | pod p nso =>
    cases nso with
    | none => exact absurd h id
    | some ns => exact NetPol.ruleSelectsPeer_pod np peers p ns h hne
  | ip r =>
    have : r = [⟨a, a⟩] := h
    subst this
    exact NetPol.ruleSelectsPeer_ip1 np peers a hne

theorem List.isEmpty_or_any_iff {α : Type} (l : List α) (f : α → Bool) :
    (l.isEmpty || l.any f) = true ↔ (l.isEmpty = true ∨ ∃ q ∈ l, f q = true) := by
  rw [Bool.or_eq_true, List.any_eq_true]

/-- `ruleConnections` towards an admissible destination: the success case -/
theorem NetPol.ruleConnections_dst_ok (ports : List NPPort) (dst : KPeer) (b : Int)
    (hd : dst.DstOK) (hv : ∀ q ∈ ports, q.Valid) (c : ConnSet)
    (h : NetPol.ruleConnections ports (some dst) = .ok c) :
    c.WFE ∧ (c.allowAll = false → c.Canonical) ∧ ∀ pr x, c.den pr x ↔
      (inRange x ∧ (ports.isEmpty || ports.any (Spec.npPortMatches · (dst.toEnd b) pr x)) = true) := by
  cases dst with
  | pod p ns =>
    obtain ⟨c', hc', hw, hcan, hden⟩ := NetPol.ruleConnections_pod ports p ns hd.1 hv hd.2
    rw [hc'] at h
    cases h
    refine ⟨hw, hcan, ?_⟩
    intro pr x
    rw [hden, List.isEmpty_or_any_iff, KPeer.toEnd_pod p ns 0 b]
  | ip r =>
    have hn : ∀ q ∈ ports, ¬ q.isNamed := by
      intro q hq hqn
      rw [NetPol.ruleConnections_ip_named ports r ⟨q, hq, hqn⟩] at h
      cases h
    obtain ⟨c', hc', hw, hcan, hden⟩ := NetPol.ruleConnections_ip_ok ports r b hn hv
    rw [hc'] at h
    cases h
    refine ⟨hw, hcan, ?_⟩
    intro pr x
    rw [hden, List.isEmpty_or_any_iff]

/-- `ruleConnections` towards an admissible destination: the failure case -/
theorem NetPol.ruleConnections_dst_err (ports : List NPPort) (dst : KPeer)
    (hd : dst.DstOK) (hv : ∀ q ∈ ports, q.Valid) (e : Err)
    (h : NetPol.ruleConnections ports (some dst) = .error e) :
    e = .namedPortOnIP ∧ dst.isPod = false ∧ ∃ q ∈ ports, q.isNamed := by
  cases dst with
  | pod p ns =>
    obtain ⟨c', hc', _⟩ := NetPol.ruleConnections_pod ports p ns hd.1 hv hd.2
    rw [hc'] at h
    cases h
  | ip r =>
    obtain ⟨h1, h2⟩ := NetPol.ruleConnections_ip_err ports r e h
    exact ⟨h1, rfl, h2⟩

namespace NetPol.allowedConns
theorem go_nil (np : NetPol) (other dst : KPeer) (res : ConnSet) :
    go np other dst res [] = .ok res := rfl
theorem go_cons (np : NetPol) (other dst : KPeer) (res : ConnSet) (r : NPRule) (rest : List NPRule) :
    go np other dst res (r :: rest) =
      (np.ruleSelectsPeer r.peers other >>= fun sel =>
        if !sel then go np other dst res rest
        else ruleConnections r.ports (some dst) >>= fun rc =>
          go np other dst (res.union rc) rest) := rfl
end NetPol.allowedConns


open NetPol.allowedConns

theorem Spec.npRuleAllows_eq (np : NetPol) (r : NPRule) (other dst : Spec.End) (pr : Proto) (x : Int) :
    Spec.npRuleAllows np r other dst pr x =
      (Spec.npRuleSelects np r other &&
        (r.ports.isEmpty || r.ports.any (Spec.npPortMatches · dst pr x))) := rfl

theorem ConnSet.canonical_union_wfe {c o : ConnSet} (hc : c.Canonical) (ho : o.WFE) :
    (c.union o).Canonical := by
  cases hb : o.allowAll
  · exact ConnSet.canonical_union hc.1 (ConnSet.wf_of_wfe ho hb) (fun _ => hc.2)
  · unfold ConnSet.union
    split
    · exact hc
    · exact ConnSet.canonical_mk true

/-- the loop of `allowedConns` from an accumulated canonical `res` -/
theorem NetPol.allowedConns_go_spec (np : NetPol) (other dst : KPeer) (a b : Int)
    (ho : other.Concrete a) (hd : dst.DstOK) (rules : List NPRule) (hv : ∀ r ∈ rules, r.Valid)
    (res : ConnSet) (hcan : res.Canonical) :
    (∀ c, NetPol.allowedConns.go np other dst res rules = .ok c →
      c.Canonical ∧ ∀ pr x, c.den pr x ↔ res.den pr x ∨ (inRange x ∧
        ∃ r ∈ rules, Spec.npRuleAllows np r (other.toEnd a) (dst.toEnd b) pr x = true)) ∧
    (∀ e, NetPol.allowedConns.go np other dst res rules = .error e →
      e = .namedPortOnIP ∧ dst.isPod = false ∧
        ∃ r ∈ rules, Spec.npRuleSelects np r (other.toEnd a) = true ∧ ∃ q ∈ r.ports, q.isNamed) := by
  induction rules generalizing res with
  | nil =>
    rw [NetPol.allowedConns.go_nil]
    constructor
    · intro c h
      cases h
      refine ⟨hcan, fun pr x => ?_⟩
      simp
    · intro e h; cases h
  | cons r rest ih =>
    have hres : res.WF := hcan.1
    have hr := hv r (List.mem_cons_self ..)
    have hv' : ∀ r' ∈ rest, r'.Valid := fun r' h => hv r' (List.mem_cons_of_mem _ h)
    rw [NetPol.allowedConns.go_cons, NetPol.ruleSelectsPeer_concrete np r.peers other a ho hr.2]
    show (∀ c, (if (!Spec.npRuleSelects np r (other.toEnd a)) = true then _ else _) = _ → _) ∧
      (∀ e, (if (!Spec.npRuleSelects np r (other.toEnd a)) = true then _ else _) = _ → _)
    cases hS : Spec.npRuleSelects np r (other.toEnd a)
    · -- the rule does not select the other end
      simp only [Bool.not_false, if_true]
      obtain ⟨ih1, ih2⟩ := ih hv' res hcan
      constructor
      · intro c h
        obtain ⟨hw, hden⟩ := ih1 c h
        refine ⟨hw, fun pr x => ?_⟩
        rw [hden]
        simp only [List.mem_cons, exists_eq_or_imp, Spec.npRuleAllows_eq np r, hS, Bool.false_and,
          Bool.false_eq_true, false_or]
      · intro e h
        obtain ⟨h1, h2, r', hr', h3⟩ := ih2 e h
        exact ⟨h1, h2, r', List.mem_cons_of_mem _ hr', h3⟩
    · simp only [Bool.not_true, Bool.false_eq_true, if_false]
      cases hrc : NetPol.ruleConnections r.ports (some dst) with
      | error e' =>
        obtain ⟨h1, h2, h3⟩ := NetPol.ruleConnections_dst_err r.ports dst hd hr.1 e' hrc
        constructor
        · intro c h; cases h
        · intro e h
          cases h
          exact ⟨h1, h2, r, List.mem_cons_self .., hS, h3⟩
      | ok rc =>
        obtain ⟨hw, _, hden⟩ := NetPol.ruleConnections_dst_ok r.ports dst b hd hr.1 rc hrc
        have hcan' : (res.union rc).Canonical := ConnSet.canonical_union_wfe hcan hw
        have hw' : (res.union rc).WF := hcan'.1
        have hden' := fun pr x => ConnSet.den_union_wfe hres hw pr x
        have hrule : ∀ pr x, rc.den pr x ↔
            (inRange x ∧ Spec.npRuleAllows np r (other.toEnd a) (dst.toEnd b) pr x = true) := by
          intro pr x
          rw [hden, Spec.npRuleAllows_eq, hS, Bool.true_and]
        -- carry on with the union (every rule is examined)
        show (∀ c, NetPol.allowedConns.go np other dst (res.union rc) rest = _ → _) ∧
          (∀ e, NetPol.allowedConns.go np other dst (res.union rc) rest = _ → _)
        obtain ⟨ih1, ih2⟩ := ih hv' (res.union rc) hcan'
        constructor
        · intro c h
          obtain ⟨hcw, hcden⟩ := ih1 c h
          refine ⟨hcw, fun pr x => ?_⟩
          rw [hcden, hden', hrule]
          simp only [List.mem_cons, exists_eq_or_imp]
          constructor
          · rintro ((h | ⟨h1, h2⟩) | ⟨h1, h2⟩)
            · exact Or.inl h
            · exact Or.inr ⟨h1, Or.inl h2⟩
            · exact Or.inr ⟨h1, Or.inr h2⟩
          · rintro (h | ⟨h1, h2 | h2⟩)
            · exact Or.inl (Or.inl h)
            · exact Or.inl (Or.inr ⟨h1, h2⟩)
            · exact Or.inr ⟨h1, h2⟩
        · intro e h
          obtain ⟨h1, h2, r', hr', h3⟩ := ih2 e h
          exact ⟨h1, h2, r', List.mem_cons_of_mem _ hr', h3⟩


/-- Theorem 5, success: whenever `allowedConns` returns a set, it is canonical (hence `WF`) and
denotes exactly the in-range (protocol, port) pairs some rule allows in the specification.
`other` is the peer the rule peers are matched against, `dst` the peer the ports belong to. -/
theorem NetPol.allowedConns_ok (np : NetPol) (rules : List NPRule) (other dst : KPeer) (a b : Int)
    (ho : other.Concrete a) (hd : dst.DstOK) (hv : ∀ r ∈ rules, r.Valid) (c : ConnSet)
    (h : np.allowedConns rules other dst = .ok c) :
    c.Canonical ∧ ∀ pr x, c.den pr x ↔ (inRange x ∧
      ∃ r ∈ rules, Spec.npRuleAllows np r (other.toEnd a) (dst.toEnd b) pr x = true) := by
  obtain ⟨hc, hden⟩ := (NetPol.allowedConns_go_spec np other dst a b ho hd rules hv
    (ConnSet.mk' false) (ConnSet.canonical_mk false)).1 c h
  refine ⟨hc, fun pr x => ?_⟩
  rw [hden]
  simp [ConnSet.den_mk_none]

/-- Theorem 5, failure: the only failure is a named port towards an IP block, in a rule that
selects the other end -/
theorem NetPol.allowedConns_err (np : NetPol) (rules : List NPRule) (other dst : KPeer) (a : Int)
    (ho : other.Concrete a) (hd : dst.DstOK) (hv : ∀ r ∈ rules, r.Valid) (e : Err)
    (h : np.allowedConns rules other dst = .error e) :
    e = .namedPortOnIP ∧ dst.isPod = false ∧
      ∃ r ∈ rules, Spec.npRuleSelects np r (other.toEnd a) = true ∧ ∃ q ∈ r.ports, q.isNamed :=
  (NetPol.allowedConns_go_spec np other dst a 0 ho hd rules hv
    (ConnSet.mk' false) (ConnSet.canonical_mk false)).2 e h

/-- Theorem 5 (ingress form): towards a real pod `allowedConns` never fails -/
theorem NetPol.allowedConns_spec (np : NetPol) (rules : List NPRule) (other : KPeer) (p : Pod)
    (ns : Option NsObj) (a : Int) (ho : other.Concrete a) (hrep : p.isRepresentative = false)
    (hp : p.ValidPorts) (hv : ∀ r ∈ rules, r.Valid) :
    ∃ c, np.allowedConns rules other (.pod p ns) = .ok c ∧ c.WF ∧ c.Canonical ∧
      ∀ pr x, c.den pr x ↔ (inRange x ∧ ∃ r ∈ rules,
        Spec.npRuleAllows np r (other.toEnd a) ((KPeer.pod p ns).toEnd 0) pr x = true) := by
  have hd : (KPeer.pod p ns).DstOK := ⟨hrep, hp⟩
  cases h : np.allowedConns rules other (.pod p ns) with
  | error e =>
    have := (NetPol.allowedConns_err np rules other _ a ho hd hv e h).2.1
    cases this
  | ok c =>
    obtain ⟨hc, hden⟩ := NetPol.allowedConns_ok np rules other _ a 0 ho hd hv c h
    exact ⟨c, rfl, hc.1, hc, hden⟩

/-- Theorem 5 (egress form, success): `dst` is both the matched peer and the owner of the ports -/
theorem NetPol.egressAllowedConns_ok (np : NetPol) (d : KPeer) (a : Int)
    (ho : d.Concrete a) (hd : d.DstOK) (hv : ∀ r ∈ np.egress, r.Valid) (c : ConnSet)
    (h : np.egressAllowedConns d = .ok c) :
    c.WF ∧ c.Canonical ∧ ∀ pr x, c.den pr x ↔ (inRange x ∧
      ∃ r ∈ np.egress, Spec.npRuleAllows np r (d.toEnd a) (d.toEnd a) pr x = true) := by
  obtain ⟨hc, hden⟩ := NetPol.allowedConns_ok np np.egress d d a a ho hd hv c h
  exact ⟨hc.1, hc, hden⟩

/-- Theorem 5 (egress form, failure) -/
theorem NetPol.egressAllowedConns_err (np : NetPol) (d : KPeer) (a : Int)
    (ho : d.Concrete a) (hd : d.DstOK) (hv : ∀ r ∈ np.egress, r.Valid) (e : Err)
    (h : np.egressAllowedConns d = .error e) :
    e = .namedPortOnIP ∧ d.isPod = false ∧
      ∃ r ∈ np.egress, Spec.npRuleSelects np r (d.toEnd a) = true ∧ ∃ q ∈ r.ports, q.isNamed :=
  NetPol.allowedConns_err np np.egress d d a ho hd hv e h

/-- Theorem 5 (ingress form with the model's name) -/
theorem NetPol.ingressAllowedConns_spec (np : NetPol) (src : KPeer) (p : Pod) (ns : Option NsObj)
    (a : Int) (ho : src.Concrete a) (hrep : p.isRepresentative = false) (hp : p.ValidPorts)
    (hv : ∀ r ∈ np.ingress, r.Valid) :
    ∃ c, np.ingressAllowedConns src (.pod p ns) = .ok c ∧ c.WF ∧ c.Canonical ∧
      ∀ pr x, c.den pr x ↔ (inRange x ∧ ∃ r ∈ np.ingress,
        Spec.npRuleAllows np r (src.toEnd a) ((KPeer.pod p ns).toEnd 0) pr x = true) :=
  NetPol.allowedConns_spec np np.ingress src p ns a ho hrep hp hv

/-! ### `selects` -/

theorem NetPol.affects_eq (np : NetPol) (d : Dir) : np.affects d = Spec.npAffects np d := by
  unfold NetPol.affects Spec.npAffects
  cases np.types.isEmpty <;> cases d <;> simp

theorem Selector.matches_of_isEmpty {s : Selector} (h : s.isEmpty = true) (l : Labels) :
    s.matches l = true := by
  unfold Selector.isEmpty at h
  rw [Bool.and_eq_true, List.isEmpty_iff, List.isEmpty_iff] at h
  simp [Selector.matches, h.1, h.2]

/-- Theorem 6 -/
theorem NetPol.selects_spec (np : NetPol) (p : Pod) (d : Dir) (hrep : p.isRepresentative = false) :
    np.selects p d = Spec.npSelects np p d := by
  unfold NetPol.selects Spec.npSelects
  rw [NetPol.affects_eq, hrep]
  by_cases hns : p.ns = np.ns
  · have h1 : (p.ns != np.ns) = false := by simp [hns]
    have h2 : (np.ns == p.ns) = true := by simp [hns]
    rw [h1, h2]
    cases Spec.npAffects np d
    · simp
    · cases he : np.podSel.isEmpty
      · simp
      · simp [Selector.matches_of_isEmpty he]
  · have h1 : (p.ns != np.ns) = true := by simp [hns]
    have h2 : (np.ns == p.ns) = false := by
      simp only [beq_eq_false_iff_ne, ne_eq]; exact fun h => hns h.symm
    rw [h1, h2]
    simp

/-! ### IP ranges: `allowedConns` sees an IP block only through `ruleSelectsPeer` -/

theorem NetPol.portSetOf_ip_indep (q : NPPort) (r r' : CSet) :
    NetPol.portSetOf q (some (.ip r)) = NetPol.portSetOf q (some (.ip r')) := by
  unfold NetPol.portSetOf NetPol.portsRange
  cases q.kind <;> rfl

theorem NetPol.ruleConnections_ip_indep (ports : List NPPort) (r r' : CSet) :
    NetPol.ruleConnections ports (some (.ip r)) = NetPol.ruleConnections ports (some (.ip r')) := by
  rw [NetPol.ruleConnections_eq, NetPol.ruleConnections_eq]
  have : NetPol.rcStep (some (.ip r)) = NetPol.rcStep (some (.ip r')) := by
    funext res q
    unfold NetPol.rcStep
    rw [NetPol.portSetOf_ip_indep q r r']
  rw [this]

/-- every `ipBlock` peer of the rules is uniform on the range `R` -/
def NPRule.UniformOn (rules : List NPRule) (R : Iv) : Prop :=
  ∀ r ∈ rules, ∀ rp ∈ r.peers, ∀ c ex, rp = .ip c ex → (∀ a b, R.mem a → R.mem b →
    (CSet.memL (NetPol.ipBlockSet c ex) a ↔ CSet.memL (NetPol.ipBlockSet c ex) b))

theorem NetPol.allowedConns_go_ip_range (np : NetPol) (rules : List NPRule) (R : Iv)
    (hR : R.lo ≤ R.hi) (huni : NPRule.UniformOn rules R) (a : Int) (ha : R.mem a)
    (dst dst' : KPeer)
    (hdst : ∀ ports, NetPol.ruleConnections ports (some dst) = NetPol.ruleConnections ports (some dst'))
    (res : ConnSet) :
    NetPol.allowedConns.go np (.ip [R]) dst res rules =
      NetPol.allowedConns.go np (.ip [⟨a, a⟩]) dst' res rules := by
  induction rules generalizing res with
  | nil => rfl
  | cons r rest ih =>
    have ih' := ih (fun r' h => huni r' (List.mem_cons_of_mem _ h))
    rw [NetPol.allowedConns.go_cons, NetPol.allowedConns.go_cons,
      NetPol.ruleSelectsPeer_ip_range np r.peers R hR (huni r (List.mem_cons_self ..)) a ha, hdst]
    simp only [ih']

/-- ingress from an IP range on which the rules are uniform = ingress from any of its addresses -/
theorem NetPol.allowedConns_ip_range_src (np : NetPol) (rules : List NPRule) (R : Iv)
    (hR : R.lo ≤ R.hi) (huni : NPRule.UniformOn rules R) (a : Int) (ha : R.mem a) (dst : KPeer) :
    np.allowedConns rules (.ip [R]) dst = np.allowedConns rules (.ip [⟨a, a⟩]) dst :=
  NetPol.allowedConns_go_ip_range np rules R hR huni a ha dst dst (fun _ => rfl) _

/-- egress to an IP range on which the rules are uniform = egress to any of its addresses -/
theorem NetPol.allowedConns_ip_range_dst (np : NetPol) (rules : List NPRule) (R : Iv)
    (hR : R.lo ≤ R.hi) (huni : NPRule.UniformOn rules R) (a : Int) (ha : R.mem a) :
    np.allowedConns rules (.ip [R]) (.ip [R]) =
      np.allowedConns rules (.ip [⟨a, a⟩]) (.ip [⟨a, a⟩]) :=
  NetPol.allowedConns_go_ip_range np rules R hR huni a ha _ _
    (fun ports => NetPol.ruleConnections_ip_indep ports _ _) _

instance NPRule.decValid (r : NPRule) : Decidable r.Valid := by unfold NPRule.Valid; infer_instance
instance KPeer.decConcrete (k : KPeer) (a : Int) : Decidable (k.Concrete a) := by
  unfold KPeer.Concrete; split <;> infer_instance
instance KPeer.decDstOK (k : KPeer) : Decidable k.DstOK := by
  unfold KPeer.DstOK; split <;> infer_instance

/-! the main statements are also reachable as `Netpol.ruleConnections_pod` … -/
export NetPol (ruleConnections_pod ruleConnections_ip_ok ruleConnections_ip_err
  ruleConnections_ip_named ruleConnections_ip_err_iff ruleSelectsPeer_pod ruleSelectsPeer_ip1
  ruleSelectsPeer_ip_range isSubset_single_ipBlockSet allowedConns_spec allowedConns_ok
  allowedConns_err egressAllowedConns_ok egressAllowedConns_err ingressAllowedConns_spec
  selects_spec allowedConns_ip_range_src allowedConns_ip_range_dst)

/-! ### non-vacuity: a concrete policy -/
namespace NPLayerExamples

local instance decEqExcept {ε α : Type} [DecidableEq ε] [DecidableEq α] : DecidableEq (Except ε α) := by
  intro x y
  cases x with
  | error a =>
    cases y with
    | error b => exact decidable_of_iff (a = b) (by simp)
    | ok b => exact isFalse (by simp)
  | ok a =>
    cases y with
    | error b => exact isFalse (by simp)
    | ok b => exact decidable_of_iff (a = b) (by simp)

def web : Pod :=
  { ns := "default", name := "web", labels := [("app", "web")], ports := [⟨"http", .TCP, 8080⟩] }
def client : Pod :=
  { ns := "default", name := "client", labels := [("app", "client")], ports := [] }
def nsDefault : NsObj := ⟨"default", [("kubernetes.io/metadata.name", "default")]⟩

/-- `10.0.0.0/8` except `10.1.0.0/16` -/
def blk : NPPeer := .ip ⟨0x0A000000, 8⟩ [⟨0x0A010000, 16⟩]

/-- 10.0.0.1, 10.1.0.1 (inside the except), 11.0.0.1 -/
def ipIn : Int := 167772161
def ipExcept : Int := 167837697
def ipOut : Int := 184549377

def inRule : NPRule :=
  ⟨[.sel (some ⟨[("app", "client")], []⟩) none, blk],
   [⟨none, .name "http"⟩, ⟨some .UDP, .num 53 none⟩, ⟨none, .num 9000 (some 9100)⟩]⟩

def np : NetPol :=
  { ns := "default", name := "np", podSel := ⟨[("app", "web")], []⟩, types := [],
    ingress := [inRule],
    egress := [⟨[blk], [⟨none, .num 443 none⟩]⟩, ⟨[.ip ⟨0, 0⟩ []], [⟨none, .name "dns"⟩]⟩] }

/-- the same policy without the egress rule that has a named port -/
def np2 : NetPol := { np with egress := [⟨[blk], [⟨none, .num 443 none⟩]⟩] }

/-! the hypotheses of the theorems hold -/
example : web.isRepresentative = false ∧ client.isRepresentative = false := by decide
example : web.ValidPorts ∧ client.ValidPorts := by decide
example : (∀ r ∈ np.ingress, r.Valid) ∧ (∀ r ∈ np.egress, r.Valid) := by decide
example : (KPeer.pod client (some nsDefault)).Concrete 0 ∧ (KPeer.ip [⟨ipIn, ipIn⟩]).Concrete ipIn := by
  decide
example : (KPeer.pod web (some nsDefault)).DstOK ∧ (KPeer.ip [⟨ipIn, ipIn⟩]).DstOK := by decide
/-- validity is not trivially true -/
example : ¬ (⟨none, .num 0 none⟩ : NPPort).Valid ∧ ¬ (⟨none, .num 80 (some 70000)⟩ : NPPort).Valid ∧
    ¬ (⟨[.sel none none], []⟩ : NPRule).Valid := by decide

/-! Theorem 1: the named port resolves to 8080 on `web` -/
example : NetPol.ruleConnections inRule.ports (some (.pod web (some nsDefault))) =
    .ok ⟨false, some ⟨[⟨8080, 8080⟩, ⟨9000, 9100⟩], [], []⟩, some ⟨[⟨53, 53⟩], [], []⟩, none⟩ := by
  decide
example : Spec.npPortMatches ⟨none, .name "http"⟩ (.pod web []) .TCP 8080 = true ∧
    Spec.npPortMatches ⟨none, .name "http"⟩ (.pod web []) .TCP 8081 = false ∧
    Spec.npPortMatches ⟨none, .name "http"⟩ (.pod web []) .UDP 8080 = false := by decide

/-- Theorem 1, the case behind the weak invariant `WFE`: once the fold has reached
All Connections, a further port clause used to be stored next to the AllowAll flag (result
`⟨true, some TCP 80, none, none⟩`: `WFE`, not `WF`; `Union` normalised it). Since the repair of
`AddConnection` (no-op on the AllowAll form) the result is All Connections itself; the theorems
still state `WFE`, which `WF` implies. -/
def dirtyPorts : List NPPort :=
  [⟨some .TCP, .all⟩, ⟨some .UDP, .all⟩, ⟨some .SCTP, .all⟩, ⟨none, .num 80 none⟩]
example : (∀ q ∈ dirtyPorts, q.Valid) ∧
    NetPol.ruleConnections dirtyPorts (some (.pod web none)) = .ok (ConnSet.mk' true) := by decide
/-- the value the unrepaired code produced -/
example : ¬ (⟨true, some ⟨[⟨80, 80⟩], [], []⟩, none, none⟩ : ConnSet).WF ∧
    (⟨true, some ⟨[⟨80, 80⟩], [], []⟩, none, none⟩ : ConnSet).WFE ∧
    (ConnSet.mk' false).union ⟨true, some ⟨[⟨80, 80⟩], [], []⟩, none, none⟩ = ConnSet.mk' true := by
  decide

/-! Theorem 2 -/
example : NetPol.ruleConnections inRule.ports (some (.ip [⟨ipIn, ipIn⟩])) = .error .namedPortOnIP := by
  decide
example : NetPol.ruleConnections [⟨none, .num 443 none⟩] (some (.ip [⟨ipIn, ipIn⟩])) =
    .ok ⟨false, some ⟨[⟨443, 443⟩], [], []⟩, none, none⟩ := by decide

/-! Theorems 3 and 4 -/
example : np.ruleSelectsPeer inRule.peers (.pod client (some nsDefault)) = .ok true ∧
    np.ruleSelectsPeer inRule.peers (.pod web (some nsDefault)) = .ok false := by decide
example : np.ruleSelectsPeer inRule.peers (.ip [⟨ipIn, ipIn⟩]) = .ok true ∧
    np.ruleSelectsPeer inRule.peers (.ip [⟨ipExcept, ipExcept⟩]) = .ok false ∧
    np.ruleSelectsPeer inRule.peers (.ip [⟨ipOut, ipOut⟩]) = .ok false := by decide
example : Spec.npPeerMatches np blk (.ip ipIn) = true ∧ Spec.npPeerMatches np blk (.ip ipExcept) = false ∧
    Spec.npPeerMatches np blk (.ip ipOut) = false := by decide
/-- the hypothesis on `.sel none none` is needed: the model fails on such a peer, the
specification reads it as "same namespace" -/
example : np.ruleSelectsPeer [.sel none none] (.pod client (some nsDefault)) = .error .emptyRulePeer ∧
    Spec.npPeerMatches np (.sel none none) (.pod client nsDefault.labels) = true := by decide

/-- Theorem 4 (ranges): `10.0.0.0 – 10.0.255.255` is uniform for `blk`, `10.0.0.0 – 10.1.0.0` is
not, and the model tells them apart -/
example : NPRule.UniformOn [inRule] ⟨167772160, 167837695⟩ := by
  intro r hr rp hrp c ex hc a b ha hb
  have hr' : r = inRule := by simpa using hr
  subst hr'
  have : rp = blk := by
    rcases List.mem_cons.mp hrp with h | h
    · subst h; cases hc
    · simpa using h
  subst this
  cases hc
  rw [NetPol.memL_ipBlockSet, NetPol.memL_ipBlockSet]
  have e1 : (⟨0x0A000000, 8⟩ : Cidr).toIv = ⟨167772160, 184549375⟩ := by decide
  have e2 : (⟨0x0A010000, 16⟩ : Cidr).toIv = ⟨167837696, 167903231⟩ := by decide
  simp only [List.mem_singleton, forall_eq, e1, e2, Iv.mem] at ha hb ⊢
  omega
example : np.ruleSelectsPeer inRule.peers (.ip [⟨167772160, 167837695⟩]) = .ok true ∧
    np.ruleSelectsPeer inRule.peers (.ip [⟨167772160, 167837696⟩]) = .ok false := by decide

/-! Theorem 5 -/
example : np.ingressAllowedConns (.pod client (some nsDefault)) (.pod web (some nsDefault)) =
    .ok ⟨false, some ⟨[⟨8080, 8080⟩, ⟨9000, 9100⟩], [], []⟩, some ⟨[⟨53, 53⟩], [], []⟩, none⟩ := by
  decide
example : np.ingressAllowedConns (.ip [⟨ipExcept, ipExcept⟩]) (.pod web (some nsDefault)) =
    .ok (ConnSet.mk' false) := by decide
example :
    Spec.npRuleAllows np inRule (.pod client nsDefault.labels) (.pod web nsDefault.labels) .TCP 8080 = true ∧
    Spec.npRuleAllows np inRule (.pod client nsDefault.labels) (.pod web nsDefault.labels) .TCP 8081 = false ∧
    Spec.npRuleAllows np inRule (.ip ipExcept) (.pod web nsDefault.labels) .TCP 8080 = false := by
  decide
/-- the theorem at work: a fact about the model's result obtained from the specification alone -/
example : ∃ c, np.ingressAllowedConns (.pod client (some nsDefault)) (.pod web (some nsDefault)) = .ok c ∧
    c.WF ∧ c.den .TCP 8080 ∧ ¬ c.den .TCP 8081 := by
  obtain ⟨c, hc, hw, _, hden⟩ := NetPol.ingressAllowedConns_spec np (.pod client (some nsDefault)) web
    (some nsDefault) 0 (by decide) (by decide) (by decide) (by decide)
  refine ⟨c, hc, hw, (hden _ _).mpr ⟨by decide, inRule, by decide, by decide⟩, ?_⟩
  intro h
  obtain ⟨_, r, hr, hal⟩ := (hden _ _).mp h
  have : r = inRule := by simpa [np] using hr
  subst this
  revert hal
  decide
/-- egress: a named port in a rule that selects the address makes the whole call fail … -/
example : np.egressAllowedConns (.ip [⟨ipIn, ipIn⟩]) = .error .namedPortOnIP ∧
    np.egressAllowedConns (.ip [⟨ipOut, ipOut⟩]) = .error .namedPortOnIP := by decide
/-- … and without it the result follows the ipBlock and its except -/
example : np2.egressAllowedConns (.ip [⟨ipIn, ipIn⟩]) =
      .ok ⟨false, some ⟨[⟨443, 443⟩], [], []⟩, none, none⟩ ∧
    np2.egressAllowedConns (.ip [⟨ipExcept, ipExcept⟩]) = .ok (ConnSet.mk' false) ∧
    np2.egressAllowedConns (.pod client (some nsDefault)) = .ok (ConnSet.mk' false) := by decide
/-- no early exit: the first rule allows everything, the second (with a named port towards an
IP) is evaluated all the same and fails the call, in either order of the two rules -/
example : ({ np with egress := [⟨[], []⟩, ⟨[], [⟨none, .name "dns"⟩]⟩] } : NetPol).egressAllowedConns
      (.ip [⟨ipIn, ipIn⟩]) = .error .namedPortOnIP ∧
    ({ np with egress := [⟨[], [⟨none, .name "dns"⟩]⟩, ⟨[], []⟩] } : NetPol).egressAllowedConns
      (.ip [⟨ipIn, ipIn⟩]) = .error .namedPortOnIP := by decide

/-! Theorem 6 -/
example : np.selects web .ingress = true ∧ Spec.npSelects np web .ingress = true ∧
    np.selects client .ingress = false ∧ np.selects web .egress = true ∧
    np2.selects web .egress = true ∧
    ({ np with egress := [] } : NetPol).selects web .egress = false := by decide

end NPLayerExamples

end Netpol
