import Netpol.Model.Engine
import Netpol.Model.Sort

/-! Structural facts about the engine model (`Netpol.Model.Engine`): the peers × peers loop of
`connsBetweenPeers`, the insertion fold of `build`, `podOwnersMap`, and the IP partition.
Helper lemmas for the properties C05, C16, C19. Core Lean only. -/
namespace Netpol
namespace Structure

/-! ## A. a fold in `Except` that appends to an accumulator -/

section Collect
variable {ε α β γ : Type}

/-- run `g` over the list from left to right, stop at the first error, concatenate the results -/
def collect (g : α → Except ε (List β)) : List α → Except ε (List β)
  | [] => .ok []
  | a :: l =>
    match g a with
    | .error err => .error err
    | .ok x =>
      match collect g l with
      | .error err => .error err
      | .ok r => .ok (x ++ r)

/-- a `foldlM` whose step appends `g a` to the accumulator is `collect g` appended to the
initial accumulator (same first error otherwise) -/
theorem foldlM_append_eq (g : α → Except ε (List β)) (l : List α) (acc : List β) :
    l.foldlM (fun acc a => (g a).map (acc ++ ·)) acc = (collect g l).map (acc ++ ·) := by
  induction l generalizing acc with
  | nil => simp [collect, Except.map]; rfl
  | cons a l ih =>
    rw [List.foldlM_cons]
    unfold collect
    cases hg : g a with
    | error err => rfl
    | ok x =>
      show List.foldlM _ (acc ++ x) l = _
      rw [ih]
      cases collect g l with
      | error err => rfl
      | ok r => simp [Except.map, List.append_assoc]

theorem collect_mem {g : α → Except ε (List β)} {l : List α} {r : List β}
    (h : collect g l = .ok r) {x : β} (hx : x ∈ r) :
    ∃ a ∈ l, ∃ xs, g a = .ok xs ∧ x ∈ xs := by
  induction l generalizing r with
  | nil => simp [collect] at h; subst h; cases hx
  | cons a l ih =>
    unfold collect at h
    cases hg : g a with
    | error err => simp [hg] at h
    | ok xs =>
      cases hc : collect g l with
      | error err => simp [hg, hc] at h
      | ok r' =>
        simp only [hg, hc, Except.ok.injEq] at h
        subst h
        rcases List.mem_append.mp hx with h1 | h1
        · exact ⟨a, List.mem_cons_self .., xs, hg, h1⟩
        · obtain ⟨a', ha', xs', hg', hx'⟩ := ih hc h1
          exact ⟨a', List.mem_cons_of_mem _ ha', xs', hg', hx'⟩

/-- every element of the list was evaluated without error -/
theorem collect_ok_all {g : α → Except ε (List β)} {l : List α} {r : List β}
    (h : collect g l = .ok r) : ∀ a ∈ l, ∃ xs, g a = .ok xs := by
  induction l generalizing r with
  | nil => intro a ha; cases ha
  | cons a l ih =>
    unfold collect at h
    cases hg : g a with
    | error err => simp [hg] at h
    | ok xs =>
      cases hc : collect g l with
      | error err => simp [hg, hc] at h
      | ok r' =>
        intro a' ha'
        rcases List.mem_cons.mp ha' with rfl | h1
        · exact ⟨xs, hg⟩
        · exact ih hc a' h1

/-- the image of the result is a sublist of the concatenated bounds -/
theorem collect_sublist {g : α → Except ε (List β)} {l : List α} {r : List β}
    (h : collect g l = .ok r) (f : β → γ) (k : α → List γ)
    (hk : ∀ a ∈ l, ∀ xs, g a = .ok xs → (xs.map f).Sublist (k a)) :
    (r.map f).Sublist (l.flatMap k) := by
  induction l generalizing r with
  | nil => simp [collect] at h; subst h; simp
  | cons a l ih =>
    unfold collect at h
    cases hg : g a with
    | error err => simp [hg] at h
    | ok xs =>
      cases hc : collect g l with
      | error err => simp [hg, hc] at h
      | ok r' =>
        simp only [hg, hc, Except.ok.injEq] at h
        subst h
        rw [List.map_append, List.flatMap_cons]
        exact List.Sublist.append (hk a (List.mem_cons_self ..) xs hg)
          (ih hc (fun a' ha' => hk a' (List.mem_cons_of_mem _ ha')))

/-- if `g'` is pointwise the `P`-filter of `g`, the collected results are related in the same way -/
theorem collect_filter {g g' : α → Except ε (List β)} {l : List α} {r : List β} (P : β → Bool)
    (h : collect g l = .ok r)
    (hg : ∀ a ∈ l, ∀ xs, g a = .ok xs → g' a = .ok (xs.filter P)) :
    collect g' l = .ok (r.filter P) := by
  induction l generalizing r with
  | nil => simp [collect] at h; subst h; simp [collect]
  | cons a l ih =>
    unfold collect at h
    cases hga : g a with
    | error err => simp [hga] at h
    | ok xs =>
      cases hc : collect g l with
      | error err => simp [hga, hc] at h
      | ok r' =>
        simp only [hga, hc, Except.ok.injEq] at h
        subst h
        unfold collect
        rw [hg a (List.mem_cons_self ..) xs hga,
          ih hc (fun a' ha' => hg a' (List.mem_cons_of_mem _ ha'))]
        simp [List.filter_append]

theorem collect_nil_of_all {g : α → Except ε (List β)} {l : List α}
    (h : ∀ a ∈ l, g a = .ok []) : collect g l = .ok [] := by
  induction l with
  | nil => rfl
  | cons a l ih =>
    unfold collect
    rw [h a (List.mem_cons_self ..), ih (fun a' ha' => h a' (List.mem_cons_of_mem _ ha'))]
    rfl

end Collect

/-! ## B. the peers × peers loop -/

open Engine

/-- what one (src, dst) pair contributes to the report: nothing or one entry -/
def pairEntry (e : Engine) (focus : String) (s d : LPeer) : Except Err (List Entry) :=
  if s.isIP && d.isIP then .ok []
  else if s.str == d.str then .ok []
  else if !(isFocus focus s || isFocus focus d) then .ok []
  else
    match e.toKPeer s with
    | .error err => .error err
    | .ok ks =>
      match e.toKPeer d with
      | .error err => .error err
      | .ok kd =>
        match e.peerConns ks kd with
        | .error err => .error err
        | .ok c => if c.isEmpty then .ok [] else .ok [⟨s, d, c⟩]

/-- the loop is the ordered concatenation of the contributions of all pairs -/
theorem connsBetweenPeers_eq (e : Engine) (peers : List LPeer) (focus : String) :
    e.connsBetweenPeers peers focus =
      collect (fun s => collect (fun d => pairEntry e focus s d) peers) peers := by
  unfold connsBetweenPeers
  have inner : ∀ s : LPeer,
      (fun (acc : List Entry) d =>
        if s.isIP && d.isIP then (pure acc : Except Err (List Entry))
        else if s.str == d.str then pure acc
        else if !(isFocus focus s || isFocus focus d) then pure acc
        else do
          let ks ← e.toKPeer s
          let kd ← e.toKPeer d
          let c ← e.peerConns ks kd
          if c.isEmpty then pure acc else pure (acc ++ [⟨s, d, c⟩])) =
      (fun acc d => (pairEntry e focus s d).map (acc ++ ·)) := by
    intro s
    funext acc d
    unfold pairEntry
    split
    · simp [Except.map, pure, Except.pure]
    split
    · simp [Except.map, pure, Except.pure]
    split
    · simp [Except.map, pure, Except.pure]
    cases e.toKPeer s with
    | error err => rfl
    | ok ks =>
      simp only [bind, Except.bind]
      cases e.toKPeer d with
      | error err => rfl
      | ok kd =>
        simp only []
        cases e.peerConns ks kd with
        | error err => rfl
        | ok c =>
          simp only []
          split <;> simp [Except.map, pure, Except.pure]
  have outer :
      (fun (acc : List Entry) s =>
        peers.foldlM (fun (acc : List Entry) d =>
          if s.isIP && d.isIP then (pure acc : Except Err (List Entry))
          else if s.str == d.str then pure acc
          else if !(isFocus focus s || isFocus focus d) then pure acc
          else do
            let ks ← e.toKPeer s
            let kd ← e.toKPeer d
            let c ← e.peerConns ks kd
            if c.isEmpty then pure acc else pure (acc ++ [⟨s, d, c⟩])) acc) =
      (fun acc s => (collect (fun d => pairEntry e focus s d) peers).map (acc ++ ·)) := by
    funext acc s
    rw [inner s, foldlM_append_eq]
  rw [outer, foldlM_append_eq]
  cases collect (fun s => collect (fun d => pairEntry e focus s d) peers) peers <;>
    simp [Except.map]

/-- everything one can say about the contribution of one pair -/
theorem pairEntry_ok {e : Engine} {focus : String} {s d : LPeer} {xs : List Entry}
    (h : pairEntry e focus s d = .ok xs) :
    xs = [] ∨ ∃ c, xs = [⟨s, d, c⟩] ∧ ¬ (s.isIP = true ∧ d.isIP = true) ∧ s.str ≠ d.str ∧
      (isFocus focus s || isFocus focus d) = true ∧ c.isEmpty = false := by
  unfold pairEntry at h
  split at h
  · left; exact (Except.ok.inj h).symm
  rename_i h1
  split at h
  · left; exact (Except.ok.inj h).symm
  rename_i h2
  split at h
  · left; exact (Except.ok.inj h).symm
  rename_i h3
  cases hs : e.toKPeer s with
  | error err => simp [hs] at h
  | ok ks =>
    cases hd : e.toKPeer d with
    | error err => simp [hs, hd] at h
    | ok kd =>
      cases hc : e.peerConns ks kd with
      | error err => simp [hs, hd, hc] at h
      | ok c =>
        simp only [hs, hd, hc] at h
        split at h
        · left; exact (Except.ok.inj h).symm
        · rename_i h4
          right
          refine ⟨c, (Except.ok.inj h).symm, ?_, ?_, ?_, ?_⟩
          · simpa using h1
          · simpa using h2
          · revert h3; cases (isFocus focus s || isFocus focus d) <;> simp
          · simpa using h4

/-- a property of all contributions is a property of all report entries -/
theorem entries_forall {e : Engine} {peers : List LPeer} {focus : String} {entries : List Entry}
    (h : e.connsBetweenPeers peers focus = .ok entries) (Q : Entry → Prop)
    (hQ : ∀ s ∈ peers, ∀ d ∈ peers, ∀ xs, pairEntry e focus s d = .ok xs → ∀ x ∈ xs, Q x) :
    ∀ x ∈ entries, Q x := by
  rw [connsBetweenPeers_eq] at h
  intro x hx
  obtain ⟨s, hs, ys, hys, hxy⟩ := collect_mem h hx
  obtain ⟨d, hd, xs, hxs, hxx⟩ := collect_mem hys hxy
  exact hQ s hs d hd xs hxs x hxx

theorem nodup_product {α β : Type} {l : List α} {f : α → β} (h : (l.map f).Nodup) (l2 : List α)
    (h2 : (l2.map f).Nodup) :
    (l.flatMap fun s => l2.map fun d => (f s, f d)).Nodup := by
  induction l with
  | nil => simp
  | cons a l ih =>
    rw [List.map_cons, List.nodup_cons] at h
    rw [List.flatMap_cons, List.nodup_append]
    refine ⟨?_, ih h.2, ?_⟩
    · clear ih h
      induction l2 with
      | nil => simp
      | cons b l2 ih2 =>
        rw [List.map_cons, List.nodup_cons] at h2
        rw [List.map_cons, List.nodup_cons]
        refine ⟨?_, ih2 h2.2⟩
        intro hm
        obtain ⟨b', hb', heq⟩ := List.mem_map.mp hm
        apply h2.1
        have : f b' = f b := (Prod.mk.inj heq).2
        rw [← this]
        exact List.mem_map_of_mem hb'
    · intro x hx y hy hxy
      subst hxy
      obtain ⟨d, _, rfl⟩ := List.mem_map.mp hx
      obtain ⟨s', hs', hy'⟩ := List.mem_flatMap.mp hy
      obtain ⟨d', _, heq⟩ := List.mem_map.mp hy'
      apply h.1
      have : f s' = f a := (Prod.mk.inj heq).1
      rw [← this]
      exact List.mem_map_of_mem hs'

/-- the (src, dst) names of the entries form a sublist of the product of the peer names -/
theorem entries_pairs_sublist {e : Engine} {peers : List LPeer} {focus : String}
    {entries : List Entry} (h : e.connsBetweenPeers peers focus = .ok entries) :
    (entries.map fun x => (x.src.str, x.dst.str)).Sublist
      (peers.flatMap fun s => peers.map fun d => (s.str, d.str)) := by
  rw [connsBetweenPeers_eq] at h
  refine collect_sublist h _ _ ?_
  intro s _ ys hys
  have := collect_sublist hys (fun x : Entry => (x.src.str, x.dst.str))
    (fun d => [(s.str, d.str)]) ?_
  · rw [← List.map_eq_flatMap] at this; exact this
  · intro d _ xs hxs
    rcases pairEntry_ok hxs with rfl | ⟨c, rfl, _⟩
    · simp
    · simp

/-! ## C. focus -/

theorem isFocus_empty (p : LPeer) : isFocus "" p = true := by simp [isFocus]

/-- with a focus, a pair contributes what it contributes without focus, if it passes the filter -/
theorem pairEntry_focus {e : Engine} (f : String) {s d : LPeer} {xs : List Entry}
    (h : pairEntry e "" s d = .ok xs) :
    pairEntry e f s d = .ok (xs.filter fun x => isFocus f x.src || isFocus f x.dst) := by
  have hxs := pairEntry_ok h
  unfold pairEntry at h ⊢
  split
  · rename_i h1; rw [if_pos h1] at h; rw [← Except.ok.inj h]; rfl
  rename_i h1; rw [if_neg h1] at h
  split
  · rename_i h2; rw [if_pos h2] at h; rw [← Except.ok.inj h]; rfl
  rename_i h2; rw [if_neg h2] at h
  simp only [isFocus_empty, Bool.or_self, Bool.not_true, Bool.false_eq_true, if_false] at h
  split
  · rename_i h3
    rcases hxs with rfl | ⟨c, rfl, _⟩
    · rfl
    · have : (isFocus f s || isFocus f d) = false := by simpa using h3
      simp [List.filter, this]
  · rename_i h3
    rw [h]
    rcases hxs with rfl | ⟨c, rfl, _⟩
    · rfl
    · have : (isFocus f s || isFocus f d) = true := by
        revert h3; cases (isFocus f s || isFocus f d) <;> simp
      simp [List.filter, this]

theorem pairEntry_no_focus {e : Engine} {f : String} {s d : LPeer}
    (hs : isFocus f s = false) (hd : isFocus f d = false) : pairEntry e f s d = .ok [] := by
  unfold pairEntry
  simp [hs, hd]

/-! ## D. the insertion fold of `Engine.build` -/

section Fold
variable {ε σ ω : Type}

theorem foldlM_error_of_split {f : σ → ω → Except ε σ} (l1 : List ω) (o : ω) (l2 : List ω) (s0 : σ)
    (h : ∀ s1, l1.foldlM f s0 = .ok s1 → ∃ err, (o :: l2).foldlM f s1 = .error err) :
    ∃ err, (l1 ++ o :: l2).foldlM f s0 = .error err := by
  rw [List.foldlM_append]
  cases h1 : l1.foldlM f s0 with
  | error err => exact ⟨err, rfl⟩
  | ok s1 => exact h s1 h1

/-- an invariant of the successful steps holds after a successful fold -/
theorem foldlM_invariant {f : σ → ω → Except ε σ} (P : σ → Prop)
    (step : ∀ s o s', P s → f s o = .ok s' → P s') :
    ∀ (l : List ω) (s0 s : σ), P s0 → l.foldlM f s0 = .ok s → P s := by
  intro l
  induction l with
  | nil => intro s0 s h0 h; simp [pure, Except.pure] at h; subst h; exact h0
  | cons o l ih =>
    intro s0 s h0 h
    rw [List.foldlM_cons] at h
    cases h1 : f s0 o with
    | error err => simp [h1, bind, Except.bind] at h
    | ok s1 =>
      simp only [h1, bind, Except.bind] at h
      exact ih s1 s (step s0 o s1 h0 h1) h

/-- an element on which the step always fails makes the fold fail -/
theorem foldlM_error_of_mem {f : σ → ω → Except ε σ} {l : List ω} {o : ω} (ho : o ∈ l)
    (hf : ∀ s, ∃ err, f s o = .error err) (s0 : σ) : ∃ err, l.foldlM f s0 = .error err := by
  obtain ⟨l1, l2, rfl⟩ := List.append_of_mem ho
  refine foldlM_error_of_split l1 o l2 s0 ?_
  intro s1 _
  obtain ⟨err, he⟩ := hf s1
  exact ⟨err, by rw [List.foldlM_cons, he]; rfl⟩

/-- the conflict scheme: `o1` sets a flag `Seen` that successful steps keep and on which `o2`
fails; then a list with `o1` somewhere before `o2` makes the fold fail -/
theorem foldlM_conflict {f : σ → ω → Except ε σ} (Seen : σ → Prop) (o1 o2 : ω)
    (mono : ∀ s o s', Seen s → f s o = .ok s' → Seen s')
    (set : ∀ s s', f s o1 = .ok s' → Seen s')
    (trig : ∀ s, Seen s → ∃ err, f s o2 = .error err)
    (l1 l2 l3 : List ω) (s0 : σ) :
    ∃ err, (l1 ++ o1 :: (l2 ++ o2 :: l3)).foldlM f s0 = .error err := by
  refine foldlM_error_of_split l1 o1 _ s0 ?_
  intro s1 _
  rw [List.foldlM_cons]
  cases h1 : f s1 o1 with
  | error err => exact ⟨err, rfl⟩
  | ok s2 =>
    show ∃ err, (l2 ++ o2 :: l3).foldlM f s2 = .error err
    refine foldlM_error_of_split l2 o2 l3 s2 ?_
    intro s3 h3
    have hs3 : Seen s3 := foldlM_invariant Seen mono l2 s2 s3 (set s1 s2 h1) h3
    obtain ⟨err, he⟩ := trig s3 hs3
    exact ⟨err, by rw [List.foldlM_cons, he]; rfl⟩

end Fold

/-- two positions `i < j` of a list split it in three -/
theorem split_two {ω : Type} {l : List ω} {i j : Nat} {o1 o2 : ω} (hi : l[i]? = some o1)
    (hj : l[j]? = some o2) (hij : i < j) : ∃ l1 l2 l3, l = l1 ++ o1 :: (l2 ++ o2 :: l3) := by
  induction l generalizing i j with
  | nil => simp at hi
  | cons x l ih =>
    cases i with
    | zero =>
      simp only [List.getElem?_cons_zero, Option.some.injEq] at hi
      subst hi
      cases j with
      | zero => omega
      | succ j =>
        rw [List.getElem?_cons_succ] at hj
        obtain ⟨l2, l3, rfl⟩ := List.append_of_mem (List.mem_of_getElem? hj)
        exact ⟨[], l2, l3, rfl⟩
    | succ i =>
      cases j with
      | zero => omega
      | succ j =>
        rw [List.getElem?_cons_succ] at hi hj
        obtain ⟨l1, l2, l3, rfl⟩ := ih hi hj (by omega)
        exact ⟨x :: l1, l2, l3, rfl⟩

/-- the policy-related fields of an engine -/
def polFields (e : Engine) : List NetPol × List ANP × List String × Option BANP × Bool :=
  (e.netpols, e.anps, e.anpNames, e.banp, e.exposure)

theorem polFields_insertNamespace (e : Engine) (n : NsObj) :
    polFields (e.insertNamespace n) = polFields e := rfl

theorem polFields_insertPodObj (e : Engine) (p : Pod) :
    polFields (e.insertPodObj p) = polFields e := rfl

theorem polFields_insertWorkload (e : Engine) (w : Workload) :
    polFields (e.insertWorkload w) = polFields e := by
  unfold insertWorkload
  generalize podsFromWorkload w = l
  induction l generalizing e with
  | nil => rfl
  | cons p l ih => rw [List.foldl_cons, ih, polFields_insertPodObj]

/-- the namespace the engine files a policy under -/
def npNs (p : NetPol) : String := if p.ns == "" then "default" else p.ns

/-- the engine holds a policy with this namespace and name -/
def hasNetpol (e : Engine) (ns name : String) : Prop :=
  e.netpols.any (fun q => q.ns == ns && q.name == name) = true

/-- what a successful `insertObject` does to the policy fields -/
theorem insertObject_ok {e e' : Engine} {o : Obj} (h : e.insertObject o = .ok e') :
    match o with
    | .np p => ¬ hasNetpol e (npNs p) p.name ∧
        polFields e' = (e.netpols ++ [if p.ns == "" then { p with ns := "default" } else p],
          e.anps, e.anpNames, e.banp, e.exposure)
    | .anp a => e.exposure = false ∧ a.name ∉ e.anpNames ∧
        polFields e' = (e.netpols, insertSorted a e.anps, e.anpNames ++ [a.name], e.banp, e.exposure)
    | .banp b => e.exposure = false ∧ e.banp = none ∧ b.name = "default" ∧
        polFields e' = (e.netpols, e.anps, e.anpNames, some b, e.exposure)
    | .pod p => p.hostIP ≠ "" ∧ polFields e' = polFields e
    | _ => polFields e' = polFields e := by
  cases o with
  | ns n => simp only [insertObject, Except.ok.injEq] at h; subst h; rfl
  | wl w =>
    simp only [insertObject, Except.ok.injEq] at h; subst h; exact polFields_insertWorkload e w
  | pod p =>
    simp only [insertObject] at h
    split at h
    · cases h
    · rename_i h1
      simp only [Except.ok.injEq] at h; subst h
      exact ⟨by simpa using h1, rfl⟩
  | np p =>
    have hk : ∀ q : NetPol,
        (q.ns == (if p.ns == "" then { p with ns := "default" } else p).ns &&
          q.name == (if p.ns == "" then { p with ns := "default" } else p).name) =
        (q.ns == npNs p && q.name == p.name) := by
      intro q; unfold npNs; split <;> rfl
    simp only [insertObject, insertNetpol, hk] at h
    by_cases h1 : (e.netpols.any fun q => q.ns == npNs p && q.name == p.name) = true
    · rw [if_pos h1] at h; cases h
    · rw [if_neg h1] at h
      simp only [Except.ok.injEq] at h; subst h
      exact ⟨h1, rfl⟩
  | anp a =>
    simp only [insertObject, insertANP] at h
    split at h
    · cases h
    rename_i h1
    split at h
    · cases h
    rename_i h2
    split at h
    · cases h
    split at h
    · cases h
    simp only [Except.ok.injEq] at h; subst h
    exact ⟨by simpa using h1, by simpa using h2, rfl⟩
  | banp b =>
    simp only [insertObject, insertBANP] at h
    split at h
    · cases h
    rename_i h1
    split at h
    · cases h
    rename_i h2
    split at h
    · cases h
    rename_i h3
    simp only [Except.ok.injEq] at h; subst h
    refine ⟨by simpa using h1, ?_, by simpa using h3, rfl⟩
    cases hb : e.banp with
    | none => rfl
    | some _ => simp [hb] at h2
  | svc _ => simp only [insertObject, Except.ok.injEq] at h; subst h; rfl
  | ing _ => simp only [insertObject, Except.ok.injEq] at h; subst h; rfl
  | route _ => simp only [insertObject, Except.ok.injEq] at h; subst h; rfl

/-- what the priority checks of a successful `insertANP` establish: the priority is within the
range and held by no policy of the engine -/
theorem insertANP_ok_prio {e e' : Engine} {a : ANP} (h : e.insertANP a = .ok e') :
    a.validPriority = true ∧ ∀ b ∈ e.anps, b.prio ≠ a.prio := by
  unfold insertANP at h
  split at h
  · cases h
  split at h
  · cases h
  split at h
  · cases h
  rename_i h3
  split at h
  · cases h
  rename_i h4
  exact ⟨by simpa using h3, fun b hb hp => h4 (List.any_eq_true.mpr ⟨b, hb, by simp [hp]⟩)⟩

/-- the engine a successful `insertANP` returns -/
theorem insertANP_eq {e e' : Engine} {a : ANP} (h : e.insertANP a = .ok e') :
    e' = { e with anpNames := e.anpNames ++ [a.name], anps := insertSorted a e.anps } := by
  unfold insertANP at h
  split at h
  · cases h
  split at h
  · cases h
  split at h
  · cases h
  split at h
  · cases h
  cases h; rfl

theorem insertObject_anp_prio {e e' : Engine} {a : ANP} (h : e.insertObject (.anp a) = .ok e') :
    a.validPriority = true ∧ ∀ b ∈ e.anps, b.prio ≠ a.prio := insertANP_ok_prio h

/-- a priority outside the range is rejected at insertion (after the exposure and name checks) -/
theorem insertANP_invalid {e : Engine} {a : ANP} (hexp : e.exposure = false)
    (hn : a.name ∉ e.anpNames) (hv : a.validPriority = false) :
    e.insertANP a = .error .anpPriority := by
  simp [insertANP, hexp, hn, hv]

/-- a priority held already is rejected at insertion (after the exposure and name checks) -/
theorem insertANP_same_prio {e : Engine} {a b : ANP} (hexp : e.exposure = false)
    (hn : a.name ∉ e.anpNames) (hb : b ∈ e.anps) (hp : b.prio = a.prio) :
    e.insertANP a = .error .anpPriority := by
  have hc : e.anpNames.contains a.name = false := by simpa using hn
  have hany : (e.anps.any fun b => b.prio == a.prio) = true :=
    List.any_eq_true.mpr ⟨b, hb, by simp [hp]⟩
  simp only [insertANP, hexp, hc, hany, Bool.false_eq_true, if_false, if_true]
  split <;> rfl

/-- the success condition of `insertANP`, exactly -/
theorem insertANP_ok_iff {e : Engine} {a : ANP} :
    (∃ e', e.insertANP a = .ok e') ↔
      e.exposure = false ∧ a.name ∉ e.anpNames ∧ a.validPriority = true ∧
        ∀ b ∈ e.anps, b.prio ≠ a.prio := by
  constructor
  · rintro ⟨e', h⟩
    have h1 := insertObject_ok (o := .anp a) h
    exact ⟨h1.1, h1.2.1, insertANP_ok_prio h⟩
  · rintro ⟨hexp, hn, hv, hp⟩
    have hany : (e.anps.any fun b => b.prio == a.prio) = false := by
      rw [Bool.eq_false_iff]; intro hh
      obtain ⟨b, hb, hbp⟩ := List.any_eq_true.mp hh
      exact hp b hb (by simpa using hbp)
    exact ⟨{ e with anpNames := e.anpNames ++ [a.name], anps := insertSorted a e.anps },
      by simp [insertANP, hexp, hn, hv, hany]⟩

theorem polFields_netpols {e e' : Engine} (h : polFields e' = polFields e) :
    e'.netpols = e.netpols := congrArg (·.1) h
theorem polFields_anps {e e' : Engine} (h : polFields e' = polFields e) :
    e'.anps = e.anps := congrArg (·.2.1) h
theorem polFields_anpNames {e e' : Engine} (h : polFields e' = polFields e) :
    e'.anpNames = e.anpNames := congrArg (·.2.2.1) h
theorem polFields_banp {e e' : Engine} (h : polFields e' = polFields e) :
    e'.banp = e.banp := congrArg (·.2.2.2.1) h
theorem polFields_exposure {e e' : Engine} (h : polFields e' = polFields e) :
    e'.exposure = e.exposure := congrArg (·.2.2.2.2) h

/-- every successful step: the fields grow as described -/
theorem insertObject_fields {e e' : Engine} {o : Obj} (h : e.insertObject o = .ok e') :
    (∃ t, e'.netpols = e.netpols ++ t) ∧ (∃ t, e'.anpNames = e.anpNames ++ t) ∧
    (e'.anps = e.anps ∨ ∃ a, e'.anps = insertSorted a e.anps) ∧
    (e.banp.isSome → e'.banp.isSome) ∧ e'.exposure = e.exposure := by
  have := insertObject_ok h
  cases o with
  | np p =>
    obtain ⟨_, hf⟩ := this
    have h1 : e'.netpols = _ := congrArg (·.1) hf
    have h2 : e'.anps = _ := congrArg (·.2.1) hf
    have h3 : e'.anpNames = _ := congrArg (·.2.2.1) hf
    have h4 : e'.banp = _ := congrArg (·.2.2.2.1) hf
    have h5 : e'.exposure = _ := congrArg (·.2.2.2.2) hf
    simp only at h1 h2 h3 h4 h5
    exact ⟨⟨_, h1⟩, ⟨[], by simp [h3]⟩, Or.inl h2, by simp [h4], h5⟩
  | anp a =>
    obtain ⟨_, _, hf⟩ := this
    have h1 : e'.netpols = _ := congrArg (·.1) hf
    have h2 : e'.anps = _ := congrArg (·.2.1) hf
    have h3 : e'.anpNames = _ := congrArg (·.2.2.1) hf
    have h4 : e'.banp = _ := congrArg (·.2.2.2.1) hf
    have h5 : e'.exposure = _ := congrArg (·.2.2.2.2) hf
    simp only at h1 h2 h3 h4 h5
    exact ⟨⟨[], by simp [h1]⟩, ⟨_, h3⟩, Or.inr ⟨a, h2⟩, by simp [h4], h5⟩
  | banp b =>
    obtain ⟨_, _, _, hf⟩ := this
    have h1 : e'.netpols = _ := congrArg (·.1) hf
    have h2 : e'.anps = _ := congrArg (·.2.1) hf
    have h3 : e'.anpNames = _ := congrArg (·.2.2.1) hf
    have h4 : e'.banp = _ := congrArg (·.2.2.2.1) hf
    have h5 : e'.exposure = _ := congrArg (·.2.2.2.2) hf
    simp only at h1 h2 h3 h4 h5
    exact ⟨⟨[], by simp [h1]⟩, ⟨[], by simp [h3]⟩, Or.inl h2, by simp [h4], h5⟩
  | pod p =>
    obtain ⟨_, hf⟩ := this
    exact ⟨⟨[], by simp [polFields_netpols hf]⟩, ⟨[], by simp [polFields_anpNames hf]⟩,
      Or.inl (polFields_anps hf), by simp [polFields_banp hf], polFields_exposure hf⟩
  | ns _ | wl _ | svc _ | ing _ | route _ =>
    have hf : polFields e' = polFields e := this
    exact ⟨⟨[], by simp [polFields_netpols hf]⟩, ⟨[], by simp [polFields_anpNames hf]⟩,
      Or.inl (polFields_anps hf), by simp [polFields_banp hf], polFields_exposure hf⟩

theorem mem_insertSorted {a x : ANP} {l : List ANP} : x ∈ insertSorted a l ↔ x = a ∨ x ∈ l := by
  induction l with
  | nil => simp [insertSorted]
  | cons b bs ih =>
    unfold insertSorted
    split
    · simp
    · simp only [List.mem_cons, ih]
      constructor
      · rintro (h | h | h)
        · exact Or.inr (Or.inl h)
        · exact Or.inl h
        · exact Or.inr (Or.inr h)
      · rintro (h | h | h)
        · exact Or.inr (Or.inl h)
        · exact Or.inl h
        · exact Or.inr (Or.inr h)

theorem insertSorted_perm (a : ANP) (l : List ANP) : (insertSorted a l).Perm (a :: l) := by
  induction l with
  | nil => simp [insertSorted]
  | cons b bs ih =>
    unfold insertSorted
    split
    · exact List.Perm.refl _
    · exact ((List.Perm.cons b ih).trans (List.Perm.swap a b bs))

theorem build_eq (objs : List Obj) :
    Engine.build objs =
      match objs.foldlM insertObject ({} : Engine) with
      | .error err => .error err
      | .ok e =>
        match e.sortANPs with
        | .error err => .error err
        | .ok e' => .ok e'.resolveMissingNamespaces := by
  unfold Engine.build
  cases objs.foldlM insertObject ({} : Engine) with
  | error err => rfl
  | ok e =>
    show (e.sortANPs >>= fun e => pure e.resolveMissingNamespaces) = _
    simp only []
    cases e.sortANPs <;> rfl

theorem build_error_of_fold {objs : List Obj}
    (h : ∃ err, objs.foldlM insertObject ({} : Engine) = .error err) :
    ∃ err, Engine.build objs = .error err := by
  obtain ⟨err, he⟩ := h
  exact ⟨err, by rw [build_eq, he]⟩

/-! ### the three "seen" flags -/

theorem hasNetpol_mono {e e' : Engine} {o : Obj} {ns name : String} (hs : hasNetpol e ns name)
    (h : e.insertObject o = .ok e') : hasNetpol e' ns name := by
  obtain ⟨⟨t, ht⟩, _⟩ := insertObject_fields h
  unfold hasNetpol at hs ⊢
  rw [ht, List.any_append, hs]; rfl

theorem hasNetpol_set {e e' : Engine} {p : NetPol} (h : e.insertObject (.np p) = .ok e') :
    hasNetpol e' (npNs p) p.name := by
  obtain ⟨_, hf⟩ := insertObject_ok h
  have h1 : e'.netpols = _ := congrArg (·.1) hf
  simp only at h1
  unfold hasNetpol
  rw [h1, List.any_append]
  have : ([if p.ns == "" then { p with ns := "default" } else p].any
      fun q => q.ns == npNs p && q.name == p.name) = true := by
    unfold npNs; split <;> simp
  rw [this]; simp

theorem hasNetpol_trig {e : Engine} {p : NetPol} (hs : hasNetpol e (npNs p) p.name) :
    ∃ err, e.insertObject (.np p) = .error err := by
  cases h : e.insertObject (.np p) with
  | error err => exact ⟨err, rfl⟩
  | ok e' => exact absurd hs (insertObject_ok h).1

theorem anpName_mono {e e' : Engine} {o : Obj} {name : String} (hs : name ∈ e.anpNames)
    (h : e.insertObject o = .ok e') : name ∈ e'.anpNames := by
  obtain ⟨_, ⟨t, ht⟩, _⟩ := insertObject_fields h
  rw [ht]; exact List.mem_append_left _ hs

theorem anpName_set {e e' : Engine} {a : ANP} (h : e.insertObject (.anp a) = .ok e') :
    a.name ∈ e'.anpNames := by
  obtain ⟨_, _, hf⟩ := insertObject_ok h
  have h1 : e'.anpNames = _ := congrArg (·.2.2.1) hf
  simp only at h1
  rw [h1]; simp

theorem anpName_trig {e : Engine} {a : ANP} (hs : a.name ∈ e.anpNames) :
    ∃ err, e.insertObject (.anp a) = .error err := by
  cases h : e.insertObject (.anp a) with
  | error err => exact ⟨err, rfl⟩
  | ok e' => exact absurd hs (insertObject_ok h).2.1

theorem banp_mono {e e' : Engine} {o : Obj} (hs : e.banp.isSome = true)
    (h : e.insertObject o = .ok e') : e'.banp.isSome = true :=
  (insertObject_fields h).2.2.2.1 hs

theorem banp_set {e e' : Engine} {b : BANP} (h : e.insertObject (.banp b) = .ok e') :
    e'.banp.isSome = true := by
  obtain ⟨_, _, _, hf⟩ := insertObject_ok h
  have h1 : e'.banp = _ := congrArg (·.2.2.2.1) hf
  simp only at h1
  rw [h1]; rfl

theorem banp_trig {e : Engine} {b : BANP} (hs : e.banp.isSome = true) :
    ∃ err, e.insertObject (.banp b) = .error err := by
  cases h : e.insertObject (.banp b) with
  | error err => exact ⟨err, rfl⟩
  | ok e' =>
    have := (insertObject_ok h).2.1
    rw [this] at hs; cases hs

theorem banp_name_trig {e : Engine} {b : BANP} (hb : b.name ≠ "default") :
    ∃ err, e.insertObject (.banp b) = .error err := by
  cases h : e.insertObject (.banp b) with
  | error err => exact ⟨err, rfl⟩
  | ok e' => exact absurd (insertObject_ok h).2.2.1 hb

theorem badPod_trig {e : Engine} {p : Pod} (hp : p.hostIP = "") :
    ∃ err, e.insertObject (.pod p) = .error err := by
  cases h : e.insertObject (.pod p) with
  | error err => exact ⟨err, rfl⟩
  | ok e' => exact absurd hp (insertObject_ok h).1

/-! ### the ANP list after the fold -/

/-- the objects of one kind, in input order -/
def npsOf (objs : List Obj) : List NetPol := objs.filterMap fun | .np p => some p | _ => none
def anpsOf (objs : List Obj) : List ANP := objs.filterMap fun | .anp a => some a | _ => none
def banpsOf (objs : List Obj) : List BANP := objs.filterMap fun | .banp b => some b | _ => none
def podsOf (objs : List Obj) : List Pod := objs.filterMap fun | .pod p => some p | _ => none

theorem mem_anpsOf {objs : List Obj} {a : ANP} : a ∈ anpsOf objs ↔ .anp a ∈ objs := by
  unfold anpsOf
  rw [List.mem_filterMap]
  constructor
  · rintro ⟨o, ho, h⟩
    cases o <;> simp at h
    subst h; exact ho
  · intro h; exact ⟨_, h, rfl⟩

theorem mem_npsOf {objs : List Obj} {a : NetPol} : a ∈ npsOf objs ↔ .np a ∈ objs := by
  unfold npsOf
  rw [List.mem_filterMap]
  constructor
  · rintro ⟨o, ho, h⟩
    cases o <;> simp at h
    subst h; exact ho
  · intro h; exact ⟨_, h, rfl⟩

theorem mem_banpsOf {objs : List Obj} {a : BANP} : a ∈ banpsOf objs ↔ .banp a ∈ objs := by
  unfold banpsOf
  rw [List.mem_filterMap]
  constructor
  · rintro ⟨o, ho, h⟩
    cases o <;> simp at h
    subst h; exact ho
  · intro h; exact ⟨_, h, rfl⟩

theorem mem_podsOf {objs : List Obj} {a : Pod} : a ∈ podsOf objs ↔ .pod a ∈ objs := by
  unfold podsOf
  rw [List.mem_filterMap]
  constructor
  · rintro ⟨o, ho, h⟩
    cases o <;> simp at h
    subst h; exact ho
  · intro h; exact ⟨_, h, rfl⟩

theorem anpsOf_cons_anp (a : ANP) (l : List Obj) : anpsOf (.anp a :: l) = a :: anpsOf l := rfl

theorem anpsOf_cons_other {o : Obj} (l : List Obj) (h : ∀ a, o ≠ .anp a) :
    anpsOf (o :: l) = anpsOf l := by
  cases o <;> first | rfl | exact absurd rfl (h _)

theorem anpsOf_append (l1 l2 : List Obj) : anpsOf (l1 ++ l2) = anpsOf l1 ++ anpsOf l2 := by
  unfold anpsOf; rw [List.filterMap_append]

/-- after a successful fold, the ANP list of the engine is a permutation of the ANPs it had plus
all ANP objects of the input: no step removes or duplicates an ANP -/
theorem fold_anps_perm {objs : List Obj} {e0 e : Engine}
    (h : objs.foldlM insertObject e0 = .ok e) : e.anps.Perm (e0.anps ++ anpsOf objs) := by
  induction objs generalizing e0 with
  | nil =>
    simp [pure, Except.pure] at h; subst h; simp [anpsOf]
  | cons o objs ih =>
    rw [List.foldlM_cons] at h
    cases h1 : e0.insertObject o with
    | error err => simp [h1, bind, Except.bind] at h
    | ok e1 =>
      simp only [h1, bind, Except.bind] at h
      have ih' := ih h
      have hok := insertObject_ok h1
      cases o with
      | anp a =>
        obtain ⟨_, _, hf⟩ := hok
        have h2 : e1.anps = _ := congrArg (·.2.1) hf
        simp only at h2
        rw [h2] at ih'
        rw [anpsOf_cons_anp]
        refine ih'.trans ?_
        refine ((insertSorted_perm a e0.anps).append_right _).trans ?_
        exact (List.perm_middle (l₁ := e0.anps) (a := a) (l₂ := anpsOf objs)).symm
      | np p =>
        obtain ⟨_, hf⟩ := hok
        have h2 : e1.anps = _ := congrArg (·.2.1) hf
        simp only at h2
        rw [h2] at ih'
        rw [anpsOf_cons_other _ (by intro a h; cases h)]; exact ih'
      | banp b =>
        obtain ⟨_, _, _, hf⟩ := hok
        have h2 : e1.anps = _ := congrArg (·.2.1) hf
        simp only at h2
        rw [h2] at ih'
        rw [anpsOf_cons_other _ (by intro a h; cases h)]; exact ih'
      | pod p =>
        rw [polFields_anps hok.2] at ih'
        rw [anpsOf_cons_other _ (by intro a h; cases h)]; exact ih'
      | ns _ | wl _ | svc _ | ing _ | route _ =>
        have hf : polFields e1 = polFields e0 := hok
        rw [polFields_anps hf] at ih'
        rw [anpsOf_cons_other _ (by intro a h; cases h)]; exact ih'

/-- every ANP object of the input is in the ANP list of the folded engine -/
theorem fold_anps_mem {objs : List Obj} {e0 e : Engine}
    (h : objs.foldlM insertObject e0 = .ok e) {a : ANP} (ha : .anp a ∈ objs) : a ∈ e.anps :=
  (fold_anps_perm h).mem_iff.mpr (List.mem_append_right _ (mem_anpsOf.mpr ha))

/-! ### `sortANPs` -/

theorem sortANPs_error_of_invalid {e : Engine} {a : ANP} (ha : a ∈ e.anps)
    (hv : a.validPriority = false) : e.sortANPs = .error .anpPriority := by
  unfold sortANPs
  have : (e.anps.any fun a => !a.validPriority) = true :=
    List.any_eq_true.mpr ⟨a, ha, by simp [hv]⟩
  simp [this]

theorem sortANPs_error_of_dup {e : Engine} (h : ¬ (e.anps.map (·.prio)).Nodup) :
    e.sortANPs = .error .anpPriority := by
  unfold sortANPs
  simp only
  split
  · rfl
  · simp [h]

theorem sortANPs_ok_of {e : Engine} (hv : ∀ a ∈ e.anps, a.validPriority = true)
    (h : (e.anps.map (·.prio)).Nodup) : ∃ e', e.sortANPs = .ok e' := by
  unfold sortANPs
  have : (e.anps.any fun a => !a.validPriority) = false := by
    rw [List.any_eq_false]; intro a ha; simp [hv a ha]
  simp [this, h]

/-! ### the priorities held by the engine -/

/-- the priorities of the policies the engine holds are pairwise distinct and within 0..1000 -/
def PrioInv (e : Engine) : Prop :=
  (e.anps.map (·.prio)).Nodup ∧ ∀ a ∈ e.anps, a.validPriority = true

theorem prioInv_insertSorted {l : List ANP} {a : ANP}
    (hi : (l.map (·.prio)).Nodup ∧ ∀ b ∈ l, b.validPriority = true)
    (hv : a.validPriority = true) (hp : ∀ b ∈ l, b.prio ≠ a.prio) :
    ((insertSorted a l).map (·.prio)).Nodup ∧ ∀ b ∈ insertSorted a l, b.validPriority = true := by
  constructor
  · refine (((insertSorted_perm a l).map (·.prio)).nodup_iff).mpr ?_
    rw [List.map_cons, List.nodup_cons]
    refine ⟨?_, hi.1⟩
    intro hm
    obtain ⟨b, hb, hbp⟩ := List.mem_map.mp hm
    exact hp b hb hbp
  · intro b hb
    rcases mem_insertSorted.mp hb with rfl | hb
    · exact hv
    · exact hi.2 b hb

/-- every successful `insertObject` keeps the priorities distinct and valid: `insertANP` refuses
the policies that would not -/
theorem insertObject_prioInv {e e' : Engine} {o : Obj} (h : e.insertObject o = .ok e')
    (hi : PrioInv e) : PrioInv e' := by
  have hok := insertObject_ok h
  unfold PrioInv
  cases o with
  | anp a =>
    obtain ⟨hv, hp⟩ := insertObject_anp_prio h
    obtain ⟨_, _, hf⟩ := hok
    have h2 : e'.anps = _ := congrArg (·.2.1) hf
    simp only at h2
    rw [h2]
    exact prioInv_insertSorted hi hv hp
  | np p =>
    obtain ⟨_, hf⟩ := hok
    have h2 : e'.anps = _ := congrArg (·.2.1) hf
    simp only at h2
    rw [h2]; exact hi
  | banp b =>
    obtain ⟨_, _, _, hf⟩ := hok
    have h2 : e'.anps = _ := congrArg (·.2.1) hf
    simp only at h2
    rw [h2]; exact hi
  | pod p => rw [polFields_anps hok.2]; exact hi
  | ns _ | wl _ | svc _ | ing _ | route _ =>
    have hf : polFields e' = polFields e := hok
    rw [polFields_anps hf]; exact hi

theorem fold_prioInv {objs : List Obj} {e0 e : Engine} (h : objs.foldlM insertObject e0 = .ok e)
    (hi : PrioInv e0) : PrioInv e :=
  foldlM_invariant (f := insertObject) PrioInv (fun _ _ _ hs hstep => insertObject_prioInv hstep hs)
    objs e0 e hi h

theorem prioInv_empty : PrioInv ({} : Engine) := ⟨List.nodup_nil, fun _ h => by cases h⟩

/-- **`build` never reaches the sort with a conflict**: after a successful insertion fold the
priorities are pairwise distinct and valid, so `sortANPs` accepts -/
theorem fold_sortANPs_ok {objs : List Obj} {e : Engine}
    (h : objs.foldlM insertObject ({} : Engine) = .ok e) : ∃ e', e.sortANPs = .ok e' := by
  obtain ⟨h1, h2⟩ := fold_prioInv h prioInv_empty
  exact sortANPs_ok_of h2 h1

/-- hence `build` fails exactly when the insertion fold fails, with its error -/
theorem build_error_iff_fold {objs : List Obj} {err : Err} :
    Engine.build objs = .error err ↔ objs.foldlM insertObject ({} : Engine) = .error err := by
  rw [build_eq]
  cases hf : objs.foldlM insertObject ({} : Engine) with
  | error err' => simp
  | ok e =>
    obtain ⟨e', he'⟩ := fold_sortANPs_ok hf
    simp [he']

theorem sortANPs_error {e : Engine} {err : Err} (h : e.sortANPs = .error err) :
    err = .anpPriority := by
  unfold sortANPs at h
  simp only at h
  split at h
  · cases h; rfl
  · split at h
    · cases h; rfl
    · cases h

theorem not_nodup_of_split {α : Type} {l1 l2 l3 : List α} {a : α} :
    ¬ (l1 ++ a :: (l2 ++ a :: l3)).Nodup := by
  intro h
  have h1 := (List.nodup_append.mp h).2.1
  have h2 := (List.nodup_cons.mp h1).1
  exact h2 (List.mem_append_right _ (List.mem_cons_self ..))

/-! ### no false alarm: the fold succeeds on conflict-free input -/

/-- the key under which the engine files a NetworkPolicy -/
def npKey (p : NetPol) : String × String := (npNs p, p.name)

theorem insertObject_np_ok {e : Engine} {p : NetPol} (h : ¬ hasNetpol e (npNs p) p.name) :
    ∃ e', e.insertObject (.np p) = .ok e' := by
  have hk : ∀ q : NetPol,
      (q.ns == (if p.ns == "" then { p with ns := "default" } else p).ns &&
        q.name == (if p.ns == "" then { p with ns := "default" } else p).name) =
      (q.ns == npNs p && q.name == p.name) := by
    intro q; unfold npNs; split <;> rfl
  simp only [insertObject, insertNetpol, hk]
  unfold hasNetpol at h
  rw [if_neg h]
  exact ⟨_, rfl⟩

theorem insertObject_anp_ok {e : Engine} {a : ANP} (hexp : e.exposure = false)
    (h : a.name ∉ e.anpNames) (hv : a.validPriority = true) (hp : ∀ b ∈ e.anps, b.prio ≠ a.prio) :
    ∃ e', e.insertObject (.anp a) = .ok e' :=
  insertANP_ok_iff.mpr ⟨hexp, h, hv, hp⟩

theorem insertObject_banp_ok {e : Engine} {b : BANP} (hexp : e.exposure = false)
    (h : e.banp = none) (hb : b.name = "default") : ∃ e', e.insertObject (.banp b) = .ok e' := by
  simp [insertObject, insertBANP, hexp, h, hb]

theorem insertObject_pod_ok {e : Engine} {p : Pod} (h : p.hostIP ≠ "") :
    ∃ e', e.insertObject (.pod p) = .ok e' := by
  simp [insertObject, h]

theorem fold_ok_of_conflict_free (objs : List Obj) (e0 : Engine)
    (hexp : e0.exposure = false)
    (hnp : (e0.netpols.map (fun q => (q.ns, q.name)) ++ (npsOf objs).map npKey).Nodup)
    (hanp : (e0.anpNames ++ (anpsOf objs).map (·.name)).Nodup)
    (hbanp : (e0.banp.toList ++ banpsOf objs).length ≤ 1)
    (hbn : ∀ b ∈ banpsOf objs, b.name = "default")
    (hpod : ∀ p ∈ podsOf objs, p.hostIP ≠ "")
    (hprio : (e0.anps.map (·.prio) ++ (anpsOf objs).map (·.prio)).Nodup)
    (hvalid : ∀ a ∈ anpsOf objs, a.validPriority = true) :
    ∃ e, objs.foldlM insertObject e0 = .ok e := by
  induction objs generalizing e0 with
  | nil => exact ⟨e0, rfl⟩
  | cons o objs ih =>
    -- it is enough that the first step succeeds and re-establishes the hypotheses
    have key : ∀ e1, e0.insertObject o = .ok e1 →
        (e1.exposure = false ∧
        (e1.netpols.map (fun q => (q.ns, q.name)) ++ (npsOf objs).map npKey).Nodup ∧
        (e1.anpNames ++ (anpsOf objs).map (·.name)).Nodup ∧
        (e1.banp.toList ++ banpsOf objs).length ≤ 1 ∧
        (∀ b ∈ banpsOf objs, b.name = "default") ∧
        (∀ p ∈ podsOf objs, p.hostIP ≠ "") ∧
        (e1.anps.map (·.prio) ++ (anpsOf objs).map (·.prio)).Nodup ∧
        (∀ a ∈ anpsOf objs, a.validPriority = true)) →
        ∃ e, (o :: objs).foldlM insertObject e0 = .ok e := by
      intro e1 h1 ⟨a1, a2, a3, a4, a5, a6, a7, a8⟩
      obtain ⟨e, he⟩ := ih e1 a1 a2 a3 a4 a5 a6 a7 a8
      exact ⟨e, by rw [List.foldlM_cons, h1]; exact he⟩
    have other : (∃ e1, e0.insertObject o = .ok e1 ∧ polFields e1 = polFields e0) →
        npsOf (o :: objs) = npsOf objs → anpsOf (o :: objs) = anpsOf objs →
        banpsOf (o :: objs) = banpsOf objs → podsOf (o :: objs) = podsOf objs →
        ∃ e, (o :: objs).foldlM insertObject e0 = .ok e := by
      intro ⟨e1, h1, hf⟩ q1 q2 q3 q4
      rw [q1] at hnp; rw [q2] at hanp hprio hvalid; rw [q3] at hbanp hbn; rw [q4] at hpod
      exact key e1 h1 ⟨by rw [polFields_exposure hf]; exact hexp,
        by rw [polFields_netpols hf]; exact hnp, by rw [polFields_anpNames hf]; exact hanp,
        by rw [polFields_banp hf]; exact hbanp, hbn, hpod,
        by rw [polFields_anps hf]; exact hprio, hvalid⟩
    -- the steps that leave the ANP list alone
    have anpsSame : anpsOf (o :: objs) = anpsOf objs → ∀ e1 : Engine, e1.anps = e0.anps →
        (e1.anps.map (·.prio) ++ (anpsOf objs).map (·.prio)).Nodup ∧
        (∀ a ∈ anpsOf objs, a.validPriority = true) := by
      intro q e1 h1
      rw [q] at hprio hvalid
      exact ⟨by rw [h1]; exact hprio, hvalid⟩
    cases o with
    | np p =>
      have hnp' : (e0.netpols.map (fun q => (q.ns, q.name)) ++
          npKey p :: (npsOf objs).map npKey).Nodup := hnp
      have hno : ¬ hasNetpol e0 (npNs p) p.name := by
        intro hh
        obtain ⟨q, hq, hqk⟩ := List.any_eq_true.mp hh
        simp only [Bool.and_eq_true, beq_iff_eq] at hqk
        have hm : npKey p ∈ e0.netpols.map (fun q => (q.ns, q.name)) :=
          List.mem_map.mpr ⟨q, hq, by simp [npKey, hqk.1, hqk.2]⟩
        exact (List.nodup_append.mp hnp').2.2 _ hm _ (List.mem_cons_self ..) rfl
      obtain ⟨e1, h1⟩ := insertObject_np_ok hno
      obtain ⟨_, hf⟩ := insertObject_ok h1
      have f1 : e1.netpols = _ := congrArg (·.1) hf
      have f3 : e1.anpNames = _ := congrArg (·.2.2.1) hf
      have f4 : e1.banp = _ := congrArg (·.2.2.2.1) hf
      have f5 : e1.exposure = _ := congrArg (·.2.2.2.2) hf
      simp only at f1 f3 f4 f5
      have f2 : e1.anps = _ := congrArg (·.2.1) hf
      simp only at f2
      refine key e1 h1 ⟨by rw [f5]; exact hexp, ?_, by rw [f3]; exact hanp, by rw [f4]; exact hbanp,
        hbn, hpod, anpsSame rfl e1 f2⟩
      rw [f1, List.map_append, List.append_assoc]
      have : List.map (fun q : NetPol => (q.ns, q.name))
          [if p.ns == "" then { p with ns := "default" } else p] = [npKey p] := by
        unfold npKey npNs; split <;> rfl
      rw [this]; exact hnp'
    | anp a =>
      have hanp' : (e0.anpNames ++ a.name :: (anpsOf objs).map (·.name)).Nodup := hanp
      have hno : a.name ∉ e0.anpNames := fun hm =>
        (List.nodup_append.mp hanp').2.2 _ hm _ (List.mem_cons_self ..) rfl
      have hprio' : (e0.anps.map (·.prio) ++ a.prio :: (anpsOf objs).map (·.prio)).Nodup := hprio
      have hfresh : ∀ b ∈ e0.anps, b.prio ≠ a.prio := fun b hb hp =>
        (List.nodup_append.mp hprio').2.2 _ (List.mem_map.mpr ⟨b, hb, rfl⟩) _
          (List.mem_cons_self ..) hp
      obtain ⟨e1, h1⟩ := insertObject_anp_ok hexp hno
        (hvalid a (by show a ∈ a :: anpsOf objs; simp)) hfresh
      obtain ⟨_, _, hf⟩ := insertObject_ok h1
      have f1 : e1.netpols = _ := congrArg (·.1) hf
      have f2 : e1.anps = _ := congrArg (·.2.1) hf
      have f3 : e1.anpNames = _ := congrArg (·.2.2.1) hf
      have f4 : e1.banp = _ := congrArg (·.2.2.2.1) hf
      have f5 : e1.exposure = _ := congrArg (·.2.2.2.2) hf
      simp only at f1 f2 f3 f4 f5
      refine key e1 h1 ⟨by rw [f5]; exact hexp, by rw [f1]; exact hnp, ?_, by rw [f4]; exact hbanp,
        hbn, hpod, ?_, fun a' ha' => hvalid a' (by show a' ∈ a :: anpsOf objs; simp [ha'])⟩
      · rw [f3, List.append_assoc]; exact hanp'
      · rw [f2]
        refine (List.Perm.nodup_iff ?_).mpr hprio'
        refine ((((insertSorted_perm a e0.anps).map _).append_right _).trans ?_)
        exact (List.perm_middle (l₁ := e0.anps.map (·.prio)) (a := a.prio)
          (l₂ := (anpsOf objs).map (·.prio))).symm
    | banp b =>
      have hbanp' : (e0.banp.toList ++ b :: banpsOf objs).length ≤ 1 := hbanp
      have hnone : e0.banp = none := by
        cases hb : e0.banp with
        | none => rfl
        | some _ => rw [hb] at hbanp'; simp at hbanp'
      have hrest : banpsOf objs = [] := by
        rw [hnone] at hbanp'
        simp at hbanp'
        exact hbanp'
      have hb : b.name = "default" := hbn b (by show b ∈ b :: banpsOf objs; simp)
      obtain ⟨e1, h1⟩ := insertObject_banp_ok hexp hnone hb
      obtain ⟨_, _, _, hf⟩ := insertObject_ok h1
      have f1 : e1.netpols = _ := congrArg (·.1) hf
      have f3 : e1.anpNames = _ := congrArg (·.2.2.1) hf
      have f4 : e1.banp = _ := congrArg (·.2.2.2.1) hf
      have f5 : e1.exposure = _ := congrArg (·.2.2.2.2) hf
      simp only at f1 f3 f4 f5
      have f2 : e1.anps = _ := congrArg (·.2.1) hf
      simp only at f2
      refine key e1 h1 ⟨by rw [f5]; exact hexp, by rw [f1]; exact hnp, by rw [f3]; exact hanp, ?_,
        fun b' hb' => hbn b' (by show b' ∈ b :: banpsOf objs; simp [hb']), hpod,
        anpsSame rfl e1 f2⟩
      rw [f4, hrest]; simp
    | pod p =>
      have hp : p.hostIP ≠ "" := hpod p (by show p ∈ p :: podsOf objs; simp)
      obtain ⟨e1, h1⟩ := insertObject_pod_ok (e := e0) hp
      obtain ⟨_, hf⟩ := insertObject_ok h1
      refine key e1 h1 ⟨by rw [polFields_exposure hf]; exact hexp,
        by rw [polFields_netpols hf]; exact hnp, by rw [polFields_anpNames hf]; exact hanp,
        by rw [polFields_banp hf]; exact hbanp, hbn,
        fun p' hp' => hpod p' (by show p' ∈ p :: podsOf objs; simp [hp']),
        anpsSame rfl e1 (polFields_anps hf)⟩
    | ns _ | wl _ | svc _ | ing _ | route _ =>
      exact other ⟨_, rfl, by first | rfl | exact polFields_insertWorkload _ _⟩ rfl rfl rfl rfl

/-! ### the errors of the insertion fold -/

theorem insertObject_np_dup {e : Engine} {p : NetPol} (h : hasNetpol e (npNs p) p.name) :
    e.insertObject (.np p) = .error .dupNetpol := by
  have hk : ∀ q : NetPol,
      (q.ns == (if p.ns == "" then { p with ns := "default" } else p).ns &&
        q.name == (if p.ns == "" then { p with ns := "default" } else p).name) =
      (q.ns == npNs p && q.name == p.name) := by
    intro q; unfold npNs; split <;> rfl
  simp only [insertObject, insertNetpol, hk]
  unfold hasNetpol at h
  rw [if_pos h]

/-- the conflict classes: the only errors `insertObject` raises on an engine without exposure
analysis -/
def conflictErrs : List Err :=
  [.dupNetpol, .dupANP, .anpPriority, .banpExists, .banpName, .badPod]

theorem insertObject_error_class {e : Engine} {o : Obj} {err : Err} (hexp : e.exposure = false)
    (h : e.insertObject o = .error err) : err ∈ conflictErrs := by
  cases o with
  | ns _ => cases h
  | wl _ => cases h
  | svc _ => cases h
  | ing _ => cases h
  | route _ => cases h
  | pod p =>
    simp only [insertObject] at h
    split at h
    · cases h; simp [conflictErrs]
    · cases h
  | np p =>
    by_cases hs : hasNetpol e (npNs p) p.name
    · rw [insertObject_np_dup hs] at h; cases h; simp [conflictErrs]
    · obtain ⟨e', he'⟩ := insertObject_np_ok hs
      rw [he'] at h; cases h
  | anp a =>
    simp only [insertObject, insertANP, hexp, Bool.false_eq_true, if_false] at h
    split at h
    · cases h; simp [conflictErrs]
    · split at h
      · cases h; simp [conflictErrs]
      · split at h
        · cases h; simp [conflictErrs]
        · cases h
  | banp b =>
    simp only [insertObject, insertBANP, hexp, Bool.false_eq_true, if_false] at h
    split at h
    · cases h; simp [conflictErrs]
    · split at h
      · cases h; simp [conflictErrs]
      · cases h

theorem fold_error_class {objs : List Obj} {e0 : Engine} {err : Err} (hexp : e0.exposure = false)
    (h : objs.foldlM insertObject e0 = .error err) : err ∈ conflictErrs := by
  induction objs generalizing e0 with
  | nil => cases h
  | cons o objs ih =>
    rw [List.foldlM_cons] at h
    cases h1 : e0.insertObject o with
    | error err' =>
      rw [h1] at h
      cases h
      exact insertObject_error_class hexp h1
    | ok e1 =>
      rw [h1] at h
      exact ih (by rw [(insertObject_fields h1).2.2.2.2]; exact hexp) h

/-! ## E. `podOwnersMap` -/

theorem labelsEq_symm (a b : Labels) : labelsEq a b = labelsEq b a := by
  unfold labelsEq; exact Bool.and_comm _ _

theorem labels_get?_mem {l : Labels} {k v : String} (h : l.get? k = some v) : (k, v) ∈ l := by
  unfold Labels.get? at h
  cases hf : l.find? (·.1 == k) with
  | none => simp [hf] at h
  | some kv =>
    simp only [hf, Option.map_some, Option.some.injEq] at h
    have h1 := List.find?_some hf
    have h2 := List.mem_of_find?_eq_some hf
    simp only [beq_iff_eq] at h1
    have : kv = (k, v) := by cases kv; simp_all
    rw [← this]; exact h2

theorem labelsEq_half_trans {a b c : Labels}
    (hab : a.all (fun kv => b.get? kv.1 == some kv.2) = true)
    (hbc : b.all (fun kv => c.get? kv.1 == some kv.2) = true) :
    a.all (fun kv => c.get? kv.1 == some kv.2) = true := by
  rw [List.all_eq_true] at hab hbc ⊢
  intro kv hkv
  have h1 := hab kv hkv
  simp only [beq_iff_eq] at h1
  exact hbc _ (labels_get?_mem h1)

/-- label-map equality is transitive (and symmetric, `labelsEq_symm`); it is reflexive only on
maps without conflicting duplicate keys, which is not needed below -/
theorem labelsEq_trans {a b c : Labels} (hab : labelsEq a b = true) (hbc : labelsEq b c = true) :
    labelsEq a c = true := by
  unfold labelsEq at hab hbc ⊢
  rw [Bool.and_eq_true] at hab hbc ⊢
  exact ⟨labelsEq_half_trans hab.1 hbc.1, labelsEq_half_trans hbc.2 hab.2⟩

/-! ### the pods in key order -/

theorem sortedPods_perm (e : Engine) : e.sortedPods.Perm e.pods := List.mergeSort_perm _ _

theorem mem_sortedPods {e : Engine} {p : Pod} : p ∈ e.sortedPods ↔ p ∈ e.pods :=
  (sortedPods_perm e).mem_iff

/-- the sorted pods are sorted -/
theorem sortedPods_sorted (e : Engine) : e.sortedPods.Pairwise (fun a b => podKey a ≤ podKey b) := by
  have := List.pairwise_mergeSort (le := fun a b : Pod => decide (podKey a ≤ podKey b))
    (fun a b c h1 h2 => by
      simp only [decide_eq_true_eq] at *
      exact String.le_trans h1 h2)
    (fun a b => by
      simp only [Bool.or_eq_true, decide_eq_true_eq]
      exact String.le_total _ _) e.pods
  exact this.imp (fun h => by simpa using h)

theorem eq_of_podKey_eq_of_sorted {l : List Pod} (hs : l.Pairwise (fun a b => podKey a < podKey b))
    {a b : Pod} (ha : a ∈ l) (hb : b ∈ l) (hk : podKey a = podKey b) : a = b := by
  induction l with
  | nil => cases hb
  | cons x xs ih =>
    rw [List.pairwise_cons] at hs
    rcases List.mem_cons.mp ha with rfl | hax <;> rcases List.mem_cons.mp hb with rfl | hbx
    · rfl
    · have := hs.1 b hbx; rw [hk] at this; exact absurd this (String.lt_irrefl _)
    · have := hs.1 a hax; rw [← hk] at this; exact absurd this (String.lt_irrefl _)
    · exact ih hs.2 hax hbx

/-- a strictly key-sorted arrangement of the pods is the sorted pod list (for evaluating
`podOwnersMap` on concrete engines: `mergeSort` is defined by well-founded recursion, `decide`
cannot unfold it) -/
theorem sortedPods_eq {e : Engine} {l : List Pod} (hp : l.Perm e.pods)
    (hs : l.Pairwise (fun a b => podKey a < podKey b)) : e.sortedPods = l := by
  refine List.Perm.eq_of_pairwise (le := fun a b => podKey a ≤ podKey b) ?_ (sortedPods_sorted e)
    (hs.imp (fun h => String.not_lt.mp (String.lt_asymm h))) ((sortedPods_perm e).trans hp.symm)
  intro a b ha hb h1 h2
  exact eq_of_podKey_eq_of_sorted hs (hp.mem_iff.mpr (mem_sortedPods.mp ha)) hb
    (String.le_antisymm h1 h2)

/-! an insertion sort by key, which `decide` can run (it compares keys only and moves the pods
around unevaluated); on pod maps — unique keys — it is the `mergeSort` of `sortedPods` -/

/-- insert a pod into a key-sorted list -/
def insertPod (p : Pod) : List Pod → List Pod
  | [] => [p]
  | q :: qs => if podKey p ≤ podKey q then p :: q :: qs else q :: insertPod p qs

/-- insertion sort by key -/
def isortPods (l : List Pod) : List Pod := l.foldr insertPod []

theorem insertPod_perm (p : Pod) (l : List Pod) : (insertPod p l).Perm (p :: l) := by
  induction l with
  | nil => exact List.Perm.refl _
  | cons q qs ih =>
    unfold insertPod
    split
    · exact List.Perm.refl _
    · exact (List.Perm.cons q ih).trans (List.Perm.swap p q qs)

theorem isortPods_perm (l : List Pod) : (isortPods l).Perm l := by
  induction l with
  | nil => exact List.Perm.refl _
  | cons p l ih => exact (insertPod_perm p _).trans (List.Perm.cons p ih)

theorem insertPod_sorted (p : Pod) {l : List Pod}
    (h : l.Pairwise (fun a b => podKey a ≤ podKey b)) :
    (insertPod p l).Pairwise (fun a b => podKey a ≤ podKey b) := by
  induction l with
  | nil => simp [insertPod]
  | cons q qs ih =>
    rw [List.pairwise_cons] at h
    unfold insertPod
    split
    · rename_i hle
      rw [List.pairwise_cons]
      refine ⟨?_, List.pairwise_cons.mpr h⟩
      intro x hx
      rcases List.mem_cons.mp hx with rfl | hx'
      · exact hle
      · exact String.le_trans hle (h.1 x hx')
    · rename_i hle
      have hqp : podKey q ≤ podKey p := by
        rcases String.le_total (podKey p) (podKey q) with h1 | h1
        · exact absurd h1 hle
        · exact h1
      rw [List.pairwise_cons]
      refine ⟨?_, ih h.2⟩
      intro x hx
      rcases List.mem_cons.mp ((insertPod_perm p qs).mem_iff.mp hx) with rfl | hx'
      · exact hqp
      · exact h.1 x hx'

theorem isortPods_sorted (l : List Pod) :
    (isortPods l).Pairwise (fun a b => podKey a ≤ podKey b) := by
  induction l with
  | nil => exact List.Pairwise.nil
  | cons p l ih => exact insertPod_sorted p ih

theorem eq_of_podKey_eq_of_nodup {l : List Pod} (hn : (l.map podKey).Nodup) {a b : Pod}
    (ha : a ∈ l) (hb : b ∈ l) (hk : podKey a = podKey b) : a = b := by
  induction l with
  | nil => cases ha
  | cons z zs ih =>
    rw [List.map_cons, List.nodup_cons] at hn
    rcases List.mem_cons.mp ha with rfl | ha' <;> rcases List.mem_cons.mp hb with rfl | hb'
    · rfl
    · exact absurd (List.mem_map.mpr ⟨b, hb', hk.symm⟩) hn.1
    · exact absurd (List.mem_map.mpr ⟨a, ha', hk⟩) hn.1
    · exact ih hn.2 ha' hb'

/-- on a pod map (unique keys) the sorted pods are the insertion-sorted pods -/
theorem sortedPods_eq_isort {e : Engine} (hn : (e.pods.map podKey).Nodup) :
    e.sortedPods = isortPods e.pods := by
  refine List.Perm.eq_of_pairwise (le := fun a b => podKey a ≤ podKey b) ?_ (sortedPods_sorted e)
    (isortPods_sorted e.pods) ((sortedPods_perm e).trans (isortPods_perm e.pods).symm)
  intro a b ha hb h1 h2
  exact eq_of_podKey_eq_of_nodup hn (mem_sortedPods.mp ha) ((isortPods_perm _).mem_iff.mp hb)
    (String.le_antisymm h1 h2)

/-- `podOwnersMap` as `decide` can evaluate it -/
def podOwnersMapD (e : Engine) : Except Err (List (String × Pod)) :=
  podOwnersMapOf (isortPods e.pods)

theorem podOwnersMap_eq_D {e : Engine} (hn : (e.pods.map podKey).Nodup) :
    e.podOwnersMap = podOwnersMapD e := by
  unfold podOwnersMap podOwnersMapD; rw [sortedPods_eq_isort hn]

theorem podOwnersMap_eq {e : Engine} {l : List Pod} (hp : l.Perm e.pods)
    (hs : l.Pairwise (fun a b => podKey a < podKey b)) : e.podOwnersMap = podOwnersMapOf l := by
  unfold podOwnersMap; rw [sortedPods_eq hp hs]

/-- the key under which the first pod of an owner is remembered -/
def ownerKey (p : Pod) : String := p.ns ++ "//" ++ p.ownerKind ++ "/" ++ p.ownerName

/-- one step of the loop of `podOwnersMap` -/
theorem go_cons (firsts res : List (String × Pod)) (p : Pod) (rest : List Pod) :
    podOwnersMapOf.go firsts res (p :: rest) =
      if p.ownerName == "" then
        podOwnersMapOf.go firsts (upsert (·.1) (workloadName p, p) res) rest
      else match firsts.find? (·.1 == ownerKey p) with
        | none => podOwnersMapOf.go (firsts ++ [(ownerKey p, p)])
            (upsert (·.1) (workloadName p, p) res) rest
        | some (_, f) =>
          if labelsEq f.labels p.labels then
            podOwnersMapOf.go firsts (upsert (·.1) (workloadName p, p) res) rest
          else .error .ownerLabels := by
  rw [podOwnersMapOf.go]
  unfold ownerKey
  by_cases h1 : (p.ownerName == "") = true
  · simp only [h1, if_true]
  · simp only [h1, Bool.false_eq_true, if_false]
    cases firsts.find? (·.1 == p.ns ++ "//" ++ p.ownerKind ++ "/" ++ p.ownerName) with
    | none => rfl
    | some kf =>
      obtain ⟨k, f⟩ := kf
      simp only []
      by_cases h2 : labelsEq f.labels p.labels = true
      · simp only [h2, if_true]
      · simp only [h2, Bool.false_eq_true, if_false]

/-- the only error of the loop -/
theorem go_error {firsts res : List (String × Pod)} {l : List Pod} {err : Err}
    (h : podOwnersMapOf.go firsts res l = .error err) : err = .ownerLabels := by
  induction l generalizing firsts res with
  | nil => simp [podOwnersMapOf.go] at h
  | cons p rest ih =>
    rw [go_cons] at h
    split at h
    · exact ih h
    · split at h
      · exact ih h
      · split at h
        · exact ih h
        · cases h; rfl

/-- once a first pod `f` is remembered for an owner key, any later pod of that key whose labels
differ from those of `f` raises the error -/
theorem go_first_conflict {firsts res : List (String × Pod)} {l : List Pod} {k : String} {f q : Pod}
    (hf : firsts.find? (·.1 == ownerKey q) = some (k, f)) (hq : q ∈ l) (hown : q.ownerName ≠ "")
    (hne : labelsEq f.labels q.labels = false) :
    podOwnersMapOf.go firsts res l = .error .ownerLabels := by
  induction l generalizing firsts res with
  | nil => cases hq
  | cons p rest ih =>
    rw [go_cons]
    rcases List.mem_cons.mp hq with rfl | hq'
    · have : (q.ownerName == "") = false := by simpa using hown
      simp [this, hf, hne]
    · split
      · exact ih hf hq'
      · split
        · refine ih ?_ hq'
          rw [List.find?_append, hf]; rfl
        · split
          · exact ih hf hq'
          · rfl

/-- two pods of one owner (same namespace, same owner kind, same non-empty owner name) with
different labels, at any two positions of the pod list: the error is raised -/
theorem go_owner_labels {firsts res : List (String × Pod)} (l1 l2 l3 : List Pod) {p q : Pod}
    (hns : p.ns = q.ns) (hkind : p.ownerKind = q.ownerKind) (hown : p.ownerName = q.ownerName)
    (hne : p.ownerName ≠ "") (hl : labelsEq p.labels q.labels = false) :
    podOwnersMapOf.go firsts res (l1 ++ p :: (l2 ++ q :: l3)) = .error .ownerLabels := by
  have hkey : ownerKey p = ownerKey q := by unfold ownerKey; rw [hns, hkind, hown]
  have hq : q ∈ l2 ++ q :: l3 := List.mem_append_right _ (List.mem_cons_self ..)
  induction l1 generalizing firsts res with
  | nil =>
    rw [List.nil_append, go_cons]
    have : (p.ownerName == "") = false := by simpa using hne
    simp only [this, Bool.false_eq_true, if_false]
    cases hfind : firsts.find? (·.1 == ownerKey p) with
    | none =>
      simp only []
      refine go_first_conflict (k := ownerKey p) (f := p) ?_ hq (hown ▸ hne) hl
      rw [List.find?_append, ← hkey, hfind]
      simp
    | some kf =>
      obtain ⟨k, f⟩ := kf
      simp only []
      split
      · rename_i hfp
        refine go_first_conflict (k := k) (f := f) (hkey ▸ hfind) hq (hown ▸ hne) ?_
        cases hfq : labelsEq f.labels q.labels with
        | false => rfl
        | true =>
          have := labelsEq_trans (by rw [labelsEq_symm]; exact hfp) hfq
          rw [hl] at this; cases this
      · rfl
  | cons x l1 ih =>
    rw [List.cons_append, go_cons]
    split
    · exact ih
    · split
      · exact ih
      · split
        · exact ih
        · rfl

/-- two occurrences in a list are two occurrences, in one of the two orders, in every permutation
of it -/
theorem perm_two_split {α : Type} {l l' : List α} (hp : l.Perm l') {l1 l2 l3 : List α} {p q : α}
    (h : l = l1 ++ p :: (l2 ++ q :: l3)) :
    (∃ a b c, l' = a ++ p :: (b ++ q :: c)) ∨ (∃ a b c, l' = a ++ q :: (b ++ p :: c)) := by
  subst h
  have hpm : p ∈ l' := hp.mem_iff.mp (List.mem_append_right _ (List.mem_cons_self ..))
  obtain ⟨a, b, rfl⟩ := List.append_of_mem hpm
  have h1 : (p :: (a ++ b)).Perm (p :: (l1 ++ (l2 ++ q :: l3))) :=
    (List.perm_middle.symm.trans hp.symm).trans List.perm_middle
  have h2 : (a ++ b).Perm (l1 ++ (l2 ++ q :: l3)) := h1.cons_inv
  have hq : q ∈ a ++ b := h2.mem_iff.mpr
    (List.mem_append_right _ (List.mem_append_right _ (List.mem_cons_self ..)))
  rcases List.mem_append.mp hq with hqa | hqb
  · obtain ⟨a1, a2, rfl⟩ := List.append_of_mem hqa
    exact Or.inr ⟨a1, a2, b, by simp⟩
  · obtain ⟨b1, b2, rfl⟩ := List.append_of_mem hqb
    exact Or.inl ⟨a, b1, b2, rfl⟩

/-! ### the workload names of the peers list are distinct -/

theorem map_key_upsert {α : Type} (key : α → String) (x : α) (l : List α) :
    (upsert key x l).map key = if key x ∈ l.map key then l.map key else l.map key ++ [key x] := by
  induction l with
  | nil => simp [upsert]
  | cons y ys ih =>
    unfold upsert
    by_cases h : key y = key x
    · simp [h]
    · have h' : (key y == key x) = false := by simpa using h
      simp only [h', Bool.false_eq_true, if_false, List.map_cons, ih, List.mem_cons]
      have h2 : ¬ key x = key y := fun hh => h hh.symm
      simp only [h2, false_or]
      split <;> simp

theorem nodup_upsert {α : Type} (key : α → String) (x : α) {l : List α} (h : (l.map key).Nodup) :
    ((upsert key x l).map key).Nodup := by
  rw [map_key_upsert]
  split
  · exact h
  · rename_i hx
    rw [List.nodup_append]
    refine ⟨h, by simp, ?_⟩
    intro a ha b hb hab
    rw [List.mem_singleton] at hb
    subst hab; subst hb
    exact hx ha

theorem go_nodup {firsts res r : List (String × Pod)} {l : List Pod}
    (hres : (res.map (·.1)).Nodup) (h : podOwnersMapOf.go firsts res l = .ok r) :
    (r.map (·.1)).Nodup := by
  induction l generalizing firsts res with
  | nil => simp [podOwnersMapOf.go] at h; subst h; exact hres
  | cons p rest ih =>
    rw [go_cons] at h
    have hres' := nodup_upsert (·.1) (workloadName p, p) hres
    split at h
    · exact ih hres' h
    · split at h
      · exact ih hres' h
      · split at h
        · exact ih hres' h
        · cases h

theorem mem_upsert {α : Type} {key : α → String} {x y : α} {l : List α}
    (h : y ∈ upsert key x l) : y = x ∨ y ∈ l := by
  induction l with
  | nil => simp [upsert] at h; exact Or.inl h
  | cons z zs ih =>
    unfold upsert at h
    split at h
    · rcases List.mem_cons.mp h with rfl | h'
      · exact Or.inl rfl
      · exact Or.inr (List.mem_cons_of_mem _ h')
    · rcases List.mem_cons.mp h with rfl | h'
      · exact Or.inr (List.mem_cons_self ..)
      · rcases ih h' with h1 | h1
        · exact Or.inl h1
        · exact Or.inr (List.mem_cons_of_mem _ h1)

/-- every entry of the result comes from the initial result or is (workload name of a pod, pod) -/
theorem go_forall (Q : String × Pod → Prop) {firsts res r : List (String × Pod)} {l : List Pod}
    (hres : ∀ x ∈ res, Q x) (hl : ∀ p ∈ l, Q (workloadName p, p))
    (h : podOwnersMapOf.go firsts res l = .ok r) : ∀ x ∈ r, Q x := by
  induction l generalizing firsts res with
  | nil => simp [podOwnersMapOf.go] at h; subst h; exact hres
  | cons p rest ih =>
    rw [go_cons] at h
    have hres' : ∀ x ∈ upsert (·.1) (workloadName p, p) res, Q x := by
      intro x hx
      rcases mem_upsert hx with rfl | hx'
      · exact hl p (List.mem_cons_self ..)
      · exact hres x hx'
    have hl' : ∀ p ∈ rest, Q (workloadName p, p) := fun q hq => hl q (List.mem_cons_of_mem _ hq)
    split at h
    · exact ih hres' hl' h
    · split at h
      · exact ih hres' hl' h
      · split at h
        · exact ih hres' hl' h
        · cases h

/-! ## F. the IP partition -/

/-- `eraseDups` of a sorted list is strictly sorted -/
theorem pairwise_lt_eraseDups (n : Nat) : ∀ (l : List Int), l.length ≤ n →
    l.Pairwise (· ≤ ·) → l.eraseDups.Pairwise (· < ·) := by
  induction n with
  | zero =>
    intro l hl _
    have : l = [] := List.length_eq_zero_iff.mp (by omega)
    subst this; simp
  | succ n ih =>
    intro l hl hs
    cases l with
    | nil => simp
    | cons a as =>
      rw [List.eraseDups_cons]
      have hs' := List.pairwise_cons.mp hs
      have hfs : (as.filter fun b => !b == a).Pairwise (· ≤ ·) :=
        hs'.2.sublist List.filter_sublist
      have hlen : (as.filter fun b => !b == a).length ≤ n := by
        have := List.length_filter_le (fun b => !b == a) as
        simp only [List.length_cons] at hl
        omega
      refine List.pairwise_cons.mpr ⟨?_, ih _ hlen hfs⟩
      intro b hb
      rw [List.mem_eraseDups, List.mem_filter] at hb
      have h1 := hs'.1 b hb.1
      have h2 : b ≠ a := by simpa using hb.2
      omega

/-- the boundary points of the partition -/
def points (blocks : List Iv) : List Int :=
  (blocks.flatMap fun b => [b.lo, b.hi + 1]) ++ [0, ipMax + 1]

def sortedPoints (blocks : List Iv) : List Int :=
  ((points blocks).mergeSort (· ≤ ·)).eraseDups

/-- the range between two consecutive points, when it lies in the address space -/
def segF : Int × Int → Option Iv :=
  fun (a, b) => if a < b ∧ 0 ≤ a ∧ b ≤ ipMax + 1 then some ⟨a, b - 1⟩ else none

def segs (S : List Int) : List Iv := (S.zip S.tail).filterMap segF

theorem partition_eq (blocks : List Iv) : partition blocks = segs (sortedPoints blocks) := rfl

theorem sortedPoints_sorted (blocks : List Iv) : (sortedPoints blocks).Pairwise (· < ·) := by
  unfold sortedPoints
  refine pairwise_lt_eraseDups _ _ (Nat.le_refl _) ?_
  have := List.pairwise_mergeSort (le := fun (a b : Int) => decide (a ≤ b))
    (by intro a b c h1 h2; simp only [decide_eq_true_eq] at *; omega)
    (by intro a b; simp only [Bool.or_eq_true, decide_eq_true_eq]; omega) (points blocks)
  exact this.imp (by intro a b h; simpa using h)

theorem mem_sortedPoints {blocks : List Iv} {x : Int} :
    x ∈ sortedPoints blocks ↔ x ∈ points blocks := by
  unfold sortedPoints
  rw [List.mem_eraseDups, List.mem_mergeSort]

theorem zero_mem_points (blocks : List Iv) : (0 : Int) ∈ points blocks := by
  unfold points; simp

theorem top_mem_points (blocks : List Iv) : ipMax + 1 ∈ points blocks := by
  unfold points; simp

theorem lo_mem_points {blocks : List Iv} {b : Iv} (hb : b ∈ blocks) : b.lo ∈ points blocks := by
  unfold points
  refine List.mem_append_left _ (List.mem_flatMap.mpr ⟨b, hb, ?_⟩)
  simp

theorem hi_mem_points {blocks : List Iv} {b : Iv} (hb : b ∈ blocks) :
    b.hi + 1 ∈ points blocks := by
  unfold points
  refine List.mem_append_left _ (List.mem_flatMap.mpr ⟨b, hb, ?_⟩)
  simp

/-- consecutive elements of a strictly sorted list: no element of the list lies strictly between -/
theorem consec_no_between {S : List Int} (hS : S.Pairwise (· < ·)) {a b : Int}
    (hab : (a, b) ∈ S.zip S.tail) : a < b ∧ a ∈ S ∧ b ∈ S ∧ ∀ x ∈ S, ¬ (a < x ∧ x < b) := by
  induction S with
  | nil => simp at hab
  | cons s0 S1 ih =>
    cases S1 with
    | nil => simp at hab
    | cons s1 rest =>
      have h0 := List.pairwise_cons.mp hS
      have h1 := List.pairwise_cons.mp h0.2
      rw [List.tail_cons, List.zip_cons_cons] at hab
      rcases List.mem_cons.mp hab with heq | hab'
      · obtain ⟨rfl, rfl⟩ := Prod.mk.inj heq
        refine ⟨h0.1 _ (List.mem_cons_self ..), List.mem_cons_self ..,
          List.mem_cons_of_mem _ (List.mem_cons_self ..), ?_⟩
        intro x hx
        rcases List.mem_cons.mp hx with rfl | hx
        · omega
        · rcases List.mem_cons.mp hx with rfl | hx
          · omega
          · have := h1.1 x hx; omega
      · obtain ⟨i1, i2, i3, i4⟩ := ih h0.2 hab'
        refine ⟨i1, List.mem_cons_of_mem _ i2, List.mem_cons_of_mem _ i3, ?_⟩
        intro x hx
        rcases List.mem_cons.mp hx with rfl | hx
        · have := h0.1 a i2; omega
        · exact i4 x hx

/-- a value between two elements of a strictly sorted list lies between two consecutive ones -/
theorem consec_exists {S : List Int} (hS : S.Pairwise (· < ·)) {u v x : Int} (hu : u ∈ S)
    (hv : v ∈ S) (hux : u ≤ x) (hxv : x < v) : ∃ a b, (a, b) ∈ S.zip S.tail ∧ a ≤ x ∧ x < b := by
  induction S generalizing u with
  | nil => cases hu
  | cons s0 S1 ih =>
    have h0 := List.pairwise_cons.mp hS
    cases S1 with
    | nil =>
      rw [List.mem_singleton] at hu hv
      omega
    | cons s1 rest =>
      rw [List.tail_cons, List.zip_cons_cons]
      -- `v` is not the head
      have hv' : v ∈ s1 :: rest := by
        rcases List.mem_cons.mp hv with rfl | hv'
        · rcases List.mem_cons.mp hu with rfl | hu'
          · omega
          · have := h0.1 u hu'; omega
        · exact hv'
      by_cases hx : x < s1
      · rcases List.mem_cons.mp hu with rfl | hu'
        · exact ⟨u, s1, List.mem_cons_self .., hux, hx⟩
        · -- `u` in the tail: `s1 ≤ u ≤ x`, contradiction
          have h1 := List.pairwise_cons.mp h0.2
          rcases List.mem_cons.mp hu' with rfl | hu''
          · omega
          · have := h1.1 u hu''; omega
      · have hu1 : s1 ∈ s1 :: rest := List.mem_cons_self ..
        obtain ⟨a, b, hab, h1, h2⟩ := ih h0.2 hu1 hv' (by omega)
        rw [List.tail_cons] at hab
        exact ⟨a, b, List.mem_cons_of_mem _ hab, h1, h2⟩

theorem mem_segs {S : List Int} {r : Iv} :
    r ∈ segs S ↔ ∃ a b, (a, b) ∈ S.zip S.tail ∧ a < b ∧ 0 ≤ a ∧ b ≤ ipMax + 1 ∧ r = ⟨a, b - 1⟩ := by
  unfold segs
  rw [List.mem_filterMap]
  constructor
  · rintro ⟨⟨a, b⟩, hab, h⟩
    unfold segF at h
    simp only at h
    split at h
    · rename_i hc
      exact ⟨a, b, hab, hc.1, hc.2.1, hc.2.2, (Option.some.inj h).symm⟩
    · cases h
  · rintro ⟨a, b, hab, h1, h2, h3, rfl⟩
    refine ⟨(a, b), hab, ?_⟩
    unfold segF
    simp only
    rw [if_pos ⟨h1, h2, h3⟩]

theorem segs_cons_cons (a b : Int) (rest : List Int) :
    segs (a :: b :: rest) = (segF (a, b)).toList ++ segs (b :: rest) := by
  unfold segs
  rw [List.tail_cons, List.zip_cons_cons, List.filterMap_cons]
  cases segF (a, b) <;> rfl

/-- consecutive ranges touch -/
def Contig : List Iv → Prop
  | [] => True
  | [_] => True
  | a :: b :: rest => b.lo = a.hi + 1 ∧ Contig (b :: rest)

theorem contig_getElem {l : List Iv} (h : Contig l) (i : Nat) (hi : i + 1 < l.length) :
    l[i + 1].lo = l[i].hi + 1 := by
  induction l generalizing i with
  | nil => simp at hi
  | cons a l ih =>
    cases l with
    | nil => simp at hi
    | cons b rest =>
      obtain ⟨h1, h2⟩ := h
      cases i with
      | zero => exact h1
      | succ i =>
        have := ih h2 i (by simp only [List.length_cons] at hi ⊢; omega)
        simpa using this

theorem segs_nil_of_gt {S : List Int} (hS : S.Pairwise (· < ·)) {c : Int} (hc : ipMax + 1 ≤ c)
    (hall : ∀ x ∈ S, c ≤ x) : segs S = [] := by
  rw [List.eq_nil_iff_forall_not_mem]
  intro r hr
  obtain ⟨a, b, hab, h1, _, h3, _⟩ := mem_segs.mp hr
  obtain ⟨_, ha, _, _⟩ := consec_no_between hS hab
  have := hall a ha
  omega

theorem segs_head {b : Int} {rest : List Int} (hS : (b :: rest).Pairwise (· < ·)) (hb : 0 ≤ b) :
    segs (b :: rest) = [] ∨ ∃ r t, segs (b :: rest) = r :: t ∧ r.lo = b := by
  cases rest with
  | nil => left; rfl
  | cons c rest' =>
    have h0 := List.pairwise_cons.mp hS
    have hbc : b < c := h0.1 c (List.mem_cons_self ..)
    rw [segs_cons_cons]
    by_cases hc : c ≤ ipMax + 1
    · right
      refine ⟨⟨b, c - 1⟩, segs (c :: rest'), ?_, rfl⟩
      unfold segF
      simp only
      rw [if_pos ⟨hbc, hb, hc⟩]; rfl
    · left
      have : segF (b, c) = none := by
        unfold segF
        simp only
        rw [if_neg (by omega)]
      rw [this]
      have h1 := List.pairwise_cons.mp h0.2
      refine segs_nil_of_gt h0.2 (c := c) (by omega) ?_
      intro x hx
      rcases List.mem_cons.mp hx with rfl | hx
      · omega
      · have := h1.1 x hx; omega

theorem segs_contig {S : List Int} (hS : S.Pairwise (· < ·)) : Contig (segs S) := by
  induction S with
  | nil => exact True.intro
  | cons a S1 ih =>
    cases S1 with
    | nil => exact True.intro
    | cons b rest =>
      have h0 := List.pairwise_cons.mp hS
      have ih' := ih h0.2
      rw [segs_cons_cons]
      unfold segF
      simp only
      split
      · rename_i hc
        have hb : 0 ≤ b := by omega
        rcases segs_head h0.2 hb with hnil | ⟨r, t, hrt, hlo⟩
        · rw [hnil]; exact True.intro
        · rw [hrt] at ih' ⊢
          exact ⟨by simp [hlo], ih'⟩
      · exact ih'

theorem segs_pairwise {S : List Int} (hS : S.Pairwise (· < ·)) :
    (segs S).Pairwise (fun r r' => r.hi < r'.lo) := by
  induction S with
  | nil => exact List.Pairwise.nil
  | cons a S1 ih =>
    cases S1 with
    | nil => exact List.Pairwise.nil
    | cons b rest =>
      have h0 := List.pairwise_cons.mp hS
      have ih' := ih h0.2
      rw [segs_cons_cons]
      unfold segF
      simp only
      split
      · refine List.pairwise_cons.mpr ⟨?_, ih'⟩
        intro r' hr'
        obtain ⟨a', b', hab', _, _, _, rfl⟩ := mem_segs.mp hr'
        obtain ⟨_, ha', _, _⟩ := consec_no_between h0.2 hab'
        have h1 := List.pairwise_cons.mp h0.2
        simp only
        rcases List.mem_cons.mp ha' with rfl | ha''
        · omega
        · have := h1.1 a' ha''; omega
      · exact ih'

/-- a pairwise relation: two members are equal or related one way or the other -/
theorem pairwise_mem_cases {α : Type} {R : α → α → Prop} {l : List α} (h : l.Pairwise R)
    {x y : α} (hx : x ∈ l) (hy : y ∈ l) : x = y ∨ R x y ∨ R y x := by
  induction l with
  | nil => cases hx
  | cons a l ih =>
    have h0 := List.pairwise_cons.mp h
    rcases List.mem_cons.mp hx with rfl | hx'
    · rcases List.mem_cons.mp hy with rfl | hy'
      · exact Or.inl rfl
      · exact Or.inr (Or.inl (h0.1 y hy'))
    · rcases List.mem_cons.mp hy with rfl | hy'
      · exact Or.inr (Or.inr (h0.1 x hx'))
      · exact ih h0.2 hx' hy'

/-! ### the partition itself -/

theorem partition_wf (blocks : List Iv) :
    ∀ r ∈ partition blocks, r.lo ≤ r.hi ∧ 0 ≤ r.lo ∧ r.hi ≤ ipMax := by
  intro r hr
  rw [partition_eq] at hr
  obtain ⟨a, b, _, h1, h2, h3, rfl⟩ := mem_segs.mp hr
  simp only
  omega

theorem partition_pairwise (blocks : List Iv) :
    (partition blocks).Pairwise (fun r r' => r.hi < r'.lo) :=
  segs_pairwise (sortedPoints_sorted blocks)

theorem partition_contig (blocks : List Iv) : Contig (partition blocks) :=
  segs_contig (sortedPoints_sorted blocks)

theorem partition_owner_exists (blocks : List Iv) {x : Int} (h0 : 0 ≤ x) (h1 : x ≤ ipMax) :
    ∃ r ∈ partition blocks, r.lo ≤ x ∧ x ≤ r.hi := by
  have hS := sortedPoints_sorted blocks
  have hz : (0 : Int) ∈ sortedPoints blocks := mem_sortedPoints.mpr (zero_mem_points blocks)
  have ht : ipMax + 1 ∈ sortedPoints blocks := mem_sortedPoints.mpr (top_mem_points blocks)
  obtain ⟨a, b, hab, ha, hb⟩ := consec_exists hS hz ht h0 (by omega)
  obtain ⟨hlt, _, _, hno⟩ := consec_no_between hS hab
  have hz' := hno 0 hz
  have ht' := hno (ipMax + 1) ht
  refine ⟨⟨a, b - 1⟩, ?_, ?_, ?_⟩
  · rw [partition_eq]
    exact mem_segs.mpr ⟨a, b, hab, hlt, by omega, by omega, rfl⟩
  · exact ha
  · simp only; omega

theorem partition_owner_unique (blocks : List Iv) {x : Int} {r r' : Iv}
    (hr : r ∈ partition blocks) (hr' : r' ∈ partition blocks)
    (hx : r.lo ≤ x ∧ x ≤ r.hi) (hx' : r'.lo ≤ x ∧ x ≤ r'.hi) : r = r' := by
  rcases pairwise_mem_cases (partition_pairwise blocks) hr hr' with h | h | h
  · exact h
  · omega
  · omega

theorem partition_refines (blocks : List Iv) {r b : Iv} (hr : r ∈ partition blocks)
    (hb : b ∈ blocks) :
    ¬ (r.lo < b.lo ∧ b.lo ≤ r.hi) ∧ ¬ (r.lo < b.hi + 1 ∧ b.hi + 1 ≤ r.hi) := by
  rw [partition_eq] at hr
  obtain ⟨a, c, hac, _, _, _, rfl⟩ := mem_segs.mp hr
  obtain ⟨_, _, _, hno⟩ := consec_no_between (sortedPoints_sorted blocks) hac
  have h1 := hno b.lo (mem_sortedPoints.mpr (lo_mem_points hb))
  have h2 := hno (b.hi + 1) (mem_sortedPoints.mpr (hi_mem_points hb))
  simp only
  omega

theorem partition_head (blocks : List Iv) : ∃ r t, partition blocks = r :: t ∧ r.lo = 0 := by
  obtain ⟨r, hr, h1, h2⟩ := partition_owner_exists blocks (x := 0) (Int.le_refl _)
    (by unfold ipMax; omega)
  have hwf := partition_wf blocks
  have hpw := partition_pairwise blocks
  cases hP : partition blocks with
  | nil => rw [hP] at hr; cases hr
  | cons r0 t =>
    refine ⟨r0, t, rfl, ?_⟩
    rw [hP] at hr hwf hpw
    have w0 := hwf r0 (List.mem_cons_self ..)
    rcases List.mem_cons.mp hr with rfl | hr'
    · omega
    · have := (List.pairwise_cons.mp hpw).1 r hr'
      omega

theorem partition_last (blocks : List Iv) : ∃ t r, partition blocks = t ++ [r] ∧ r.hi = ipMax := by
  obtain ⟨r, hr, h1, h2⟩ := partition_owner_exists blocks (x := ipMax) (by unfold ipMax; omega)
    (Int.le_refl _)
  have hwf := partition_wf blocks
  have hpw := partition_pairwise blocks
  rcases List.eq_nil_or_concat (partition blocks) with hP | ⟨t, rl, hP⟩
  · rw [hP] at hr; cases hr
  · rw [List.concat_eq_append] at hP
    refine ⟨t, rl, hP, ?_⟩
    rw [hP] at hr hwf hpw
    have wl := hwf rl (List.mem_append_right _ (List.mem_singleton.mpr rfl))
    have wr := hwf r hr
    rcases List.mem_append.mp hr with hr' | hr'
    · have := (List.pairwise_append.mp hpw).2.2 r hr' rl (List.mem_singleton.mpr rfl)
      omega
    · rw [List.mem_singleton] at hr'; subst hr'; omega

theorem partition_nodup (blocks : List Iv) : (partition blocks).Nodup := by
  have hwf := partition_wf blocks
  refine (partition_pairwise blocks).imp_of_mem ?_
  intro a b ha _ hab heq
  subst heq
  have := hwf a ha
  omega

/-! ## G. peer names -/

def D (k : Nat) : List Char := Nat.toDigits 10 k

theorem ipStr_toList (n : Int) : (ipStr n).toList =
    D (n.toNat / 16777216 % 256) ++ '.' :: (D (n.toNat / 65536 % 256) ++ '.' ::
      (D (n.toNat / 256 % 256) ++ '.' :: D (n.toNat % 256))) := by
  unfold ipStr
  simp only [String.toList_append, toString, Nat.toList_repr, D]
  have : ".".toList = ['.'] := by decide
  rw [this]
  simp [List.append_assoc]

theorem split_unique {α : Type} {c : α} {l1 l2 r1 r2 : List α} (h1 : c ∉ l1) (h2 : c ∉ l2)
    (h : l1 ++ c :: r1 = l2 ++ c :: r2) : l1 = l2 ∧ r1 = r2 := by
  induction l1 generalizing l2 with
  | nil =>
    cases l2 with
    | nil => simpa using h
    | cons y l2 =>
      simp only [List.nil_append, List.cons_append, List.cons.injEq] at h
      exact absurd (List.mem_cons.mpr (Or.inl h.1)) h2
  | cons x l1 ih =>
    cases l2 with
    | nil =>
      simp only [List.nil_append, List.cons_append, List.cons.injEq] at h
      exact absurd (List.mem_cons.mpr (Or.inl h.1.symm)) h1
    | cons y l2 =>
      simp only [List.cons_append, List.cons.injEq] at h
      obtain ⟨rfl, h'⟩ := h
      have := ih (fun hm => h1 (List.mem_cons_of_mem _ hm)) (fun hm => h2 (List.mem_cons_of_mem _ hm)) h'
      exact ⟨by rw [this.1], this.2⟩

theorem D_digit {k : Nat} {c : Char} (h : c ∈ D k) : c.isDigit = true :=
  Nat.isDigit_of_mem_toDigits (by decide) (by decide) h

theorem D_inj {a b : Nat} (h : D a = D b) : a = b := by
  have := congrArg (fun l => Nat.ofDigitChars 10 l 0) h
  simpa [D] using this

theorem dot_not_mem (k : Nat) : '.' ∉ D k := fun h => by
  have := D_digit h; revert this; decide

theorem ipStr_inj {n m : Int} (hn : 0 ≤ n ∧ n ≤ ipMax) (hm : 0 ≤ m ∧ m ≤ ipMax)
    (h : ipStr n = ipStr m) : n = m := by
  have h' := congrArg String.toList h
  rw [ipStr_toList, ipStr_toList] at h'
  obtain ⟨e1, h'⟩ := split_unique (dot_not_mem _) (dot_not_mem _) h'
  obtain ⟨e2, h'⟩ := split_unique (dot_not_mem _) (dot_not_mem _) h'
  obtain ⟨e3, e4⟩ := split_unique (dot_not_mem _) (dot_not_mem _) h'
  have e1 := D_inj e1; have e2 := D_inj e2; have e3 := D_inj e3; have e4 := D_inj e4
  unfold ipMax at hn hm
  omega

theorem ipStr_chars {n : Int} {c : Char} (h : c ∈ (ipStr n).toList) : c.isDigit = true ∨ c = '.' := by
  rw [ipStr_toList] at h
  simp only [List.mem_append, List.mem_cons] at h
  rcases h with h | h | h | h | h | h | h
  · exact Or.inl (D_digit h)
  · exact Or.inr h
  · exact Or.inl (D_digit h)
  · exact Or.inr h
  · exact Or.inl (D_digit h)
  · exact Or.inr h
  · exact Or.inl (D_digit h)

theorem dash_not_mem (n : Int) : '-' ∉ (ipStr n).toList := fun h => by
  rcases ipStr_chars h with h | h
  · revert h; decide
  · revert h; decide

theorem ipRange_toList (r : Iv) :
    (LPeer.ip r).str.toList = (ipStr r.lo).toList ++ '-' :: (ipStr r.hi).toList := by
  unfold LPeer.str
  simp only [String.toList_append]
  have : "-".toList = ['-'] := by decide
  rw [this]; simp

theorem ipRange_inj {r r' : Iv} (h1 : 0 ≤ r.lo ∧ r.lo ≤ ipMax) (h2 : 0 ≤ r.hi ∧ r.hi ≤ ipMax)
    (h1' : 0 ≤ r'.lo ∧ r'.lo ≤ ipMax) (h2' : 0 ≤ r'.hi ∧ r'.hi ≤ ipMax)
    (h : (LPeer.ip r).str = (LPeer.ip r').str) : r = r' := by
  have h' := congrArg String.toList h
  rw [ipRange_toList, ipRange_toList] at h'
  obtain ⟨e1, e2⟩ := split_unique (dash_not_mem _) (dash_not_mem _) h'
  have e1 := ipStr_inj h1 h1' (String.toList_inj.mp e1)
  have e2 := ipStr_inj h2 h2' (String.toList_inj.mp e2)
  cases r; cases r'; simp_all

/-- the last character of an IP range name is a digit -/
theorem ipRange_last (r : Iv) : ∃ c, (LPeer.ip r).str.toList.getLast? = some c ∧ c.isDigit = true := by
  rw [ipRange_toList, ipStr_toList r.hi]
  have hne : D (r.hi.toNat % 256) ≠ [] := Nat.toDigits_ne_nil
  obtain ⟨ys, c, hc⟩ : ∃ ys c, D (r.hi.toNat % 256) = ys ++ [c] := by
    rcases List.eq_nil_or_concat (D (r.hi.toNat % 256)) with h | ⟨ys, c, h⟩
    · exact absurd h hne
    · exact ⟨ys, c, by rw [h, List.concat_eq_append]⟩
  refine ⟨c, ?_, D_digit (by rw [hc]; simp)⟩
  rw [hc, List.getLast?_eq_some_iff]
  exact ⟨(ipStr r.lo).toList ++ '-' :: (D (r.hi.toNat / 16777216 % 256) ++ '.' ::
    (D (r.hi.toNat / 65536 % 256) ++ '.' :: (D (r.hi.toNat / 256 % 256) ++ '.' :: ys))), by simp⟩

/-- the last character of a workload name is a closing bracket -/
theorem workloadName_last (p : Pod) :
    (workloadName p).toList.getLast? = some '}' ∨ (workloadName p).toList.getLast? = some ']' := by
  unfold workloadName
  split
  · left
    simp only [String.toList_append]
    have : "}".toList = ['}'] := by decide
    rw [this, List.getLast?_concat]
  · right
    simp only [String.toList_append]
    have : "]".toList = [']'] := by decide
    rw [this, List.getLast?_concat]

theorem workloadName_ne_ipRange (p : Pod) (r : Iv) : workloadName p ≠ (LPeer.ip r).str := by
  intro h
  obtain ⟨c, hc, hd⟩ := ipRange_last r
  rw [← h] at hc
  rcases workloadName_last p with h1 | h1
  · rw [h1] at hc; cases hc; revert hd; decide
  · rw [h1] at hc; cases hc; revert hd; decide

theorem nodup_map_inj_on {α β : Type} {f : α → β} {l : List α} (hl : l.Nodup)
    (hf : ∀ a ∈ l, ∀ b ∈ l, f a = f b → a = b) : (l.map f).Nodup := by
  induction l with
  | nil => simp
  | cons a l ih =>
    have h0 := List.nodup_cons.mp hl
    rw [List.map_cons, List.nodup_cons]
    refine ⟨?_, ih h0.2 (fun x hx y hy => hf x (List.mem_cons_of_mem _ hx) y (List.mem_cons_of_mem _ hy))⟩
    intro hm
    obtain ⟨b, hb, hfb⟩ := List.mem_map.mp hm
    have := hf b (List.mem_cons_of_mem _ hb) a (List.mem_cons_self ..) hfb
    subst this
    exact h0.1 hb

theorem peersList_eq {e : Engine} {peers : List LPeer} (h : e.peersList = .ok peers) :
    ∃ owners, e.podOwnersMap = .ok owners ∧
      peers = e.disjointIPBlocks.map LPeer.ip ++ owners.map fun (n, p) => LPeer.wl n p := by
  unfold peersList at h
  cases ho : e.podOwnersMap with
  | error err => rw [ho] at h; cases h
  | ok owners =>
    rw [ho] at h
    exact ⟨owners, rfl, (Except.ok.inj h).symm⟩

/-- the names of the IP peers are distinct -/
theorem ipPeers_names_nodup (e : Engine) :
    (e.disjointIPBlocks.map fun r => (LPeer.ip r).str).Nodup := by
  unfold disjointIPBlocks
  refine nodup_map_inj_on (partition_nodup _) ?_
  intro a ha b hb hab
  have wa := partition_wf _ a ha
  have wb := partition_wf _ b hb
  exact ipRange_inj (by omega) (by omega) (by omega) (by omega) hab

/-- the names of the workload peers are distinct -/
theorem ownerPeers_names_nodup {e : Engine} {owners : List (String × Pod)}
    (h : e.podOwnersMap = .ok owners) : (owners.map (·.1)).Nodup :=
  go_nodup (res := []) List.nodup_nil h

/-- all peer names are distinct -/
theorem peers_names_nodup {e : Engine} {peers : List LPeer} (h : e.peersList = .ok peers) :
    (peers.map (·.str)).Nodup := by
  obtain ⟨owners, ho, rfl⟩ := peersList_eq h
  rw [List.map_append, List.map_map, List.map_map, List.nodup_append]
  refine ⟨ipPeers_names_nodup e, ?_, ?_⟩
  · have := ownerPeers_names_nodup ho
    have heq : ((fun x : LPeer => x.str) ∘ fun x : String × Pod => LPeer.wl x.1 x.2) = (·.1) := by
      funext x; rfl
    rw [heq]; exact this
  · intro x hx y hy hxy
    obtain ⟨r, _, rfl⟩ := List.mem_map.mp hx
    obtain ⟨np, hnp, rfl⟩ := List.mem_map.mp hy
    have hq := go_forall (fun x => x.1 = workloadName x.2) (res := [])
      (fun _ h => by cases h) (fun _ _ => rfl) ho np hnp
    have : workloadName np.2 = (LPeer.ip r).str := by
      rw [← hq]; exact hxy.symm
    exact workloadName_ne_ipRange _ _ this

end Structure
end Netpol
