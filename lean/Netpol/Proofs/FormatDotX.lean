import Netpol.Proofs.FormatLayer
/-! The dot output with exposure results (`listDotX`, model of `formatDOT.writeOutput` / `addExposureOutputData`).

The Go code threads three pieces of state through the list of exposed peers (which it gets from the iteration of two Go
maps): the `visited` set of representative peers, the map from namespaces to node lines of the real peers (`nsPeers`,
also consulted to decide whether a representative peer is drawn in a real or in a representative namespace cluster) and
the edges. Here the fold is flattened to a list of items (`exposureItems`), the final state is characterised
(`fold_char`) and the output is shown to be a function of the multiset of exposed peers (`listDotX_perm`) under three
hypotheses; `order_dependence_when_unvisited` shows that the first of them cannot be dropped for the formatter as a
function (the analyzer always satisfies it: an exposed peer is a focus workload, and those are all visited before). -/
namespace Netpol
namespace Format
open List

/-- one step of `getXgressExposureEdges`: an exposure entry of a peer in a direction -/
structure XItem where
  peer : String
  isIngress : Bool
  entire : Bool
  nsLabel : String
  podLabel : String
  conn : String
deriving Repr, DecidableEq, Inhabited

def XItem.repStr (i : XItem) : String := i.podLabel ++ "_in_" ++ i.nsLabel

/-- the key of the `representativeVisited` set -/
def XItem.key (i : XItem) : String := if i.entire then "entire-cluster" else i.repStr

def XItem.edge (i : XItem) : String := xEdgeLine i.peer i.key i.conn i.isIngress

def XItem.repLine (i : XItem) : String × String := (i.nsLabel, nodeLine i.repStr i.podLabel "red2")

/-- the items of an exposed peer in one direction -/
def dirItems (p : XPeerF) (isIngress : Bool) : List XItem :=
  if !(if isIngress then p.ingProtected else p.egProtected) then [⟨p.peer.str, isIngress, true, "", "", "All Connections"⟩]
  else (if isIngress then p.ing else p.eg).map fun x =>
    ⟨p.peer.str, isIngress, x.entireCluster, repNsString x.nsSel false, repPodString x.podSel false, x.conn⟩

def peerItems (p : XPeerF) : List XItem := dirItems p true ++ dirItems p false

/-- all items in the order the formatter walks them -/
def exposureItems (xs : List XPeerF) : List XItem := xs.flatMap peerItems

def xStep (st : XDotState) (i : XItem) : XDotState :=
  if i.entire then
    { st with repVisited := st.repVisited ++ ["entire-cluster"], edges := st.edges ++ [i.edge] }
  else
    let st :=
      if st.repVisited.contains i.repStr then st
      else if st.nsMembers.any (·.1 == i.nsLabel) then
        { st with repVisited := st.repVisited ++ [i.repStr], nsMembers := st.nsMembers ++ [i.repLine] }
      else { st with repVisited := st.repVisited ++ [i.repStr], repMembers := st.repMembers ++ [i.repLine] }
    { st with edges := st.edges ++ [i.edge] }

theorem foldl_congr_fun {α β : Type} {f g : β → α → β} (h : ∀ b a, f b a = g b a) (l : List α) (b : β) :
    l.foldl f b = l.foldl g b := by
  induction l generalizing b with
  | nil => rfl
  | cons x xs ih => simp only [foldl_cons, h, ih]

theorem xDotEdges_eq (st : XDotState) (p : XPeerF) (isIngress : Bool) :
    xDotEdges st p.peer.str (if isIngress then p.ingProtected else p.egProtected) (if isIngress then p.ing else p.eg) isIngress =
      (dirItems p isIngress).foldl xStep st := by
  unfold xDotEdges dirItems
  cases hprot : (if isIngress then p.ingProtected else p.egProtected)
  · simp [xStep, XItem.edge, XItem.key]
  · simp only [Bool.not_true, Bool.false_eq_true, ↓reduceIte, foldl_map]
    apply foldl_congr_fun
    intro st x
    simp only [xStep, XItem.edge, XItem.key, XItem.repStr, XItem.repLine]
    cases x.entireCluster
    · simp only [Bool.false_eq_true, ↓reduceIte]
      by_cases h1 : st.repVisited.contains (repPodString x.podSel false ++ "_in_" ++ repNsString x.nsSel false) = true
      · simp only [h1, ↓reduceIte]
      · by_cases h2 : (st.nsMembers.any fun y => y.fst == repNsString x.nsSel false) = true
        · simp only [h1, h2, ↓reduceIte, Bool.false_eq_true]
        · simp only [h1, h2, ↓reduceIte, Bool.false_eq_true]
    · simp only [↓reduceIte]

/-- a namespace has a cluster of real peers -/
def XDotState.K (st : XDotState) (k : String) : Bool := st.nsMembers.any (·.1 == k)

/-- the items at which a representative peer is drawn: first visit of its string -/
def newReps (seen : List String) : List XItem → List XItem
  | [] => []
  | i :: L =>
    if i.entire then newReps (seen ++ ["entire-cluster"]) L
    else if seen.contains i.repStr then newReps seen L
    else i :: newReps (seen ++ [i.repStr]) L

/-- the strings added to the `representativeVisited` set -/
def addedKeys (seen : List String) : List XItem → List String
  | [] => []
  | i :: L =>
    if i.entire then "entire-cluster" :: addedKeys (seen ++ ["entire-cluster"]) L
    else if seen.contains i.repStr then addedKeys seen L
    else i.repStr :: addedKeys (seen ++ [i.repStr]) L

theorem K_append_of_K (st : XDotState) (e : String × String) (h : st.K e.1 = true) (k : String) :
    (st.nsMembers ++ [e]).any (·.1 == k) = st.K k := by
  unfold XDotState.K at *
  rw [any_append]
  by_cases hk : e.1 = k
  · subst hk; simp [h]
  · have : (e.1 == k) = false := by simpa using hk
    simp [this]

theorem xStep_entire {st : XDotState} {i : XItem} (he : i.entire = true) :
    (xStep st i).edges = st.edges ++ [i.edge] ∧ (xStep st i).repVisited = st.repVisited ++ ["entire-cluster"] ∧
    (xStep st i).nsMembers = st.nsMembers ∧ (xStep st i).repMembers = st.repMembers := by
  simp [xStep, he]

theorem xStep_seen {st : XDotState} {i : XItem} (he : i.entire = false) (hs : i.repStr ∈ st.repVisited) :
    (xStep st i).edges = st.edges ++ [i.edge] ∧ (xStep st i).repVisited = st.repVisited ∧
    (xStep st i).nsMembers = st.nsMembers ∧ (xStep st i).repMembers = st.repMembers := by
  simp [xStep, he, hs]

theorem xStep_newK {st : XDotState} {i : XItem} (he : i.entire = false) (hs : i.repStr ∉ st.repVisited) (hk : st.K i.nsLabel = true) :
    (xStep st i).edges = st.edges ++ [i.edge] ∧ (xStep st i).repVisited = st.repVisited ++ [i.repStr] ∧
    (xStep st i).nsMembers = st.nsMembers ++ [i.repLine] ∧ (xStep st i).repMembers = st.repMembers := by
  have hk' : (st.nsMembers.any fun x => x.1 == i.nsLabel) = true := hk
  simp [xStep, he, hs, hk']

theorem xStep_newNotK {st : XDotState} {i : XItem} (he : i.entire = false) (hs : i.repStr ∉ st.repVisited) (hk : st.K i.nsLabel = false) :
    (xStep st i).edges = st.edges ++ [i.edge] ∧ (xStep st i).repVisited = st.repVisited ++ [i.repStr] ∧
    (xStep st i).nsMembers = st.nsMembers ∧ (xStep st i).repMembers = st.repMembers ++ [i.repLine] := by
  have hk' : (st.nsMembers.any fun x => x.1 == i.nsLabel) = false := hk
  simp [xStep, he, hs, hk']

/-- the final state of the walk over the items -/
theorem fold_char : ∀ (L : List XItem) (st : XDotState),
    (L.foldl xStep st).edges = st.edges ++ L.map XItem.edge ∧
    (L.foldl xStep st).repVisited = st.repVisited ++ addedKeys st.repVisited L ∧
    (L.foldl xStep st).nsMembers = st.nsMembers ++ ((newReps st.repVisited L).filter (fun i => st.K i.nsLabel)).map XItem.repLine ∧
    (L.foldl xStep st).repMembers = st.repMembers ++ ((newReps st.repVisited L).filter (fun i => !st.K i.nsLabel)).map XItem.repLine
  | [], st => by simp [newReps, addedKeys]
  | i :: L, st => by
    rw [foldl_cons]
    obtain ⟨h1, h2, h3, h4⟩ := fold_char L (xStep st i)
    cases he : i.entire
    · by_cases hs : i.repStr ∈ st.repVisited
      · obtain ⟨a1, a2, a3, a4⟩ := xStep_seen he hs
        have hK : ∀ k, (xStep st i).K k = st.K k := by intro k; simp only [XDotState.K, a3]
        have hc : st.repVisited.contains i.repStr = true := by simpa using hs
        simp only [hK, a1, a2, a3, a4] at h1 h2 h3 h4
        refine ⟨?_, ?_, ?_, ?_⟩
        · rw [h1]; simp
        · rw [h2]; simp [addedKeys, he, hs]
        · rw [h3]; simp [newReps, he, hs]
        · rw [h4]; simp [newReps, he, hs]
      · have hc : st.repVisited.contains i.repStr = false := by simpa using hs
        cases hk : st.K i.nsLabel
        · obtain ⟨a1, a2, a3, a4⟩ := xStep_newNotK he hs hk
          have hK : ∀ k, (xStep st i).K k = st.K k := by intro k; simp only [XDotState.K, a3]
          simp only [hK, a1, a2, a3, a4] at h1 h2 h3 h4
          refine ⟨?_, ?_, ?_, ?_⟩
          · rw [h1]; simp
          · rw [h2]; simp [addedKeys, he, hs]
          · rw [h3]; simp [newReps, he, hs, hk]
          · rw [h4]; simp [newReps, he, hs, hk]
        · obtain ⟨a1, a2, a3, a4⟩ := xStep_newK he hs hk
          have hK : ∀ k, (xStep st i).K k = st.K k := by
            intro k; simp only [XDotState.K, a3]; exact K_append_of_K st i.repLine hk k
          simp only [hK, a1, a2, a3, a4] at h1 h2 h3 h4
          refine ⟨?_, ?_, ?_, ?_⟩
          · rw [h1]; simp
          · rw [h2]; simp [addedKeys, he, hs]
          · rw [h3]; simp [newReps, he, hs, hk]
          · rw [h4]; simp [newReps, he, hs, hk]
    · obtain ⟨a1, a2, a3, a4⟩ := xStep_entire (st := st) he
      have hK : ∀ k, (xStep st i).K k = st.K k := by intro k; simp only [XDotState.K, a3]
      simp only [hK, a1, a2, a3, a4] at h1 h2 h3 h4
      refine ⟨?_, ?_, ?_, ?_⟩
      · rw [h1]; simp
      · rw [h2]; simp [addedKeys, he]
      · rw [h3]; simp [newReps, he]
      · rw [h4]; simp [newReps, he]

theorem XItem.key_of_not_entire {i : XItem} (h : i.entire = false) : i.key = i.repStr := by simp [XItem.key, h]
theorem XItem.key_of_entire {i : XItem} (h : i.entire = true) : i.key = "entire-cluster" := by simp [XItem.key, h]

/-- the representative peers are drawn at the first item per key -/
theorem newReps_eq : ∀ (L : List XItem) (seen : List String),
    newReps seen L = (dedupKey XItem.key L).filter (fun i => !i.entire && !seen.contains i.key)
  | [], seen => by simp [newReps, dedupKey]
  | i :: L, seen => by
    cases he : i.entire
    · have hkey := XItem.key_of_not_entire he
      by_cases hs : i.repStr ∈ seen
      · simp only [newReps, he, Bool.false_eq_true, ↓reduceIte, contains_eq_mem, hs, decide_true, dedupKey, filter_cons,
          hkey, Bool.not_false, Bool.not_true, Bool.and_false, filter_filter]
        rw [newReps_eq L seen]
        apply filter_congr
        intro j _
        by_cases hj : j.key = i.repStr
        · simp [hj, hs]
        · simp [hj]
      · simp only [newReps, he, Bool.false_eq_true, ↓reduceIte, contains_eq_mem, hs, decide_false, dedupKey, filter_cons,
          hkey, Bool.not_false, Bool.and_self, filter_filter]
        rw [newReps_eq L (seen ++ [i.repStr])]
        congr 1
        apply filter_congr
        intro j _
        by_cases hj : j.key = i.repStr
        · simp [hj]
        · simp [hj]
    · have hkey := XItem.key_of_entire he
      simp only [newReps, he, ↓reduceIte, dedupKey, filter_cons, Bool.not_true, Bool.false_and, Bool.false_eq_true, hkey,
        filter_filter]
      rw [newReps_eq L (seen ++ ["entire-cluster"])]
      apply filter_congr
      intro j _
      by_cases hj : j.key = "entire-cluster"
      · simp [hj]
      · simp [hj]

theorem mem_addedKeys : ∀ (L : List XItem) (seen : List String) (s : String),
    s ∈ seen ++ addedKeys seen L ↔ s ∈ seen ∨ ∃ i ∈ L, i.key = s
  | [], seen, s => by simp [addedKeys]
  | i :: L, seen, s => by
    cases he : i.entire
    · have hkey := XItem.key_of_not_entire he
      by_cases hs : i.repStr ∈ seen
      · have := mem_addedKeys L seen s
        simp only [addedKeys, he, Bool.false_eq_true, ↓reduceIte, contains_eq_mem, hs, decide_true, mem_cons, exists_eq_or_imp, hkey]
        rw [this]
        constructor
        · rintro (h | h)
          · exact Or.inl h
          · exact Or.inr (Or.inr h)
        · rintro (h | h | h)
          · exact Or.inl h
          · exact Or.inl (h ▸ hs)
          · exact Or.inr h
      · have := mem_addedKeys L (seen ++ [i.repStr]) s
        simp only [addedKeys, he, Bool.false_eq_true, ↓reduceIte, contains_eq_mem, hs, decide_false, mem_cons, exists_eq_or_imp, hkey]
        rw [show seen ++ i.repStr :: addedKeys (seen ++ [i.repStr]) L = (seen ++ [i.repStr]) ++ addedKeys (seen ++ [i.repStr]) L by simp]
        rw [this]
        simp only [mem_append, mem_cons, not_mem_nil, or_false]
        constructor
        · rintro ((h | h) | h)
          · exact Or.inl h
          · exact Or.inr (Or.inl h.symm)
          · exact Or.inr (Or.inr h)
        · rintro (h | h | h)
          · exact Or.inl (Or.inl h)
          · exact Or.inl (Or.inr h.symm)
          · exact Or.inr h
    · have hkey := XItem.key_of_entire he
      have := mem_addedKeys L (seen ++ ["entire-cluster"]) s
      simp only [addedKeys, he, ↓reduceIte, mem_cons, exists_eq_or_imp, hkey]
      rw [show seen ++ "entire-cluster" :: addedKeys (seen ++ ["entire-cluster"]) L =
        (seen ++ ["entire-cluster"]) ++ addedKeys (seen ++ ["entire-cluster"]) L by simp]
      rw [this]
      simp only [mem_append, mem_cons, not_mem_nil, or_false]
      constructor
      · rintro ((h | h) | h)
        · exact Or.inl h
        · exact Or.inr (Or.inl h.symm)
        · exact Or.inr (Or.inr h)
      · rintro (h | h | h)
        · exact Or.inl (Or.inl h)
        · exact Or.inl (Or.inr h.symm)
        · exact Or.inr h

/-- what an item contributes to the nodes of the graph: the entire-cluster node or a representative peer -/
structure RepNode where
  entire : Bool
  nsLabel : String
  podLabel : String
deriving Repr, DecidableEq, Inhabited

def XItem.node (i : XItem) : RepNode := if i.entire then ⟨true, "", ""⟩ else ⟨false, i.nsLabel, i.podLabel⟩

def RepNode.key (n : RepNode) : String := if n.entire then "entire-cluster" else n.podLabel ++ "_in_" ++ n.nsLabel

def RepNode.repLine (n : RepNode) : String × String := (n.nsLabel, nodeLine (n.podLabel ++ "_in_" ++ n.nsLabel) n.podLabel "red2")

theorem XItem.node_key (i : XItem) : i.node.key = i.key := by
  cases h : i.entire <;> simp [XItem.node, RepNode.key, XItem.key, XItem.repStr, h]

theorem XItem.node_entire (i : XItem) : i.node.entire = i.entire := by
  cases h : i.entire <;> simp [XItem.node, h]

theorem XItem.node_repLine {i : XItem} (h : i.entire = false) : i.node.repLine = i.repLine := by
  simp [XItem.node, RepNode.repLine, XItem.repLine, XItem.repStr, h]

theorem XItem.node_nsLabel {i : XItem} (h : i.entire = false) : i.node.nsLabel = i.nsLabel := by
  simp [XItem.node, h]

theorem filter_ne_map {α β : Type} (g : α → β) (k : β → String) (x : α) (l : List α) :
    (l.map g).filter (fun y => k y != k (g x)) = (l.filter (fun y => (k ∘ g) y != (k ∘ g) x)).map g := by
  induction l with
  | nil => rfl
  | cons a as ih =>
    simp only [map_cons, filter_cons, Function.comp]
    split <;> simp_all

theorem dedupKey_map {α β : Type} (g : α → β) (k : β → String) : ∀ (l : List α),
    dedupKey k (l.map g) = (dedupKey (k ∘ g) l).map g
  | [] => rfl
  | x :: xs => by
    simp only [map_cons, dedupKey]
    rw [dedupKey_map g k xs, filter_ne_map]

/-- the lines of the representative peers that fall into the clusters selected by `K` -/
def repLinesOf (K : String → Bool) (L : List XItem) : List (String × String) :=
  ((dedupKey RepNode.key (L.map XItem.node)).filter (fun n => !n.entire && K n.nsLabel)).map RepNode.repLine

theorem repLines_eq (K : String → Bool) (L : List XItem) :
    ((newReps [] L).filter (fun i => K i.nsLabel)).map XItem.repLine = repLinesOf K L := by
  unfold repLinesOf
  rw [newReps_eq, filter_filter]
  have hk : RepNode.key ∘ XItem.node = XItem.key := by funext i; exact XItem.node_key i
  rw [dedupKey_map, hk]
  rw [show ((dedupKey XItem.key L).map XItem.node).filter (fun n => !n.entire && K n.nsLabel) =
      ((dedupKey XItem.key L).filter ((fun n => !n.entire && K n.nsLabel) ∘ XItem.node)).map XItem.node from by
    rw [filter_map]]
  rw [map_map]
  have hf : (dedupKey XItem.key L).filter ((fun n : RepNode => !n.entire && K n.nsLabel) ∘ XItem.node) =
      (dedupKey XItem.key L).filter (fun i => K i.nsLabel && (!i.entire && !([] : List String).contains i.key)) := by
    apply filter_congr
    intro i _
    cases he : i.entire
    · simp [XItem.node_entire, he, XItem.node_nsLabel he, Bool.and_comm]
    · simp [XItem.node_entire, he]
  rw [hf]
  apply map_congr_left
  intro i hi
  have he : i.entire = false := by
    have := (mem_filter.mp hi).2
    simp only [Bool.and_eq_true, Bool.not_eq_eq_eq_not, Bool.not_true] at this
    exact this.2.1
  simp only [Function.comp, XItem.node_repLine he]

/-- the part of `listDotX` after the walk over the exposed peers -/
def dotXRender (conns : List Conn) (v : List PeerInfo) (st : XDotState) : String :=
  let ext := (v.filter (·.external)).map (·.listLine) ++
    (if st.repVisited.contains "entire-cluster" then
      ["\t" ++ goQuote "entire-cluster" ++ " [label=" ++ goQuote "entire-cluster" ++ " color=" ++ goQuote "red2" ++ " fontcolor=" ++
        goQuote "red2" ++ " shape=diamond]"] else [])
  "\n".intercalate (["digraph {"] ++ nsGroups st.nsMembers "black" ++ nsGroups st.repMembers "red2" ++ sortStrings ext ++
    sortStrings ((conns.map fun c => c.row.dotEdge) ++ st.edges) ++ ["}"])

/-- the state before the walk -/
def dotXInit (v : List PeerInfo) : XDotState := { nsMembers := (v.filter (!·.external)).map fun p => (p.ns, p.listLine) }

/-- every exposed peer is among the peers visited for the connections part (the analyzer: an exposed peer is a focus
workload, all of them are in `ca.peersList`) -/
def ExposedVisited (conns : List Conn) (peers : List PeerInfo) (xs : List XPeerF) : Prop :=
  ∀ x ∈ xs, (listVisited conns peers).any (·.str == x.peer.str) = true

theorem foldPeers_eq (v : List PeerInfo) : ∀ (xs : List XPeerF) (st : XDotState),
    (∀ x ∈ xs, v.any (·.str == x.peer.str) = true) →
    xs.foldl (fun (st : XDotState) p =>
      let st := if v.any (·.str == p.peer.str) then st else { st with nsMembers := st.nsMembers ++ [(p.peer.ns, p.peer.listLine)] }
      let st := xDotEdges st p.peer.str p.ingProtected p.ing true
      xDotEdges st p.peer.str p.egProtected p.eg false) st = (exposureItems xs).foldl xStep st
  | [], st, _ => rfl
  | x :: xs, st, h => by
    have hx := h x mem_cons_self
    have e1 := xDotEdges_eq st x true
    have e2 := xDotEdges_eq ((dirItems x true).foldl xStep st) x false
    simp only [↓reduceIte, Bool.false_eq_true] at e1 e2
    simp only [foldl_cons, hx, ↓reduceIte, exposureItems, flatMap_cons, peerItems, foldl_append, e1, e2]
    exact foldPeers_eq v xs _ (fun y hy => h y (mem_cons_of_mem _ hy))

theorem listDotX_eq {conns : List Conn} {peers : List PeerInfo} {xs : List XPeerF} (hv : ExposedVisited conns peers xs) :
    listDotX conns peers xs =
      dotXRender conns (listVisited conns peers) ((exposureItems xs).foldl xStep (dotXInit (listVisited conns peers))) := by
  unfold listDotX dotXRender dotXInit
  simp only
  rw [foldPeers_eq (listVisited conns peers) xs _ hv]

/-- representative-peer strings determine the peer: two items with the same `visited` key draw the same node (the
key is `POD_in_NS`; it could be split in two ways only if a label contained `_in_` next to braces) -/
def RepsConsistent (xs : List XPeerF) : Prop := KeyInj RepNode.key ((exposureItems xs).map XItem.node)

theorem any_perm {α : Type} {l l' : List α} (h : l ~ l') (p : α → Bool) : l.any p = l'.any p := by
  rw [Bool.eq_iff_iff]
  simp only [any_eq_true]
  exact ⟨fun ⟨x, hx, hp⟩ => ⟨x, h.mem_iff.mp hx, hp⟩, fun ⟨x, hx, hp⟩ => ⟨x, h.mem_iff.mpr hx, hp⟩⟩

theorem repLinesOf_perm (K : String → Bool) {L L' : List XItem} (hk : KeyInj RepNode.key (L.map XItem.node)) (h : L ~ L') :
    repLinesOf K L ~ repLinesOf K L' := by
  unfold repLinesOf
  exact ((dedupKey_perm hk (h.map _)).filter _).map _

/-- the final state in closed form -/
theorem dotX_closed (v : List PeerInfo) (L : List XItem) :
    (L.foldl xStep (dotXInit v)).nsMembers = (dotXInit v).nsMembers ++ repLinesOf (dotXInit v).K L ∧
    (L.foldl xStep (dotXInit v)).repMembers = repLinesOf (fun k => !(dotXInit v).K k) L ∧
    (L.foldl xStep (dotXInit v)).edges = L.map XItem.edge ∧
    (L.foldl xStep (dotXInit v)).repVisited.contains "entire-cluster" = L.any (fun i => i.key == "entire-cluster") := by
  obtain ⟨h1, h2, h3, h4⟩ := fold_char L (dotXInit v)
  have e0 : (dotXInit v).repVisited = [] := rfl
  have e1 : (dotXInit v).edges = [] := rfl
  have e2 : (dotXInit v).repMembers = [] := rfl
  rw [e0] at h2 h3 h4
  refine ⟨?_, ?_, ?_, ?_⟩
  · rw [h3, repLines_eq]
  · rw [h4, e2, nil_append]
    exact repLines_eq (fun k => !(dotXInit v).K k) L
  · rw [h1, e1, nil_append]
  · rw [Bool.eq_iff_iff, h2]
    have := mem_addedKeys L [] "entire-cluster"
    simp only [contains_eq_mem, decide_eq_true_eq, any_eq_true, beq_iff_eq]
    rw [this]
    simp

theorem dotXInit_perm {v v' : List PeerInfo} (h : v ~ v') : (dotXInit v).nsMembers ~ (dotXInit v').nsMembers :=
  (h.filter _).map _

theorem dotXInit_K_perm {v v' : List PeerInfo} (h : v ~ v') (k : String) : (dotXInit v).K k = (dotXInit v').K k :=
  any_perm (dotXInit_perm h) _

/-- the dot output with exposure results does not depend on the order of the connections, of the peers and of the
exposed peers — when peer strings determine the peers, every exposed peer was visited for the connections part, and
representative-peer strings determine the representative peers -/
theorem listDotX_perm {c c' : List Conn} {p p' : List PeerInfo} {xs xs' : List XPeerF} (hc : PeersConsistent c p)
    (hv : ExposedVisited c p xs) (hr : RepsConsistent xs) (h : c ~ c') (hp : p ~ p') (hx : xs ~ xs') :
    listDotX c p xs = listDotX c' p' xs' := by
  have hvis : listVisited c p ~ listVisited c' p' := listVisited_perm hc h hp
  have hv' : ExposedVisited c' p' xs' := by
    intro x hx'
    rw [← any_perm hvis]
    exact hv x (hx.mem_iff.mpr hx')
  have hL : exposureItems xs ~ exposureItems xs' := hx.flatMap_right _
  rw [listDotX_eq hv, listDotX_eq hv']
  obtain ⟨a1, a2, a3, a4⟩ := dotX_closed (listVisited c p) (exposureItems xs)
  obtain ⟨b1, b2, b3, b4⟩ := dotX_closed (listVisited c' p') (exposureItems xs')
  unfold dotXRender
  simp only [a1, a2, a3, a4, b1, b2, b3, b4]
  have hK : (dotXInit (listVisited c p)).K = (dotXInit (listVisited c' p')).K := funext (dotXInit_K_perm hvis)
  rw [hK]
  rw [nsGroups_perm ((dotXInit_perm hvis).append (repLinesOf_perm _ hr hL)),
    nsGroups_perm (repLinesOf_perm (fun k => !(dotXInit (listVisited c' p')).K k) hr hL),
    any_perm hL, sortStrings_perm (((hvis.filter _).map _).append_right _),
    sortStrings_perm ((h.map _).append (hL.map _))]

-- ------------------------------------------------------------------------------------------
-- the hypothesis `ExposedVisited` cannot be dropped

/-- the walk of `listDotX` over the exposed peers, as in the model (no hypothesis) -/
def dotXWalk (conns : List Conn) (peers : List PeerInfo) (xs : List XPeerF) : XDotState :=
  let v := listVisited conns peers
  xs.foldl (fun (st : XDotState) p =>
    let st := if v.any (·.str == p.peer.str) then st else { st with nsMembers := st.nsMembers ++ [(p.peer.ns, p.peer.listLine)] }
    let st := xDotEdges st p.peer.str p.ingProtected p.ing true
    xDotEdges st p.peer.str p.egProtected p.eg false) (dotXInit v)

theorem listDotX_walk (conns : List Conn) (peers : List PeerInfo) (xs : List XPeerF) :
    listDotX conns peers xs = dotXRender conns (listVisited conns peers) (dotXWalk conns peers xs) := rfl

/-- a cluster is drawn exactly for a non-empty member list -/
theorem nsGroups_eq_nil_iff (m : List (String × String)) (color : String) : nsGroups m color = [] ↔ m = [] := by
  constructor
  · intro h
    cases m with
    | nil => rfl
    | cons x xs =>
      exfalso
      have hmem : x.1 ∈ sortStrings (dedupKey id ((x :: xs).map (·.1))) := by
        rw [mem_sortStrings, mem_dedupKey (keyInj_id _)]
        exact mem_cons_self
      unfold nsGroups at h
      rw [flatMap_eq_nil_iff] at h
      have := h x.1 hmem
      simp at this
  · intro h; subst h; simp [nsGroups, dedupKey, sortStrings]

/-- an exposed peer of namespace `ns1` that was not visited for the connections part (unprotected on ingress) -/
def cexA : XPeerF := ⟨⟨"ns1/a[Pod]", "a", "ns1", "Pod", false⟩, false, [], true, []⟩
/-- an exposed peer with an entry for a representative peer in namespace `ns1` -/
def cexB : XPeerF :=
  ⟨⟨"ns2/b[Pod]", "b", "ns2", "Pod", false⟩, true, [⟨false, some ⟨[(nsNameLabelKey, "ns1")], []⟩, none, "TCP 80"⟩], true, []⟩

/-- `ExposedVisited` is needed: with `cexA` unvisited, the representative peer `all pods_in_ns1` is drawn inside the
cluster of the real namespace `ns1` when `cexA` comes first (no representative cluster), and in a second, representative
cluster of the same name `cluster_ns1` when `cexB` comes first. As a function of its arguments `formatDOT.writeOutput`
depends on the order of `exposureConns`; the analyzer never passes an unvisited exposed peer. -/
theorem order_dependence_when_unvisited :
    nsGroups (dotXWalk [] [cexB.peer] [cexA, cexB]).repMembers "red2" = [] ∧
    nsGroups (dotXWalk [] [cexB.peer] [cexB, cexA]).repMembers "red2" ≠ [] := by
  constructor
  · rw [nsGroups_eq_nil_iff]; decide
  · rw [Ne, nsGroups_eq_nil_iff]; decide

/-- the hypotheses of `listDotX_perm` hold once both peers were visited -/
example : ExposedVisited [] [cexA.peer, cexB.peer] [cexA, cexB] ∧ RepsConsistent [cexA, cexB] ∧
    PeersConsistent [] [cexA.peer, cexB.peer] := by
  refine ⟨by unfold ExposedVisited; decide, ?_, ?_⟩
  · unfold RepsConsistent KeyInj; decide
  · unfold PeersConsistent KeyInj; decide

example : listDotX [] [cexA.peer, cexB.peer] [cexA, cexB] = listDotX [] [cexB.peer, cexA.peer] [cexB, cexA] :=
  listDotX_perm (by unfold PeersConsistent KeyInj; decide) (by unfold ExposedVisited; decide) (by unfold RepsConsistent KeyInj; decide)
    (Perm.refl _) (Perm.swap _ _ _) (Perm.swap _ _ _)

end Format
end Netpol
