import Netpol.Proofs.FormatLayer
import Netpol.Proofs.FormatEngine
/-! `DiffPeersConsistent` for the computed diff (`diffConns`): every visit of a peer string by the dot formatter shows the
same peer in the same colour. The first and the second slot of the diff map are tracked separately (`Good2`): the
connections in the first slot come from the first report (their workloads are among its peers), those in the second
slot from the second. -/
set_option linter.unusedSimpArgs false
namespace Netpol
namespace Format
open List Engine Diff DiffLayer

section Good2

/-- every connection stored under `k` has key `k`; those of the first slot satisfy `J1`, those of the second `J2` -/
def Good2 (J1 J2 : P2P → Prop) (k : String) (p : Pair) : Prop :=
  (∀ a, p.first = some a → a.key = k ∧ J1 a) ∧ (∀ a, p.second = some a → a.key = k ∧ J2 a)

variable {J1 J2 : P2P → Prop}

theorem good2_default (k : String) : Good2 J1 J2 k {} := ⟨fun _ h => (by cases h), fun _ h => (by cases h)⟩

theorem good2_update {res : DMap} (h : AllE (Good2 J1 J2) res) {x : P2P} (b : Bool) (hx : if b then J1 x else J2 x) :
    AllE (Good2 J1 J2) (res.update x.key b (some x)) := by
  intro k p hg
  rw [get_update] at hg
  by_cases hk : k = x.key
  · rw [if_pos hk] at hg
    subst hk
    have h0 : Good2 J1 J2 x.key ((get res x.key).getD {}) := by
      cases hr : get res x.key with
      | none => exact good2_default _
      | some p0 => exact h _ _ hr
    cases hg
    cases b
    · exact ⟨h0.1, fun a ha => by cases ha; exact ⟨rfl, hx⟩⟩
    · exact ⟨fun a ha => by cases ha; exact ⟨rfl, hx⟩, h0.2⟩
  · rw [if_neg hk] at hg
    exact h _ _ hg

theorem good2_wr {res : DMap} (h : AllE (Good2 J1 J2) res) {o : Option P2P} (b : Bool)
    (ho : ∀ x, o = some x → if b then J1 x else J2 x) : AllE (Good2 J1 J2) (wr res o b) := by
  cases o with
  | none => exact h
  | some x => exact good2_update h b (ho x rfl)

theorem good2_stepW {res : DMap} (h : AllE (Good2 J1 J2) res) {b : Bool} {g0 : Pair} {r : Iv}
    (h1 : ∀ x, g0.first = some x → J1 (mkIP b r x)) (h2 : ∀ x, g0.second = some x → J2 (mkIP b r x)) :
    AllE (Good2 J1 J2) (stepW b g0 res r) := by
  unfold stepW
  refine good2_wr (good2_wr h true ?_) false ?_
  · intro x hx
    obtain ⟨y, hy, rfl⟩ := Option.map_eq_some_iff.mp hx
    exact h1 y hy
  · intro x hx
    obtain ⟨y, hy, rfl⟩ := Option.map_eq_some_iff.mp hx
    exact h2 y hy

theorem good2_mergeGroups {res : DMap} (h : AllE (Good2 J1 J2) res) {b : Bool} {pairs : List Pair}
    (hp : ∀ g ∈ pairs, (∀ x, g.first = some x → ∀ r, J1 (mkIP b r x)) ∧ (∀ x, g.second = some x → ∀ r, J2 (mkIP b r x))) :
    AllE (Good2 J1 J2) (mergeGroups pairs b res) := by
  refine mergeGroups_induction (AllE (Good2 J1 J2)) pairs b res h ?_
  intro res k g0 r hres hg0 _
  have hm := (head_groupOf_mem hg0).1
  exact good2_stepW hres (fun x hx => (hp g0 hm).1 x hx r) (fun x hx => (hp g0 hm).2 x hx r)

theorem good2_mergeIPblocks {m : DMap} (hnd : (keys m).Nodup) (h : AllE (Good2 J1 J2) m)
    (hJ1 : ∀ x b r, J1 x → J1 (mkIP b r x)) (hJ2 : ∀ x b r, J2 x → J2 (mkIP b r x)) :
    AllE (Good2 J1 J2) (mergeIPblocks m) := by
  rw [mergeIPblocks_eq, rebuild_plainOf hnd]
  have hplain : AllE (Good2 J1 J2) (plainOf m) := by
    intro k p hg
    unfold plainOf at hg
    rw [get_filter hnd] at hg
    obtain ⟨hg1, _⟩ := Option.filter_eq_some_iff.mp hg
    exact h k p hg1
  refine good2_mergeGroups (good2_mergeGroups hplain ?_) ?_
  · intro g hg
    obtain ⟨k, hk, _⟩ := mem_dstIPs hg
    have hgood := h k g ((mem_iff_get hnd).mp hk)
    exact ⟨fun x hx r => hJ1 _ _ _ (hgood.1 x hx).2, fun x hx r => hJ2 _ _ _ (hgood.2 x hx).2⟩
  · intro g hg
    obtain ⟨k, hk, _⟩ := mem_srcIPs hg
    have hgood := h k g ((mem_iff_get hnd).mp hk)
    exact ⟨fun x hx r => hJ1 _ _ _ (hgood.1 x hx).2, fun x hx r => hJ2 _ _ _ (hgood.2 x hx).2⟩

theorem good2_fill {m : DMap} (h : AllE (Good2 J1 J2) m) (b : Bool) {l : List P2P}
    (hl : ∀ a ∈ l, if b then J1 a else J2 a) : AllE (Good2 J1 J2) (fill b l m) := by
  induction l generalizing m with
  | nil => exact h
  | cons c l ih =>
    rw [fill_cons]
    exact ih (good2_update h b (hl c mem_cons_self)) (fun a ha => hl a (mem_cons_of_mem _ ha))

theorem good2_diffMap {c1 c2 : List P2P} (h1 : ∀ a ∈ c1, J1 a) (h2 : ∀ a ∈ c2, J2 a) :
    AllE (Good2 J1 J2) (diffMap c1 c2) :=
  good2_fill (good2_fill (fun _ _ h => by cases h) true (by simpa using h1)) false (by simpa using h2)

end Good2

section Consistency

/-- the pseudo peer of the ingress controller (never annotated new or lost) -/
def icFlag : LPeer → Bool
  | .ip _ => false
  | .wl _ pod => pod.fake && pod.name == "ingress-controller"

theorem absent_eq (p : LPeer) (names : List String) :
    isWorkloadAbsent p names = (!p.isIP && !icFlag p && !names.contains p.str) := by
  cases p with
  | ip r => rfl
  | wl n pod => simp [isWorkloadAbsent, icFlag, LPeer.isIP, LPeer.str]

/-- what is assumed of the peers `W` of the two reports: the peer string determines what the dot formatter reads off a
peer (namespace, name, kind, type) and whether it is the pseudo peer; workload strings are no IP-range strings and
hold no `;` (the separator of the keys of the diff map) -/
structure PeersOK (W : List LPeer) : Prop where
  str : ∀ p ∈ W, ∀ q ∈ W, p.str = q.str → PeerInfo.ofLPeer p = PeerInfo.ofLPeer q ∧ icFlag p = icFlag q
  notIP : ∀ p ∈ W, p.isIP = false → NotIP p.str
  noSemi : ∀ p ∈ W, NoSemi p.str

/-- an end of a connection of a report: an IP block, or a workload of `W` that is among the report's peers `names` -/
def SideOK (W : List LPeer) (names : List String) (p : LPeer) : Prop :=
  p.isIP = true ∨ (p ∈ W ∧ p.isIP = false ∧ (icFlag p = true ∨ p.str ∈ names))

def JOK (W : List LPeer) (names : List String) (a : P2P) : Prop := SideOK W names a.src ∧ SideOK W names a.dst

theorem jok_mkIP {W : List LPeer} {names : List String} (x : P2P) (b : Bool) (r : Iv) (h : JOK W names x) :
    JOK W names (mkIP b r x) := by
  unfold mkIP
  cases b
  · exact ⟨h.1, Or.inl rfl⟩
  · exact ⟨Or.inl rfl, h.2⟩

theorem sideOK_noSemi {W : List LPeer} (hW : PeersOK W) {names : List String} {p : LPeer} (h : SideOK W names p) : NoSemi p.str := by
  rcases h with h | ⟨h, _, _⟩
  · cases p with
    | ip r => exact noSemi_ipRange r
    | wl n pod => cases h
  · exact hW.noSemi p h

/-- the colour a peer must have in the diff graph -/
def expCol (names1 names2 : List String) (p : LPeer) : String :=
  if isWorkloadAbsent p names1 then "#008000" else if isWorkloadAbsent p names2 then "red" else "blue"

theorem absent_false_of_sideOK {W : List LPeer} {names : List String} {p : LPeer} (h : SideOK W names p) :
    isWorkloadAbsent p names = false := by
  rw [absent_eq]
  rcases h with h | ⟨_, _, h | h⟩
  · simp [h]
  · simp [h]
  · have : names.contains p.str = true := by simpa using h
    rw [this]; simp

/-- two ends with the same string, one good for `names`: the other is not absent from `names` either -/
theorem absent_false_of_same_str {W : List LPeer} (hW : PeersOK W) {n1 n2 : List String} {p q : LPeer}
    (hp : SideOK W n1 p) (hq : SideOK W n2 q) (hs : p.str = q.str) : isWorkloadAbsent p n2 = false := by
  rw [absent_eq]
  rcases hp with hp | ⟨hpW, hpip, _⟩
  · simp [hp]
  · rcases hq with hq | ⟨hqW, _, hq | hq⟩
    · exfalso
      cases q with
      | ip r => exact hW.notIP p hpW hpip r hs
      | wl n pod => cases hq
    · have := (hW.str p hpW q hqW hs).2
      simp [this, hq]
    · have : n2.contains p.str = true := by rw [hs]; simpa using hq
      rw [this]; simp

theorem diffNodeColor_eq (typ : String) (flag : Bool) :
    diffNodeColor typ flag = if flag then (if typ == "added" then "#008000" else if typ == "removed" then "red" else "blue") else "blue" := rfl

/-- every visit of the dot formatter on the computed diff shows a peer of `W` or an IP block, in its expected colour -/
theorem visit_char {W : List LPeer} (hW : PeersOK W) {c1 c2 : List P2P} {n1 n2 : List String}
    (h1 : ∀ a ∈ c1, JOK W n1 a) (h2 : ∀ a ∈ c2, JOK W n2 a) :
    ∀ v ∈ diffVisitSeq (diffConnsLists c1 c2 n1 n2), ∃ p : LPeer, (p.isIP = true ∨ p ∈ W) ∧
      v = (PeerInfo.ofLPeer p, expCol n1 n2 p) := by
  intro v hv
  unfold diffVisitSeq at hv
  obtain ⟨d, hd, hvd⟩ := mem_flatMap.mp hv
  have hd' : d ∈ diffConnsLists c1 c2 n1 n2 := (mem_diffDotSeq.mp hd).1
  have hd'' : d ∈ (mergeIPblocks (diffMap c1 c2)).filterMap (classify n1 n2) := hd'
  obtain ⟨⟨k, pr⟩, hkp, hcl⟩ := mem_filterMap.mp hd''
  have hnd := nodup_diffMap c1 c2
  have hgood := good2_mergeIPblocks hnd (good2_diffMap h1 h2) (fun x b r hx => jok_mkIP x b r hx) (fun x b r hx => jok_mkIP x b r hx)
  have hg := hgood k pr ((mem_iff_get (nodup_mergeIPblocks hnd)).mp hkp)
  have side : ∀ {names} {p : LPeer}, SideOK W names p → (p.isIP = true ∨ p ∈ W) := by
    intro names p h; rcases h with h | ⟨h, _, _⟩; exact Or.inl h; exact Or.inr h
  simp only [mem_cons, not_mem_nil, or_false] at hvd
  cases hf : pr.first with
  | none =>
    cases hs : pr.second with
    | none => simp [classify, hf, hs] at hcl
    | some b =>
      simp only [classify, hf, hs, Option.some.injEq] at hcl
      subst hcl
      obtain ⟨_, hb⟩ := hg.2 b hs
      rcases hvd with rfl | rfl
      · refine ⟨b.src, side hb.1, ?_⟩
        simp only [diffNodeColor_eq, expCol, absent_false_of_sideOK hb.1, Bool.false_eq_true, ↓reduceIte]
        cases isWorkloadAbsent b.src n1 <;> simp
      · refine ⟨b.dst, side hb.2, ?_⟩
        simp only [diffNodeColor_eq, expCol, absent_false_of_sideOK hb.2, Bool.false_eq_true, ↓reduceIte]
        cases isWorkloadAbsent b.dst n1 <;> simp
  | some a =>
    obtain ⟨hka, ha⟩ := hg.1 a hf
    cases hs : pr.second with
    | none =>
      simp only [classify, hf, hs, Option.some.injEq] at hcl
      subst hcl
      rcases hvd with rfl | rfl
      · refine ⟨a.src, side ha.1, ?_⟩
        simp only [diffNodeColor_eq, expCol, absent_false_of_sideOK ha.1, Bool.false_eq_true, ↓reduceIte]
        cases isWorkloadAbsent a.src n2 <;> simp
      · refine ⟨a.dst, side ha.2, ?_⟩
        simp only [diffNodeColor_eq, expCol, absent_false_of_sideOK ha.2, Bool.false_eq_true, ↓reduceIte]
        cases isWorkloadAbsent a.dst n2 <;> simp
    | some b =>
      obtain ⟨hkb, hb⟩ := hg.2 b hs
      simp only [classify, hf, hs, Option.some.injEq] at hcl
      subst hcl
      have hkey : pkey a.src.str a.dst.str = pkey b.src.str b.dst.str := by
        rw [← key_eq, ← key_eq, hka, hkb]
      obtain ⟨es, ed⟩ := pkey_inj (sideOK_noSemi hW ha.1) (sideOK_noSemi hW hb.1) hkey
      rcases hvd with rfl | rfl
      · refine ⟨a.src, side ha.1, ?_⟩
        simp only [diffNodeColor_eq, expCol, absent_false_of_sideOK ha.1, absent_false_of_same_str hW ha.1 hb.1 es,
          Bool.false_eq_true, ↓reduceIte]
      · refine ⟨a.dst, side ha.2, ?_⟩
        simp only [diffNodeColor_eq, expCol, absent_false_of_sideOK ha.2, absent_false_of_same_str hW ha.2 hb.2 ed,
          Bool.false_eq_true, ↓reduceIte]


theorem ofLPeer_ip_of_str {p q : LPeer} (hp : p.isIP = true) (hq : q.isIP = true) (h : p.str = q.str) :
    PeerInfo.ofLPeer p = PeerInfo.ofLPeer q := by
  cases p with
  | wl n pod => cases hp
  | ip r =>
    cases q with
    | wl n pod => cases hq
    | ip r' => simp only [PeerInfo.ofLPeer]; rw [h]

theorem expCol_ip {n1 n2 : List String} {p : LPeer} (hp : p.isIP = true) : expCol n1 n2 p = "blue" := by
  simp [expCol, absent_eq, hp]

/-- the visits of the dot formatter on the computed diff are consistent: one peer string, one node (namespace, label,
colour) -/
theorem diffConnsLists_consistent {W : List LPeer} (hW : PeersOK W) {c1 c2 : List P2P} {n1 n2 : List String}
    (h1 : ∀ a ∈ c1, JOK W n1 a) (h2 : ∀ a ∈ c2, JOK W n2 a) :
    DiffPeersConsistent (diffConnsLists c1 c2 n1 n2) := by
  intro v hv v' hv' hs
  obtain ⟨p, hp, rfl⟩ := visit_char hW h1 h2 v hv
  obtain ⟨q, hq, rfl⟩ := visit_char hW h1 h2 v' hv'
  have hs' : p.str = q.str := by simpa [ofLPeer_str] using hs
  cases hpi : p.isIP with
  | true =>
    cases hqi : q.isIP with
    | true => rw [ofLPeer_ip_of_str hpi hqi hs', expCol_ip hpi, expCol_ip hqi]
    | false =>
      exfalso
      have hqW : q ∈ W := by rcases hq with h | h; rw [hqi] at h; cases h; exact h
      cases p with
      | wl n pod => cases hpi
      | ip r => exact hW.notIP q hqW hqi r hs'.symm
  | false =>
    have hpW : p ∈ W := by rcases hp with h | h; rw [hpi] at h; cases h; exact h
    cases hqi : q.isIP with
    | true =>
      exfalso
      cases q with
      | wl n pod => cases hqi
      | ip r => exact hW.notIP p hpW hpi r hs'
    | false =>
      have hqW : q ∈ W := by rcases hq with h | h; rw [hqi] at h; cases h; exact h
      obtain ⟨e1, e2⟩ := hW.str p hpW q hqW hs'
      rw [e1]
      simp only [expCol, absent_eq, hpi, hqi, e2, hs']

/-- the names of the workload peers of a report (the local `names` of `diffConns`) -/
def peerNamesOf (l : List LPeer) : List String := l.filterMap fun p => match p with | .wl n _ => some n | _ => none

/-- both ends of every line of a report are good: IP blocks, or workloads of `W` that are the pseudo peer of the ingress
controller or among the report's peers -/
def EntriesOK (W : List LPeer) (peers : List LPeer) (es : List Entry) : Prop :=
  ∀ e ∈ es, SideOK W (peerNamesOf peers) e.src ∧ SideOK W (peerNamesOf peers) e.dst

theorem jok_refine {W : List LPeer} {names : List String} {c : List P2P} (dis : List Iv) (h : ∀ a ∈ c, JOK W names a) :
    ∀ a ∈ refine c dis, JOK W names a := by
  intro a ha
  obtain ⟨p, hp, hap⟩ := mem_refine.mp ha
  rcases mem_refine1 hap with ⟨rfl, _⟩ | ⟨r, d, _, _, rfl⟩ | ⟨r, d, _, _, _, rfl⟩
  · exact h _ hp
  · exact ⟨Or.inl rfl, (h p hp).2⟩
  · exact ⟨(h p hp).1, Or.inl rfl⟩

/-- `DiffPeersConsistent` holds of every computed diff (`diffConns`, i.e. `computeDiffFromConnlistResults`) -/
theorem diffConns_peers_consistent {W : List LPeer} (hW : PeersOK W) {e1 e2 : List Entry} {peers1 peers2 : List LPeer}
    (h1 : EntriesOK W peers1 e1) (h2 : EntriesOK W peers2 e2) :
    DiffPeersConsistent (diffConns e1 e2 peers1 peers2) := by
  have j : ∀ {peers es}, EntriesOK W peers es → ∀ a ∈ es.map Diff.ofEntry, JOK W (peerNamesOf peers) a := by
    intro peers es h a ha
    obtain ⟨e, he, rfl⟩ := mem_map.mp ha
    exact h e he
  exact diffConnsLists_consistent hW (jok_refine _ (j h1)) (jok_refine _ (j h2))

theorem entriesOK_mono {W W' : List LPeer} (hsub : ∀ p ∈ W, p ∈ W') {peers : List LPeer} {es : List Entry}
    (h : EntriesOK W peers es) : EntriesOK W' peers es := by
  have side : ∀ {p}, SideOK W (peerNamesOf peers) p → SideOK W' (peerNamesOf peers) p := by
    intro p hp
    rcases hp with hp | ⟨a, b, c⟩
    · exact Or.inl hp
    · exact Or.inr ⟨hsub p a, b, c⟩
  intro e he
  exact ⟨side (h e he).1, side (h e he).2⟩

theorem sideOK_of_mem_peers {W peers : List LPeer} {p : LPeer} (hW : p ∈ W) (hp : p ∈ peers) :
    SideOK W (peerNamesOf peers) p := by
  cases p with
  | ip r => exact Or.inl rfl
  | wl n pod =>
    refine Or.inr ⟨hW, rfl, Or.inr ?_⟩
    exact mem_filterMap.mpr ⟨_, hp, rfl⟩

/-- the lines of a report of the model's `report` (`getConnectionsList`, ingress-controller lines included) satisfy
`EntriesOK` with the report's own peers and the pseudo peer -/
theorem report_entries_ok {objs : List Obj} {focus : String} {stop : Bool} {r : Report}
    (h : report objs focus stop = .ok r) : EntriesOK (icPeer :: r.peers) r.peers r.entries := by
  rcases report_inv h with ⟨he, _⟩ | ⟨_, _, _, he, _⟩ | ⟨eng, peers, owners, entries, ing, blocked, hp, ho, hc, hi, he, hpe, _⟩
  · rw [he]; intro e h; cases h
  · rw [he]; intro e h; cases h
  · rw [he, hpe]
    intro e hmem
    rcases mem_append.mp hmem with hmem | hmem
    · have := Properties.C05.entries_from_peers hc e hmem
      exact ⟨sideOK_of_mem_peers (mem_cons_of_mem _ this.1) this.1, sideOK_of_mem_peers (mem_cons_of_mem _ this.2) this.2⟩
    · obtain ⟨hs, n, pod, hown, hd⟩ := (ingressEntries_props hi).2 e hmem
      have hdp := owners_in_peers hp ho hown
      rw [hs, hd]
      exact ⟨Or.inr ⟨mem_cons_self, rfl, Or.inl (by decide)⟩, sideOK_of_mem_peers (mem_cons_of_mem _ hdp) hdp⟩

/-- the diff computed from two reports of the model: the dot formatter's visits are consistent when peer strings
determine the peers *across the two reports* (`PeersOK` of the pseudo peer and the peers of both) -/
theorem reports_diff_peers_consistent {objs1 objs2 : List Obj} {focus1 focus2 : String} {stop1 stop2 : Bool} {r1 r2 : Report}
    (h1 : report objs1 focus1 stop1 = .ok r1) (h2 : report objs2 focus2 stop2 = .ok r2)
    (hW : PeersOK (icPeer :: (r1.peers ++ r2.peers))) :
    DiffPeersConsistent (diffConns r1.entries r2.entries r1.peers r2.peers) := by
  refine diffConns_peers_consistent hW (entriesOK_mono ?_ (report_entries_ok h1)) (entriesOK_mono ?_ (report_entries_ok h2))
  · intro p hp
    rcases mem_cons.mp hp with rfl | hp
    · exact mem_cons_self
    · exact mem_cons_of_mem _ (mem_append_left _ hp)
  · intro p hp
    rcases mem_cons.mp hp with rfl | hp
    · exact mem_cons_self
    · exact mem_cons_of_mem _ (mem_append_right _ hp)

end Consistency

end Format
end Netpol
