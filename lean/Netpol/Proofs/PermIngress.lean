import Netpol.Proofs.PermLayer

/-! Property C08 (order independence of the modelled analysis), the ingress-controller part: the
`list` report does not depend on the order of the input objects, for inputs WITH Ingress / Route
objects. `Netpol.PermLayer.runList_perm_noIngress` covers the inputs without targets; this file
removes that hypothesis (`runList_perm`). Core Lean only.

The ingress analysis reads the input twice: the Service / Ingress / Route documents in input
order (`services`, `targets`), and the workload peers through `podOwnersMap` (the pod standing for
a workload is the last one met). Three things depend on the order in the intermediate values — the
order of the `allowedIngress` entries, the order of the unions inside their connection sets, and
the standing pods (not any more: `createPodOwnersMap` now walks the pods in sorted key order, so the
two owner maps are the same list, `owners_sim_refl`) — and none of them shows in the report, under
one hypothesis on the input (`IngressWF`, decidable, invariant under reordering), which is
necessary (counterexamples in section H):

* `EffSvcUnique`: two Service documents with the same namespace and name that both have a
  selector selecting some pod are the same document (`lookupSvc` takes the last one: Go map
  assignment).

(Before the sorted iteration a second clause was needed: a pod named `ingress-controller` in
`ingress-controller-ns` must not share its workload with a pod of another name, because
`isPodToItself` compares the standing pod with the ingress-controller pod the analyzer adds.)

No validity of Service ports, Ingress backends or Routes is needed (that is `ValidInput` of
property C10: correctness, not order independence); legal container ports (`PodPortsValid`, part of
`WellFormed`) make every connection set of the ingress analysis a canonical TCP-only set (`Good`),
so that the union over the contributions of a workload does not depend on their order. On a valid
engine the loop of `getIngressAllowedConnections` can only fail in one way (`ingOut_err_class`).

Layout: A the workload peers of two equivalent engines (`owners_sim`); B services and the lookup
(`services_fwd`, `lookup_iff`); C the contributions (`contributions_fwd`, `Good`); D the merge by
workload name (`group_sim`, `allowedIngress_sim`); E the engine with the ingress-controller pod
(`ingressEngine_equiv`); F the loop of `getIngressAllowedConnections` as a `collect`
(`foldlM_entryStep_collect`, `ingOut_sim`, `collect_sim`, `ingressEntries_sim`); G the report
(`runList_perm`); H an example that satisfies every hypothesis, and the counterexamples. -/
namespace Netpol.PermIngress
open Netpol Netpol.Engine Netpol.Structure Netpol.IngressA
open Netpol.IngressLayer (Contrib groupStep group contributions selPeers svcSelects TcpOnly
  ingressEngine ingressSrc entryStep policyConn focused ValidPod)
open Netpol.PermLayer

/-! ## A. the workload peers of two equivalent engines -/

/-- two owner maps over the same pods: the same workload names, similar standing pods -/
structure OwnersSim (pods : List Pod) (owners owners' : List (String × Pod)) : Prop where
  nodup : (owners.map (·.1)).Nodup
  nodup' : (owners'.map (·.1)).Nodup
  mem : ∀ n p, (n, p) ∈ owners → p ∈ pods ∧ n = workloadName p
  mem' : ∀ n p, (n, p) ∈ owners' → p ∈ pods ∧ n = workloadName p
  fwd : ∀ n p, (n, p) ∈ owners → ∃ p', (n, p') ∈ owners' ∧ SamePeer p p'
  bwd : ∀ n p', (n, p') ∈ owners' → ∃ p, (n, p) ∈ owners ∧ SamePeer p p'

theorem OwnersSim.symm {pods : List Pod} {o o' : List (String × Pod)} (h : OwnersSim pods o o') :
    OwnersSim pods o' o where
  nodup := h.nodup'
  nodup' := h.nodup
  mem := h.mem'
  mem' := h.mem
  fwd := fun n p hm => by
    obtain ⟨q, hq, hs⟩ := h.bwd n p hm
    exact ⟨q, hq, hs.symm⟩
  bwd := fun n p hm => by
    obtain ⟨q, hq, hs⟩ := h.fwd n p hm
    exact ⟨q, hq, hs.symm⟩

theorem owners_fwd {e e' : Engine} (hpods : e.pods.Perm e'.pods) (hu : UniformPods e.pods)
    {owners owners' : List (String × Pod)} (ho : e.podOwnersMap = .ok owners)
    (ho' : e'.podOwnersMap = .ok owners') :
    ∀ n p, (n, p) ∈ owners → ∃ p', (n, p') ∈ owners' ∧ SamePeer p p' := by
  obtain ⟨_, f2, _⟩ := podOwnersMap_facts ho
  obtain ⟨_, g2, g3⟩ := podOwnersMap_facts ho'
  intro n p hnp
  obtain ⟨a1, a2⟩ := f2 _ hnp
  simp only at a1 a2
  have := g3 p (hpods.mem_iff.mp a2)
  obtain ⟨⟨n', p'⟩, hm, hn'⟩ := List.mem_map.mp this
  simp only at hn'
  obtain ⟨b1, b2⟩ := g2 _ hm
  simp only at b1 b2
  have hsame : SamePeer p p' := hu p a2 p' (hpods.mem_iff.mpr b2) (by rw [← hn', b1])
  refine ⟨p', ?_, hsame⟩
  rw [a1, ← hn']
  exact hm

/-- **the workload peers**: equivalent engines with uniform pods have the same workload names,
with similar standing pods -/
theorem owners_sim {e e' : Engine} (h : e.Equiv e') (hu : UniformPods e.pods)
    {owners owners' : List (String × Pod)} (ho : e.podOwnersMap = .ok owners)
    (ho' : e'.podOwnersMap = .ok owners') : OwnersSim e.pods owners owners' where
  nodup := (podOwnersMap_facts ho).1
  nodup' := (podOwnersMap_facts ho').1
  mem := fun n p hm => by
    obtain ⟨a1, a2⟩ := (podOwnersMap_facts ho).2.1 _ hm
    exact ⟨a2, a1⟩
  mem' := fun n p hm => by
    obtain ⟨a1, a2⟩ := (podOwnersMap_facts ho').2.1 _ hm
    exact ⟨h.pods.mem_iff.mpr a2, a1⟩
  fwd := owners_fwd h.pods hu ho ho'
  bwd := fun n p' hm => by
    obtain ⟨p, hp, hs⟩ := owners_fwd h.pods.symm (hu.perm h.pods) ho' ho n p' hm
    exact ⟨p, hp, hs.symm⟩

/-- with the sorted iteration of `createPodOwnersMap` the owner maps of two equivalent engines are
the same list (`PermLayer.podOwnersMap_perm`); it is similar to itself when the pods are real -/
theorem owners_sim_refl {e : Engine} (hreal : ∀ p ∈ e.pods, p.isRepresentative = false)
    {owners : List (String × Pod)} (ho : e.podOwnersMap = .ok owners) :
    OwnersSim e.pods owners owners where
  nodup := (podOwnersMap_facts ho).1
  nodup' := (podOwnersMap_facts ho).1
  mem := fun n p hm => by
    obtain ⟨a1, a2⟩ := (podOwnersMap_facts ho).2.1 _ hm
    exact ⟨a2, a1⟩
  mem' := fun n p hm => by
    obtain ⟨a1, a2⟩ := (podOwnersMap_facts ho).2.1 _ hm
    exact ⟨a2, a1⟩
  fwd := fun n p hm => by
    have hr := hreal p ((podOwnersMap_facts ho).2.1 _ hm).2
    exact ⟨p, hm, ⟨rfl, rfl, rfl, rfl, hr, hr⟩⟩
  bwd := fun n p hm => by
    have hr := hreal p ((podOwnersMap_facts ho).2.1 _ hm).2
    exact ⟨p, hm, ⟨rfl, rfl, rfl, rfl, hr, hr⟩⟩

/-! ## B. services and the lookup -/

theorem svcSelects_sim (s : Service) {p p' : Pod} (h : SamePeer p p') :
    svcSelects s p = svcSelects s p' := by
  unfold svcSelects
  rw [h.labels]

theorem selPeers_fwd {pods : List Pod} {o o' : List (String × Pod)} (h : OwnersSim pods o o')
    (s : Service) (n : String) (p : Pod) (hm : (n, p) ∈ selPeers s o) :
    ∃ p', (n, p') ∈ selPeers s o' ∧ SamePeer p p' := by
  rw [IngressLayer.mem_selPeers] at hm
  obtain ⟨p', hp', hs⟩ := h.fwd n p hm.1
  refine ⟨p', ?_, hs⟩
  rw [IngressLayer.mem_selPeers]
  exact ⟨hp', hs.ns ▸ hm.2.1, by rw [← svcSelects_sim s hs]; exact hm.2.2⟩

theorem services_fwd {objs objs' : List Obj} (hp : objs.Perm objs') {pods : List Pod}
    {o o' : List (String × Pod)} (h : OwnersSim pods o o') {s : Service}
    {peers : List (String × Pod)} (hm : (s, peers) ∈ services objs o) :
    (s, selPeers s o') ∈ services objs' o' := by
  rw [IngressLayer.mem_services] at hm ⊢
  obtain ⟨h1, h2, rfl, h4⟩ := hm
  refine ⟨hp.mem_iff.mp h1, h2, rfl, ?_⟩
  intro hnil
  cases hs : selPeers s o with
  | nil => exact h4 hs
  | cons x xs =>
    obtain ⟨n, p⟩ := x
    obtain ⟨p', hp', _⟩ := selPeers_fwd h s n p (by rw [hs]; exact List.mem_cons_self ..)
    rw [hnil] at hp'
    cases hp'

theorem services_isEmpty {objs objs' : List Obj} (hp : objs.Perm objs') {pods : List Pod}
    {o o' : List (String × Pod)} (h : OwnersSim pods o o') :
    (services objs o).isEmpty = (services objs' o').isEmpty := by
  have key : ∀ {objs objs' : List Obj} {o o' : List (String × Pod)}, objs.Perm objs' →
      OwnersSim pods o o' → (services objs o).isEmpty = false →
      (services objs' o').isEmpty = false := by
    intro objs objs' o o' hp h hne
    cases hs : services objs o with
    | nil => rw [hs] at hne; cases hne
    | cons x xs =>
      obtain ⟨s, peers⟩ := x
      have := services_fwd hp h (s := s) (peers := peers) (by rw [hs]; exact List.mem_cons_self ..)
      cases hs' : services objs' o' with
      | nil => rw [hs'] at this; cases this
      | cons _ _ => rfl
  cases h1 : (services objs o).isEmpty with
  | false => exact (key hp h h1).symm
  | true =>
    cases h2 : (services objs' o').isEmpty with
    | true => rfl
    | false => rw [key hp.symm h.symm h2] at h1; cases h1

/-- the Service documents of the input -/
def svcsOf (objs : List Obj) : List Service :=
  objs.filterMap fun o => match o with
    | .svc s => some s
    | _ => none

theorem mem_svcsOf (objs : List Obj) (s : Service) : s ∈ svcsOf objs ↔ Obj.svc s ∈ objs := by
  unfold svcsOf
  rw [List.mem_filterMap]
  constructor
  · rintro ⟨o, ho, h⟩
    cases o <;> simp only [Option.some.injEq, reduceCtorEq] at h
    subst h
    exact ho
  · intro h
    exact ⟨_, h, rfl⟩

/-- the Service is recorded by `mapServiceToPeers`: it has a selector, and the selector selects
some pod of its namespace -/
def Effective (objs : List Obj) (s : Service) : Prop :=
  s.selector.isEmpty = false ∧ ∃ p ∈ podsIn objs, p.ns = s.ns ∧ svcSelects s p = true

instance (objs : List Obj) (s : Service) : Decidable (Effective objs s) := by
  unfold Effective; infer_instance

/-- two recorded Service documents with the same namespace and name are the same document.
(`lookupSvc` keeps the last one met: the Go map assignment `servicesToPeersMap[ns][name] = …`;
first counterexample at the end of the file.) Documents that are not recorded — no selector, or no
selected pod — may share their name with any other. -/
def EffSvcUnique (objs : List Obj) : Prop :=
  ∀ s₁ ∈ svcsOf objs, ∀ s₂ ∈ svcsOf objs, Effective objs s₁ → Effective objs s₂ →
    s₁.ns = s₂.ns → s₁.name = s₂.name → s₁ = s₂

instance (objs : List Obj) : Decidable (EffSvcUnique objs) := by
  unfold EffSvcUnique; infer_instance

theorem svcsOf_perm {objs objs' : List Obj} (hp : objs.Perm objs') :
    (svcsOf objs).Perm (svcsOf objs') := hp.filterMap _

theorem Effective.perm {objs objs' : List Obj} (hp : objs.Perm objs') {s : Service}
    (h : Effective objs s) : Effective objs' s := by
  obtain ⟨h1, p, hp', h2⟩ := h
  exact ⟨h1, p, (podsIn_perm hp).mem_iff.mp hp', h2⟩

theorem EffSvcUnique.perm {objs objs' : List Obj} (hp : objs.Perm objs') (h : EffSvcUnique objs) :
    EffSvcUnique objs' := fun s₁ h₁ s₂ h₂ e₁ e₂ =>
  h s₁ ((svcsOf_perm hp).mem_iff.mpr h₁) s₂ ((svcsOf_perm hp).mem_iff.mpr h₂) (e₁.perm hp.symm)
    (e₂.perm hp.symm)

/-- the stronger hypothesis of `Netpol.IngressLayer` (property C10) implies this one -/
theorem effSvcUnique_of_svcUnique {objs : List Obj} (h : IngressLayer.SvcUnique objs) :
    EffSvcUnique objs := fun s₁ h₁ s₂ h₂ _ _ =>
  h s₁ s₂ ((mem_svcsOf ..).mp h₁) ((mem_svcsOf ..).mp h₂)

/-- the recorded services have pairwise distinct (namespace, name) -/
def SvcsUnique (svcs : List (Service × List (String × Pod))) : Prop :=
  ∀ a ∈ svcs, ∀ b ∈ svcs, a.1.ns = b.1.ns → a.1.name = b.1.name → a = b

theorem services_unique {objs : List Obj} (hu : EffSvcUnique objs) {o : List (String × Pod)}
    (hmem : ∀ n p, (n, p) ∈ o → p ∈ podsIn objs) : SvcsUnique (services objs o) := by
  rintro ⟨s1, p1⟩ h1 ⟨s2, p2⟩ h2 hns hname
  rw [IngressLayer.mem_services] at h1 h2
  have eff : ∀ s : Service, s.selector.isEmpty = false → selPeers s o ≠ [] → Effective objs s := by
    intro s hs hne
    cases hsp : selPeers s o with
    | nil => exact absurd hsp hne
    | cons x xs =>
      obtain ⟨n, p⟩ := x
      have hm : (n, p) ∈ selPeers s o := by rw [hsp]; exact List.mem_cons_self ..
      rw [IngressLayer.mem_selPeers] at hm
      exact ⟨hs, p, hmem n p hm.1, hm.2.1, hm.2.2⟩
  have : s1 = s2 := hu s1 ((mem_svcsOf ..).mpr h1.1) s2 ((mem_svcsOf ..).mpr h2.1)
    (eff s1 h1.2.1 (h1.2.2.1 ▸ h1.2.2.2)) (eff s2 h2.2.1 (h2.2.2.1 ▸ h2.2.2.2)) hns hname
  subst this
  rw [h1.2.2.1, h2.2.2.1]

/-- with distinct (namespace, name), the lookup is membership -/
theorem lookup_iff {svcs : List (Service × List (String × Pod))} (hu : SvcsUnique svcs)
    (ns name : String) (s : Service) (peers : List (String × Pod)) :
    lookupSvc svcs ns name = some (s, peers) ↔ (s, peers) ∈ svcs ∧ s.ns = ns ∧ s.name = name := by
  unfold lookupSvc
  rw [IngressLayer.getLast?_filter_unique]
  · simp
  · rintro a h1 b h2 hf1 hf2
    simp only [Bool.and_eq_true, beq_iff_eq] at hf1 hf2
    exact hu a h1 b h2 (hf1.1.trans hf2.1.symm) (hf1.2.trans hf2.2.symm)

/-! ## C. the contributions -/

/-- `getIngressPeerConnection` reads the container ports of the pod only -/
theorem peerConnection_ports {p p' : Pod} (h : p.ports = p'.ports) (sps : List SvcPort) (req : IOS)
    (byT : Bool) : peerConnection p sps req byT = peerConnection p' sps req byT := by
  unfold peerConnection podExposedTCP Pod.convertNamedPort
  rw [h]

theorem contributions_fwd {objs objs' : List Obj} (hp : objs.Perm objs') {pods : List Pod}
    {o o' : List (String × Pod)} (h : OwnersSim pods o o') (hu : SvcsUnique (services objs o))
    (hu' : SvcsUnique (services objs' o')) (n : String) (p : Pod) (c : ConnSet)
    (hm : (n, p, c) ∈ contributions (services objs o) (targets objs)) :
    ∃ p', (n, p', c) ∈ contributions (services objs' o') (targets objs') ∧ SamePeer p p' := by
  rw [IngressLayer.mem_contributions] at hm
  obtain ⟨ns, svc, req, byT, ⟨tag, l, ht, hl⟩, s, peers, hlk, hpm, rfl⟩ := hm
  rw [lookup_iff hu] at hlk
  obtain ⟨hsm, hns, hname⟩ := hlk
  have hpeers : peers = selPeers s o := ((IngressLayer.mem_services ..).mp hsm).2.2.1
  subst hpeers
  obtain ⟨p', hp', hs⟩ := selPeers_fwd h s n p hpm
  refine ⟨p', ?_, hs⟩
  rw [IngressLayer.mem_contributions]
  refine ⟨ns, svc, req, byT, ⟨tag, l, (targets_perm hp).mem_iff.mp ht, hl⟩, s, selPeers s o', ?_,
    hp', peerConnection_ports hs.ports _ _ _⟩
  rw [lookup_iff hu']
  exact ⟨services_fwd hp h hsm, hns, hname⟩

/-! ### the connection sets of the contributions are canonical TCP-only sets -/

/-- the values of the ingress analysis: well-formed, TCP points only, no named port (`TcpOnly`),
in canonical form and without excluded ports -/
structure Good (c : ConnSet) : Prop where
  tcp : TcpOnly c
  canon : c.Canonical
  plain : Plain c

theorem good_mk : Good (ConnSet.mk' false) :=
  ⟨IngressLayer.tcpOnly_mk, ConnSet.canonical_mk false, plain_mk false⟩

theorem good_add {c : ConnSet} (h : Good c) {n : Int} (hn : inRange n) :
    Good (c.addConnection .TCP ((PortSet.mk' false).addPortRange n n)) := by
  refine ⟨IngressLayer.tcpOnly_add h.tcp hn, ?_, plain_addConnection h.plain .TCP ⟨rfl, rfl⟩⟩
  exact ConnSet.canonical_addConnection .TCP h.tcp.wf
    (PortSet.wf_addPortRange (PortSet.wf_mk' false) hn.1 hn.2)

theorem good_peerStep {p : Pod} (hp : ValidPod p) {res : ConnSet} (hr : Good res) (ap : IOS) :
    Good (IngressLayer.peerStep p res ap) := by
  unfold IngressLayer.peerStep
  cases IngressLayer.stepPort p ap with
  | none => exact hr
  | some n =>
    simp only
    split
    · rename_i hc
      rw [IngressLayer.contains_exposed hp] at hc
      exact good_add hr (IngressLayer.exposed_inRange hp hc)
    · exact hr

theorem good_peerConnection {p : Pod} (hp : ValidPod p) (sps : List SvcPort) (req : IOS)
    (byT : Bool) : Good (peerConnection p sps req byT) := by
  rw [IngressLayer.peerConnection_eq]
  generalize accessPorts sps req byT = aps
  have : ∀ (acc : ConnSet), Good acc → Good (aps.foldl (IngressLayer.peerStep p) acc) := by
    induction aps with
    | nil => exact fun acc h => h
    | cons a as ih => exact fun acc h => ih _ (good_peerStep hp h a)
  exact this _ good_mk

theorem good_union {c o : ConnSet} (hc : Good c) (ho : Good o) : Good (c.union o) := by
  refine ⟨⟨ConnSet.wf_union hc.tcp.wf ho.tcp.wf, ?_, ?_,
    IngressLayer.noNames_union hc.tcp.noNames ho.tcp.noNames⟩,
    ConnSet.canonical_union hc.tcp.wf ho.tcp.wf (fun _ => hc.canon.2), plain_union hc.plain ho.plain⟩
  · intro x hx
    rcases (ConnSet.den_union hc.tcp.wf ho.tcp.wf _ _).mp hx with h | h
    · exact hc.tcp.noUDP x h
    · exact ho.tcp.noUDP x h
  · intro x hx
    rcases (ConnSet.den_union hc.tcp.wf ho.tcp.wf _ _).mp hx with h | h
    · exact hc.tcp.noSCTP x h
    · exact ho.tcp.noSCTP x h

theorem contributions_good {objs : List Obj} {o : List (String × Pod)}
    (hv : ∀ n p, (n, p) ∈ o → ValidPod p)
    {tg : List (String × String × List (String × IOS × Bool))} {e : Contrib}
    (h : e ∈ contributions (services objs o) tg) : (e.1, e.2.1) ∈ o ∧ Good e.2.2 := by
  obtain ⟨n, p, c⟩ := e
  obtain ⟨ho, sps, req, byT, rfl⟩ := IngressLayer.contrib_owner h
  exact ⟨ho, good_peerConnection (hv n p ho) _ _ _⟩

/-! ## D. the merge by workload name -/

theorem good_groupStep {acc : List Contrib} {e : Contrib} (ha : ∀ a ∈ acc, Good a.2.2)
    (he : Good e.2.2) : ∀ a ∈ groupStep acc e, Good a.2.2 := by
  intro a hm
  cases h : acc.any (·.1 == e.1)
  · rw [IngressLayer.mem_groupStep_not_any h] at hm
    rcases hm with hm | rfl
    · exact ha a hm
    · exact he
  · rw [IngressLayer.mem_groupStep_any h] at hm
    obtain ⟨b, hb, rfl⟩ := hm
    split
    · exact good_union (ha b hb) he
    · exact ha b hb

theorem good_group (contribs : List Contrib) {acc : List Contrib} (ha : ∀ a ∈ acc, Good a.2.2)
    (hc : ∀ a ∈ contribs, Good a.2.2) : ∀ a ∈ group contribs acc, Good a.2.2 := by
  unfold group
  induction contribs generalizing acc with
  | nil => exact ha
  | cons e es ih =>
    rw [List.foldl_cons]
    exact ih (good_groupStep ha (hc e (List.mem_cons_self ..)))
      (fun a h => hc a (List.mem_cons_of_mem _ h))

/-- two entries of `AllowedIngressConnections` for the same workload: the same name, the same
connection set, similar standing pods of that workload -/
structure ESim (pods : List Pod) (a b : Contrib) : Prop where
  name : a.1 = b.1
  conn : a.2.2 = b.2.2
  same : SamePeer a.2.1 b.2.1
  mem : a.2.1 ∈ pods
  mem' : b.2.1 ∈ pods
  wname : workloadName a.2.1 = workloadName b.2.1
  good : Good a.2.2

/-- two results of `AllowedIngressConnections` that hold the same entries up to order and
standing pods -/
structure CSim (pods : List Pod) (l l' : List Contrib) : Prop where
  nodup : (l.map (·.1)).Nodup
  nodup' : (l'.map (·.1)).Nodup
  fwd : ∀ a ∈ l, ∃ b ∈ l', ESim pods a b
  bwd : ∀ b ∈ l', ∃ a ∈ l, ESim pods a b

/-- the hypotheses on the two runs of the ingress analysis -/
structure Runs (objs objs' : List Obj) (pods : List Pod) (o o' : List (String × Pod)) : Prop where
  perm : objs.Perm objs'
  owners : OwnersSim pods o o'
  valid : ∀ p ∈ pods, ValidPod p
  uniq : SvcsUnique (services objs o)
  uniq' : SvcsUnique (services objs' o')

theorem Runs.symm {objs objs' : List Obj} {pods : List Pod} {o o' : List (String × Pod)}
    (h : Runs objs objs' pods o o') : Runs objs' objs pods o' o :=
  ⟨h.perm.symm, h.owners.symm, h.valid, h.uniq', h.uniq⟩

theorem group_fwd {objs objs' : List Obj} {pods : List Pod} {o o' : List (String × Pod)}
    (h : Runs objs objs' pods o o') :
    ∀ a ∈ group (contributions (services objs o) (targets objs)) [],
      ∃ b ∈ group (contributions (services objs' o') (targets objs')) [], ESim pods a b := by
  have hv : ∀ n p, (n, p) ∈ o → ValidPod p := fun n p hm => h.valid p (h.owners.mem n p hm).1
  have hv' : ∀ n p, (n, p) ∈ o' → ValidPod p := fun n p hm => h.valid p (h.owners.mem' n p hm).1
  have hgC : ∀ a ∈ contributions (services objs o) (targets objs), Good a.2.2 :=
    fun a ha => (contributions_good hv ha).2
  have hgC' : ∀ a ∈ contributions (services objs' o') (targets objs'), Good a.2.2 :=
    fun a ha => (contributions_good hv' ha).2
  have hgL := good_group _ (acc := []) (fun a ha => by cases ha) hgC
  have hgL' := good_group _ (acc := []) (fun a ha => by cases ha) hgC'
  have hnd := IngressLayer.nodup_group (contributions (services objs o) (targets objs))
    (acc := []) List.nodup_nil
  have hnd' := IngressLayer.nodup_group (contributions (services objs' o') (targets objs'))
    (acc := []) List.nodup_nil
  have wfC : IngressLayer.AllWF (contributions (services objs o) (targets objs)) :=
    fun a ha => (hgC a ha).tcp.wf
  have wfC' : IngressLayer.AllWF (contributions (services objs' o') (targets objs')) :=
    fun a ha => (hgC' a ha).tcp.wf
  rintro ⟨n, p, c⟩ hm
  -- the name has an entry on the other side
  have hn : n ∈ (group (contributions (services objs o) (targets objs)) []).map (·.1) :=
    List.mem_map.mpr ⟨_, hm, rfl⟩
  rcases (IngressLayer.mem_names_group ..).mp hn with hn | hn
  · cases hn
  obtain ⟨⟨n0, q, d⟩, hq, hqn⟩ := List.mem_map.mp hn
  simp only at hqn
  subst hqn
  obtain ⟨q', hq', _⟩ := contributions_fwd h.perm h.owners h.uniq h.uniq' n0 q d hq
  have hn' : n0 ∈ (group (contributions (services objs' o') (targets objs')) []).map (·.1) :=
    (IngressLayer.mem_names_group ..).mpr (Or.inr (List.mem_map.mpr ⟨_, hq', rfl⟩))
  obtain ⟨⟨n1, p', c'⟩, hm', hn1⟩ := List.mem_map.mp hn'
  simp only at hn1
  subst hn1
  refine ⟨(n1, p', c'), hm', ?_⟩
  -- the standing pods
  have hpo : (n1, p) ∈ o := by
    rcases IngressLayer.pod_group _ hm with ⟨_, hh⟩ | ⟨c0, hh⟩
    · cases hh
    · exact (contributions_good hv hh).1
  have hpo' : (n1, p') ∈ o' := by
    rcases IngressLayer.pod_group _ hm' with ⟨_, hh⟩ | ⟨c0, hh⟩
    · cases hh
    · exact (contributions_good hv' hh).1
  obtain ⟨p'', hp'', hsame⟩ := h.owners.fwd n1 p hpo
  have : p'' = p' := IngressLayer.pair_unique h.owners.nodup' hp'' hpo'
  subst this
  obtain ⟨m1, w1⟩ := h.owners.mem n1 p hpo
  obtain ⟨m2, w2⟩ := h.owners.mem' n1 p'' hpo'
  refine ⟨rfl, ?_, hsame, m1, m2, by rw [← w1, ← w2], hgL _ hm⟩
  -- the connection sets
  show c = c'
  apply eq_of_den_plain (hgL _ hm).canon (hgL' _ hm').canon (hgL _ hm).plain (hgL' _ hm').plain
  intro pr x
  rw [IngressLayer.den_entry hnd hm, IngressLayer.den_entry hnd' hm',
    IngressLayer.D_group _ IngressLayer.allWF_nil wfC, IngressLayer.D_group _ IngressLayer.allWF_nil wfC']
  have hD : ∀ l : List Contrib, ¬ IngressLayer.D ([] : List Contrib) n1 pr x := by
    intro _ ⟨_, _, hh, _⟩
    cases hh
  constructor
  · rintro (hh | ⟨⟨n2, q2, d2⟩, he, rfl, hd⟩)
    · exact absurd hh (hD [])
    · obtain ⟨q2', he', _⟩ := contributions_fwd h.perm h.owners h.uniq h.uniq' _ q2 d2 he
      exact Or.inr ⟨_, he', rfl, hd⟩
  · rintro (hh | ⟨⟨n2, q2, d2⟩, he, rfl, hd⟩)
    · exact absurd hh (hD [])
    · obtain ⟨q2', he', _⟩ :=
        contributions_fwd h.perm.symm h.owners.symm h.uniq' h.uniq _ q2 d2 he
      exact Or.inr ⟨_, he', rfl, hd⟩

theorem ESim.symm {pods : List Pod} {a b : Contrib} (h : ESim pods a b) : ESim pods b a :=
  ⟨h.name.symm, h.conn.symm, h.same.symm, h.mem', h.mem, h.wname.symm, h.conn ▸ h.good⟩

/-- **`AllowedIngressConnections`**: the two runs return the same entries, up to order and
standing pods -/
theorem group_sim {objs objs' : List Obj} {pods : List Pod} {o o' : List (String × Pod)}
    (h : Runs objs objs' pods o o') :
    CSim pods (group (contributions (services objs o) (targets objs)) [])
      (group (contributions (services objs' o') (targets objs')) []) where
  nodup := IngressLayer.nodup_group _ List.nodup_nil
  nodup' := IngressLayer.nodup_group _ List.nodup_nil
  fwd := group_fwd h
  bwd := fun b hb => by
    obtain ⟨a, ha, hs⟩ := group_fwd h.symm b hb
    exact ⟨a, ha, hs.symm⟩

theorem allowedIngress_isSome {objs objs' : List Obj} {pods : List Pod}
    {o o' : List (String × Pod)} (h : Runs objs objs' pods o o') :
    (allowedIngress objs o).isSome = (allowedIngress objs' o').isSome := by
  rw [IngressLayer.allowedIngress_eq, IngressLayer.allowedIngress_eq,
    services_isEmpty h.perm h.owners, (targets_perm h.perm).isEmpty_eq]
  split <;> rfl

/-- **the ingress analysis**: both runs find nothing, or the same entries -/
theorem allowedIngress_sim {objs objs' : List Obj} {pods : List Pod}
    {o o' : List (String × Pod)} (h : Runs objs objs' pods o o') :
    (allowedIngress objs o = none ∧ allowedIngress objs' o' = none) ∨
    ∃ l l', allowedIngress objs o = some l ∧ allowedIngress objs' o' = some l' ∧ CSim pods l l' := by
  rw [IngressLayer.allowedIngress_eq, IngressLayer.allowedIngress_eq,
    services_isEmpty h.perm h.owners, (targets_perm h.perm).isEmpty_eq]
  split
  · exact Or.inl ⟨rfl, rfl⟩
  · exact Or.inr ⟨_, _, rfl, rfl, group_sim h⟩

/-! ## E. the engine with the ingress-controller pod -/

/-- `AddPodByNameAndNamespace` keeps two engines equivalent: the namespace of the
ingress-controller pod is added to both or to none, and only when it is new -/
theorem ingressEngine_equiv {e e' : Engine} (h : e.Equiv e') :
    (ingressEngine e).Equiv (ingressEngine e') := by
  unfold ingressEngine
  rw [← h.findNs]
  split
  · exact h
  · rename_i hf
    refine ⟨h.namespaces.append_right _, ?_, h.pods, h.podsNodup, h.netpols, h.anps, h.banp⟩
    show ((e.namespaces ++ [_]).map (fun x : NsObj => x.name)).Nodup
    rw [List.map_append, List.nodup_append]
    refine ⟨h.nsNodup, by simp, ?_⟩
    intro a ha b hb hab
    simp only [List.map_cons, List.map_nil, List.mem_singleton] at hb
    subst hab
    subst hb
    apply hf
    unfold findNs
    rw [find?_name_isSome]
    exact ha

theorem ingressEngine_findNs_src (e : Engine) :
    ∃ n, (ingressEngine e).findNs ingressPod.ns = some n := by
  unfold ingressEngine
  split
  · rename_i h
    exact Option.isSome_iff_exists.mp h
  · rename_i h
    have hn : e.findNs ingressPod.ns = none := by
      cases hf : e.findNs ingressPod.ns with
      | none => rfl
      | some x => rw [hf] at h; exact absurd rfl h
    unfold findNs at hn ⊢
    simp only [List.find?_append, hn, Option.none_or]
    refine ⟨⟨ingressPod.ns, [(nsNameLabelKey, ingressPod.ns)]⟩, ?_⟩
    simp

theorem ingressEngine_findNs_of_some {e : Engine} {ns : String} {n : NsObj}
    (h : e.findNs ns = some n) : (ingressEngine e).findNs ns = some n := by
  unfold ingressEngine
  split
  · exact h
  · unfold findNs at h ⊢
    simp only [List.find?_append, h, Option.some_or]

/-! ## F. the loop of `getIngressAllowedConnections` -/

/-- what one entry of `AllowedIngressConnections` adds to the report: a line or a blocked
workload -/
abbrev Out := Entry ⊕ String

def lefts {α β : Type} (l : List (α ⊕ β)) : List α :=
  l.filterMap fun x => match x with
    | .inl a => some a
    | .inr _ => none

def rights {α β : Type} (l : List (α ⊕ β)) : List β :=
  l.filterMap fun x => match x with
    | .inl _ => none
    | .inr b => some b

/-- one round of the loop, as a function of the entry alone -/
def ingOut (eng : Engine) (focus : String) (e : Contrib) : Except Err (List Out) :=
  if focused focus e.1 e.2.1 then
    (policyConn eng e.1 e.2.1).map fun pc =>
      if (e.2.2.inter pc).isEmpty then [.inr e.1]
      else [.inl ⟨ingressSrc, LPeer.wl e.1 e.2.1, e.2.2.inter pc⟩]
  else .ok []

theorem entryStep_eq (eng : Engine) (focus : String) (acc : List Entry × List String)
    (e : Contrib) :
    entryStep eng focus acc e =
      (ingOut eng focus e).map fun r => (acc.1 ++ lefts r, acc.2 ++ rights r) := by
  obtain ⟨n, p, c⟩ := e
  simp only [entryStep, ingOut]
  cases hf : focused focus n p
  · have hf' := hf
    unfold focused at hf'
    simp only [hf', Bool.not_false, if_true, Bool.false_eq_true, if_false]
    simp [Except.map, lefts, rights, pure, Except.pure]
  · have hf' := hf
    unfold focused at hf'
    simp only [hf', Bool.not_true, Bool.false_eq_true, if_false, if_true]
    unfold policyConn
    cases h1 : eng.toKPeer ingressSrc with
    | error err => rfl
    | ok ks =>
      cases h2 : eng.toKPeer (LPeer.wl n p) with
      | error err => rfl
      | ok kd =>
        cases h3 : eng.peerConns ks kd with
        | error err => simp only [bind, Except.bind, h3]; rfl
        | ok pc =>
          simp only [bind, Except.bind, h3, Except.map]
          cases (c.inter pc).isEmpty <;> simp [lefts, rights, pure, Except.pure]

/-- the loop is `collect` of the rounds: the lines and the blocked workloads in entry order -/
theorem foldlM_entryStep_collect (eng : Engine) (focus : String) (l : List Contrib)
    (acc : List Entry × List String) :
    l.foldlM (entryStep eng focus) acc =
      (collect (ingOut eng focus) l).map fun r => (acc.1 ++ lefts r, acc.2 ++ rights r) := by
  induction l generalizing acc with
  | nil => simp [collect, Except.map, lefts, rights]; rfl
  | cons a l ih =>
    rw [List.foldlM_cons, entryStep_eq]
    unfold collect
    cases hg : ingOut eng focus a with
    | error err => rfl
    | ok x =>
      show List.foldlM _ (acc.1 ++ lefts x, acc.2 ++ rights x) l = _
      rw [ih]
      cases collect (ingOut eng focus) l with
      | error err => rfl
      | ok r => simp [Except.map, lefts, rights, List.filterMap_append, List.append_assoc]

/-- what the report prints of a line or of a blocked workload -/
def okey : Out → (String × String × ConnSet) ⊕ String
  | .inl x => .inl (entryKey x)
  | .inr n => .inr n

/-- the workload a line or a blocked entry is about -/
def oname : (String × String × ConnSet) ⊕ String → String
  | .inl k => k.2.1
  | .inr n => n

theorem lefts_okey (r : List Out) : lefts (r.map okey) = (lefts r).map entryKey := by
  induction r with
  | nil => rfl
  | cons x xs ih =>
    cases x with
    | inl a =>
      have : lefts (List.map okey (Sum.inl a :: xs)) = entryKey a :: lefts (xs.map okey) := rfl
      rw [this, ih]; rfl
    | inr b =>
      have : lefts (List.map okey (Sum.inr b :: xs)) = lefts (xs.map okey) := rfl
      rw [this, ih]; rfl

theorem rights_okey (r : List Out) : rights (r.map okey) = rights r := by
  induction r with
  | nil => rfl
  | cons x xs ih =>
    cases x with
    | inl a =>
      have : rights (List.map okey (Sum.inl a :: xs)) = rights (xs.map okey) := rfl
      rw [this, ih]; rfl
    | inr b =>
      have : rights (List.map okey (Sum.inr b :: xs)) = b :: rights (xs.map okey) := rfl
      rw [this, ih]; rfl

theorem ingOut_names {eng : Engine} {focus : String} {e : Contrib} {xs : List Out}
    (h : ingOut eng focus e = .ok xs) : (xs.map (oname ∘ okey)).Sublist [e.1] := by
  unfold ingOut at h
  split at h
  · obtain ⟨pc, _, hx⟩ := map_ok_inv h
    subst hx
    split
    · exact List.Sublist.refl _
    · exact List.Sublist.refl _
  · cases h
    exact List.nil_sublist _

theorem flatMap_single {α β : Type} (f : α → β) (l : List α) : (l.flatMap fun a => [f a]) = l.map f := by
  induction l with
  | nil => rfl
  | cons a l ih => rw [List.flatMap_cons, ih]; rfl

/-- lines and blocked workloads of one run are about pairwise distinct workloads -/
theorem collect_ingOut_nodup {eng : Engine} {focus : String} {l : List Contrib} {r : List Out}
    (hn : (l.map (·.1)).Nodup) (h : collect (ingOut eng focus) l = .ok r) :
    (r.map okey).Nodup := by
  have := collect_sublist h (oname ∘ okey) (fun e => [e.1]) (fun a _ xs hxs => ingOut_names hxs)
  rw [flatMap_single] at this
  apply nodup_of_map oname
  rw [List.map_map]
  exact this.nodup hn

/-- the pod is the one the analyzer adds for the ingress controller: name, namespace and `fake`
flag, as `isPodToItself` compares them -/
def isIngressPod (p : Pod) : Bool :=
  ingressPod.name == p.name && ingressPod.ns == p.ns && ingressPod.fake == p.fake

theorem samePeer_ingressPod : SamePeer ingressPod ingressPod :=
  ⟨rfl, rfl, rfl, rfl, by decide, by decide⟩

/-- a pod to itself: all connections, whatever the policies -/
theorem peerConns_self (X : Engine) {a b : KPeer} (h : isPodToItself a b = true) :
    X.peerConns a b = .ok (ConnSet.mk' true) := by
  unfold peerConns
  simp only [h, if_true]
  rfl

/-- **one round, two equivalent engines, similar entries**: the same line, the same blocked
workload or the same error -/
theorem ingOut_sim {E E' : Engine} (h : E.Equiv E') (hv : NPValid E.netpols) (focus : String)
    {pods : List Pod} {a b : Contrib} (hs : ESim pods a b) (hvp : a.2.1.ValidPorts)
    (hself : isIngressPod a.2.1 = isIngressPod b.2.1) :
    (ingOut E focus a).map (·.map okey) = (ingOut E' focus b).map (·.map okey) := by
  obtain ⟨n, p, c⟩ := a
  obtain ⟨n', p', c'⟩ := b
  obtain ⟨hn, hc, hsame, _, _, _, _⟩ := hs
  simp only at hn hc hsame hvp hself
  subst hn
  subst hc
  have hdst : LSim (.wl n p) (.wl n p') := .wl n hsame
  have hsrc : LSim ingressSrc ingressSrc := .wl _ samePeer_ingressPod
  have hfoc : focused focus n p = focused focus n p' := by
    unfold focused
    rw [hdst.isFocus]
  have hpc : policyConn E n p = policyConn E' n p' := by
    unfold policyConn
    rcases toKPeer_sim h hsrc with ⟨a1, a2⟩ | ⟨ks, ks', a1, a2, a3⟩
    · rw [a1, a2]; rfl
    rw [a1, a2]
    rcases toKPeer_sim h hdst with ⟨b1, b2⟩ | ⟨kd, kd', b1, b2, b3⟩
    · rw [b1, b2]; rfl
    rw [b1, b2]
    show E.peerConns ks kd = E'.peerConns ks' kd'
    obtain ⟨x, rfl⟩ := toKPeer_wl_pod a1
    obtain ⟨x', rfl⟩ := toKPeer_wl_pod a2
    obtain ⟨y, rfl⟩ := toKPeer_wl_pod b1
    obtain ⟨y', rfl⟩ := toKPeer_wl_pod b2
    have i1 : isPodToItself (.pod ingressPod x) (.pod p y) = isIngressPod p := rfl
    have i2 : isPodToItself (.pod ingressPod x') (.pod p' y') = isIngressPod p' := rfl
    cases hip : isIngressPod p with
    | false =>
      exact peerConns_sim h hv a3 b3 ⟨hsame.real, hvp⟩ (i1.trans hip) (i2.trans (hself ▸ hip))
    | true =>
      rw [peerConns_self E (i1.trans hip), peerConns_self E' (i2.trans (hself ▸ hip))]
  simp only [ingOut]
  rw [← hfoc, hpc]
  split
  · cases policyConn E' n p' with
    | error err => rfl
    | ok pc =>
      simp only [Except.map]
      split <;> rfl
  · rfl

theorem ingOut_err_class {e : Engine} (hv : e.Valid) {focus : String} {a : Contrib}
    (hns : ∃ n, e.findNs a.2.1.ns = some n) (hreal : a.2.1.isRepresentative = false)
    (hvp : a.2.1.ValidPorts) {err : Err} (h : ingOut (ingressEngine e) focus a = .error err) :
    err = .namedPortOnIP := by
  obtain ⟨n, p, c⟩ := a
  simp only at hns hreal hvp
  unfold ingOut at h
  split at h
  · have h' := map_error_inv h
    simp only at h'
    obtain ⟨nsI, h1⟩ := ingressEngine_findNs_src e
    obtain ⟨nsW, h2⟩ := hns
    have h2' := ingressEngine_findNs_of_some h2
    unfold policyConn ingressSrc toKPeer at h'
    have h0 : (ingressPod.ns == "" && ingressPod.isRepresentative) = false := by decide
    simp only [h0, hreal, Bool.and_false, Bool.false_eq_true, if_false, h1, h2'] at h'
    exact peerConns_err_class (IngressLayer.valid_ingressEngine hv) _ _
      (show (KPeer.pod p (some nsW)).DstOK from ⟨hreal, hvp⟩) h'
  · cases h

section CollectSim
variable {α β κ : Type}

theorem collect_mem_iff {g : α → Except Err (List β)} {l : List α} {r : List β}
    (h : collect g l = .ok r) (x : β) : x ∈ r ↔ ∃ a ∈ l, ∃ xs, g a = .ok xs ∧ x ∈ xs := by
  constructor
  · exact fun hx => collect_mem h hx
  · rintro ⟨a, ha, xs, hxs, hx⟩
    exact collect_mem_of h ha hxs hx

/-- two `collect` loops over lists that hold related elements, whose rounds agree on related
elements: the same error or the same results up to order -/
theorem collect_sim {g g' : α → Except Err (List β)} (key : β → κ) {l l' : List α}
    (R : α → α → Prop) (fwd : ∀ a ∈ l, ∃ a' ∈ l', R a a') (bwd : ∀ a' ∈ l', ∃ a ∈ l, R a a')
    (hg : ∀ a ∈ l, ∀ a' ∈ l', R a a' → (g a).map (·.map key) = (g' a').map (·.map key))
    (herr : ∀ a ∈ l, ∀ err, g a = .error err → err = .namedPortOnIP)
    (hnd : ∀ r, collect g l = .ok r → (r.map key).Nodup)
    (hnd' : ∀ r, collect g' l' = .ok r → (r.map key).Nodup) :
    ExPerm ((collect g l).map (·.map key)) ((collect g' l').map (·.map key)) := by
  cases hr : collect g l with
  | ok es =>
    cases hr' : collect g' l' with
    | ok es' =>
      show (es.map key).Perm (es'.map key)
      rw [List.perm_ext_iff_of_nodup (hnd es hr) (hnd' es' hr')]
      intro k
      simp only [List.mem_map]
      constructor
      · rintro ⟨x, hx, rfl⟩
        obtain ⟨a, ha, xs, hxs, hxx⟩ := (collect_mem_iff hr x).mp hx
        obtain ⟨a', ha', hR⟩ := fwd a ha
        have := hg a ha a' ha' hR
        rw [hxs] at this
        obtain ⟨xs', h1, h2⟩ := map_ok_inv this.symm
        have : key x ∈ xs'.map key := by rw [h2]; exact List.mem_map.mpr ⟨x, hxx, rfl⟩
        obtain ⟨x', hx', hk⟩ := List.mem_map.mp this
        exact ⟨x', (collect_mem_iff hr' x').mpr ⟨a', ha', xs', h1, hx'⟩, hk⟩
      · rintro ⟨x', hx', rfl⟩
        obtain ⟨a', ha', xs', hxs', hxx'⟩ := (collect_mem_iff hr' x').mp hx'
        obtain ⟨a, ha, hR⟩ := bwd a' ha'
        have := hg a ha a' ha' hR
        rw [hxs'] at this
        obtain ⟨xs, h1, h2⟩ := map_ok_inv this
        have : key x' ∈ xs.map key := by rw [h2]; exact List.mem_map.mpr ⟨x', hxx', rfl⟩
        obtain ⟨x, hx, hk⟩ := List.mem_map.mp this
        exact ⟨x, (collect_mem_iff hr x).mpr ⟨a, ha, xs, h1, hx⟩, hk⟩
    | error err' =>
      obtain ⟨a', ha', hga'⟩ := collect_error_mem hr'
      obtain ⟨a, ha, hR⟩ := bwd a' ha'
      have := hg a ha a' ha' hR
      rw [hga'] at this
      have := map_error_inv this
      obtain ⟨xs, hxs⟩ := collect_ok_all hr a ha
      rw [hxs] at this; cases this
  | error err =>
    obtain ⟨a, ha, hga⟩ := collect_error_mem hr
    have e1 := herr a ha err hga
    cases hr' : collect g' l' with
    | ok es' =>
      obtain ⟨a', ha', hR⟩ := fwd a ha
      have := hg a ha a' ha' hR
      rw [hga] at this
      have := map_error_inv this.symm
      obtain ⟨xs, hxs⟩ := collect_ok_all hr' a' ha'
      rw [hxs] at this; cases this
    | error err' =>
      obtain ⟨a', ha', hga'⟩ := collect_error_mem hr'
      obtain ⟨a2, ha2, hR⟩ := bwd a' ha'
      have := hg a2 ha2 a' ha' hR
      rw [hga'] at this
      have e2 := herr a2 ha2 err' (map_error_inv this)
      show err = err'
      rw [e1, e2]

end CollectSim

/-- the outcome of `getIngressAllowedConnections` in two runs agrees: the same error, or the same
lines — as (source name, destination name, connection set) — and the same blocked workloads, up to
order -/
def IngRel : Except Err (List Entry × List String) → Except Err (List Entry × List String) → Prop
  | .ok a, .ok b => (a.1.map entryKey).Perm (b.1.map entryKey) ∧ a.2.Perm b.2
  | .error x, .error y => x = y
  | _, _ => False

/-- the pod of an entry of `AllowedIngressConnections` is the standing pod of its workload -/
theorem allowedIngress_owner {objs : List Obj} {o : List (String × Pod)} {l : List Contrib}
    (h : allowedIngress objs o = some l) (a : Contrib) (ha : a ∈ l) : (a.1, a.2.1) ∈ o := by
  rw [IngressLayer.allowedIngress_some h] at ha
  obtain ⟨n, p, c⟩ := a
  rcases IngressLayer.pod_group _ ha with ⟨_, hc⟩ | ⟨c', hc⟩
  · cases hc
  · exact (IngressLayer.contrib_owner hc).1

/-- **`getIngressAllowedConnections`** on equivalent engines and the two runs of the ingress
analysis -/
theorem ingressEntries_sim {e e' : Engine} (heq : e.Equiv e') (hv : e.Valid)
    (hns : ∀ p ∈ e.pods, ∃ n, e.findNs p.ns = some n) {objs objs' : List Obj}
    {o o' : List (String × Pod)} (h : Runs objs objs' e.pods o o')
    (hip : ∀ n p p', (n, p) ∈ o → (n, p') ∈ o' → isIngressPod p = isIngressPod p')
    (focus : String) :
    IngRel (ingressEntries e objs o focus) (ingressEntries e' objs' o' focus) := by
  rw [IngressLayer.ingressEntries_eq, IngressLayer.ingressEntries_eq]
  rcases allowedIngress_sim h with ⟨h1, h2⟩ | ⟨l, l', h1, h2, hsim⟩
  · rw [h1, h2]
    exact ⟨List.Perm.refl _, List.Perm.refl _⟩
  rw [h1, h2]
  simp only
  rw [foldlM_entryStep_collect, foldlM_entryStep_collect]
  have hE := ingressEngine_equiv heq
  have hvE : NPValid (ingressEngine e).netpols := (IngressLayer.valid_ingressEngine hv).npRules
  have key := collect_sim (g := ingOut (ingressEngine e) focus) (g' := ingOut (ingressEngine e') focus)
    okey (ESim e.pods) hsim.fwd hsim.bwd
    (fun a ha a' ha' hR => ingOut_sim hE hvE focus hR (h.valid _ hR.mem)
      (hip a.1 a.2.1 a'.2.1 (allowedIngress_owner h1 a ha)
        (by rw [hR.name]; exact allowedIngress_owner h2 a' ha')))
    (fun a ha err herr => by
      obtain ⟨b, _, hR⟩ := hsim.fwd a ha
      exact ingOut_err_class hv (hns _ hR.mem) hR.same.real (h.valid _ hR.mem) herr)
    (fun r hr => collect_ingOut_nodup hsim.nodup hr)
    (fun r hr => collect_ingOut_nodup hsim.nodup' hr)
  cases hr : collect (ingOut (ingressEngine e) focus) l with
  | error err =>
    cases hr' : collect (ingOut (ingressEngine e') focus) l' with
    | error err' =>
      rw [hr, hr'] at key
      exact key
    | ok r' => rw [hr, hr'] at key; exact absurd key (by simp [ExPerm, Except.map])
  | ok r =>
    cases hr' : collect (ingOut (ingressEngine e') focus) l' with
    | error err' => rw [hr, hr'] at key; exact absurd key (by simp [ExPerm, Except.map])
    | ok r' =>
      rw [hr, hr'] at key
      have hperm : (r.map okey).Perm (r'.map okey) := key
      show ((([] : List Entry) ++ lefts r).map entryKey).Perm ((([] : List Entry) ++ lefts r').map entryKey) ∧
        (([] : List String) ++ rights r).Perm (([] : List String) ++ rights r')
      rw [List.nil_append, List.nil_append, List.nil_append, List.nil_append, ← lefts_okey,
        ← lefts_okey, ← rights_okey r, ← rights_okey r']
      exact ⟨hperm.filterMap _, hperm.filterMap _⟩

/-! ## G. the report -/

open WorldDriver

/-- the hypothesis of the order-independence theorem on the Service documents, needed by the
ingress-controller part of the report only. (Before the sorted iteration of `createPodOwnersMap`
there was a second clause about pods named like the ingress-controller pod; the standing pod of a
workload no longer depends on the order, so it is gone.) -/
structure IngressWF (objs : List Obj) : Prop where
  svcUnique : EffSvcUnique objs

instance (objs : List Obj) : Decidable (IngressWF objs) :=
  decidable_of_iff (EffSvcUnique objs) ⟨fun a => ⟨a⟩, fun ⟨a⟩ => a⟩

theorem IngressWF.perm {objs objs' : List Obj} (hp : objs.Perm objs') (h : IngressWF objs) :
    IngressWF objs' := ⟨h.svcUnique.perm hp⟩

/-- the two runs of the ingress analysis on a well-formed input and a reordering of it: the same
owner map -/
theorem runs_of_build {objs objs' : List Obj} (hp : objs.Perm objs') (hw : WellFormed objs)
    (hi : IngressWF objs) {e : Engine} (hb : Engine.build objs = .ok e)
    {owners : List (String × Pod)} (ho : e.podOwnersMap = .ok owners) :
    Runs objs objs' e.pods owners owners := by
  have hpods : e.pods = podsIn objs := (build_fields hw.keys hb).1
  have hos := owners_sim_refl (e := e) (by rw [hpods]; exact hw.real) ho
  refine ⟨hp, hos, ?_, ?_, ?_⟩
  · intro p hm
    rw [hpods] at hm
    exact hw.ports p hm
  · apply services_unique hi.svcUnique
    intro n p hm
    rw [← hpods]
    exact (hos.mem n p hm).1
  · apply services_unique (hi.svcUnique.perm hp)
    intro n p hm
    have := (hos.mem' n p hm).1
    rw [hpods] at this
    exact (podsIn_perm hp).mem_iff.mp this

/-- **the `list` report is order-independent**: on a well-formed input that `build` accepts, every
reordering of the objects yields the same report — peers, connection lines, ingress-controller
lines and blocked workloads, or the same error -/
theorem runList_perm {objs objs' : List Obj} (hp : objs.Perm objs') (hw : WellFormed objs)
    (hi : IngressWF objs) (hok : ∃ e, Engine.build objs = .ok e) (focus : String) :
    runList objs focus = runList objs' focus := by
  obtain ⟨e, hb⟩ := hok
  obtain ⟨e', hb', heq⟩ := build_perm hp hw.keys hb
  obtain ⟨h1, h2, h3⟩ := list_relation_perm hp hw.keys hw.real hw.ports
    (npRulesValid_of_policiesValid hw.policies) hb hb' focus
  cases hemp : e.pods.isEmpty with
  | true =>
    have hemp' : e'.pods.isEmpty = true := by rw [← heq.pods.isEmpty_eq]; exact hemp
    unfold runList
    simp only [hb, hb', hemp, hemp', if_true]
  | false =>
    have hemp' : e'.pods.isEmpty = false := by rw [← heq.pods.isEmpty_eq]; exact hemp
    cases hpl : e.peersList with
    | error err =>
      have hpl' : e'.peersList = .error err := by rw [← h1]; exact hpl
      unfold runList
      simp only [hb, hb', hemp, hemp', hpl, hpl', Bool.false_eq_true, if_false]
    | ok peers =>
      have hpl' : e'.peersList = .ok peers := by rw [← h1]; exact hpl
      obtain ⟨owners, ho, _⟩ := peersList_eq hpl
      have ho' : e'.podOwnersMap = .ok owners := by rw [← h2]; exact ho
      have hruns := runs_of_build hp hw hi hb ho
      have hing : IngRel (IngressA.ingressEntries e objs owners focus)
          (IngressA.ingressEntries e' objs' owners focus) := by
        refine ingressEntries_sim heq (build_valid hb hw.policies)
          (fun p hm => build_pod_ns hb hm) hruns ?_ focus
        intro n p p' hm hm'
        rw [IngressLayer.pair_unique (podOwnersMap_facts ho).1 hm hm']
      have hfeq : focusExists focus (IngressA.allowedIngress objs' owners).isSome
          (peers.any (Engine.isFocus focus)) =
          focusExists focus (IngressA.allowedIngress objs owners).isSome
            (peers.any (Engine.isFocus focus)) := by
        rw [allowedIngress_isSome hruns]
      cases hfocus : focusExists focus (IngressA.allowedIngress objs owners).isSome
          (peers.any (Engine.isFocus focus)) with
      | false =>
        have hfocus' := hfeq.trans hfocus
        unfold focusExists at hfocus hfocus'
        unfold runList
        simp only [hb, hb', hemp, hemp', hpl, hpl', ho, ho', hfocus, hfocus', Bool.false_eq_true,
          if_false, Bool.not_false, if_true]
      | true =>
        have hfocus' := hfeq.trans hfocus
        cases hc : e.connsBetweenPeers peers focus with
        | error err =>
          have hc' : e'.connsBetweenPeers peers focus = .error err := by rw [← h3 peers hpl]; exact hc
          unfold focusExists at hfocus hfocus'
          unfold runList
          simp only [hb, hb', hemp, hemp', hpl, hpl', ho, ho', hfocus, hfocus', hc, hc',
            Bool.false_eq_true, if_false, Bool.not_true]
        | ok es =>
          have hc' : e'.connsBetweenPeers peers focus = .ok es := by rw [← h3 peers hpl]; exact hc
          cases hie : IngressA.ingressEntries e objs owners focus with
          | error err =>
            cases hie' : IngressA.ingressEntries e' objs' owners focus with
            | error err' =>
              rw [hie, hie'] at hing
              have : err = err' := hing
              subst this
              unfold focusExists at hfocus hfocus'
              unfold runList
              simp only [hb, hb', hemp, hemp', hpl, hpl', ho, ho', hfocus, hfocus', hc, hc',
                hie, hie', Bool.false_eq_true, if_false, Bool.not_true]
            | ok r' => rw [hie, hie'] at hing; exact absurd hing (by simp [IngRel])
          | ok r =>
            cases hie' : IngressA.ingressEntries e' objs' owners focus with
            | error err' => rw [hie, hie'] at hing; exact absurd hing (by simp [IngRel])
            | ok r' =>
              rw [hie, hie'] at hing
              obtain ⟨ing, blocked⟩ := r
              obtain ⟨ing', blocked'⟩ := r'
              obtain ⟨hp1, hp2⟩ : (ing.map entryKey).Perm (ing'.map entryKey) ∧
                blocked.Perm blocked' := hing
              rw [runList_ok hb hemp hpl ho hfocus hc hie,
                runList_ok hb' hemp' hpl' ho' hfocus' hc' hie']
              rw [List.map_append, List.map_append]
              exact render_perm (List.Perm.refl _) ((List.Perm.refl _).append hp1) hp2


/-! ## H. examples and counterexamples -/

instance (objs : List Obj) : Decidable (DistinctKeys objs) :=
  decidable_of_iff (((podsIn objs).map podKey).Nodup ∧ ((nssIn objs).map (·.name)).Nodup)
    ⟨fun ⟨a, b⟩ => ⟨a, b⟩, fun ⟨a, b⟩ => ⟨a, b⟩⟩

instance (objs : List Obj) : Decidable (WellFormed objs) :=
  decidable_of_iff (DistinctKeys objs ∧ PodsReal objs ∧ PodPortsValid objs ∧
      PoliciesValid objs)
    ⟨fun ⟨a, b, c, d⟩ => ⟨a, b, c, d⟩, fun ⟨a, b, c, d⟩ => ⟨a, b, c, d⟩⟩

instance (objs : List Obj) : Decidable (ConflictFree objs) :=
  decidable_of_iff (((npsOf objs).map npKey).Nodup ∧ ((anpsOf objs).map (·.name)).Nodup ∧
      (banpsOf objs).length ≤ 1 ∧ (∀ b ∈ banpsOf objs, b.name = "default") ∧
      ∀ p ∈ podsOf objs, p.hostIP ≠ "")
    ⟨fun ⟨a, b, c, d, e⟩ => ⟨a, b, c, d, e⟩, fun ⟨a, b, c, d, e⟩ => ⟨a, b, c, d, e⟩⟩

/-- the ingress-controller part of the report on the default focus: the lines (workload,
connection) and the blocked workloads, in the order of the analysis. The owner map is taken from
`podOwnersMapD`, the `decide`-friendly form of `podOwnersMap` (`mergeSort` replaced by an insertion
sort): on the engine `build` returns they are equal, `PermLayer.podOwnersMap_build`. -/
def ingReport (objs : List Obj) : Option (List (String × String) × List String) :=
  match Engine.build objs with
  | .error _ => none
  | .ok eng =>
    match podOwnersMapD eng with
    | .error _ => none
    | .ok owners =>
      (ingressEntries eng objs owners "").toOption.map fun r =>
        (r.1.map fun x => (x.dst.str, x.conn.toStr), r.2)

namespace Ex

def web : Workload :=
  { kind := "Deployment", ns := "default", name := "web", replicas := some 2,
    labels := [("app", "web")], ports := [⟨"http", .TCP, 8080⟩] }
def db : Workload :=
  { kind := "StatefulSet", ns := "default", name := "db", replicas := some 1,
    labels := [("app", "db")], ports := [⟨"pg", .TCP, 5432⟩] }
def webSvc : Service :=
  { ns := "default", name := "web-svc", selector := [("app", "web")],
    ports := [⟨"http", 80, none, some "http", .TCP⟩] }
def dbSvc : Service :=
  { ns := "default", name := "db-svc", selector := [("app", "db")],
    ports := [⟨"pg", 5432, some 5432, none, .TCP⟩] }
/-- a Service without selector: not recorded, may share its name with another -/
def extSvc : Service := { ns := "default", name := "web-svc", selector := [], ports := [] }
def ing : Ingress :=
  { ns := "default", name := "web-ing", default := none,
    rules := [[⟨"web-svc", some 80, none⟩, ⟨"db-svc", some 5432, none⟩]] }
def route : Route :=
  { ns := "default", name := "web-route", toKind := "Service", toName := "web-svc",
    alternates := [], targetPortNum := none, targetPortName := some "http" }
/-- `db` accepts connections from `web` only -/
def np : NetPol :=
  { ns := "default", name := "db-from-web", podSel := ⟨[("app", "db")], []⟩, types := [.ingress],
    ingress := [⟨[.sel (some ⟨[("app", "web")], []⟩) none], [⟨some .TCP, .num 5432 none⟩]⟩],
    egress := [] }

/-- two workloads (one with two replicas), two Services and a Service without selector, an
Ingress, a Route and a NetworkPolicy -/
def objs : List Obj :=
  [.wl web, .wl db, .svc webSvc, .svc dbSvc, .svc extSvc, .ing ing, .route route, .np np]

/-- the example satisfies every hypothesis of `runList_perm` -/
example : WellFormed objs := by decide
example : IngressWF objs := by decide
example : ∃ e, Engine.build objs = .ok e := (build_ok_iff objs).mpr (by decide)

example : ingReport objs = some ([("default/web[Deployment]", "TCP 8080")], ["default/db[StatefulSet]"]) := by
  decide
example : ingReport objs.reverse = some ([("default/web[Deployment]", "TCP 8080")], ["default/db[StatefulSet]"]) := by
  decide

/-- the report of every reordering, e.g. of the reversed input, is the report of the input -/
example (focus : String) : runList objs focus = runList objs.reverse focus :=
  runList_perm (List.reverse_perm objs).symm (by decide) (by decide)
    ((build_ok_iff objs).mpr (by decide)) focus

end Ex

/-! ### counterexamples: each hypothesis of `IngressWF` is needed

The reports below are `toString (runList objs "")`, by `#eval`. -/
namespace Cx

def a : Workload :=
  { kind := "Deployment", ns := "default", name := "a", replicas := some 1,
    labels := [("app", "a")], ports := [⟨"http", .TCP, 8080⟩] }
def b : Workload :=
  { kind := "Deployment", ns := "default", name := "b", replicas := some 2,
    labels := [("app", "b")], ports := [⟨"http", .TCP, 9090⟩] }
/-- two Service documents `default/s` with different selectors -/
def s1 : Service :=
  { ns := "default", name := "s", selector := [("app", "a")], ports := [⟨"p", 80, some 8080, none, .TCP⟩] }
def s2 : Service :=
  { ns := "default", name := "s", selector := [("app", "b")], ports := [⟨"p", 80, some 9090, none, .TCP⟩] }
/-- a third one: the selector of `s1`, another target port -/
def s3 : Service :=
  { ns := "default", name := "s", selector := [("app", "a")], ports := [⟨"p", 80, some 8081, none, .TCP⟩] }
def ing : Ingress := { ns := "default", name := "i", default := some ⟨"s", some 80, none⟩, rules := [] }

/-- **1. without `EffSvcUnique`**: the Ingress reaches the workload of the Service document that
comes last.
`svcA`: `(ok (peers …) … (e {ingress-controller} default/b[Deployment] TCP_9090))`;
`svcB`: `(ok (peers …) … (e {ingress-controller} default/a[Deployment] TCP_8080))`
(the other lines are the same) -/
def svcA : List Obj := [.wl a, .wl b, .svc s1, .svc s2, .ing ing]
def svcB : List Obj := [.wl a, .wl b, .svc s2, .svc s1, .ing ing]

example : svcA.Perm svcB := ((List.Perm.swap _ _ _).cons _).cons _
example : WellFormed svcA ∧ ¬ EffSvcUnique svcA := by decide
example : ∃ e, Engine.build svcA = .ok e := (build_ok_iff svcA).mpr (by decide)
example : ingReport svcA = some ([("default/b[Deployment]", "TCP 9090")], []) := by decide
example : ingReport svcB = some ([("default/a[Deployment]", "TCP 8080")], []) := by decide

/-- the same with one selector and two port tables:
`portA`: `(ok (peers …) … (blocked default/a[Deployment]))`;
`portB`: `(ok (peers …) … (e {ingress-controller} default/a[Deployment] TCP_8080))` -/
def portA : List Obj := [.wl a, .wl b, .svc s1, .svc s3, .ing ing]
def portB : List Obj := [.wl a, .wl b, .svc s3, .svc s1, .ing ing]

example : portA.Perm portB := ((List.Perm.swap _ _ _).cons _).cons _
example : WellFormed portA ∧ ¬ EffSvcUnique portA := by decide
example : ingReport portA = some ([], ["default/a[Deployment]"]) := by decide
example : ingReport portB = some ([("default/a[Deployment]", "TCP 8080")], []) := by decide

/-- two pods of one ReplicaSet in `ingress-controller-ns`, one of them named
`ingress-controller` -/
def p1 : Pod :=
  { ns := "ingress-controller-ns", name := "ingress-controller", labels := [("app", "x")],
    ports := [⟨"http", .TCP, 80⟩], ownerKind := "ReplicaSet", ownerName := "rs" }
def p2 : Pod :=
  { ns := "ingress-controller-ns", name := "other", labels := [("app", "x")],
    ports := [⟨"http", .TCP, 80⟩], ownerKind := "ReplicaSet", ownerName := "rs" }
def sx : Service :=
  { ns := "ingress-controller-ns", name := "sx", selector := [("app", "x")],
    ports := [⟨"p", 80, some 80, none, .TCP⟩] }
def ingX : Ingress :=
  { ns := "ingress-controller-ns", name := "i", default := some ⟨"sx", some 80, none⟩, rules := [] }
def denyAll : NetPol :=
  { ns := "ingress-controller-ns", name := "deny", podSel := ⟨[], []⟩, types := [.ingress],
    ingress := [], egress := [] }

/-- **2. (no longer a counterexample)** Before `createPodOwnersMap` iterated the pods in sorted
key order, the workload was blocked by the deny-all policy when the pod `other` stood for it and
got the line `{ingress-controller} → rs TCP_80` when the pod `ingress-controller` did
(`isPodToItself` with the pod the analyzer adds). Now the standing pod is the one with the greatest
key, `ingress-controller-ns/other`, in every order, and both orders give
`(ok (peers 0.0.0.0-255.255.255.255 ingress-controller-ns/rs[ReplicaSet])
  (e ingress-controller-ns/rs[ReplicaSet] 0.0.0.0-255.255.255.255 All_Connections)
  (blocked ingress-controller-ns/rs[ReplicaSet]))`. -/
def podA : List Obj := [.pod p1, .pod p2, .svc sx, .ing ingX, .np denyAll]
def podB : List Obj := [.pod p2, .pod p1, .svc sx, .ing ingX, .np denyAll]

example : podA.Perm podB := List.Perm.swap _ _ _
example : WellFormed podA ∧ IngressWF podA := by decide
example : ∃ e, Engine.build podA = .ok e := (build_ok_iff podA).mpr (by decide)
example : ingReport podA = some ([], ["ingress-controller-ns/rs[ReplicaSet]"]) := by decide
example : ingReport podB = some ([], ["ingress-controller-ns/rs[ReplicaSet]"]) := by decide
/-- … as the theorem says -/
example (focus : String) : runList podA focus = runList podB focus :=
  runList_perm (List.Perm.swap _ _ _) (by decide) (by decide)
    ((build_ok_iff podA).mpr (by decide)) focus

/-- a pod of that name alone in its workload: it used to get the line
`{ingress-controller} → rs TCP_80` in spite of the deny-all policy, because `isPodToItself` took it
for the pod the analyzer adds; `isPodToItself` now compares the `FakePod` flags too, and the workload
is `(blocked …)` (`#eval`), as the policy demands -/
example : IngressWF [.pod p1, .svc sx, .ing ingX, .np denyAll] := by decide
example : ingReport [.pod p1, .svc sx, .ing ingX, .np denyAll] =
    some ([], ["ingress-controller-ns/rs[ReplicaSet]"]) := by decide
example : isIngressPod p1 = false ∧ isIngressPod ingressPod = true := by decide

/-- **3. a Namespace object `ingress-controller-ns`** changes the report (its labels are the labels
of the ingress controller's namespace) but not its order independence: `DistinctKeys` makes it
the only one, and `ingressEngine` adds none. -/
def nsObj : NsObj := ⟨"ingress-controller-ns", [("role", "edge")]⟩
example : IngressWF [.ns nsObj, .wl a, .wl b, .svc s1, .ing ing] ∧
    WellFormed [.ns nsObj, .wl a, .wl b, .svc s1, .ing ing] := by decide

end Cx
end Netpol.PermIngress
