import Netpol.Proofs.FormatLayer
/-! The exposure sections of the list formats (`listTxtX`, `listJsonX`, `listCsvX`, `listMdX` of `Model/Format.lean`):
their row tables (`egressRows`, `ingressRows`) are sorted by total keys; the outputs do not depend on the order of the
connections nor on the order of the exposed peers (Go: the iteration order of the exposure maps). The dot output with
exposure results (`listDotX`) threads `visited` sets through the exposed peers and is not treated here. -/
namespace Netpol
namespace Format
open List

def Row.swap (r : Row) : Row := ⟨r.dst, r.src, r.conn⟩

theorem Row.swap_swap (r : Row) : r.swap.swap = r := rfl

theorem Row.lessByDst_eq (a b : Row) : Row.lessByDst a b = Row.less a.swap b.swap := rfl

/-- sorting by (dst, src, conn) is sorting the swapped rows by (src, dst, conn) -/
theorem sortRowsByDst_eq (l : List Row) : sortRowsByDst l = (sortRows (l.map Row.swap)).map Row.swap := by
  have h : (sortRowsByDst l).map Row.swap = sortRows (l.map Row.swap) := by
    unfold sortRowsByDst sortRows
    exact map_mergeSort (fun a _ b _ => by rw [Row.lessByDst_eq])
  rw [← h, map_map]
  have : Row.swap ∘ Row.swap = id := by funext r; rfl
  rw [this, map_id]

theorem sortRowsByDst_perm {l l' : List Row} (h : l ~ l') : sortRowsByDst l = sortRowsByDst l' := by
  rw [sortRowsByDst_eq, sortRowsByDst_eq, sortRows_perm (h.map _)]

theorem sortRowsByDst_perm_self (l : List Row) : sortRowsByDst l ~ l := mergeSort_perm l _

theorem flatMap_perm_congr {α β : Type} {f g : α → List β} : ∀ {l : List α}, (∀ a ∈ l, f a ~ g a) → l.flatMap f ~ l.flatMap g
  | [], _ => Perm.nil
  | x :: xs, h => by
    rw [flatMap_cons, flatMap_cons]
    exact (h x mem_cons_self).append (flatMap_perm_congr fun a ha => h a (mem_cons_of_mem _ ha))

/-- the exposure rows of a direction, up to order, do not depend on the order of connections and exposed peers -/
theorem xRows_perm {c c' : List Conn} {xs xs' : List XPeerF} (hc : c ~ c') (hx : xs ~ xs') (isIngress : Bool) :
    xRows c xs isIngress ~ xRows c' xs' isIngress := by
  unfold xRows
  refine (flatMap_perm_congr (fun p _ => ?_)).trans (hx.flatMap_right _)
  exact Perm.append_left _ ((hc.filter _).map _)

theorem egressRows_perm {c c' : List Conn} {xs xs' : List XPeerF} (hc : c ~ c') (hx : xs ~ xs') :
    egressRows c xs = egressRows c' xs' := sortRows_perm (xRows_perm hc hx false)

theorem ingressRows_perm {c c' : List Conn} {xs xs' : List XPeerF} (hc : c ~ c') (hx : xs ~ xs') :
    ingressRows c xs = ingressRows c' xs' := sortRowsByDst_perm (xRows_perm hc hx true)

/-- the tables of the exposure sections hold exactly the exposure rows -/
theorem egressRows_perm_self (c : List Conn) (xs : List XPeerF) : egressRows c xs ~ xRows c xs false := sortRows_perm_self _

theorem ingressRows_perm_self (c : List Conn) (xs : List XPeerF) : ingressRows c xs ~ xRows c xs true := sortRowsByDst_perm_self _

theorem unprotectedLines_perm {xs xs' : List XPeerF} (hx : xs ~ xs') : unprotectedLines xs = unprotectedLines xs' :=
  sortStrings_perm (hx.flatMap_right _)

/-- the column width of the txt exposure lines -/
theorem maxLen_perm {xs xs' : List XPeerF} (hx : xs ~ xs') :
    xs.foldl (fun m p => max m p.peer.str.utf8ByteSize) 0 = xs'.foldl (fun m p => max m p.peer.str.utf8ByteSize) 0 := by
  apply hx.foldl_eq'
  intro x _ y _ z
  simp only [Nat.max_assoc, Nat.max_comm x.peer.str.utf8ByteSize]

theorem listTxtX_perm {c c' : List Conn} {xs xs' : List XPeerF} (hc : c ~ c') (hx : xs ~ xs') : listTxtX c xs = listTxtX c' xs' := by
  unfold listTxtX
  rw [listTxt_perm hc, maxLen_perm hx, egressRows_perm hc hx, ingressRows_perm hc hx, unprotectedLines_perm hx]

theorem listJsonX_perm {c c' : List Conn} {xs xs' : List XPeerF} (hc : c ~ c') (hx : xs ~ xs') : listJsonX c xs = listJsonX c' xs' := by
  unfold listJsonX
  rw [table_perm hc, egressRows_perm hc hx, ingressRows_perm hc hx]

theorem listCsvX_perm {c c' : List Conn} {xs xs' : List XPeerF} (hc : c ~ c') (hx : xs ~ xs') : listCsvX c xs = listCsvX c' xs' := by
  unfold listCsvX
  rw [table_perm hc, egressRows_perm hc hx, ingressRows_perm hc hx]

theorem listMdX_perm {c c' : List Conn} {xs xs' : List XPeerF} (hc : c ~ c') (hx : xs ~ xs') : listMdX c xs = listMdX c' xs' := by
  unfold listMdX
  rw [table_perm hc, egressRows_perm hc hx, ingressRows_perm hc hx]

end Format
end Netpol
