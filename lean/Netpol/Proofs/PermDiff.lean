import Netpol.Proofs.PermLayer
import Netpol.Proofs.PermErrors
import Netpol.Proofs.PermRules
import Netpol.Proofs.PermIngress

/-! Property C08 for the `diff` command: `WorldDriver.runDiff a b` is a function of the two list
analyses `WorldDriver.listFor a`, `WorldDriver.listFor b` (entries — the peers × peers loop, then
the ingress-controller entries in the canonical order `sortIngress` —, and peers), and each of them
does not depend on the order of the documents of its side, nor on the inner order of the
NetworkPolicies. Since `createPodOwnersMap` walks the pods in sorted key order, the analyses of two
orders are *equal* — same peers list, same entries in the same order —, so no property of
`Diff.compute` is needed. Core Lean only. -/
namespace Netpol.PermDiff
open Netpol Netpol.Engine Netpol.Structure Netpol.PermLayer Netpol.IngressA
open WorldDriver

/-! ### the ingress-controller entries of two orders -/

/-- sorting by a key that is injective on the list forgets the order of the list -/
theorem mergeSort_key_perm {α : Type} (key : α → String) {l l' : List α} (hp : l.Perm l')
    (hn : (l.map key).Nodup) :
    l.mergeSort (fun a b => key a ≤ key b) = l'.mergeSort (fun a b => key a ≤ key b) := by
  have tr : ∀ a b c : α, decide (key a ≤ key b) = true → decide (key b ≤ key c) = true →
      decide (key a ≤ key c) = true := by
    intro a b c h1 h2
    simp only [decide_eq_true_eq] at *
    exact String.le_trans h1 h2
  have tot : ∀ a b : α, (decide (key a ≤ key b) || decide (key b ≤ key a)) = true := by
    intro a b
    simp only [Bool.or_eq_true, decide_eq_true_eq]
    exact String.le_total _ _
  refine List.Perm.eq_of_pairwise (le := fun a b => decide (key a ≤ key b) = true) ?_
    (List.pairwise_mergeSort tr tot l) (List.pairwise_mergeSort tr tot l')
    ((List.mergeSort_perm l _).trans (hp.trans (List.mergeSort_perm l' _).symm))
  intro a b ha hb h1 h2
  simp only [decide_eq_true_eq] at h1 h2
  have ha' : a ∈ l := (List.mem_mergeSort).mp ha
  have hb' : b ∈ l := hp.mem_iff.mpr ((List.mem_mergeSort).mp hb)
  have hk : key a = key b := String.le_antisymm h1 h2
  clear h1 h2 ha hb hp
  induction l with
  | nil => cases ha'
  | cons z zs ih =>
    rw [List.map_cons, List.nodup_cons] at hn
    rcases List.mem_cons.mp ha' with rfl | ha'' <;> rcases List.mem_cons.mp hb' with rfl | hb''
    · rfl
    · exact absurd (List.mem_map.mpr ⟨b, hb'', hk.symm⟩) hn.1
    · exact absurd (List.mem_map.mpr ⟨a, ha'', hk⟩) hn.1
    · exact ih hn.2 ha'' hb''

/-- a permutation of the images under a function that is injective on both lists is a permutation
of the lists -/
theorem perm_of_map_perm {α β : Type} (f : α → β) {l l' : List α}
    (hinj : ∀ a ∈ l, ∀ b ∈ l', f a = f b → a = b) (hn : (l.map f).Nodup)
    (hp : (l.map f).Perm (l'.map f)) : l.Perm l' := by
  have hn' : (l'.map f).Nodup := hp.nodup_iff.mp hn
  rw [List.perm_ext_iff_of_nodup (nodup_of_map f hn) (nodup_of_map f hn')]
  intro a
  constructor
  · intro ha
    obtain ⟨b, hb, hfb⟩ := List.mem_map.mp (hp.mem_iff.mp (List.mem_map.mpr ⟨a, ha, rfl⟩))
    rw [hinj a ha b hb hfb.symm]; exact hb
  · intro ha
    obtain ⟨b, hb, hfb⟩ := List.mem_map.mp (hp.mem_iff.mpr (List.mem_map.mpr ⟨a, ha, rfl⟩))
    rw [← hinj b hb a ha hfb]; exact hb

/-- the shape of the ingress-controller entries: from the ingress-controller peer to a workload of
the owner map, one entry per workload name -/
theorem ingressEntries_shape {eng : Engine} {objs : List Obj} {owners : List (String × Pod)}
    {focus : String} {ing : List Entry} {blocked : List String}
    (h : ingressEntries eng objs owners focus = .ok (ing, blocked)) :
    (∀ x ∈ ing, x.src = IngressLayer.ingressSrc ∧ ∃ n p, x.dst = LPeer.wl n p ∧ (n, p) ∈ owners) := by
  rw [IngressLayer.ingressEntries_eq] at h
  cases hl : allowedIngress objs owners with
  | none => rw [hl] at h; cases h; intro x hx; cases hx
  | some l =>
    rw [hl] at h
    simp only at h
    rw [PermIngress.foldlM_entryStep_collect] at h
    obtain ⟨r, hr, hres⟩ := map_ok_inv h
    simp only [List.nil_append, Prod.mk.injEq] at hres
    intro x hx
    rw [← hres.1] at hx
    have hx' : Sum.inl x ∈ r := by
      unfold PermIngress.lefts at hx
      obtain ⟨y, hy, hyx⟩ := List.mem_filterMap.mp hx
      cases y with
      | inl a => simp only [Option.some.injEq] at hyx; rw [← hyx]; exact hy
      | inr b => cases hyx
    obtain ⟨a, ha, xs, hxs, hxx⟩ := collect_mem hr hx'
    unfold PermIngress.ingOut at hxs
    split at hxs
    · obtain ⟨pc, _, hpc⟩ := map_ok_inv hxs
      rw [← hpc] at hxx
      split at hxx
      · simp at hxx
      · simp only [List.mem_singleton, Sum.inl.injEq] at hxx
        rw [hxx]
        exact ⟨rfl, a.1, a.2.1, rfl, PermIngress.allowedIngress_owner hl a ha⟩
    · cases hxs; cases hxx

theorem lefts_names_sublist (r : List PermIngress.Out) :
    ((PermIngress.lefts r).map (fun x => x.dst.str)).Sublist
      (r.map (PermIngress.oname ∘ PermIngress.okey)) := by
  induction r with
  | nil => exact List.Sublist.refl _
  | cons x xs ih =>
    cases x with
    | inl a =>
      have : PermIngress.lefts (Sum.inl a :: xs) = a :: PermIngress.lefts xs := rfl
      rw [this, List.map_cons, List.map_cons]
      exact List.Sublist.cons_cons _ ih
    | inr b =>
      have : PermIngress.lefts (Sum.inr b :: xs : List PermIngress.Out) = PermIngress.lefts xs := rfl
      rw [this, List.map_cons]
      exact List.Sublist.cons _ ih

/-- one entry per workload name -/
theorem ingressEntries_names_nodup {eng : Engine} {objs : List Obj} {owners : List (String × Pod)}
    {focus : String} {ing : List Entry} {blocked : List String}
    (h : ingressEntries eng objs owners focus = .ok (ing, blocked)) :
    (ing.map (fun x => x.dst.str)).Nodup := by
  rw [IngressLayer.ingressEntries_eq] at h
  cases hl : allowedIngress objs owners with
  | none => rw [hl] at h; cases h; exact List.nodup_nil
  | some l =>
    rw [hl] at h
    simp only at h
    rw [PermIngress.foldlM_entryStep_collect] at h
    obtain ⟨r, hr, hres⟩ := map_ok_inv h
    simp only [List.nil_append, Prod.mk.injEq] at hres
    have hln : (l.map (·.1)).Nodup := by
      rw [IngressLayer.allowedIngress_some hl]
      exact IngressLayer.nodup_group _ List.nodup_nil
    have hnn : (r.map (PermIngress.oname ∘ PermIngress.okey)).Nodup := by
      have := collect_sublist hr (PermIngress.oname ∘ PermIngress.okey) (fun e => [e.1])
        (fun a _ xs hxs => PermIngress.ingOut_names hxs)
      rw [PermIngress.flatMap_single] at this
      exact this.nodup hln
    rw [← hres.1]
    exact (lefts_names_sublist r).nodup hnn

/-- **the ingress-controller entries of two orders**, in the canonical order: equal -/
theorem sortIngress_perm {e e' : Engine} {objs objs' : List Obj} {owners : List (String × Pod)}
    {focus : String} (hn : (owners.map (·.1)).Nodup)
    (hrel : PermIngress.IngRel (ingressEntries e objs owners focus)
      (ingressEntries e' objs' owners focus)) :
    (ingressEntries e objs owners focus).map (fun r => sortIngress r.1) =
      (ingressEntries e' objs' owners focus).map (fun r => sortIngress r.1) := by
  cases h : ingressEntries e objs owners focus with
  | error err =>
    cases h' : ingressEntries e' objs' owners focus with
    | error err' => rw [h, h'] at hrel; have : err = err' := hrel; rw [this]
    | ok r' => rw [h, h'] at hrel; exact absurd hrel id
  | ok r =>
    cases h' : ingressEntries e' objs' owners focus with
    | error err' => rw [h, h'] at hrel; exact absurd hrel id
    | ok r' =>
      rw [h, h'] at hrel
      obtain ⟨ing, blocked⟩ := r
      obtain ⟨ing', blocked'⟩ := r'
      have hk : (ing.map entryKey).Perm (ing'.map entryKey) := hrel.1
      have s1 := ingressEntries_shape h
      have s2 := ingressEntries_shape h'
      have hnames := ingressEntries_names_nodup h
      -- an entry is determined by what is printed of it
      have det : ∀ a ∈ ing, ∀ b ∈ ing', entryKey a = entryKey b → a = b := by
        intro a ha b hb hab
        have hd : a.dst.str = b.dst.str := congrArg (fun k : String × String × ConnSet => k.2.1) hab
        have hc : a.conn = b.conn := congrArg (fun k : String × String × ConnSet => k.2.2) hab
        obtain ⟨a1, n, p, a2, a3⟩ := s1 a ha
        obtain ⟨b1, m, q, b2, b3⟩ := s2 b hb
        rw [a2, b2] at hd
        have hnm : n = m := hd
        subst hnm
        have hpq : p = q := IngressLayer.pair_unique hn a3 b3
        subst hpq
        cases a; cases b
        simp only at a1 a2 b1 b2 hc
        subst a1; subst a2; subst b1; subst b2; subst hc
        rfl
      have hkn : (ing.map entryKey).Nodup := by
        apply nodup_of_map (fun k : String × String × ConnSet => k.2.1)
        rw [List.map_map]
        exact hnames
      have hperm : ing.Perm ing' := perm_of_map_perm entryKey det hkn hk
      show Except.ok (sortIngress ing) = Except.ok (sortIngress ing')
      unfold sortIngress
      rw [mergeSort_key_perm (fun x : Entry => x.dst.str) hperm hnames]

/-- **the list analysis the diff consumes does not depend on the order of the documents**: same
entries in the same order, same peers list, or the same evaluation error. Hypotheses as for `list`:
the well-formedness of the input, of its Service documents, and `build` accepts the input. -/
theorem listFor_perm {objs objs' : List Obj} (hp : objs.Perm objs') (hw : WellFormed objs)
    (hi : PermIngress.IngressWF objs) (hok : ∃ e, Engine.build objs = .ok e) :
    listFor objs = listFor objs' := by
  obtain ⟨e, hb⟩ := hok
  obtain ⟨e', hb', heq⟩ := build_perm hp hw.keys hb
  obtain ⟨h1, h2, h3⟩ := list_relation_perm hp hw.keys hw.real hw.ports
    (npRulesValid_of_policiesValid hw.policies) hb hb' ""
  unfold listFor
  simp only [hb, hb']
  rw [← heq.pods.isEmpty_eq, ← h1, ← h2]
  split
  · rfl
  cases hpl : e.peersList with
  | error err => rfl
  | ok peers =>
    cases ho : e.podOwnersMap with
    | error err => rfl
    | ok owners =>
      simp only [bind, Except.bind]
      rw [← h3 peers hpl]
      cases hc : e.connsBetweenPeers peers "" with
      | error err => rfl
      | ok entries =>
        simp only
        have hruns := PermIngress.runs_of_build hp hw hi hb ho
        have hing : PermIngress.IngRel (ingressEntries e objs owners "")
            (ingressEntries e' objs' owners "") := by
          refine PermIngress.ingressEntries_sim heq (build_valid hb hw.policies)
            (fun p hm => build_pod_ns hb hm) hruns ?_ ""
          intro n p p' hm hm'
          rw [IngressLayer.pair_unique (podOwnersMap_facts ho).1 hm hm']
        have := sortIngress_perm (podOwnersMap_facts ho).1 hing
        cases hie : ingressEntries e objs owners "" with
        | error err =>
          rw [hie] at this
          cases hie' : ingressEntries e' objs' owners "" with
          | error err' => rw [hie'] at this; cases this; rfl
          | ok r' => rw [hie'] at this; cases this
        | ok r =>
          rw [hie] at this
          cases hie' : ingressEntries e' objs' owners "" with
          | error err' => rw [hie'] at this; cases this
          | ok r' =>
            rw [hie'] at this
            obtain ⟨ing, bl⟩ := r
            obtain ⟨ing', bl'⟩ := r'
            have hs : sortIngress ing = sortIngress ing' := Except.ok.inj this
            simp only [hs]

/-- inputs without Ingress / Route targets need no hypothesis on Services nor on admin policies -/
theorem listFor_perm_noIngress {objs objs' : List Obj} (hp : objs.Perm objs')
    (hk : DistinctKeys objs) (hok : ∃ e, Engine.build objs = .ok e)
    (htg : IngressA.targets objs = []) : listFor objs = listFor objs' := by
  obtain ⟨e, hb⟩ := hok
  obtain ⟨e', hb', heq⟩ := build_perm hp hk hb
  have htg' : IngressA.targets objs' = [] :=
    List.perm_nil.mp ((targets_perm hp).symm.trans (by rw [htg]))
  obtain ⟨h1, h2, h3⟩ := list_relation_perm' hp hk hb hb' ""
  unfold listFor
  simp only [hb, hb']
  rw [← heq.pods.isEmpty_eq, ← h1, ← h2]
  split
  · rfl
  cases hpl : e.peersList with
  | error err => rfl
  | ok peers =>
    cases ho : e.podOwnersMap with
    | error err => rfl
    | ok owners =>
      simp only [bind, Except.bind]
      rw [← h3 peers, ingressEntries_none htg, ingressEntries_none htg']

/-- the failing case: when `build` rejects the input and only the kind of conflict it names is
present, every order fails with the same error -/
theorem listFor_error_perm {objs objs' : List Obj} (hp : objs.Perm objs') {err : Err}
    (h : Engine.build objs = .error err) (hsingle : ∀ err', ErrClause err' objs → err' = err) :
    listFor objs = listFor objs' := by
  have h' := build_error_perm hp h hsingle
  unfold listFor
  rw [h, h']

/-- **… nor on the inner order of the NetworkPolicies** (rules, rule peers, rule ports,
`policyTypes`); `build` may fail (then with the same error) -/
theorem listFor_inner {objs objs' : List Obj} (h : PermRules.Forall₂ PermRules.ObjSim objs objs')
    (hv : NPRulesValid objs) (hr : PodsReal objs) (hpp : PodPortsValid objs) :
    listFor objs = listFor objs' := by
  have hsim := PermRules.build_sim h
  unfold listFor
  cases hb : Engine.build objs with
  | error err =>
    cases hb' : Engine.build objs' with
    | error err' =>
      rw [hb, hb'] at hsim
      have : err = err' := hsim
      rw [this]
    | ok e' => rw [hb, hb'] at hsim; exact absurd hsim id
  | ok e =>
    cases hb' : Engine.build objs' with
    | error err' => rw [hb, hb'] at hsim; exact absurd hsim id
    | ok e' =>
      rw [hb, hb'] at hsim
      have hs : PermRules.EngSim e e' := hsim
      have hg := PermRules.build_npGood hb hv
      have hpo := PermRules.build_podsOK hb hr hpp
      simp only
      rw [← hs.pods, ← PermRules.peersList_sim hs, ← PermRules.podOwnersMap_sim hs]
      split
      · rfl
      cases hpl : e.peersList with
      | error err => rfl
      | ok peers =>
        cases ho : e.podOwnersMap with
        | error err => rfl
        | ok owners =>
          simp only [bind, Except.bind]
          rw [← PermRules.connsBetweenPeers_sim hs hg hpo hpl "",
            ← PermRules.ingressEntries_sim h hs hg hpo ho ""]

/-- `runDiff` reads its arguments through `listFor` only -/
theorem runDiff_congr {a a' b b' : List Obj} (ha : listFor a = listFor a')
    (hb : listFor b = listFor b') : runDiff a b = runDiff a' b' := by
  unfold runDiff
  rw [ha, hb]

end Netpol.PermDiff
