import Netpol.Proofs.ConnSet

/-! `ContainedIn` against `Subtract` on connection sets: containment and an empty difference are
one notion. `ConnSet.subtract` deletes a protocol entry exactly when its port set is `containedIn`
the entry of the other set (the Go code: `if ports.ContainedIn(otherPorts) { delete } else
{ ports.subtract(otherPorts) }`), and `ConnSet.containedIn` asks that same test of every entry, so
on the entry form (no AllowAll flag on the receiver) the two are the same Boolean with no
hypothesis at all, named ports included. Only the AllowAll receiver needs well-formedness. -/
namespace Netpol
namespace ConnSet
open CSet

/-- the per-protocol step of `Subtract` deletes the entry exactly when the per-protocol step of
`ContainedIn` accepts it -/
theorem subEntry_eq_none_iff (e o : ConnSet) (pr : Proto) :
    subEntry o pr (e.get pr) = none ↔ ciEntry e o pr = true := by
  unfold subEntry ciEntry
  cases e.get pr with
  | none => simp
  | some ports =>
    cases o.get pr with
    | none => simp
    | some op => cases h : ports.containedIn op <;> simp [h]

/-- the entry-wise difference is empty exactly when every entry passes the `ContainedIn` step -/
theorem isEmpty_mapProtos_subEntry {e : ConnSet} (ha : e.allowAll = false) (o : ConnSet) :
    (e.mapProtos (subEntry o)).isEmpty = Proto.all.all (ciEntry e o) := by
  rw [Bool.eq_iff_iff, all_proto]
  unfold isEmpty
  rw [Bool.and_eq_true, Bool.not_eq_true', allowAll_mapProtos, noProtos_iff]
  constructor
  · rintro ⟨_, h⟩ pr
    have := h pr
    rw [get_mapProtos] at this
    exact (subEntry_eq_none_iff e o pr).mp this
  · intro h
    refine ⟨ha, fun pr => ?_⟩
    rw [get_mapProtos]
    exact (subEntry_eq_none_iff e o pr).mpr (h pr)

theorem expandAll_of_not_allowAll {c : ConnSet} (ha : c.allowAll = false) : expandAll c = c := by
  simp [expandAll, ha]

/-- a set in the entry form that passes `ContainedIn` against an empty set is empty -/
theorem isEmpty_eq_all_ciEntry_of_isEmpty {c o : ConnSet} (ha : c.allowAll = false)
    (ho : o.isEmpty = true) : c.isEmpty = Proto.all.all (ciEntry c o) := by
  unfold isEmpty at ho
  rw [Bool.and_eq_true, noProtos_iff] at ho
  rw [Bool.eq_iff_iff, all_proto]
  unfold isEmpty
  rw [Bool.and_eq_true, Bool.not_eq_true', noProtos_iff]
  constructor
  · rintro ⟨_, h⟩ pr
    simp [ciEntry, h pr]
  · intro h
    refine ⟨ha, fun pr => ?_⟩
    have := h pr
    unfold ciEntry at this
    rw [ho.2 pr] at this
    cases hg : c.get pr with
    | none => rfl
    | some ps => rw [hg] at this; simp at this

/-- receiver in the entry form: `Subtract` leaves nothing exactly when `ContainedIn` holds. No
hypothesis on either set (named ports, excluded ports, ill-formed entries all allowed). -/
theorem subtract_isEmpty_eq_containedIn {c : ConnSet} (ha : c.allowAll = false) (o : ConnSet) :
    (c.subtract o).isEmpty = c.containedIn o := by
  rw [subtract_eq, containedIn_eq, ha]
  cases he : o.isEmpty
  · cases hb : o.allowAll
    · simp only [Bool.false_eq_true, if_false]
      rw [expandAll_of_not_allowAll ha]
      exact isEmpty_mapProtos_subEntry ha o
    · simp only [if_true, Bool.false_eq_true, if_false]
      rfl
  · have hb : o.allowAll = false := by
      unfold isEmpty at he
      rw [Bool.and_eq_true, Bool.not_eq_true'] at he
      exact he.1
    rw [hb]
    simp only [if_true, Bool.false_eq_true, if_false]
    exact isEmpty_eq_all_ciEntry_of_isEmpty ha he

/-- containment gives an empty difference, for all sets, with no hypothesis (the AllowAll receiver
is `ContainedIn` the AllowAll form only, and `Subtract` of that form returns the empty set) -/
theorem subtract_isEmpty_of_containedIn (c o : ConnSet) (h : c.containedIn o = true) :
    (c.subtract o).isEmpty = true := by
  cases ha : c.allowAll
  · rw [subtract_isEmpty_eq_containedIn ha]; exact h
  · rw [containedIn_eq, ha] at h
    cases hb : o.allowAll
    · rw [hb] at h; simp at h
    · have he : o.isEmpty = false := by simp [isEmpty, hb]
      rw [subtract_eq, he, hb]
      rfl

/-- a well-formed port set that contains the full one has the full range -/
theorem ports_eq_full_of_containedIn {op : PortSet} (hop : op.WF)
    (h : (PortSet.mk' true).containedIn op = true) : op.ports = [⟨1, 65535⟩] := by
  apply eq_full_of_mem hop.canon
  intro x
  constructor
  · exact hop.range
  · intro hx
    exact PortSet.containedIn_subset (PortSet.wf_mk' true) hop h x ((memL_full x).mpr hx)

/-- the AllowAll receiver: an empty difference means that the argument covers the full range on
the three protocols -/
theorem full_of_subtract_all_isEmpty {c o : ConnSet} (hc : c.WF) (ho : o.WF)
    (ha : c.allowAll = true) (hb : o.allowAll = false)
    (h : (c.subtract o).isEmpty = true) :
    ∀ pr, ∃ op, o.get pr = some op ∧ op.ports = [⟨1, 65535⟩] := by
  rw [subtract_eq] at h
  cases he : o.isEmpty
  · rw [he, hb] at h
    simp only [Bool.false_eq_true, if_false] at h
    rw [expandAll_of_allowAll hc ha, isEmpty_mapProtos_subEntry rfl, all_proto] at h
    intro pr
    have h1 := (ciEntry_iff fullEntries o pr).mp (h pr) (PortSet.mk' true) (by cases pr <;> rfl)
    obtain ⟨op, hg, hci⟩ := h1
    exact ⟨op, hg, ports_eq_full_of_containedIn (ho.entry hg) hci⟩
  · rw [he] at h
    simp only [if_true] at h
    unfold isEmpty at h
    rw [ha] at h
    simp at h

/-- an empty difference gives containment: `o` has to be canonical and free of excluded named
ports (as in `containedIn_iff`), so that an `o` covering everything is in the AllowAll form; the
named ports of either set do not matter -/
theorem containedIn_of_subtract_isEmpty {c o : ConnSet} (hc : c.WF) (ho : o.Canonical)
    (hoe : ∀ pr ps, o.get pr = some ps → ps.excluded = [])
    (h : (c.subtract o).isEmpty = true) : c.containedIn o = true := by
  cases ha : c.allowAll
  · rw [← subtract_isEmpty_eq_containedIn ha]; exact h
  · cases hb : o.allowAll
    · exfalso
      have hf := full_of_subtract_all_isEmpty hc ho.1 ha hb h
      have : o.isAllWithoutAllowAll = true := by
        rw [isAllWithoutAllowAll_iff]
        refine ⟨hb, fun pr => ?_⟩
        obtain ⟨op, hg, hp⟩ := hf pr
        exact ⟨op, hg, hp, hoe pr op hg⟩
      rw [ho.2] at this
      exact absurd this (by decide)
    · rw [containedIn_eq, hb]
      rfl

/-- the two notions as one Boolean, under the hypotheses of `containedIn_of_subtract_isEmpty` -/
theorem subtract_isEmpty_eq_containedIn_of_canonical {c o : ConnSet} (hc : c.WF)
    (ho : o.Canonical) (hoe : ∀ pr ps, o.get pr = some ps → ps.excluded = []) :
    (c.subtract o).isEmpty = c.containedIn o := by
  rw [Bool.eq_iff_iff]
  exact ⟨containedIn_of_subtract_isEmpty hc ho hoe, subtract_isEmpty_of_containedIn c o⟩

end ConnSet
end Netpol
