import Netpol.Proofs.FormatDotX
import Netpol.Proofs.FormatEngine
import Netpol.Proofs.PermExposure
import Netpol.Proofs.DiffComputed
/-! The hypotheses of the order-independence theorem of the dot output with exposure results
(`listDotX_perm`: `PeersConsistent`, `ExposedVisited`, `RepsConsistent`) hold for what `Format.reportX` computes
(the arguments the driver `runWFmt` hands to `listToStringX`). -/
set_option linter.unusedSimpArgs false
open List
namespace Netpol
namespace Format
open Engine IngressA

section ReportXShape

/-- the exposed peers as the formatters see them (the last step of `reportX`) -/
def xfOf (peers : List LPeer) (xs : List Exposure.XPeer) : List XPeerF :=
  xs.filterMap fun p => (peers.find? (·.str == p.name)).map fun lp =>
    (⟨PeerInfo.ofLPeer lp, p.ingProtected, p.ing.map XData.ofXEntry, p.egProtected, p.eg.map XData.ofXEntry⟩ : XPeerF)

/-- the shapes of a successful report with exposure analysis -/
theorem reportX_inv {objs : List Obj} {focus : String} {stop : Bool} {r : Report} {xf : List XPeerF}
    (h : reportX objs focus stop = .ok (r, xf)) :
    (r.entries = [] ∧ r.dotPeers = [] ∧ xf = [] ∧ r.peers = []) ∨
    (∃ (x : Exposure.XEngine) (peers : List LPeer), x.eng.peersList = .ok peers ∧ r.entries = [] ∧
      r.dotPeers = peers.filter (isFocus focus) ∧ xf = [] ∧ r.peers = []) ∨
    (∃ (x : Exposure.XEngine) (peers : List LPeer) (owners : List (String × Pod)) (entries ing : List Entry)
      (xs : List Exposure.XPeer),
      Exposure.build objs = .ok x ∧ x.eng.peersList = .ok peers ∧ x.eng.podOwnersMap = .ok owners ∧
      Exposure.connsBetweenPeers x.eng peers focus = .ok entries ∧ Exposure.exposedPeers x peers focus = .ok xs ∧
      ingressEntriesX x.eng objs owners focus = .ok ing ∧
      r.entries = entries ++ ing ∧ r.peers = peers ∧ r.dotPeers = peers.filter (isFocus focus) ∧ xf = xfOf peers xs) := by
  unfold reportX at h
  split at h
  · cases h; exact Or.inl ⟨rfl, rfl, rfl, rfl⟩
  · cases hb : Exposure.build objs with
    | error e => simp [hb] at h
    | ok x =>
      simp only [hb] at h
      split at h
      · cases h; exact Or.inl ⟨rfl, rfl, rfl, rfl⟩
      · cases hp : x.eng.peersList with
        | error e => simp [hp] at h
        | ok peers =>
          cases ho : x.eng.podOwnersMap with
          | error e => simp [hp, ho] at h
          | ok owners =>
            simp only [hp, ho] at h
            split at h
            · cases h; exact Or.inr (Or.inl ⟨x, peers, hp, rfl, rfl, rfl, rfl⟩)
            · split at h
              · cases h
              · cases hc : Exposure.connsBetweenPeers x.eng peers focus with
                | error e => simp [hc] at h
                | ok entries =>
                  cases hx : Exposure.exposedPeers x peers focus with
                  | error e => simp [hc, hx] at h
                  | ok xs =>
                    simp only [hc, hx] at h
                    cases hi : ingressEntriesX x.eng objs owners focus with
                    | error e => simp [hi] at h
                    | ok ing =>
                      simp only [hi, Except.ok.injEq, Prod.mk.injEq] at h
                      obtain ⟨rfl, rfl⟩ := h
                      exact Or.inr (Or.inr ⟨x, peers, owners, entries, ing, xs, rfl, hp, ho, hc, hx, hi, rfl, rfl, rfl, rfl⟩)

end ReportXShape

section Entries

/-- both ends of a line of the exposure-mode pair loop are peers of the list -/
theorem xEntries_from_peers {e : Engine} {peers : List LPeer} {focus : String} {entries : List Entry}
    (h : Exposure.connsBetweenPeers e peers focus = .ok entries) : ∀ x ∈ entries, x.src ∈ peers ∧ x.dst ∈ peers := by
  rw [Exposure.connsBetweenPeers_eq_pairStep] at h
  refine Exposure.foldlM_invariant_mem (fun acc => ∀ x ∈ acc, x.src ∈ peers ∧ x.dst ∈ peers) peers ?_ [] entries (by simp) h
  intro acc s acc' hs hacc hstep
  refine Exposure.foldlM_invariant_mem (fun acc => ∀ x ∈ acc, x.src ∈ peers ∧ x.dst ∈ peers) peers ?_ acc acc' hacc hstep
  intro a d a' hd ha hst
  unfold Exposure.pairStep at hst
  simp only [bind, Except.bind, pure, Except.pure] at hst
  split at hst
  · cases hst; exact ha
  · split at hst
    · cases hst; exact ha
    · split at hst
      · cases hst; exact ha
      · cases h1 : e.toKPeer s with
        | error err => simp [h1] at hst
        | ok ks =>
          cases h2 : e.toKPeer d with
          | error err => simp [h1, h2] at hst
          | ok kd =>
            cases h3 : Exposure.peerConns e ks kd with
            | error err => simp [h1, h2, h3] at hst
            | ok c =>
              simp only [h1, h2, h3] at hst
              split at hst
              · cases hst; exact ha
              · cases hst
                intro x hx
                rcases mem_append.mp hx with hx | hx
                · exact ha x hx
                · simp only [mem_cons, not_mem_nil, or_false] at hx; subst hx; exact ⟨hs, hd⟩

/-- the ingress-controller lines of the report with exposure analysis: source the pseudo peer, destinations workloads of
the owners map -/
theorem ingressEntriesX_props {eng : Engine} {objs : List Obj} {owners : List (String × Pod)} {focus : String}
    {ing : List Entry} (h : ingressEntriesX eng objs owners focus = .ok ing) :
    ∀ e ∈ ing, e.src = icPeer ∧ ∃ n p, (n, p) ∈ owners ∧ e.dst = LPeer.wl n p := by
  unfold ingressEntriesX at h
  cases ha : allowedIngress objs owners with
  | none =>
    simp only [ha, Except.ok.injEq] at h
    subst h
    simp
  | some l =>
    simp only [ha] at h
    obtain ⟨_, hown⟩ := allowedIngress_props ha
    refine Exposure.foldlM_invariant_mem
      (fun acc => ∀ e ∈ acc, e.src = icPeer ∧ ∃ n p, (n, p) ∈ owners ∧ e.dst = LPeer.wl n p) l ?_ [] ing (by simp) h
    intro acc y acc' hy hacc hst
    obtain ⟨n, p, c⟩ := y
    simp only [bind, Except.bind, pure, Except.pure] at hst
    split at hst
    · cases hst; exact hacc
    · generalize (if (eng.findNs ingressPod.ns).isSome = true then eng
        else { eng with namespaces := eng.namespaces ++ [⟨ingressPod.ns, [(nsNameLabelKey, ingressPod.ns)]⟩] }) = eng' at hst
      cases h1 : eng'.toKPeer (LPeer.wl (workloadName ingressPod) ingressPod) with
      | error err => simp [h1] at hst
      | ok ks =>
        cases h2 : eng'.toKPeer (LPeer.wl n p) with
        | error err => simp [h1, h2] at hst
        | ok kd =>
          cases h3 : Exposure.peerConns eng' ks kd with
          | error err => simp [h1, h2, h3] at hst
          | ok pc =>
            simp only [h1, h2, h3] at hst
            split at hst
            · cases hst; exact hacc
            · cases hst
              intro x hx
              rcases mem_append.mp hx with hx | hx
              · exact hacc x hx
              · simp only [mem_cons, not_mem_nil, or_false] at hx
                subst hx
                exact ⟨rfl, n, p, hown _ hy, rfl⟩

end Entries

section Hypotheses

/-- peer strings determine the peers of a report with exposure analysis — also with the ingress-controller lines -/
theorem reportX_peers_consistent {objs : List Obj} {focus : String} {stop : Bool} {r : Report} {xf : List XPeerF}
    (h : reportX objs focus stop = .ok (r, xf)) (hic : ∀ p ∈ r.peers, p.str ≠ ingressPodString) :
    PeersConsistent (r.entries.map Conn.ofEntry) (r.dotPeers.map PeerInfo.ofLPeer) := by
  rcases reportX_inv h with ⟨he, hd, _, _⟩ | ⟨x, peers, hp, he, hd, _, _⟩ |
    ⟨x, peers, owners, entries, ing, xs, _, hp, ho, hc, _, hi, he, hpe, hd, _⟩
  · intro x hx
    simp [listVisitSeq, he, hd] at hx
  · have hn := Properties.C05.peers_names_nodup hp
    have hall : ∀ y ∈ listVisitSeq (r.entries.map Conn.ofEntry) (r.dotPeers.map PeerInfo.ofLPeer),
        ∃ lp ∈ peers, y = PeerInfo.ofLPeer lp := by
      intro y hy
      simp only [listVisitSeq, he, map_nil, flatMap_nil, nil_append, hd] at hy
      obtain ⟨p, hp', rfl⟩ := mem_map.mp (mem_filter.mp hy).1
      exact ⟨p, (mem_filter.mp hp').1, rfl⟩
    intro a ha b hb hab
    obtain ⟨p, hp', rfl⟩ := hall a ha
    obtain ⟨q, hq', rfl⟩ := hall b hb
    simp only [ofLPeer_str] at hab
    rw [eq_of_nodup_map' hn hp' hq' hab]
  · have hn := Properties.C05.peers_names_nodup hp
    have hsrc := ingressEntriesX_props hi
    have hne : ∀ p ∈ peers, p.str ≠ ingressPodString := hpe ▸ hic
    have hall : ∀ y ∈ listVisitSeq (r.entries.map Conn.ofEntry) (r.dotPeers.map PeerInfo.ofLPeer),
        ∃ lp, (lp ∈ peers ∨ lp = icPeer) ∧ y = PeerInfo.ofLPeer lp := by
      intro y hy
      unfold listVisitSeq at hy
      rcases mem_append.mp hy with hy | hy
      · obtain ⟨c, hc', hyc⟩ := mem_flatMap.mp hy
        obtain ⟨en, hen, rfl⟩ := mem_map.mp hc'
        simp only [Conn.ofEntry, mem_cons, not_mem_nil, or_false] at hyc
        rw [he] at hen
        rcases mem_append.mp hen with hen | hen
        · have := xEntries_from_peers hc en hen
          rcases hyc with rfl | rfl
          · exact ⟨en.src, Or.inl this.1, rfl⟩
          · exact ⟨en.dst, Or.inl this.2, rfl⟩
        · obtain ⟨hs, n, p, hnp, hdst⟩ := hsrc en hen
          rcases hyc with rfl | rfl
          · exact ⟨en.src, Or.inr hs, rfl⟩
          · exact ⟨en.dst, Or.inl (hdst ▸ owners_in_peers hp ho hnp), rfl⟩
      · rw [hd] at hy
        obtain ⟨p, hp', rfl⟩ := mem_map.mp (mem_filter.mp hy).1
        exact ⟨p, Or.inl (mem_filter.mp hp').1, rfl⟩
    intro a ha b hb hab
    obtain ⟨p, hp', rfl⟩ := hall a ha
    obtain ⟨q, hq', rfl⟩ := hall b hb
    simp only [ofLPeer_str] at hab
    rcases hp' with hp' | rfl <;> rcases hq' with hq' | rfl
    · rw [eq_of_nodup_map' hn hp' hq' hab]
    · exact absurd (by rw [hab, icPeer_str]) (hne p hp')
    · exact absurd (by rw [← hab, icPeer_str]) (hne q hq')
    · rfl

/-- the first visits keep every key -/
theorem dedupKey_key_mem {α : Type} (key : α → String) : ∀ (l : List α) {x : α}, x ∈ l → ∃ y ∈ dedupKey key l, key y = key x
  | [], _, hx => by cases hx
  | a :: xs, x, hx => by
    rcases mem_cons.mp hx with rfl | hx'
    · exact ⟨x, by simp [dedupKey], rfl⟩
    · obtain ⟨y, hy, hk⟩ := dedupKey_key_mem key xs hx'
      by_cases hya : key y = key a
      · exact ⟨a, by simp [dedupKey], hya ▸ hk⟩
      · exact ⟨y, by simp only [dedupKey, mem_cons, mem_filter]; exact Or.inr ⟨hy, by simpa using hya⟩, hk⟩

/-- what the formatters see of an exposed peer: the peer of the peers list with that name -/
theorem mem_xfOf {peers : List LPeer} {xs : List Exposure.XPeer} {x' : XPeerF} (h : x' ∈ xfOf peers xs) :
    ∃ p ∈ xs, ∃ lp ∈ peers, lp.str = p.name ∧
      x' = ⟨PeerInfo.ofLPeer lp, p.ingProtected, p.ing.map XData.ofXEntry, p.egProtected, p.eg.map XData.ofXEntry⟩ := by
  unfold xfOf at h
  obtain ⟨p, hp, hx⟩ := mem_filterMap.mp h
  cases hf : peers.find? (·.str == p.name) with
  | none => simp [hf] at hx
  | some lp =>
    simp only [hf, Option.map_some, Option.some.injEq] at hx
    have := find?_some hf
    exact ⟨p, hp, lp, mem_of_find?_eq_some hf, by simpa using this, hx.symm⟩

/-- every exposed peer of the report is among the peers the dot formatter has visited for the connections part: it is
a focus workload, and `ca.peersList` (`r.dotPeers`) holds all of them. No hypothesis on the input. -/
theorem reportX_exposed_visited {objs : List Obj} {focus : String} {stop : Bool} {r : Report} {xf : List XPeerF}
    (h : reportX objs focus stop = .ok (r, xf)) :
    ExposedVisited (r.entries.map Conn.ofEntry) (r.dotPeers.map PeerInfo.ofLPeer) xf := by
  rcases reportX_inv h with ⟨_, _, hx, _⟩ | ⟨_, _, _, _, _, hx, _⟩ |
    ⟨x, peers, owners, entries, ing, xs, _, hp, ho, hc, hxs, hi, he, hpe, hd, hx⟩
  · subst hx; intro y hy; cases hy
  · subst hx; intro y hy; cases hy
  · subst hx
    intro y hy
    obtain ⟨p, hp', lp, _, hstr, rfl⟩ := mem_xfOf hy
    obtain ⟨n, pod, ri, rg, hw, hf, _, _, rfl⟩ := Exposure.exposedPeers_mem hxs hp'
    have hmem : PeerInfo.ofLPeer (LPeer.wl n pod) ∈
        listVisitSeq (r.entries.map Conn.ofEntry) (r.dotPeers.map PeerInfo.ofLPeer) := by
      unfold listVisitSeq
      refine mem_append_right _ (mem_filter.mpr ⟨mem_map.mpr ⟨_, ?_, rfl⟩, rfl⟩)
      rw [hd]
      exact mem_filter.mpr ⟨hw, hf⟩
    obtain ⟨z, hz, hk⟩ := dedupKey_key_mem (·.str) _ hmem
    unfold listVisited
    rw [any_eq_true]
    refine ⟨z, hz, ?_⟩
    simp only [beq_iff_eq, ofLPeer_str] at hk ⊢
    rw [hk, hstr]
    rfl

end Hypotheses

section RepStrings
open SelStr

/-- no `}` directly followed by `_` -/
def noBU : List Char → Bool
  | x :: y :: l => !(x == '}' && y == '_') && noBU (y :: l)
  | _ => true

theorem noBU_tail {x : Char} {l : List Char} (h : noBU (x :: l) = true) : noBU l = true := by
  cases l with
  | nil => rfl
  | cons y l => simp only [noBU, Bool.and_eq_true] at h; exact h.2

theorem noBU_cons_of_ne {x : Char} {l : List Char} (hx : x ≠ '}') (h : noBU l = true) : noBU (x :: l) = true := by
  cases l with
  | nil => rfl
  | cons y l => simp [noBU, hx, h]

theorem noBU_of_not_mem : ∀ {l : List Char}, '}' ∉ l → noBU l = true
  | [], _ => rfl
  | x :: l, h => by
    simp only [mem_cons, not_or] at h
    exact noBU_cons_of_ne (fun e => h.1 e.symm) (noBU_of_not_mem h.2)

theorem noBU_append_left : ∀ {a b : List Char}, '}' ∉ a → noBU b = true → noBU (a ++ b) = true
  | [], _, _, hb => hb
  | x :: a, b, h, hb => by
    simp only [mem_cons, not_or] at h
    exact noBU_cons_of_ne (fun e => h.1 e.symm) (noBU_append_left h.2 hb)

theorem noBU_append_head : ∀ {a b : List Char}, noBU a = true → noBU b = true → b.head? ≠ some '_' → noBU (a ++ b) = true
  | [], _, _, hb, _ => hb
  | [x], b, _, hb, hh => by
    cases b with
    | nil => rfl
    | cons y b =>
      have : y ≠ '_' := fun e => hh (by simp [e])
      simp [noBU, this, hb]
  | x :: y :: a, b, ha, hb, hh => by
    have h2 := noBU_append_head (noBU_tail ha) hb hh
    simp only [noBU, Bool.and_eq_true] at ha
    simp only [cons_append, noBU, Bool.and_eq_true]
    exact ⟨ha.1, by simpa using h2⟩

/-- the text before the first `}_` is determined -/
theorem sep_inj : ∀ {a b r s : List Char}, noBU a = true → noBU b = true →
    a ++ '}' :: '_' :: r = b ++ '}' :: '_' :: s → a = b ∧ r = s
  | [], [], r, s, _, _, h => by simpa using h
  | [], [x], r, s, _, _, h => by
    simp only [nil_append, cons_append, cons.injEq] at h
    exact absurd h.2.1 (by decide)
  | [], x :: y :: b, r, s, _, hb, h => by
    simp only [nil_append, cons_append, cons.injEq] at h
    obtain ⟨rfl, rfl, _⟩ := h
    simp [noBU] at hb
  | [x], [], r, s, _, _, h => by
    simp only [nil_append, cons_append, cons.injEq] at h
    exact absurd h.2.1 (by decide)
  | x :: y :: a, [], r, s, ha, _, h => by
    simp only [nil_append, cons_append, cons.injEq] at h
    obtain ⟨rfl, rfl, _⟩ := h
    simp [noBU] at ha
  | x :: a, y :: b, r, s, ha, hb, h => by
    simp only [cons_append, cons.injEq] at h
    obtain ⟨rfl, h⟩ := h
    obtain ⟨rfl, rfl⟩ := sep_inj (noBU_tail ha) (noBU_tail hb) h
    exact ⟨rfl, rfl⟩

/-- a string without `}` -/
def NoBrace (s : String) : Prop := '}' ∉ s.toList

instance (s : String) : Decidable (NoBrace s) := by unfold NoBrace; infer_instance

/-- the keys and values of a selector hold no `}` (Kubernetes label syntax: alphanumerics, `-`, `_`, `.`, and `/` in keys) -/
def SelNoBrace (s : Selector) : Prop :=
  (∀ kv ∈ s.matchLabels, NoBrace kv.1 ∧ NoBrace kv.2) ∧ ∀ r ∈ s.exprs, NoBrace r.key ∧ ∀ v ∈ r.vals, NoBrace v

instance (s : Selector) : Decidable (SelNoBrace s) := by unfold SelNoBrace; infer_instance

theorem braced_shape (k o v : List Char) (hk : '}' ∉ k) (ho : '}' ∉ o) (hv : '}' ∉ v) :
    ∃ t, "{Key:".toList ++ k ++ ",Operator:".toList ++ o ++ ",Values:[".toList ++ v ++ "],}".toList = '{' :: t ∧
      noBU ('{' :: t) = true := by
  refine ⟨"Key:".toList ++ k ++ ",Operator:".toList ++ o ++ ",Values:[".toList ++ v ++ "],}".toList, rfl, ?_⟩
  rw [← cons_append]
  apply noBU_append_left
  · simp only [mem_cons, mem_append, not_or]
    exact ⟨by decide, ⟨⟨⟨⟨by decide, hk⟩, by decide⟩, ho⟩, by decide⟩, hv⟩
  · decide

theorem reqString_shape (r : Req) (h : NoBrace r.key ∧ ∀ v ∈ r.vals, NoBrace v) :
    ∃ t, (reqString r).toList = '{' :: t ∧ noBU ('{' :: t) = true := by
  obtain ⟨hk, hv⟩ := h
  have hop : '}' ∉ (match r.op with | .In => "In" | .NotIn => "NotIn" | .Exists => "Exists" | .DoesNotExist => "DoesNotExist").toList := by
    cases r.op <;> decide
  have hvals : '}' ∉ (" ".intercalate r.vals).toList := by
    rw [String.toList_intercalate]
    intro hm
    have : '}' ∈ ijoin ' ' (r.vals.map String.toList) := hm
    rcases mem_ijoin this with h1 | ⟨v, hv', h1⟩
    · exact absurd h1 (by decide)
    · obtain ⟨w, hw, rfl⟩ := mem_map.mp hv'
      exact hv w hw h1
  unfold reqString
  simp only [String.toList_append]
  exact braced_shape _ _ _ hk hop hvals

theorem noBU_ijoin_braced : ∀ (L : List (List Char)), (∀ l ∈ L, ∃ t, l = '{' :: t ∧ noBU l = true) →
    noBU (ijoin ',' L) = true
  | [], _ => rfl
  | [a], h => by
    rw [ijoin_single]
    obtain ⟨_, _, h2⟩ := h a mem_cons_self
    exact h2
  | a :: b :: L, h => by
    rw [ijoin_cons_cons]
    obtain ⟨_, _, ha⟩ := h a mem_cons_self
    have ih := noBU_ijoin_braced (b :: L) (fun l hl => h l (mem_cons_of_mem _ hl))
    exact noBU_append_head ha (noBU_cons_of_ne (by decide) ih) (by simp)

theorem selString_noBU (s : Selector) (h : SelNoBrace s) : noBU (selString s).toList = true := by
  obtain ⟨hml, hex⟩ := h
  have hme : noBU (",".intercalate (sortStrings (s.exprs.map reqString))).toList = true := by
    rw [String.toList_intercalate]
    apply noBU_ijoin_braced
    intro l hl
    obtain ⟨str, hstr, rfl⟩ := mem_map.mp hl
    rw [mem_sortStrings] at hstr
    obtain ⟨r, hr, rfl⟩ := mem_map.mp hstr
    obtain ⟨t, h1, h2⟩ := reqString_shape r (hex r hr)
    exact ⟨t, h1, h1 ▸ h2⟩
  have hmlb : '}' ∉ (",".intercalate ((s.matchLabels.mergeSort (fun a b => decide (a.1 ≤ b.1))).map fun kv => kv.1 ++ "=" ++ kv.2)).toList := by
    rw [String.toList_intercalate]
    intro hm
    have hm' : '}' ∈ ijoin ',' (((s.matchLabels.mergeSort (fun a b => decide (a.1 ≤ b.1))).map fun kv => kv.1 ++ "=" ++ kv.2).map String.toList) := hm
    rcases mem_ijoin hm' with h1 | ⟨v, hv', h1⟩
    · exact absurd h1 (by decide)
    · obtain ⟨w, hw, rfl⟩ := mem_map.mp hv'
      obtain ⟨kv, hkv, rfl⟩ := mem_map.mp hw
      have hkv' := hml kv ((mergeSort_perm _ _).mem_iff.mp hkv)
      simp only [String.toList_append, mem_append] at h1
      rcases h1 with (h1 | h1) | h1
      · exact hkv'.1 h1
      · exact absurd h1 (by decide)
      · exact hkv'.2 h1
  unfold selString
  simp only
  split
  · exact hme
  · split
    · exact noBU_of_not_mem hmlb
    · simp only [String.toList_append, append_assoc]
      exact noBU_append_left hmlb (noBU_append_left (by decide) hme)

/-- an optional selector whose keys and values hold no `}` -/
def OptNoBrace (o : Option Selector) : Prop :=
  match o with
  | none => True
  | some s => SelNoBrace s

instance (o : Option Selector) : Decidable (OptNoBrace o) := by
  cases o with
  | none => exact isTrue trivial
  | some s => exact inferInstanceAs (Decidable (SelNoBrace s))

/-- the two shapes of the label of a representative pod -/
theorem repPod_cases (o : Option Selector) (h : OptNoBrace o) :
    (repPodString o false).toList = "all pods".toList ∨
    ∃ S, noBU S = true ∧ (repPodString o false).toList = "pod with {".toList ++ (S ++ '}' :: []) := by
  have hsel : SelNoBrace (o.getD ⟨[], []⟩) := by
    cases o with
    | none => exact ⟨fun kv hkv => absurd hkv (by simp), fun r hr => absurd hr (by simp)⟩
    | some s => exact h
  unfold repPodString
  simp only [bracket, Bool.false_eq_true, if_false]
  split
  · exact Or.inl rfl
  · refine Or.inr ⟨(selString (o.getD ⟨[], []⟩)).toList, selString_noBU _ hsel, ?_⟩
    simp only [String.toList_append, append_assoc]
    rfl

/-- the `visited` key `POD_in_NS` of a representative peer determines its two labels, whatever the namespace label is,
when the pod selector holds no `}` -/
theorem repKey_inj {p1 p2 : Option Selector} {n1 n2 : String} (h1 : OptNoBrace p1) (h2 : OptNoBrace p2)
    (h : repPodString p1 false ++ "_in_" ++ n1 = repPodString p2 false ++ "_in_" ++ n2) :
    repPodString p1 false = repPodString p2 false ∧ n1 = n2 := by
  have h' := congrArg String.toList h
  simp only [String.toList_append] at h'
  have ea : "all pods".toList = 'a' :: "ll pods".toList := by decide
  have ep : "pod with {".toList = 'p' :: "od with {".toList := by decide
  have ei : "_in_".toList = '_' :: "in_".toList := by decide
  rcases repPod_cases p1 h1 with e1 | ⟨S1, hS1, e1⟩ <;> rcases repPod_cases p2 h2 with e2 | ⟨S2, hS2, e2⟩
  · rw [e1, e2, append_assoc, append_assoc] at h'
    have := append_cancel_left (append_cancel_left h')
    exact ⟨String.ext (e1.trans e2.symm), String.ext this⟩
  · rw [e1, e2, ea, ep] at h'
    simp only [cons_append, cons.injEq] at h'
    exact absurd h'.1 (by decide)
  · rw [e1, e2, ea, ep] at h'
    simp only [cons_append, cons.injEq] at h'
    exact absurd h'.1 (by decide)
  · rw [e1, e2, ei] at h'
    simp only [append_assoc, cons_append, nil_append] at h'
    obtain ⟨rfl, h3⟩ := sep_inj hS1 hS2 (append_cancel_left h')
    exact ⟨String.ext (e1.trans e2.symm), String.ext (append_cancel_left h3)⟩

theorem repKey_ne_entire {p : Option Selector} {n : String} (h : OptNoBrace p) :
    repPodString p false ++ "_in_" ++ n ≠ "entire-cluster" := by
  intro he
  have h' := congrArg String.toList he
  simp only [String.toList_append] at h'
  have ea : "all pods".toList = 'a' :: "ll pods".toList := by decide
  have ep : "pod with {".toList = 'p' :: "od with {".toList := by decide
  have ee : "entire-cluster".toList = 'e' :: "ntire-cluster".toList := by decide
  rcases repPod_cases p h with e1 | ⟨S1, _, e1⟩
  · rw [e1, ea, ee] at h'
    simp only [cons_append, cons.injEq] at h'
    exact absurd h'.1 (by decide)
  · rw [e1, ep, ee] at h'
    simp only [cons_append, cons.injEq] at h'
    exact absurd h'.1 (by decide)

/-- **`RepsConsistent` from the syntax of the pod selectors**: when no key or value of a pod selector of an exposure
entry holds a `}`, the representative-peer strings determine the representative peers -/
theorem repsConsistent_of_noBrace (xs : List XPeerF)
    (h : ∀ p ∈ xs, ∀ x ∈ p.ing ++ p.eg, OptNoBrace x.podSel) : RepsConsistent xs := by
  have hnode : ∀ n ∈ (exposureItems xs).map XItem.node,
      n = ⟨true, "", ""⟩ ∨ ∃ ps ns, OptNoBrace ps ∧ n = ⟨false, ns, repPodString ps false⟩ := by
    intro n hn
    obtain ⟨i, hi, rfl⟩ := mem_map.mp hn
    unfold exposureItems at hi
    obtain ⟨p, hp, hi⟩ := mem_flatMap.mp hi
    have hdir : ∀ b, i ∈ dirItems p b → i.node = ⟨true, "", ""⟩ ∨ ∃ ps ns, OptNoBrace ps ∧ i.node = ⟨false, ns, repPodString ps false⟩ := by
      intro b hb
      unfold dirItems at hb
      cases b
      · simp only [Bool.false_eq_true, if_false] at hb
        split at hb
        · simp only [mem_cons, not_mem_nil, or_false] at hb
          subst hb
          exact Or.inl rfl
        · obtain ⟨x, hx, rfl⟩ := mem_map.mp hb
          cases he : x.entireCluster
          · exact Or.inr ⟨x.podSel, repNsString x.nsSel false, h p hp x (mem_append_right _ hx), by simp [XItem.node, he]⟩
          · exact Or.inl (by simp [XItem.node, he])
      · simp only [if_true] at hb
        split at hb
        · simp only [mem_cons, not_mem_nil, or_false] at hb
          subst hb
          exact Or.inl rfl
        · obtain ⟨x, hx, rfl⟩ := mem_map.mp hb
          cases he : x.entireCluster
          · exact Or.inr ⟨x.podSel, repNsString x.nsSel false, h p hp x (mem_append_left _ hx), by simp [XItem.node, he]⟩
          · exact Or.inl (by simp [XItem.node, he])
    unfold peerItems at hi
    rcases mem_append.mp hi with hi | hi
    · exact hdir true hi
    · exact hdir false hi
  intro a ha b hb hab
  rcases hnode a ha with rfl | ⟨p1, n1, h1, rfl⟩ <;> rcases hnode b hb with rfl | ⟨p2, n2, h2, rfl⟩
  · rfl
  · exact absurd hab.symm (by simpa [RepNode.key] using repKey_ne_entire h2)
  · exact absurd hab (by simpa [RepNode.key] using repKey_ne_entire h1)
  · simp only [RepNode.key, Bool.false_eq_true, if_false] at hab
    obtain ⟨e1, e2⟩ := repKey_inj h1 h2 hab
    rw [e1, e2]

end RepStrings

section RepsOfReport
open Exposure Structure

/-- the pod selector of a rule peer holds no `}` -/
def PeerNoBrace (peer : NPPeer) : Prop :=
  match peer with
  | .ip .. => True
  | .sel podSel _ => OptNoBrace podSel

instance (peer : NPPeer) : Decidable (PeerNoBrace peer) := by
  cases peer with
  | ip c ex => exact isTrue trivial
  | sel podSel nsSel => exact inferInstanceAs (Decidable (OptNoBrace podSel))

/-- input-level: no key or value of a podSelector of a rule peer of a NetworkPolicy holds a `}` (Kubernetes label syntax
allows alphanumerics, `-`, `_`, `.` and, in keys, one `/`) -/
def PodSelectorsNoBrace (objs : List Obj) : Prop :=
  ∀ q ∈ npsOf objs, ∀ r ∈ q.ingress ++ q.egress, ∀ peer ∈ r.peers, PeerNoBrace peer

instance (objs : List Obj) : Decidable (PodSelectorsNoBrace objs) := by unfold PodSelectorsNoBrace; infer_instance

/-- the pod selector of an exposure entry is that of a representative peer (or absent: the entire-cluster entry) -/
theorem xgressExposure_podSel {x : XEngine} {n : String} {pod : Pod} {i : Bool} {r : Option (Bool × List XEntry)}
    (h : xgressExposure x (.wl n pod) i = .ok r) :
    ∀ e ∈ (r.getD (true, [])).2, e.podSel = none ∨ ∃ krp ∈ x.reps, e.podSel = krp.2.reprPodSel := by
  rw [xgressExposure_eq] at h
  simp only [bind, Except.bind] at h
  cases hk : x.eng.toKPeer (.wl n pod) with
  | error err => simp [hk] at h
  | ok kw =>
    simp only [hk] at h
    split at h
    · simp only [pure, Except.pure, Except.ok.injEq] at h
      subst h
      intro e he
      simp at he
    · cases hcw : clusterWideConn x.eng pod i with
      | error err => simp [hcw] at h
      | ok cw =>
        simp only [hcw] at h
        cases hcol : collect (repEntry x.eng kw cw i) x.reps with
        | error err => simp [hcol] at h
        | ok perRep =>
          simp only [hcol, pure, Except.pure, Except.ok.injEq] at h
          subst h
          intro e he
          split at he
          · simp at he
          · simp only [Option.getD_some, mem_append] at he
            rcases he with he | he
            · unfold general at he
              split at he
              · cases he
              · simp only [mem_cons, not_mem_nil, or_false] at he
                subst he
                exact Or.inl rfl
            · obtain ⟨krp, hkrp, ys, hys, hey⟩ := collect_mem hcol he
              refine Or.inr ⟨krp, hkrp, ?_⟩
              unfold repEntry at hys
              split at hys
              · cases hys
              · simp only [bind, Except.bind] at hys
                split at hys
                · cases hys
                · rename_i c _
                  simp only [pure, Except.pure] at hys
                  split at hys
                  · cases hys; cases hey
                  · split at hys
                    · cases hys; cases hey
                    · cases hys
                      simp only [mem_cons, not_mem_nil, or_false] at hey
                      subst hey
                      rfl

/-- the pod selectors of the representative peers are pod selectors of rule peers of the input policies -/
theorem build_reps_noBrace {objs : List Obj} {x : XEngine} (h : Exposure.build objs = .ok x)
    (hs : PodSelectorsNoBrace objs) : ∀ krp ∈ x.reps, OptNoBrace krp.2.reprPodSel := by
  intro krp hk
  obtain ⟨np, hnp, rs, hrs, rfl⟩ := (build_inv h).1.origin krp hk
  obtain ⟨r, hr, hpeer⟩ := allSels_peer hrs
  obtain ⟨c, _⟩ := PermExposure.build_data h
  rw [c.nps, PermExposure.foldl_npStep] at hnp
  simp only [nil_append] at hnp
  obtain ⟨q, hq, rfl⟩ := mem_map.mp hnp
  rw [(PermExposure.npDefaulted_rules q).1, (PermExposure.npDefaulted_rules q).2] at hr
  exact hs q hq r hr _ hpeer

/-- representative-peer strings determine the representative peers of the report, when the pod selectors of the input
policies hold no `}` -/
theorem reportX_reps_consistent {objs : List Obj} {focus : String} {stop : Bool} {r : Report} {xf : List XPeerF}
    (h : reportX objs focus stop = .ok (r, xf)) (hs : PodSelectorsNoBrace objs) : RepsConsistent xf := by
  apply repsConsistent_of_noBrace
  rcases reportX_inv h with ⟨_, _, hx, _⟩ | ⟨_, _, _, _, _, hx, _⟩ |
    ⟨x, peers, owners, entries, ing, xs, hb, hp, ho, hc, hxs, hi, he, hpe, hd, hx⟩
  · subst hx; intro p hp; cases hp
  · subst hx; intro p hp; cases hp
  · subst hx
    intro y hy d hd'
    obtain ⟨p, hp', lp, _, _, rfl⟩ := mem_xfOf hy
    obtain ⟨n, pod, ri, rg, _, _, hri, hrg, rfl⟩ := exposedPeers_mem hxs hp'
    have hreps := build_reps_noBrace hb hs
    have key : ∀ e, (e.podSel = none ∨ ∃ krp ∈ x.reps, e.podSel = krp.2.reprPodSel) → OptNoBrace (XData.ofXEntry e).podSel := by
      intro e he'
      rcases he' with he' | ⟨krp, hkrp, he'⟩
      · simp only [XData.ofXEntry, he']; trivial
      · simp only [XData.ofXEntry, he']; exact hreps krp hkrp
    simp only [mem_append, mem_map] at hd'
    rcases hd' with ⟨e, he', rfl⟩ | ⟨e, he', rfl⟩
    · exact key e (xgressExposure_podSel hri e he')
    · exact key e (xgressExposure_podSel hrg e he')

end RepsOfReport

section Corollaries
open Exposure

/-- no peer of the report has the string of the ingress-controller pseudo peer, when no pod of the input carries the
analyzer's own `fake` mark -/
theorem reportX_peers_not_ic {objs : List Obj} {focus : String} {stop : Bool} {r : Report} {xf : List XPeerF}
    (h : reportX objs focus stop = .ok (r, xf)) (hf : DiffComputed.PodsNotFake objs) :
    ∀ p ∈ r.peers, p.str ≠ ingressPodString := by
  rcases reportX_inv h with ⟨_, _, _, hp⟩ | ⟨_, _, _, _, _, _, hp⟩ |
    ⟨x, peers, owners, entries, ing, xs, hb, hp, ho, hc, hxs, hi, he, hpe, hd, hx⟩
  · rw [hp]; intro p hp'; cases hp'
  · rw [hp]; intro p hp'; cases hp'
  · rw [hpe]
    intro p hp'
    cases p with
    | ip rg => exact DiffComputed.ipRange_ne_ic rg
    | wl n pod =>
      obtain ⟨rfl, hpod⟩ := PermLayer.peersList_wl hp hp'
      exact DiffComputed.workloadName_ne_ic (hf pod (PermExposure.build_pods_sub hb hpod))

/-- `listDotX_perm` with the exposed peers compared through their items: the exposure entries of a peer may also come
in another order (the representative peers are kept in a Go map) -/
theorem listDotX_perm_items {c c' : List Conn} {p p' : List PeerInfo} {xs xs' : List XPeerF} (hc : PeersConsistent c p)
    (hv : ExposedVisited c p xs) (hv' : ExposedVisited c' p' xs') (hr : RepsConsistent xs) (h : c ~ c') (hp : p ~ p')
    (hL : exposureItems xs ~ exposureItems xs') : listDotX c p xs = listDotX c' p' xs' := by
  have hvis : listVisited c p ~ listVisited c' p' := listVisited_perm hc h hp
  rw [listDotX_eq hv, listDotX_eq hv']
  obtain ⟨a1, a2, a3, a4⟩ := dotX_closed (listVisited c p) (exposureItems xs)
  obtain ⟨b1, b2, b3, b4⟩ := dotX_closed (listVisited c' p') (exposureItems xs')
  unfold dotXRender
  simp only [a1, a2, a3, a4, b1, b2, b3, b4]
  have hK : (dotXInit (listVisited c p)).K = (dotXInit (listVisited c' p')).K := funext (dotXInit_K_perm hvis)
  rw [hK]
  rw [nsGroups_perm ((dotXInit_perm hvis).append (repLinesOf_perm _ hr hL)),
    nsGroups_perm (repLinesOf_perm (fun k => !(dotXInit (listVisited c' p')).K k) hr hL),
    any_perm hL, sortStrings_perm (((hvis.filter _).map _).append_right _),
    sortStrings_perm ((h.map _).append (hL.map _))]

/-- **the dot output of a computed report with exposure analysis** does not depend on the order of its lines, of the
peers handed to the dot formatter and of the exposed peers. Input-level hypotheses only: `PodsNotFake` (the parser never
sets the mark) and `PodSelectorsNoBrace` (label syntax). -/
theorem reportX_listDotX_perm {objs : List Obj} {focus : String} {stop : Bool} {r : Report} {xf : List XPeerF}
    (h : reportX objs focus stop = .ok (r, xf)) (hf : DiffComputed.PodsNotFake objs) (hs : PodSelectorsNoBrace objs)
    {entries' : List Entry} {dotPeers' : List LPeer} {xf' : List XPeerF}
    (hperm : r.entries ~ entries') (hperm' : r.dotPeers ~ dotPeers') (hx : xf ~ xf') :
    listDotX (r.entries.map Conn.ofEntry) (r.dotPeers.map PeerInfo.ofLPeer) xf =
      listDotX (entries'.map Conn.ofEntry) (dotPeers'.map PeerInfo.ofLPeer) xf' :=
  listDotX_perm (reportX_peers_consistent h (reportX_peers_not_ic h hf)) (reportX_exposed_visited h)
    (reportX_reps_consistent h hs) (hperm.map _) (hperm'.map _) hx

end Corollaries

section Example

/-- a small world: a namespace, two pods, a policy on `web` with two selector rule peers (one with an expression, whose
string holds braces of the rendering itself) -/
def exXNs : NsObj := ⟨"default", [("kubernetes.io/metadata.name", "default")]⟩
def exXWeb : Pod := { ns := "default", name := "web", labels := [("app", "web")], ports := [⟨"http", .TCP, 8080⟩] }
def exXOther : Pod := { ns := "default", name := "other", labels := [("app", "other")], ports := [] }
def exXNp : NetPol :=
  { ns := "default", name := "coll", podSel := ⟨[("app", "web")], []⟩, types := [.ingress],
    ingress := [⟨[.sel (some ⟨[("ab", "c_in_d")], []⟩) none], [⟨none, .num 80 none⟩]⟩,
                ⟨[.sel (some ⟨[("b", "c")], [⟨"a", .Exists, []⟩]⟩) (some ⟨[("team", "x")], []⟩)], [⟨none, .num 81 none⟩]⟩], egress := [] }
def exXObjs : List Obj := [.ns exXNs, .pod exXWeb, .pod exXOther, .np exXNp]

/-- the input-level hypotheses hold of it (both are decidable) -/
example : DiffComputed.PodsNotFake exXObjs ∧ PodSelectorsNoBrace exXObjs := by decide

/-- … so every successful run on it satisfies the three hypotheses of `listDotX_perm` -/
example {focus : String} {r : Report} {xf : List XPeerF} (h : reportX exXObjs focus = .ok (r, xf)) :
    PeersConsistent (r.entries.map Conn.ofEntry) (r.dotPeers.map PeerInfo.ofLPeer) ∧
    ExposedVisited (r.entries.map Conn.ofEntry) (r.dotPeers.map PeerInfo.ofLPeer) xf ∧ RepsConsistent xf :=
  ⟨reportX_peers_consistent h (reportX_peers_not_ic h (by decide)), reportX_exposed_visited h,
    reportX_reps_consistent h (by decide)⟩

/-- `repsConsistent_of_noBrace` on exposed peers given directly -/
example : RepsConsistent [cexA, cexB] := repsConsistent_of_noBrace _ (by decide)

/-- `PodSelectorsNoBrace` cannot be dropped for the formatter as a function (it is implied by label syntax, so this is
no finding about the tool): a pod-selector value `x}_in_y` with namespace `z` and the value `x` with a namespace label
`y}_in_z` have the same `visited` key `pod with {a=x}_in_y}_in_z` … -/
def cexBraceA : XPeerF := ⟨⟨"ns1/a[Pod]", "a", "ns1", "Pod", false⟩, true,
  [⟨false, some ⟨[(nsNameLabelKey, "z")], []⟩, some ⟨[("a", "x}_in_y")], []⟩, "TCP 80"⟩], true, []⟩
def cexBraceB : XPeerF := ⟨⟨"ns1/b[Pod]", "b", "ns1", "Pod", false⟩, true,
  [⟨false, some ⟨[(nsNameLabelKey, "y}_in_z")], []⟩, some ⟨[("a", "x")], []⟩, "TCP 81"⟩], true, []⟩

theorem reps_inconsistent_with_brace : ¬ RepsConsistent [cexBraceA, cexBraceB] := by
  unfold RepsConsistent KeyInj; decide +kernel

/-- … and the representative cluster that is drawn depends on the order of the two exposed peers -/
theorem order_dependence_with_brace :
    (dotXWalk [] [cexBraceA.peer, cexBraceB.peer] [cexBraceA, cexBraceB]).repMembers.map (·.1) = ["z"] ∧
    (dotXWalk [] [cexBraceA.peer, cexBraceB.peer] [cexBraceB, cexBraceA]).repMembers.map (·.1) = ["y}_in_z"] := by
  decide +kernel

end Example

end Format
end Netpol
