import Netpol.Proofs.FormatLayer
import Netpol.Properties.C05
/-! The hypotheses of the order-independence theorems of the list formats (`ConnKeysDistinct`, `PeersConsistent`) hold for
the report `Format.report` computes, including its ingress-controller lines. -/
set_option linter.unusedSimpArgs false
namespace Netpol
namespace Format
open List Engine IngressA

section Grouping

/-- the grouping step of `AllowedIngressConnections` -/
def groupStep (acc : List (String × Pod × ConnSet)) (x : String × Pod × ConnSet) : List (String × Pod × ConnSet) :=
  if acc.any (·.1 == x.1) then acc.map fun y => if y.1 == x.1 then (y.1, y.2.1, y.2.2.union x.2.2) else y
  else acc ++ [x]

theorem groupStep_names (acc : List (String × Pod × ConnSet)) (x : String × Pod × ConnSet) :
    (groupStep acc x).map (·.1) = if acc.any (·.1 == x.1) then acc.map (·.1) else acc.map (·.1) ++ [x.1] := by
  unfold groupStep
  split
  · rw [map_map]
    apply map_congr_left
    intro y _
    simp only [Function.comp]
    split <;> rfl
  · simp

theorem group_inv (P : String → Pod → Prop) : ∀ (contribs acc : List (String × Pod × ConnSet)),
    (acc.map (·.1)).Nodup → (∀ y ∈ acc, P y.1 y.2.1) → (∀ x ∈ contribs, P x.1 x.2.1) →
    ((contribs.foldl groupStep acc).map (·.1)).Nodup ∧ ∀ y ∈ contribs.foldl groupStep acc, P y.1 y.2.1
  | [], acc, h1, h2, _ => ⟨h1, h2⟩
  | x :: contribs, acc, h1, h2, h3 => by
    rw [foldl_cons]
    apply group_inv P contribs (groupStep acc x)
    · rw [groupStep_names]
      split
      · exact h1
      · rename_i hn
        rw [nodup_append]
        refine ⟨h1, by simp, ?_⟩
        intro a ha b hb
        simp only [mem_cons, not_mem_nil, or_false] at hb
        subst hb
        intro e
        apply hn
        rw [any_eq_true]
        obtain ⟨y, hy, rfl⟩ := mem_map.mp ha
        exact ⟨y, hy, by simp [e]⟩
    · intro y hy
      unfold groupStep at hy
      split at hy
      · obtain ⟨z, hz, rfl⟩ := mem_map.mp hy
        split
        · exact h2 z hz
        · exact h2 z hz
      · rcases mem_append.mp hy with hy | hy
        · exact h2 y hy
        · simp only [mem_cons, not_mem_nil, or_false] at hy; subst hy; exact h3 _ mem_cons_self
    · intro z hz; exact h3 z (mem_cons_of_mem _ hz)

end Grouping

section Allowed

theorem mem_services {objs : List Obj} {owners : List (String × Pod)} {s : Service} {peers : List (String × Pod)}
    (h : (s, peers) ∈ services objs owners) : ∀ x ∈ peers, x ∈ owners := by
  unfold services at h
  obtain ⟨o, _, ho⟩ := mem_filterMap.mp h
  cases o with
  | svc s' =>
    simp only at ho
    split at ho
    · cases ho
    · split at ho
      · cases ho
      · simp only [Option.some.injEq, Prod.mk.injEq] at ho
        obtain ⟨_, rfl⟩ := ho
        intro x hx
        exact (mem_filter.mp hx).1
  | _ => simp at ho

theorem mem_lookupSvc {svcs : List (Service × List (String × Pod))} {ns name : String} {r : Service × List (String × Pod)}
    (h : lookupSvc svcs ns name = some r) : r ∈ svcs := by
  unfold lookupSvc at h
  exact (mem_filter.mp (mem_of_getLast? h)).1

/-- `AllowedIngressConnections`: one entry per workload name; the workloads are peers of the report -/
theorem allowedIngress_props {objs : List Obj} {owners : List (String × Pod)} {l : List (String × Pod × ConnSet)}
    (h : allowedIngress objs owners = some l) : (l.map (·.1)).Nodup ∧ ∀ x ∈ l, (x.1, x.2.1) ∈ owners := by
  unfold allowedIngress at h
  simp only at h
  split at h
  · cases h
  · simp only [Option.some.injEq] at h
    have hstep : (fun (acc : List (String × Pod × ConnSet)) (x : String × Pod × ConnSet) =>
        match x with
        | (n, p, c) =>
          if acc.any (·.1 == n) then acc.map fun x => match x with | (n', p', c') => if n' == n then (n', p', c'.union c) else (n', p', c')
          else acc ++ [(n, p, c)]) = groupStep := by
      funext acc x
      obtain ⟨n, p, c⟩ := x
      simp only [groupStep]
    rw [hstep] at h
    rw [← h]
    apply group_inv (fun n p => (n, p) ∈ owners) _ [] (by simp) (by simp)
    intro x hx
    obtain ⟨t, _, hx⟩ := mem_flatMap.mp hx
    obtain ⟨ns, nm, tl⟩ := t
    simp only at hx
    split at hx
    · cases hx
    · obtain ⟨u, _, hx⟩ := mem_flatMap.mp hx
      obtain ⟨svcName, req, byT⟩ := u
      simp only at hx
      split at hx
      · cases hx
      · rename_i s peers hl
        obtain ⟨y, hy, rfl⟩ := mem_map.mp hx
        obtain ⟨n, p⟩ := y
        exact mem_services (mem_lookupSvc hl) (n, p) hy

end Allowed

section IngressEntries

/-- the pseudo peer of the ingress controller -/
def icPeer : LPeer := LPeer.wl (workloadName ingressPod) ingressPod

theorem icPeer_str : icPeer.str = ingressPodString := by decide

/-- one step of `getIngressAllowedConnections` -/
def ingStep (eng : Engine) (focus : String) (acc : List Entry × List String) (x : String × Pod × ConnSet) :
    Except Err (List Entry × List String) := do
  let dst := LPeer.wl x.1 x.2.1
  if !(isFocus focus icPeer || isFocus focus dst) then pure acc
  else
    let ks ← eng.toKPeer icPeer
    let kd ← eng.toKPeer dst
    let pc ← eng.peerConns ks kd
    let r := x.2.2.inter pc
    if r.isEmpty then pure (acc.1, acc.2 ++ [x.1]) else pure (acc.1 ++ [⟨icPeer, dst, r⟩], acc.2)

theorem ingStep_ok {eng : Engine} {focus : String} {acc acc' : List Entry × List String} {x : String × Pod × ConnSet}
    (h : ingStep eng focus acc x = .ok acc') :
    acc'.1 = acc.1 ∨ ∃ r, acc'.1 = acc.1 ++ [⟨icPeer, LPeer.wl x.1 x.2.1, r⟩] := by
  unfold ingStep at h
  simp only [bind, Except.bind, pure, Except.pure] at h
  split at h
  · cases h; exact Or.inl rfl
  · cases h1 : eng.toKPeer icPeer with
    | error e => simp [h1] at h
    | ok ks =>
      cases h2 : eng.toKPeer (LPeer.wl x.1 x.2.1) with
      | error e => simp [h1, h2] at h
      | ok kd =>
        cases h3 : eng.peerConns ks kd with
        | error e => simp [h1, h2, h3] at h
        | ok pc =>
          simp only [h1, h2, h3] at h
          split at h
          · cases h; exact Or.inl rfl
          · cases h; exact Or.inr ⟨_, rfl⟩

/-- the entries the fold adds: source the pseudo peer, destinations workloads of the list, in the order of the list -/
theorem ingFold_ok {eng : Engine} {focus : String} : ∀ (l : List (String × Pod × ConnSet)) (acc res : List Entry × List String),
    l.foldlM (ingStep eng focus) acc = .ok res →
    ∃ added : List Entry, res.1 = acc.1 ++ added ∧ (added.map (·.dst.str)).Sublist (l.map (·.1)) ∧
      ∀ e ∈ added, e.src = icPeer ∧ ∃ x ∈ l, e.dst = LPeer.wl x.1 x.2.1
  | [], acc, res, h => by
    simp only [foldlM_nil, pure, Except.pure, Except.ok.injEq] at h
    subst h
    exact ⟨[], by simp, by simp, by simp⟩
  | x :: l, acc, res, h => by
    rw [foldlM_cons] at h
    simp only [bind, Except.bind] at h
    cases hs : ingStep eng focus acc x with
    | error e => simp [hs] at h
    | ok acc' =>
      simp only [hs] at h
      obtain ⟨added, h1, h2, h3⟩ := ingFold_ok l acc' res h
      rcases ingStep_ok hs with ha | ⟨r, ha⟩
      · refine ⟨added, by rw [h1, ha], ?_, ?_⟩
        · rw [map_cons]; exact h2.cons _
        · intro e he
          obtain ⟨a, y, hy, b⟩ := h3 e he
          exact ⟨a, y, mem_cons_of_mem _ hy, b⟩
      · refine ⟨⟨icPeer, LPeer.wl x.1 x.2.1, r⟩ :: added, by rw [h1, ha]; simp, ?_, ?_⟩
        · simp only [map_cons]
          exact h2.cons_cons _
        · intro e he
          rcases mem_cons.mp he with rfl | he
          · exact ⟨rfl, x, mem_cons_self, rfl⟩
          · obtain ⟨a, y, hy, b⟩ := h3 e he
            exact ⟨a, y, mem_cons_of_mem _ hy, b⟩

/-- the ingress-controller lines of a report: source the pseudo peer, pairwise distinct destinations, which are
workloads of the owners map -/
theorem ingressEntries_props {eng : Engine} {objs : List Obj} {owners : List (String × Pod)} {focus : String}
    {ing : List Entry} {blocked : List String} (h : ingressEntries eng objs owners focus = .ok (ing, blocked)) :
    (ing.map (·.dst.str)).Nodup ∧ ∀ e ∈ ing, e.src = icPeer ∧ ∃ n p, (n, p) ∈ owners ∧ e.dst = LPeer.wl n p := by
  unfold ingressEntries at h
  cases ha : allowedIngress objs owners with
  | none =>
    simp only [ha, Except.ok.injEq, Prod.mk.injEq] at h
    obtain ⟨rfl, _⟩ := h
    simp
  | some l =>
    simp only [ha] at h
    obtain ⟨hnd, hown⟩ := allowedIngress_props ha
    have hfold : l.foldlM (ingStep (if (eng.findNs ingressPod.ns).isSome then eng
        else { eng with namespaces := eng.namespaces ++ [⟨ingressPod.ns, [(nsNameLabelKey, ingressPod.ns)]⟩] }) focus) ([], []) =
        .ok (ing, blocked) := h
    obtain ⟨added, h1, h2, h3⟩ := ingFold_ok l _ _ hfold
    simp only [nil_append] at h1
    subst h1
    refine ⟨h2.nodup hnd, ?_⟩
    intro e he
    obtain ⟨a, x, hx, b⟩ := h3 e he
    exact ⟨a, x.1, x.2.1, hown x hx, b⟩

end IngressEntries

section ReportFacts

/-- the shapes of a successful report -/
theorem report_inv {objs : List Obj} {focus : String} {stop : Bool} {r : Report} (h : report objs focus stop = .ok r) :
    (r.entries = [] ∧ r.dotPeers = []) ∨
    (∃ (eng : Engine) (peers : List LPeer), eng.peersList = .ok peers ∧ r.entries = [] ∧ r.dotPeers = peers.filter (isFocus focus)) ∨
    (∃ (eng : Engine) (peers : List LPeer) (owners : List (String × Pod)) (entries ing : List Entry) (blocked : List String),
      eng.peersList = .ok peers ∧ eng.podOwnersMap = .ok owners ∧
      eng.connsBetweenPeers peers focus = .ok entries ∧ ingressEntries eng objs owners focus = .ok (ing, blocked) ∧
      r.entries = entries ++ ing ∧ r.peers = peers ∧ r.dotPeers = peers.filter (isFocus focus)) := by
  unfold report at h
  split at h
  · cases h; exact Or.inl ⟨rfl, rfl⟩
  · cases hb : Engine.build objs with
    | error e => simp [hb] at h
    | ok eng =>
      simp only [hb] at h
      split at h
      · cases h; exact Or.inl ⟨rfl, rfl⟩
      · cases hp : eng.peersList with
        | error e => simp [hp] at h
        | ok peers =>
          cases ho : eng.podOwnersMap with
          | error e => simp [hp, ho] at h
          | ok owners =>
            simp only [hp, ho] at h
            split at h
            · cases h; exact Or.inr (Or.inl ⟨eng, peers, hp, rfl, rfl⟩)
            · cases hc : eng.connsBetweenPeers peers focus with
              | error e => simp [hc] at h
              | ok entries =>
                simp only [hc] at h
                cases hi : ingressEntries eng objs owners focus with
                | error e => simp [hi] at h
                | ok res =>
                  obtain ⟨ing, blocked⟩ := res
                  simp only [hi, Except.ok.injEq] at h
                  subst h
                  exact Or.inr (Or.inr ⟨eng, peers, owners, entries, ing, blocked, hp, ho, hc, hi, rfl, rfl, rfl⟩)

theorem owners_in_peers {eng : Engine} {peers : List LPeer} {owners : List (String × Pod)} (hp : eng.peersList = .ok peers)
    (ho : eng.podOwnersMap = .ok owners) {n : String} {p : Pod} (h : (n, p) ∈ owners) : LPeer.wl n p ∈ peers := by
  unfold Engine.peersList at hp
  simp only [ho, bind, Except.bind, pure, Except.pure, Except.ok.injEq] at hp
  subst hp
  exact mem_append_right _ (mem_map.mpr ⟨(n, p), h, rfl⟩)

theorem keysDistinct_of_nodup {entries : List Entry} (h : (entries.map fun x => (x.src.str, x.dst.str)).Nodup) :
    ConnKeysDistinct (entries.map Conn.ofEntry) := by
  unfold ConnKeysDistinct KeysDistinct
  rw [map_map, pairwise_map]
  rw [Nodup, pairwise_map] at h
  refine h.imp ?_
  intro a b hab hk
  apply hab
  simp only [Function.comp, Conn.ofEntry, Conn.row, ofLPeer_str] at hk
  rw [hk.1, hk.2]

theorem eq_of_nodup_map' {α β : Type} {f : α → β} : ∀ {l : List α}, (l.map f).Nodup → ∀ {a b : α}, a ∈ l → b ∈ l → f a = f b → a = b
  | [], _, _, _, ha, _, _ => by cases ha
  | x :: xs, hn, a, b, ha, hb, hf => by
    rw [map_cons, nodup_cons] at hn
    rcases mem_cons.mp ha with rfl | ha' <;> rcases mem_cons.mp hb with rfl | hb'
    · rfl
    · exact absurd (hf ▸ mem_map_of_mem hb') hn.1
    · exact absurd (hf ▸ mem_map_of_mem ha') hn.1
    · exact eq_of_nodup_map' hn.2 ha' hb' hf

/-- one line per ordered pair of peer strings — also with the ingress-controller lines — when no peer of the input has
the string of the pseudo peer `{ingress-controller}` -/
theorem report_keys_distinct {objs : List Obj} {focus : String} {stop : Bool} {r : Report}
    (h : report objs focus stop = .ok r) (hic : ∀ p ∈ r.peers, p.str ≠ ingressPodString) :
    ConnKeysDistinct (r.entries.map Conn.ofEntry) := by
  rcases report_inv h with ⟨he, _⟩ | ⟨_, _, _, he, _⟩ | ⟨eng, peers, owners, entries, ing, blocked, hp, ho, hc, hi, he, hpe, _⟩
  · rw [he]; exact Pairwise.nil
  · rw [he]; exact Pairwise.nil
  · rw [he]
    apply keysDistinct_of_nodup
    obtain ⟨hnd, hsrc⟩ := ingressEntries_props hi
    rw [map_append, nodup_append]
    refine ⟨Properties.C05.report_no_dup_pair hp hc, ?_, ?_⟩
    · rw [Nodup, pairwise_map]
      rw [Nodup, pairwise_map] at hnd
      exact hnd.imp (fun hne heq => hne (Prod.mk.inj heq).2)
    · intro a ha b hb heq
      obtain ⟨x, hx, rfl⟩ := mem_map.mp ha
      obtain ⟨y, hy, rfl⟩ := mem_map.mp hb
      have h1 := (Prod.mk.inj heq).1
      rw [(hsrc y hy).1, icPeer_str] at h1
      exact hic x.src (hpe ▸ (Properties.C05.entries_from_peers hc x hx).1) h1

/-- peer strings determine the peers of a report — also with the ingress-controller lines -/
theorem report_peers_consistent {objs : List Obj} {focus : String} {stop : Bool} {r : Report}
    (h : report objs focus stop = .ok r) (hic : ∀ p ∈ r.peers, p.str ≠ ingressPodString) :
    PeersConsistent (r.entries.map Conn.ofEntry) (r.dotPeers.map PeerInfo.ofLPeer) := by
  rcases report_inv h with ⟨he, hd⟩ | ⟨eng, peers, hp, he, hd⟩ | ⟨eng, peers, owners, entries, ing, blocked, hp, ho, hc, hi, he, hpe, hd⟩
  · intro x hx
    simp [listVisitSeq, he, hd] at hx
  · have hn := Properties.C05.peers_names_nodup hp
    have hall : ∀ x ∈ listVisitSeq (r.entries.map Conn.ofEntry) (r.dotPeers.map PeerInfo.ofLPeer),
        ∃ lp ∈ peers, x = PeerInfo.ofLPeer lp := by
      intro x hx
      simp only [listVisitSeq, he, map_nil, flatMap_nil, nil_append, hd] at hx
      obtain ⟨p, hp', rfl⟩ := mem_map.mp (mem_filter.mp hx).1
      exact ⟨p, (mem_filter.mp hp').1, rfl⟩
    intro x hx y hy hxy
    obtain ⟨p, hp', rfl⟩ := hall x hx
    obtain ⟨q, hq', rfl⟩ := hall y hy
    simp only [ofLPeer_str] at hxy
    rw [eq_of_nodup_map' hn hp' hq' hxy]
  · have hn := Properties.C05.peers_names_nodup hp
    obtain ⟨_, hsrc⟩ := ingressEntries_props hi
    have hne : ∀ p ∈ peers, p.str ≠ ingressPodString := hpe ▸ hic
    have hall : ∀ x ∈ listVisitSeq (r.entries.map Conn.ofEntry) (r.dotPeers.map PeerInfo.ofLPeer),
        ∃ lp, (lp ∈ peers ∨ lp = icPeer) ∧ x = PeerInfo.ofLPeer lp := by
      intro x hx
      unfold listVisitSeq at hx
      rcases mem_append.mp hx with hx | hx
      · obtain ⟨c, hc', hxc⟩ := mem_flatMap.mp hx
        obtain ⟨en, hen, rfl⟩ := mem_map.mp hc'
        simp only [Conn.ofEntry, mem_cons, not_mem_nil, or_false] at hxc
        rw [he] at hen
        rcases mem_append.mp hen with hen | hen
        · have := Properties.C05.entries_from_peers hc en hen
          rcases hxc with rfl | rfl
          · exact ⟨en.src, Or.inl this.1, rfl⟩
          · exact ⟨en.dst, Or.inl this.2, rfl⟩
        · obtain ⟨hs, n, p, hnp, hdst⟩ := hsrc en hen
          rcases hxc with rfl | rfl
          · exact ⟨en.src, Or.inr hs, rfl⟩
          · exact ⟨en.dst, Or.inl (hdst ▸ owners_in_peers hp ho hnp), rfl⟩
      · rw [hd] at hx
        obtain ⟨p, hp', rfl⟩ := mem_map.mp (mem_filter.mp hx).1
        exact ⟨p, Or.inl (mem_filter.mp hp').1, rfl⟩
    intro x hx y hy hxy
    obtain ⟨p, hp', rfl⟩ := hall x hx
    obtain ⟨q, hq', rfl⟩ := hall y hy
    simp only [ofLPeer_str] at hxy
    rcases hp' with hp' | rfl <;> rcases hq' with hq' | rfl
    · rw [eq_of_nodup_map' hn hp' hq' hxy]
    · exact absurd (by rw [hxy, icPeer_str]) (hne p hp')
    · exact absurd (by rw [← hxy, icPeer_str]) (hne q hq')
    · rfl

end ReportFacts

end Format
end Netpol
