import Netpol.Proofs.PermRules
import Netpol.Proofs.PermErrors
import Netpol.Proofs.PermIngress
import Netpol.Proofs.EvalLayer
import Std.Data.String.ToInt

/-! Property C08 for the `eval` command: the modelled `(evalall)` answer string
`WorldDriver.runEvalAll` — `CheckIfAllowed` for every ordered pair of pods / probe addresses, every
protocol and probe port, on ONE engine with its verdict cache — does not depend on the order of the
input objects, nor on the inner order of the NetworkPolicies. Core Lean only.

Layout: A the three rule walks of `eval` (`ruleConnsContain`, `npAllowedConn`, `byNetpols`) as
order-free `any`s, when no step fails; B the uncached verdict on two engines that hold the same
objects; C `getPeer`; D one `CheckIfAllowed` step on two related states (equal caches); E the
nested folds of `runEvalAll`; F the main theorems; G findings (what the hypotheses exclude, with
concrete inputs) and a non-vacuity example.

Main statements (all hypotheses decidable and invariant under permutation, `hyps_perm`):
* `runEvalAll_perm` / `eval_order_independent`: `objs.Perm objs'`, `DistinctKeys objs` (no two pods
  under one `namespace/name`, no two Namespace objects under one name), `NoEmptyRulePeer objs` (no
  NetworkPolicy rule peer without selectors and ipBlock), `NoNamedPortOnIPs objs` (no egress rule
  that can select an IP block — no peers, or an `ipBlock` peer — has a named port), `build objs`
  succeeds ⊢ `runEvalAll objs = runEvalAll objs'`. No hypothesis on admin policies, on port numbers,
  on the pods.
* `runEvalAll_perm_error`: when `build` fails and only the kind of conflict it names is present.
* `runEvalAll_rules_perm`: `Forall₂ ObjSim objs objs'` (NetworkPolicies permuted inside),
  `NoEmptyRulePeer objs`, `NoNamedPortOnIPs objs` ⊢ `runEvalAll objs = runEvalAll objs'` (`build` may
  fail: then with the same error; keys need not be distinct).
* `runEvalAll_perm_rules`: both together.
* per query: `checkIfAllowed_rel` (related states: the same answer, related states), on top of
  `verdict_equiv` / `verdict_sim` (the uncached verdict, any peers, any query strings) and
  `getPeer_equiv` / `getPeer_sim`.
* `Findings`: every hypothesis is needed (`policy_order_repaired`: no longer; `rule_order_matters`,
  `port_order_matters`, `peer_order_matters`, `duplicate_pod_matters`,
  `duplicate_namespace_matters`, `build_error_order_matters`). -/
namespace Netpol.PermEval
open Netpol Netpol.Engine Netpol.EState Netpol.Structure Netpol.PermLayer Netpol.PermRules

/-! ## A. the walks of `eval` as `any`s

`eval` walks the policies, the rules of a policy and the port clauses of a rule, and stops at the
first one that allows the point. A failing step (a named port towards an IP block, a rule peer
without selector and ipBlock) is therefore reached or not depending on the order. When no step can
fail, each walk is an `any`, hence order-free. -/

/-- the value of a step that does not fail -/
def okB (x : Except Err Bool) : Bool :=
  match x with
  | .ok b => b
  | .error _ => false

/-- the port clause is a named port -/
def namedB (q : NPPort) : Bool :=
  match q.kind with
  | .name _ => true
  | _ => false

/-- the rule peer is an `ipBlock` -/
def isIPBlock : NPPeer → Bool
  | .ip .. => true
  | .sel .. => false

/-- one port clause answers, unless it is a named port towards an IP block -/
theorem portContains_isOk (q : NPPort) (pr : Option Proto) (n : Int) (dst : KPeer)
    (h : dst.isPod = true ∨ namedB q = false) : ∃ b, NetPol.portContains q pr n dst = .ok b := by
  unfold NetPol.portContains
  cases hk : q.kind with
  | all => exact ⟨_, rfl⟩
  | num a e =>
    simp only [NetPol.portsRange, hk]
    exact ⟨_, rfl⟩
  | name nm =>
    cases dst with
    | ip r =>
      rcases h with h | h
      · cases h
      · simp [namedB, hk] at h
    | pod p ns =>
      simp only [NetPol.portsRange, hk]
      cases p.convertNamedPort nm with
      | none => exact ⟨_, rfl⟩
      | some v =>
        obtain ⟨a, b⟩ := v
        simp only
        split <;> exact ⟨_, rfl⟩

/-- the walk over the port clauses of a rule: an `any` when no clause can fail -/
theorem rcc_go_any (pr : Option Proto) (n : Int) (dst : KPeer) (ports : List NPPort)
    (h : ∀ q ∈ ports, dst.isPod = true ∨ namedB q = false) :
    NetPol.ruleConnsContain.go pr n dst ports =
      .ok (ports.any fun q => okB (NetPol.portContains q pr n dst)) := by
  induction ports with
  | nil => rfl
  | cons q rest ih =>
    rw [NetPol.ruleConnsContain.go_cons, List.any_cons,
      ih (fun q' hq' => h q' (List.mem_cons_of_mem _ hq'))]
    obtain ⟨b, hb⟩ := portContains_isOk q pr n dst (h q (List.mem_cons_self ..))
    rw [hb]
    cases b <;> simp [okB, bind, Except.bind, pure, Except.pure]

/-- what `npRuleConnsContain` answers on a query that passed the validation of the port -/
def portsV (proto port : String) (dst : KPeer) (ports : List NPPort) : Bool :=
  ports.isEmpty || (!(proto == "" && port == "") &&
    ports.any fun q => okB (NetPol.portContains q (Proto.ofStrFold? proto) (port.toInt?.getD 0) dst))

theorem npRuleConnsContain_val {proto port : String} (hq : badQuery proto port = false)
    (dst : KPeer) (ports : List NPPort) (h : ∀ q ∈ ports, dst.isPod = true ∨ namedB q = false) :
    npRuleConnsContain ports proto port dst = .ok (portsV proto port dst ports) := by
  unfold npRuleConnsContain portsV
  cases he : ports.isEmpty
  · simp only [Bool.false_eq_true, if_false, Bool.false_or]
    cases hb : (proto == "" && port == "")
    · simp only [Bool.false_eq_true, if_false, Bool.not_false, Bool.true_and]
      cases ht : port.toInt? with
      | none =>
        have h1 : (proto != "" || port != "") = true := by
          cases h1 : (proto == "") <;> cases h2 : (port == "") <;> simp_all [bne]
        rw [badQuery_of_none ht h1] at hq
        cases hq
      | some n =>
        simp only [NetPol.ruleConnsContain, he, Bool.false_eq_true, if_false, Option.getD_some]
        exact rcc_go_any _ n dst ports h
    · simp
  · simp

theorem portsV_perm {ports ports' : List NPPort} (hp : ports.Perm ports') (proto port : String)
    (dst : KPeer) : portsV proto port dst ports = portsV proto port dst ports' := by
  unfold portsV
  rw [hp.isEmpty_eq, hp.any_eq]

/-- what one rule answers: it selects the other end and some port clause matches -/
def ruleV (np : NetPol) (other dst : KPeer) (proto port : String) (r : NPRule) : Bool :=
  selB np other r && portsV proto port dst r.ports

/-- the walk over the rules of a policy: an `any` when no rule peer is empty and no selecting rule
has a port clause that can fail -/
theorem npAllowedConn_go_any (np : NetPol) (other dst : KPeer) {proto port : String}
    (hq : badQuery proto port = false) (rules : List NPRule)
    (hp : ∀ r ∈ rules, ∀ rp ∈ r.peers, rp ≠ .sel none none)
    (hn : ∀ r ∈ rules, selB np other r = true →
      ∀ q ∈ r.ports, dst.isPod = true ∨ namedB q = false) :
    npAllowedConn.go np other proto port dst rules =
      .ok (rules.any (ruleV np other dst proto port)) := by
  induction rules with
  | nil => rfl
  | cons r rest ih =>
    rw [npAllowedConn_go_cons, List.any_cons,
      ih (fun r' h => hp r' (List.mem_cons_of_mem _ h)) (fun r' h => hn r' (List.mem_cons_of_mem _ h)),
      ruleSelectsPeer_any np other r.peers (hp r (List.mem_cons_self ..))]
    show (if (!selB np other r) = true then _ else _) = _
    unfold ruleV
    cases hs : selB np other r
    · simp
    · simp only [Bool.not_true, Bool.false_eq_true, if_false, Bool.true_and]
      rw [npRuleConnsContain_val hq dst r.ports (hn r (List.mem_cons_self ..) hs)]
      cases portsV proto port dst r.ports <;> simp [bind, Except.bind, pure, Except.pure]

theorem ruleV_sim {np np' : NetPol} (hns : np.ns = np'.ns) {r r' : NPRule} (hs : RuleSim r r')
    (other dst : KPeer) (proto port : String) :
    ruleV np other dst proto port r = ruleV np' other dst proto port r' := by
  unfold ruleV
  rw [selB_sim hns other hs, portsV_perm hs.2]

theorem rulesV_sim {np np' : NetPol} (hns : np.ns = np'.ns) {l l' : List NPRule}
    (hs : RulesSim l l') (other dst : KPeer) (proto port : String) :
    l.any (ruleV np other dst proto port) = l'.any (ruleV np' other dst proto port) := by
  obtain ⟨m, hp, hf⟩ := hs
  rw [hp.any_eq]
  exact hf.any_eq fun a b hab => ruleV_sim hns hab other dst proto port

/-! ### the hypotheses on one NetworkPolicy -/

/-- no rule peer without selectors and without ipBlock (the API server rejects such a peer; the walk
of `ruleSelectsPeer` fails on it, when it gets there) -/
def RulePeersOK (r : NPRule) : Prop := ∀ rp ∈ r.peers, rp ≠ .sel none none

instance (r : NPRule) : Decidable (RulePeersOK r) := by unfold RulePeersOK; infer_instance

/-- **the hypothesis the early exit of `eval` forces**: no egress rule that can select an IP block
(no peers, or an `ipBlock` peer) has a named port. Such a rule fails with `namedPortOnIP` when the
walk gets there — which depends on the order of the policies, of the rules and of the port clauses
(`Findings`). -/
def NoNamedPortOnIP (np : NetPol) : Prop :=
  ∀ r ∈ np.egress, (r.peers.isEmpty || r.peers.any isIPBlock) = true →
    ∀ q ∈ r.ports, namedB q = false

instance (np : NetPol) : Decidable (NoNamedPortOnIP np) := by unfold NoNamedPortOnIP; infer_instance

/-- what `eval` needs of a NetworkPolicy to be order-free -/
structure NpEvalGood (np : NetPol) : Prop where
  ingress : ∀ r ∈ np.ingress, RulePeersOK r
  egress : ∀ r ∈ np.egress, RulePeersOK r
  named : NoNamedPortOnIP np

instance (np : NetPol) : Decidable (NpEvalGood np) :=
  decidable_of_iff ((∀ r ∈ np.ingress, RulePeersOK r) ∧ (∀ r ∈ np.egress, RulePeersOK r) ∧
      NoNamedPortOnIP np)
    ⟨fun ⟨a, b, c⟩ => ⟨a, b, c⟩, fun ⟨a, b, c⟩ => ⟨a, b, c⟩⟩

theorem RuleSim.peersOK {r r' : NPRule} (hs : RuleSim r r') (h : RulePeersOK r) : RulePeersOK r' :=
  fun rp hrp => h rp (hs.1.mem_iff.mpr hrp)

theorem NpEvalGood.sim {p p' : NetPol} (hs : NpSim p p') (h : NpEvalGood p) : NpEvalGood p' := by
  refine ⟨fun r' hr' => ?_, fun r' hr' => ?_, fun r' hr' hsel q hq => ?_⟩
  · obtain ⟨r, hr, hrr⟩ := hs.ingress.bwd hr'
    exact RuleSim.peersOK hrr (h.ingress r hr)
  · obtain ⟨r, hr, hrr⟩ := hs.egress.bwd hr'
    exact RuleSim.peersOK hrr (h.egress r hr)
  · obtain ⟨r, hr, hrr⟩ := hs.egress.bwd hr'
    refine h.named r hr ?_ q (hrr.2.mem_iff.mpr hq)
    rw [hrr.1.isEmpty_eq, hrr.1.any_eq]
    exact hsel

theorem normNp_evalGood {p : NetPol} (h : NpEvalGood p) : NpEvalGood (normNp p) := by
  unfold normNp
  split
  · exact ⟨h.ingress, h.egress, h.named⟩
  · exact h

/-- a rule that selects an IP block has no peers or an `ipBlock` peer -/
theorem selB_ip {np : NetPol} {x : CSet} {r : NPRule} (h : selB np (.ip x) r = true) :
    (r.peers.isEmpty || r.peers.any isIPBlock) = true := by
  unfold selB at h
  rw [Bool.or_eq_true] at h ⊢
  rcases h with h | h
  · exact Or.inl h
  · right
    rw [List.any_eq_true] at h ⊢
    obtain ⟨rp, hrp, hsel⟩ := h
    refine ⟨rp, hrp, ?_⟩
    cases rp with
    | ip c ex => rfl
    | sel a b => simp [peerSel] at hsel

/-! ### the walk over the selecting policies -/

/-- what one selecting policy answers -/
def polV (src dst : KPeer) (i : Bool) (proto port : String) (np : NetPol) : Bool :=
  (Spec.npRules np (dirOf i)).any (ruleV np (otherPeer src dst i) dst proto port)

theorem evalStep_val {np : NetPol} (hg : NpEvalGood np) (src dst : KPeer) (i : Bool)
    (hself : (selfPeer src dst i).isPod = true) {proto port : String}
    (hq : badQuery proto port = false) :
    evalStep src dst i proto port np = .ok (polV src dst i proto port np) := by
  unfold evalStep polV
  show npAllowedConn.go np (otherPeer src dst i) proto port dst (Spec.npRules np (dirOf i)) = _
  apply npAllowedConn_go_any np _ dst hq
  · cases i
    · exact hg.egress
    · exact hg.ingress
  · intro r hr hsel q hqm
    cases i with
    | true => exact Or.inl hself
    | false =>
      cases dst with
      | pod p ns => exact Or.inl rfl
      | ip x => exact Or.inr (hg.named r hr (selB_ip hsel) q hqm)

theorem byNetpols_go_any (src dst : KPeer) (i : Bool) {proto port : String}
    (hq : badQuery proto port = false) (hself : (selfPeer src dst i).isPod = true)
    (pols : List NetPol) (hg : ∀ np ∈ pols, NpEvalGood np) :
    byNetpols.go src dst i proto port pols = .ok (pols.any (polV src dst i proto port), true) := by
  induction pols with
  | nil => rfl
  | cons np rest ih =>
    rw [byNetpols_go_cons', List.any_cons, ih (fun np' h => hg np' (List.mem_cons_of_mem _ h)),
      evalStep_val (hg np (List.mem_cons_self ..)) src dst i hself hq]
    cases polV src dst i proto port np <;> simp [bind, Except.bind, pure, Except.pure]

/-- the policies of the engine are good for `eval` -/
def EngGood (e : Engine) : Prop := ∀ np ∈ e.netpols, NpEvalGood np

/-- the answer of the NetworkPolicy layer of `eval` -/
def netV (e : Engine) (src dst : KPeer) (i : Bool) (proto port : String) : Bool × Bool :=
  let pols := e.policiesSelecting (selfPeer src dst i) (dirOf i)
  if pols.isEmpty then (false, false) else (pols.any (polV src dst i proto port), true)

theorem mem_policiesSelecting {e : Engine} {k : KPeer} {d : Dir} {np : NetPol}
    (h : np ∈ e.policiesSelecting k d) : np ∈ e.netpols ∧ k.isPod = true := by
  cases k with
  | ip r => cases h
  | pod p ns => exact ⟨policiesSelecting_sub h, rfl⟩

/-- **the NetworkPolicy layer of `eval` never fails on good policies, and is an `any`** -/
theorem byNetpols_val {e : Engine} (hg : EngGood e) (src dst : KPeer) (i : Bool)
    {proto port : String} (hq : badQuery proto port = false) :
    byNetpols e src dst i proto port = .ok (netV e src dst i proto port) := by
  rw [byNetpols_eq]
  unfold netV
  simp only
  split
  · rfl
  · rename_i hne
    cases hpol : e.policiesSelecting (selfPeer src dst i) (dirOf i) with
    | nil => rw [hpol] at hne; exact absurd rfl hne
    | cons np rest =>
      have hmem : np ∈ e.policiesSelecting (selfPeer src dst i) (dirOf i) := by
        rw [hpol]; exact List.mem_cons_self ..
      have hself := (mem_policiesSelecting hmem).2
      rw [← hpol]
      exact byNetpols_go_any src dst i hq hself _ (fun np' h => hg np' (mem_policiesSelecting h).1)

/-! ## B. the uncached verdict on two engines that hold the same objects -/

theorem netV_equiv {e e' : Engine} (h : e.netpols.Perm e'.netpols) (src dst : KPeer) (i : Bool)
    (proto port : String) : netV e src dst i proto port = netV e' src dst i proto port := by
  have hpol : (e.policiesSelecting (selfPeer src dst i) (dirOf i)).Perm
      (e'.policiesSelecting (selfPeer src dst i) (dirOf i)) := by
    cases selfPeer src dst i with
    | ip r => exact List.Perm.refl _
    | pod p ns =>
      rw [policiesSelecting_pod, policiesSelecting_pod]
      exact (sortByName_perm _).trans ((h.filter _).trans (sortByName_perm _).symm)
  unfold netV
  simp only
  rw [hpol.isEmpty_eq, hpol.any_eq]

theorem polV_sim {np np' : NetPol} (hs : NpSim np np') (src dst : KPeer) (i : Bool)
    (proto port : String) : polV src dst i proto port np = polV src dst i proto port np' := by
  unfold polV
  cases i
  · exact rulesV_sim hs.ns hs.egress _ dst proto port
  · exact rulesV_sim hs.ns hs.ingress _ dst proto port

theorem netV_sim {e e' : Engine} (h : EngSim e e') (src dst : KPeer) (i : Bool)
    (proto port : String) : netV e src dst i proto port = netV e' src dst i proto port := by
  have hpol := policiesSelecting_sim (P := fun _ => True) h (fun _ _ => trivial)
    (selfPeer src dst i) (dirOf i)
  unfold netV
  simp only
  rw [hpol.isEmpty_eq, hpol.any_eq fun a b hab => polV_sim hab.1 src dst i proto port]

/-- one direction of the walk reads the engine through the ANP slice, the BANP and the
NetworkPolicy layer -/
theorem xg_congr_of {e e' : Engine} (h2 : e.anps = e'.anps) (h3 : e.banp = e'.banp)
    (sp dp : KPeer) (i : Bool) (proto port : String)
    (hn : byNetpols e sp dp i proto port = byNetpols e' sp dp i proto port) :
    xg e sp dp i proto port = xg e' sp dp i proto port := by
  have a1 : byANPs e sp dp i proto port = byANPs e' sp dp i proto port := by
    unfold byANPs; rw [h2]
  have a3 : byBANP e sp dp i proto port = byBANP e' sp dp i proto port := by
    unfold byBANP; rw [h3]
  simp only [xg, xgress, a1, hn, a3]

/-- **the uncached verdict agrees** on two engines with the same admin policies whose
NetworkPolicy layers agree: for all peers and all query strings, the same answer or the same
error. (The admin walk is the same computation on both sides: the ANP slice is sorted by priority
and priorities are distinct, so no validity of the admin rules is needed.) -/
theorem verdict_agree {e e' : Engine} (hg : EngGood e) (hg' : EngGood e') (h2 : e.anps = e'.anps)
    (h3 : e.banp = e'.banp)
    (hnet : ∀ src dst i proto port, netV e src dst i proto port = netV e' src dst i proto port)
    (sp dp : KPeer) (proto port : String) :
    verdict e sp dp proto port = verdict e' sp dp proto port := by
  unfold verdict
  cases hq : badQuery proto port
  · simp only [Bool.false_eq_true, if_false]
    have hx : ∀ i, xg e sp dp i proto port = xg e' sp dp i proto port := fun i =>
      xg_congr_of h2 h3 sp dp i proto port (by
        rw [byNetpols_val hg sp dp i hq, byNetpols_val hg' sp dp i hq, hnet])
    unfold walk
    rw [hx false, hx true]
  · rfl

theorem EngGood.perm {e e' : Engine} (h : e.netpols.Perm e'.netpols) (hg : EngGood e) : EngGood e' :=
  fun np hnp => hg np (h.mem_iff.mpr hnp)

theorem EngGood.sim {e e' : Engine} (h : EngSim e e') (hg : EngGood e) : EngGood e' := by
  intro np' hnp'
  obtain ⟨np, hnp, hs⟩ := h.netpols.mem_right hnp'
  exact (hg np hnp).sim hs

theorem verdict_equiv {e e' : Engine} (h : e.Equiv e') (hg : EngGood e) (sp dp : KPeer)
    (proto port : String) : verdict e sp dp proto port = verdict e' sp dp proto port :=
  verdict_agree hg (hg.perm h.netpols) h.anps h.banp (netV_equiv h.netpols) sp dp proto port

/-- on two equivalent engines whose policy maps have unique keys the walk of `eval` is the same
computation: the selecting policies are visited in the order of their names (no hypothesis on the
rules: a failing policy is reached or not in both runs alike) -/
theorem verdict_equiv' {e e' : Engine} (h : e.Equiv e')
    (hn : (e.netpols.map (fun q => (q.ns, q.name))).Nodup) (sp dp : KPeer) (proto port : String) :
    verdict e sp dp proto port = verdict e' sp dp proto port := by
  unfold verdict
  cases hq : badQuery proto port
  · simp only [Bool.false_eq_true, if_false]
    have hx : ∀ i, xg e sp dp i proto port = xg e' sp dp i proto port := fun i =>
      xg_congr_of h.anps h.banp sp dp i proto port (by
        rw [byNetpols_eq, byNetpols_eq, policiesSelecting_perm_eq h.netpols hn])
    unfold walk
    rw [hx false, hx true]
  · rfl

theorem verdict_sim {e e' : Engine} (h : EngSim e e') (hg : EngGood e) (sp dp : KPeer)
    (proto port : String) : verdict e sp dp proto port = verdict e' sp dp proto port :=
  verdict_agree hg (hg.sim h) h.anps h.banp (netV_sim h) sp dp proto port

/-! ## C. `getPeer` -/

theorem getPeer_congr {e e' : Engine} (h1 : ∀ k, e.findPod k = e'.findPod k)
    (h2 : ∀ n, e.findNs n = e'.findNs n) (p : String) : getPeer e p = getPeer e' p := by
  unfold getPeer
  simp only [h1, h2]

theorem getPeer_equiv {e e' : Engine} (h : e.Equiv e') (p : String) : getPeer e p = getPeer e' p :=
  getPeer_congr (fun k => find?_key_perm (key := podKey) h.pods h.podsNodup k) h.findNs p

theorem getPeer_sim {e e' : Engine} (h : EngSim e e') (p : String) : getPeer e p = getPeer e' p :=
  getPeer_congr (fun k => by unfold findPod; rw [h.pods]) (fun n => by unfold findNs; rw [h.namespaces]) p

/-! ## D. one `CheckIfAllowed` step on two related states -/

/-- the two engines answer alike: the same peers and the same uncached verdicts -/
structure EngAgree (e e' : Engine) : Prop where
  peer : ∀ p, getPeer e p = getPeer e' p
  verdict : ∀ sp dp proto port, verdict e sp dp proto port = verdict e' sp dp proto port

/-- the simulation relation between the two runs: engines that answer alike, EQUAL verdict caches.
The owner bookkeeping `owners` (filled by `cacheAddPod` in the order of the pod map, so it does
depend on the order of the input) is left unrelated: `CheckIfAllowed` never reads it. -/
structure Rel (s s' : EState) : Prop where
  eng : EngAgree s.eng s'.eng
  cache : s.cache = s'.cache

theorem cachedAnswer_rel {s s' : EState} (h : Rel s s') (sp dp : KPeer) (proto port : String) :
    (s.cachedAnswer sp dp proto port).1 = (s'.cachedAnswer sp dp proto port).1 ∧
    (s.cachedAnswer sp dp proto port).2.cache = (s'.cachedAnswer sp dp proto port).2.cache := by
  unfold cachedAnswer
  rw [← h.cache, ← h.eng.verdict]
  split
  · exact ⟨rfl, h.cache⟩
  · split
    · exact ⟨rfl, by simp only [h.cache]⟩
    · split
      · exact ⟨rfl, h.cache⟩
      · exact ⟨rfl, by simp only [h.cache]⟩

/-- **one query, two runs**: related states give the same answer and related states -/
theorem checkIfAllowed_rel {s s' : EState} (h : Rel s s') (src dst proto port : String) :
    (s.checkIfAllowed src dst proto port).1 = (s'.checkIfAllowed src dst proto port).1 ∧
    Rel (s.checkIfAllowed src dst proto port).2 (s'.checkIfAllowed src dst proto port).2 := by
  have key : (s.checkIfAllowed src dst proto port).1 = (s'.checkIfAllowed src dst proto port).1 ∧
      (s.checkIfAllowed src dst proto port).2.cache = (s'.checkIfAllowed src dst proto port).2.cache := by
    rw [checkIfAllowed_eq, checkIfAllowed_eq, ← h.eng.peer, ← h.eng.peer]
    cases getPeer s.eng src with
    | error e => exact ⟨rfl, h.cache⟩
    | ok sp =>
      cases getPeer s.eng dst with
      | error e => exact ⟨rfl, h.cache⟩
      | ok dp =>
        simp only
        split
        · exact ⟨rfl, h.cache⟩
        · unfold answer
          split
          · exact ⟨rfl, h.cache⟩
          · exact cachedAnswer_rel h sp dp proto port
  refine ⟨key.1, ?_, key.2⟩
  rw [checkIfAllowed_eng, checkIfAllowed_eng]
  exact h.eng

/-! ## E. the nested folds of `runEvalAll` -/

open WorldDriver Sexp

/-- the name under which `(evalall)` queries the pod(s) of an object -/
def keyOf (o : Obj) : Option String :=
  match o with
  | .pod p => some (p.ns ++ "/" ++ p.name)
  | .wl w => some (w.ns ++ "/" ++ w.name ++ "-1")
  | _ => none

/-- the pod names `(evalall)` queries, sorted -/
def podKeysOf (objs : List Obj) : List String := sortStrs ((objs.filterMap keyOf).eraseDups)

def isIPStr (s : String) : Bool := !EState.strContains s "/"

/-- the innermost step of `runEvalAll`: one query, the answer appended, the state threaded -/
def portStep (s d pr : String) (acc : String × EState) (p : Int) : String × EState :=
  let (r, st) := acc.2.checkIfAllowed s d pr (toString p)
  (acc.1 ++ (match r with | .ok true => "1" | .ok false => "0" | .error _ => "e"), st)

/-- the four nested loops of `runEvalAll` -/
def evalLoop (peers : List String) (init : String × EState) : String × EState :=
  peers.foldl (fun (acc : String × EState) s =>
    peers.foldl (fun (acc : String × EState) d =>
      if s == d || (isIPStr s && isIPStr d) then acc
      else ["TCP", "UDP", "SCTP"].foldl (fun (acc : String × EState) pr =>
        probePorts.foldl (portStep s d pr) acc) acc) acc) init

/-- the cache state of a fresh engine -/
def s0Of (eng : Engine) : EState := eng.pods.foldl (fun acc p => acc.cacheAddPod p) { eng := eng }

theorem runEvalAll_ok {objs : List Obj} {eng : Engine} (h : Engine.build objs = .ok eng) :
    runEvalAll objs =
      .list [.atom "evalall", .atom (evalLoop (podKeysOf objs ++ probeIPs) ("", s0Of eng)).1] := by
  unfold runEvalAll
  rw [h]
  rfl

theorem runEvalAll_error {objs : List Obj} {err : Err} (h : Engine.build objs = .error err) :
    runEvalAll objs = errSx err := by
  unfold runEvalAll
  rw [h]

/-- two folds with the same step on related accumulators -/
theorem foldl_rel {σ α : Type} (R : σ → σ → Prop) (f : σ → α → σ)
    (hf : ∀ a a' x, R a a' → R (f a x) (f a' x)) (l : List α) {a a' : σ} (h : R a a') :
    R (l.foldl f a) (l.foldl f a') := by
  induction l generalizing a a' with
  | nil => exact h
  | cons x l ih => exact ih (hf a a' x h)

/-- the accumulators of the two runs: the same answers so far, related states -/
def AccRel (a a' : String × EState) : Prop := a.1 = a'.1 ∧ Rel a.2 a'.2

theorem portStep_rel (s d pr : String) (a a' : String × EState) (p : Int) (h : AccRel a a') :
    AccRel (portStep s d pr a p) (portStep s d pr a' p) := by
  obtain ⟨h1, h2⟩ := checkIfAllowed_rel h.2 s d pr (toString p)
  unfold portStep
  exact ⟨by simp only [h.1, h1], h2⟩

/-- **the whole loop on two related initial states** -/
theorem evalLoop_rel (peers : List String) {a a' : String × EState} (h : AccRel a a') :
    AccRel (evalLoop peers a) (evalLoop peers a') := by
  unfold evalLoop
  refine foldl_rel AccRel _ (fun a a' s h => ?_) peers h
  refine foldl_rel AccRel _ (fun a a' d h => ?_) peers h
  split
  · exact h
  · refine foldl_rel AccRel _ (fun a a' pr h => ?_) _ h
    exact foldl_rel AccRel _ (fun a a' p h => portStep_rel s d pr a a' p h) _ h

theorem addPods_eng_cache (l : List Pod) (s : EState) :
    (l.foldl (fun acc p => acc.cacheAddPod p) s).eng = s.eng ∧
    (l.foldl (fun acc p => acc.cacheAddPod p) s).cache = s.cache := by
  induction l generalizing s with
  | nil => exact ⟨rfl, rfl⟩
  | cons p l ih => exact ih (s.cacheAddPod p)

theorem s0Of_rel {e e' : Engine} (h : EngAgree e e') : Rel (s0Of e) (s0Of e') := by
  unfold s0Of
  refine ⟨?_, ?_⟩
  · rw [(addPods_eng_cache e.pods _).1, (addPods_eng_cache e'.pods _).1]
    exact h
  · rw [(addPods_eng_cache e.pods _).2, (addPods_eng_cache e'.pods _).2]

/-! ### the query list -/

theorem nodup_eraseDups : ∀ (n : Nat) (l : List String), l.length ≤ n → l.eraseDups.Nodup := by
  intro n
  induction n with
  | zero =>
    intro l hl
    have : l = [] := List.length_eq_zero_iff.mp (by omega)
    subst this; simp
  | succ n ih =>
    intro l hl
    cases l with
    | nil => simp
    | cons a as =>
      rw [List.eraseDups_cons, List.nodup_cons]
      have hlen : (as.filter fun b => !b == a).length ≤ n := by
        have := List.length_filter_le (fun b => !b == a) as
        simp only [List.length_cons] at hl
        omega
      refine ⟨?_, ih _ hlen⟩
      intro hm
      rw [List.mem_eraseDups, List.mem_filter] at hm
      simp at hm

/-- removing duplicates from a reordered list: the same members, each once -/
theorem eraseDups_perm {l l' : List String} (hp : l.Perm l') : l.eraseDups.Perm l'.eraseDups := by
  rw [List.perm_ext_iff_of_nodup (nodup_eraseDups _ l (Nat.le_refl _))
    (nodup_eraseDups _ l' (Nat.le_refl _))]
  intro a
  rw [List.mem_eraseDups, List.mem_eraseDups]
  exact hp.mem_iff

/-- **the queries are the same, in the same order**, whatever the order of the objects -/
theorem podKeysOf_perm {objs objs' : List Obj} (hp : objs.Perm objs') :
    podKeysOf objs = podKeysOf objs' := by
  unfold podKeysOf sortStrs
  exact sortStrs_perm (eraseDups_perm (hp.filterMap _))

theorem podKeysOf_sim {objs objs' : List Obj} (h : Forall₂ ObjSim objs objs') :
    podKeysOf objs = podKeysOf objs' := by
  unfold podKeysOf
  rw [h.filterMap_eq (f := keyOf) (g := keyOf)]
  intro a b hab
  cases hab with
  | np _ => rfl
  | refl o => rfl

/-! ## F. the main theorems -/

/-- no NetworkPolicy has a rule peer without selectors and without ipBlock (the second clause of
`NPRule.Valid`; implied by `PermLayer.NPRulesValid`) -/
def NoEmptyRulePeer (objs : List Obj) : Prop :=
  ∀ p ∈ npsOf objs, (∀ r ∈ p.ingress, RulePeersOK r) ∧ (∀ r ∈ p.egress, RulePeersOK r)

instance (objs : List Obj) : Decidable (NoEmptyRulePeer objs) := by
  unfold NoEmptyRulePeer; infer_instance

/-- no NetworkPolicy has an egress rule with a named port that can select an IP block -/
def NoNamedPortOnIPs (objs : List Obj) : Prop := ∀ p ∈ npsOf objs, NoNamedPortOnIP p

instance (objs : List Obj) : Decidable (NoNamedPortOnIPs objs) := by
  unfold NoNamedPortOnIPs; infer_instance

theorem noEmptyRulePeer_of_valid {objs : List Obj} (h : NPRulesValid objs) : NoEmptyRulePeer objs :=
  fun p hp => ⟨fun r hr => ((h p hp).1 r hr).2, fun r hr => ((h p hp).2 r hr).2⟩

theorem NoEmptyRulePeer.perm {objs objs' : List Obj} (hp : objs.Perm objs')
    (h : NoEmptyRulePeer objs) : NoEmptyRulePeer objs' :=
  fun p hm => h p ((npsOf_perm hp).mem_iff.mpr hm)

theorem NoNamedPortOnIPs.perm {objs objs' : List Obj} (hp : objs.Perm objs')
    (h : NoNamedPortOnIPs objs) : NoNamedPortOnIPs objs' :=
  fun p hm => h p ((npsOf_perm hp).mem_iff.mpr hm)

/-- the policies of the engine `build` returns are good for `eval` when those of the input are -/
theorem build_engGood {objs : List Obj} {e : Engine} (h : Engine.build objs = .ok e)
    (hv : NoEmptyRulePeer objs) (hn : NoNamedPortOnIPs objs) : EngGood e := by
  obtain ⟨p1, _, _⟩ := build_policies h
  intro np hnp
  rw [p1] at hnp
  obtain ⟨q, hq, rfl⟩ := List.mem_map.mp hnp
  exact normNp_evalGood ⟨(hv q hq).1, (hv q hq).2, hn q hq⟩

theorem engAgree_of_equiv {e e' : Engine} (h : e.Equiv e') (hg : EngGood e) : EngAgree e e' :=
  ⟨getPeer_equiv h, verdict_equiv h hg⟩

theorem engAgree_of_equiv' {e e' : Engine} (h : e.Equiv e')
    (hn : (e.netpols.map (fun q => (q.ns, q.name))).Nodup) : EngAgree e e' :=
  ⟨getPeer_equiv h, verdict_equiv' h hn⟩

theorem engAgree_of_sim {e e' : Engine} (h : EngSim e e') (hg : EngGood e) : EngAgree e e' :=
  ⟨getPeer_sim h, verdict_sim h hg⟩

/-- the two runs on engines that answer alike, with the same query list -/
theorem runEvalAll_agree {objs objs' : List Obj} {e e' : Engine} (hb : Engine.build objs = .ok e)
    (hb' : Engine.build objs' = .ok e') (hk : podKeysOf objs = podKeysOf objs')
    (h : EngAgree e e') : runEvalAll objs = runEvalAll objs' := by
  rw [runEvalAll_ok hb, runEvalAll_ok hb', ← hk]
  have := evalLoop_rel (podKeysOf objs ++ probeIPs) (a := ("", s0Of e)) (a' := ("", s0Of e'))
    ⟨rfl, s0Of_rel h⟩
  rw [this.1]

/-- **C08 for `eval`, outer order**: on an input `build` accepts, with distinct pod / namespace
keys, every reordering of the objects yields the same `(evalall)` answer string — every query of
the run gets the same answer (`1`, `0` or `e`), the verdict cache included. No hypothesis on the
policies: `getPoliciesSelectingPod` visits the selecting policies in the order of their names, so
the walk — with its early exits and its failures — is the same computation in both runs. -/
theorem runEvalAll_perm {objs objs' : List Obj} (hp : objs.Perm objs') (hk : DistinctKeys objs)
    (hok : ∃ e, Engine.build objs = .ok e) : runEvalAll objs = runEvalAll objs' := by
  obtain ⟨e, hb⟩ := hok
  obtain ⟨e', hb', heq⟩ := build_perm hp hk hb
  exact runEvalAll_agree hb hb' (podKeysOf_perm hp)
    (engAgree_of_equiv' heq (build_netpols_nodup hb))

/-- the same under the well-formedness of the `list` theorem -/
theorem runEvalAll_perm_wf {objs objs' : List Obj} (hp : objs.Perm objs') (hw : WellFormed objs)
    (hok : ∃ e, Engine.build objs = .ok e) :
    runEvalAll objs = runEvalAll objs' :=
  runEvalAll_perm hp hw.keys hok

/-- when `build` rejects the input with the only kind of conflict present, every order reports the
same error -/
theorem runEvalAll_perm_error {objs objs' : List Obj} (hp : objs.Perm objs') {err : Err}
    (h : Engine.build objs = .error err) (hsingle : ∀ err', ErrClause err' objs → err' = err) :
    runEvalAll objs = runEvalAll objs' := by
  rw [runEvalAll_error h, runEvalAll_error (build_error_perm hp h hsingle)]

/-- **C08 for `eval`, inner order**: the order of the rules of a NetworkPolicy, of the peers and
the ports inside a rule, and of `policyTypes`, does not change the `(evalall)` answer string (nor
the error of `build`), when no rule peer is empty and no egress rule that can select an IP block
has a named port. -/
theorem runEvalAll_rules_perm {objs objs' : List Obj} (h : Forall₂ ObjSim objs objs')
    (hv : NoEmptyRulePeer objs) (hn : NoNamedPortOnIPs objs) :
    runEvalAll objs = runEvalAll objs' := by
  have hs := build_sim h
  cases hb : Engine.build objs with
  | error err =>
    cases hb' : Engine.build objs' with
    | error err' =>
      rw [hb, hb'] at hs
      have : err = err' := hs
      rw [runEvalAll_error hb, runEvalAll_error hb', this]
    | ok e' => rw [hb, hb'] at hs; exact absurd hs id
  | ok e =>
    cases hb' : Engine.build objs' with
    | error err' => rw [hb, hb'] at hs; exact absurd hs id
    | ok e' =>
      rw [hb, hb'] at hs
      exact runEvalAll_agree hb hb' (podKeysOf_sim h) (engAgree_of_sim hs (build_engGood hb hv hn))

/-- both at once: the objects reordered, then the NetworkPolicies permuted inside -/
theorem runEvalAll_perm_rules {objs mid objs' : List Obj} (hp : objs.Perm mid)
    (h : Forall₂ ObjSim mid objs') (hk : DistinctKeys objs) (hv : NoEmptyRulePeer objs)
    (hn : NoNamedPortOnIPs objs) (hok : ∃ e, Engine.build objs = .ok e) :
    runEvalAll objs = runEvalAll objs' :=
  (runEvalAll_perm hp hk hok).trans (runEvalAll_rules_perm h (hv.perm hp) (hn.perm hp))

/-- `runEvalAll_perm` with the acceptance of `build` as a decidable test -/
theorem eval_order_independent {objs objs' : List Obj} (hp : objs.Perm objs')
    (hk : DistinctKeys objs)
    (hok : (Engine.build objs).isOk = true) : runEvalAll objs = runEvalAll objs' := by
  refine runEvalAll_perm hp hk ?_
  cases h : Engine.build objs with
  | error err => rw [h] at hok; simp [Except.isOk, Except.toBool] at hok
  | ok e => exact ⟨e, rfl⟩

/-- the hypotheses are invariant under permutation (so the theorem can be chained) -/
theorem hyps_perm {objs objs' : List Obj} (hp : objs.Perm objs') (hk : DistinctKeys objs)
    (hv : NoEmptyRulePeer objs) (hn : NoNamedPortOnIPs objs) :
    DistinctKeys objs' ∧ NoEmptyRulePeer objs' ∧ NoNamedPortOnIPs objs' :=
  ⟨hk.perm hp, hv.perm hp, hn.perm hp⟩

/-! ## G. findings: what the hypotheses exclude

`eval` stops at the first policy / rule / port clause / rule peer that allows the point, so a
failing step behind it is not reached. Which step comes first is the order of a Go map (policies:
run-to-run nondeterminism of the real tool) or of the manifest (rules, peers, ports). The values
below are checked with `decide` on the uncached verdict `EState.verdict` of the engine `build`
returns, for the peers `getPeer` resolves `default/a` and `10.0.0.1` to; the `runEvalAll` outputs
in the comments were obtained with `#eval` (`decide` cannot unfold the `mergeSort`s of
`runEvalAll`, and `String.splitOn` / `String.toInt?` do not reduce in the kernel). -/
namespace Findings
attribute [local instance] Netpol.Engine.decEqExcept

theorem parses_tcp_80 : Parses "TCP" "80" .TCP 80 := ⟨by decide +kernel, Nat.toInt?_repr 80⟩

def podA : Pod := { ns := "default", name := "a", labels := [("app", "a")], ports := [] }
def selA : Selector := ⟨[("app", "a")], []⟩
def nsDefault : NsObj := ⟨"default", [(nsNameLabelKey, "default")]⟩
/-- `10.0.0.0/8` -/
def blk : NPPeer := .ip ⟨0x0A000000, 8⟩ []
def rOk : NPRule := ⟨[blk], []⟩
def rBad : NPRule := ⟨[blk], [⟨none, .name "http"⟩]⟩
def egressPol (name : String) (rules : List NPRule) : NetPol :=
  ⟨"default", name, selA, [.egress], [], rules⟩
def pOk : NetPol := egressPol "ok" [rOk]
def pBad : NetPol := egressPol "bad" [rBad]

/-- what `getPeer` returns for `default/a` … -/
def A : KPeer := .pod podA (some nsDefault)
/-- … and for `10.0.0.1` -/
def X : KPeer := .ip [⟨167772161, 167772161⟩]

def engOf (nps : List NetPol) : Engine := { namespaces := [nsDefault], pods := [podA], netpols := nps }

/-! ### 1. (repaired) the order of the policies (in Go: the iteration order of `netpolsMap`)

Before `getPoliciesSelectingPod` sorted the selecting policies by name, the answer of `eval`
depended on the order of the policies: with the allow-all policy `ok` met first the query
`default/a → 10.0.0.1 TCP 80` answered `true`, with the policy `bad` (named port towards the IP
block) met first it failed with `namedPortOnIP` (`runEvalAll`: 1170 `1` / 546 `0` / 0 `e` against
858 / 546 / 312). Now `bad` < `ok` is visited first in both orders and both fail, as `runList` does
(`(err namedPortOnIP)`). -/
def w1 : List Obj := [.pod podA, .np pOk, .np pBad]
def w2 : List Obj := [.pod podA, .np pBad, .np pOk]

theorem w1_perm_w2 : w1.Perm w2 := List.Perm.cons _ (List.Perm.swap _ _ _)
theorem build_w1 : Engine.build w1 = .ok (engOf [pOk, pBad]) := rfl
theorem build_w2 : Engine.build w2 = .ok (engOf [pBad, pOk]) := rfl

/-- the hypotheses of `runEvalAll_perm` hold (and `NoNamedPortOnIPs` does not) -/
example : DistinctKeys w1 ∧ (Engine.build w1).isOk = true ∧ ¬ NoNamedPortOnIPs w1 := by decide

/-- the two orders of the policies give the same answer … -/
theorem policy_order_repaired : runEvalAll w1 = runEvalAll w2 :=
  eval_order_independent w1_perm_w2 (by decide) (by decide)

/-- … `default/a → 10.0.0.1 TCP 80` fails in both -/
theorem policy_order_repaired_value :
    verdict (engOf [pOk, pBad]) A X "TCP" "80" = .error .namedPortOnIP ∧
    verdict (engOf [pBad, pOk]) A X "TCP" "80" = .error .namedPortOnIP := by
  rw [verdict_eq_parsed _ _ _ parses_tcp_80, verdict_eq_parsed _ _ _ parses_tcp_80]
  decide

/-! ### 2. the order of the rules of one policy

`runEvalAll wr1`: 1170 `1`, 546 `0`, no `e`; `runEvalAll wr2`: 858 `1`, 546 `0`, 312 `e`. -/
def wr1 : List Obj := [.pod podA, .np (egressPol "mix" [rOk, rBad])]
def wr2 : List Obj := [.pod podA, .np (egressPol "mix" [rBad, rOk])]

example : Forall₂ ObjSim wr1 wr2 := by decide
example : NoEmptyRulePeer wr1 ∧ ¬ NoNamedPortOnIPs wr1 := by decide

theorem rule_order_matters :
    verdict (engOf [egressPol "mix" [rOk, rBad]]) A X "TCP" "80" = .ok true ∧
    verdict (engOf [egressPol "mix" [rBad, rOk]]) A X "TCP" "80" = .error .namedPortOnIP := by
  rw [verdict_eq_parsed _ _ _ parses_tcp_80, verdict_eq_parsed _ _ _ parses_tcp_80]
  decide

/-! ### 3. the order of the port clauses of one rule

`runEvalAll wp1`: 862 `1`, 546 `0`, 308 `e` (the four queries `default/a → 10.x TCP 80` answer `1`);
`runEvalAll wp2`: 858 `1`, 546 `0`, 312 `e`. -/
def port80 : NPPort := ⟨none, .num 80 none⟩
def http : NPPort := ⟨none, .name "http"⟩
def wp1 : List Obj := [.pod podA, .np (egressPol "ports" [⟨[blk], [port80, http]⟩])]
def wp2 : List Obj := [.pod podA, .np (egressPol "ports" [⟨[blk], [http, port80]⟩])]

example : Forall₂ ObjSim wp1 wp2 := by decide

theorem port_order_matters :
    verdict (engOf [egressPol "ports" [⟨[blk], [port80, http]⟩]]) A X "TCP" "80" = .ok true ∧
    verdict (engOf [egressPol "ports" [⟨[blk], [http, port80]⟩]]) A X "TCP" "80" =
      .error .namedPortOnIP := by
  rw [verdict_eq_parsed _ _ _ parses_tcp_80, verdict_eq_parsed _ _ _ parses_tcp_80]
  decide

/-! ### 4. the order of the peers of one rule, with an empty rule peer (`NoEmptyRulePeer`)

An input the API server rejects. `runEvalAll we1`: 1170 `1`, 546 `e`; `runEvalAll we2`: 858 `1`,
858 `e`. -/
def we1 : List Obj := [.pod podA, .np (egressPol "peers" [⟨[blk, .sel none none], []⟩])]
def we2 : List Obj := [.pod podA, .np (egressPol "peers" [⟨[.sel none none, blk], []⟩])]

example : Forall₂ ObjSim we1 we2 := by decide
example : NoNamedPortOnIPs we1 ∧ ¬ NoEmptyRulePeer we1 := by decide

theorem peer_order_matters :
    verdict (engOf [egressPol "peers" [⟨[blk, .sel none none], []⟩]]) A X "TCP" "80" = .ok true ∧
    verdict (engOf [egressPol "peers" [⟨[.sel none none, blk], []⟩]]) A X "TCP" "80" =
      .error .emptyRulePeer := by
  rw [verdict_eq_parsed _ _ _ parses_tcp_80, verdict_eq_parsed _ _ _ parses_tcp_80]
  decide

/-! ### 5. two pods under one key (`DistinctKeys.pods`): the later one replaces the earlier one

`runEvalAll wd1`: 1716 `1`, no `0`; `runEvalAll wd2`: 858 `1`, 858 `0`
(`default/a → 10.0.0.1 TCP 80`: `1` / `0`). -/
def podA' : Pod := { ns := "default", name := "a", labels := [("app", "x")], ports := [] }
/-- selects `app=a`, affects egress, allows nothing -/
def deny : NetPol := egressPol "deny" []
def wd1 : List Obj := [.pod podA, .pod podA', .np deny]
def wd2 : List Obj := [.pod podA', .pod podA, .np deny]

example : wd1.Perm wd2 := List.Perm.swap _ _ _
example : NoEmptyRulePeer wd1 ∧ NoNamedPortOnIPs wd1 ∧ ¬ DistinctKeys wd1 := by decide
theorem build_wd1 : Engine.build wd1 = .ok { engOf [deny] with pods := [podA'] } := rfl
theorem build_wd2 : Engine.build wd2 = .ok (engOf [deny]) := rfl

theorem duplicate_pod_matters :
    verdict { engOf [deny] with pods := [podA'] } (.pod podA' (some nsDefault)) X "TCP" "80" = .ok true ∧
    verdict (engOf [deny]) A X "TCP" "80" = .ok false := by
  rw [verdict_eq_parsed _ _ _ parses_tcp_80, verdict_eq_parsed _ _ _ parses_tcp_80]
  decide

/-! ### 6. two Namespace objects under one name (`DistinctKeys.nss`)

`prod/x → default/a TCP 80` answers `0` on `wn1` (the engine holds `env=dev`) and `1` on `wn2`.
`runEvalAll wn1`: 2652 `1`, 936 `0`; `runEvalAll wn2`: 2730 `1`, 858 `0`. -/
def nsProd : NsObj := ⟨"prod", [("env", "prod")]⟩
def nsProd' : NsObj := ⟨"prod", [("env", "dev")]⟩
def podX : Pod := { ns := "prod", name := "x", labels := [], ports := [] }
def fromProd : NetPol :=
  ⟨"default", "from-prod", selA, [.ingress], [⟨[.sel none (some ⟨[("env", "prod")], []⟩)], []⟩], []⟩
def wn1 : List Obj := [.ns nsProd, .ns nsProd', .pod podA, .pod podX, .np fromProd]
def wn2 : List Obj := [.ns nsProd', .ns nsProd, .pod podA, .pod podX, .np fromProd]

example : wn1.Perm wn2 := List.Perm.swap _ _ _
example : NoEmptyRulePeer wn1 ∧ NoNamedPortOnIPs wn1 ∧ ¬ DistinctKeys wn1 := by decide
example : (Engine.build wn1).map (·.namespaces) = .ok [nsFromCore nsProd', nsDefault] := by decide
example : (Engine.build wn2).map (·.namespaces) = .ok [nsFromCore nsProd, nsDefault] := by decide

theorem duplicate_namespace_matters :
    verdict { engOf [fromProd] with namespaces := [nsFromCore nsProd', nsDefault], pods := [podA, podX] }
      (.pod podX (some (nsFromCore nsProd'))) A "TCP" "80" = .ok false ∧
    verdict { engOf [fromProd] with namespaces := [nsFromCore nsProd, nsDefault], pods := [podA, podX] }
      (.pod podX (some (nsFromCore nsProd))) A "TCP" "80" = .ok true := by
  rw [verdict_eq_parsed _ _ _ parses_tcp_80, verdict_eq_parsed _ _ _ parses_tcp_80]
  decide

/-! ### 7. two kinds of conflict: which error `build` reports (hypothesis `hok` / `hsingle`)

`runEvalAll wb1 = (err dupNetpol)`, `runEvalAll wb2 = (err badPod)`. -/
def badPod : Pod := { ns := "default", name := "z", labels := [], ports := [], hostIP := "" }
def wb1 : List Obj := [.np deny, .np deny, .pod badPod]
def wb2 : List Obj := [.pod badPod, .np deny, .np deny]

theorem build_error_order_matters :
    runEvalAll wb1 = errSx .dupNetpol ∧ runEvalAll wb2 = errSx .badPod ∧ wb1.Perm wb2 :=
  ⟨runEvalAll_error rfl, runEvalAll_error rfl,
    show ([Obj.np deny, Obj.np deny] ++ [Obj.pod badPod]).Perm
      ([Obj.pod badPod] ++ [Obj.np deny, Obj.np deny]) from List.perm_append_comm⟩

/-! ### 8. what does NOT depend on the order, and needs no hypothesis

* **The owner bookkeeping of the cache** (`EState.owners`, filled by `cacheAddPod` in the order of
  the pod map) does depend on the order of the objects, but `CheckIfAllowed` never reads it (only
  `DeleteObject` does): the simulation relation `Rel` leaves it unrelated. -/
def o1 : Pod :=
  { ns := "default", name := "o1", labels := [], ports := [], ownerKind := "ReplicaSet",
    ownerName := "r1", variant := "v" }
def o2 : Pod := { o1 with name := "o2", ownerName := "r2" }

example : (s0Of { pods := [o1, o2] }).owners =
    [("default/r1/v", ["default/o1"]), ("default/r2/v", ["default/o2"])] := by decide
example : (s0Of { pods := [o2, o1] }).owners =
    [("default/r2/v", ["default/o2"]), ("default/r1/v", ["default/o1"])] := by decide

/-! * **The verdict cache, its capacity (500) and its eviction order**: the two runs ask the same
  queries in the same order (`podKeysOf_perm`) and resolve them to the same peers
  (`getPeer_equiv`: unique keys), so they compute the same cache keys; with equal verdicts the two
  caches stay EQUAL (`Rel.cache`), eviction included. Pods of one owner and variant share cache
  entries, so the answer for the second pod can be the cached answer of the first even when their
  labels differ (a hand-made `variant`; cache transparency is C15) — in every order alike. Fuzzing
  (`Scratch/PE_fuzz.lean`: 120 random worlds × 3 permutations of the objects resp. of the inside
  of the policies, with shared-variant pods, workloads with two replicas, invalid admin policies and
  up to 1560 cacheable queries per run, so that entries are evicted) found no difference under the
  hypotheses, and differences in 5 resp. 32 of 60 worlds without them.
* **Admin policies need no validity**: `build` sorts the ANPs by priority and rejects equal
  priorities, so the two engines hold the SAME slice (`Engine.Equiv.anps`) and the same BANP; a rule
  without peers (`anpRulePeers`) or a `Pass` rule in the BANP (`badAction`) fails the same queries
  in every order: with `anpBad` (ingress rule without peers, subject everything) and `banpBad`
  (egress `Pass` rule), `runEvalAll wa` and `runEvalAll wa.reverse` (below) both have 858 `1`,
  936 `0` and 1794 `e`. `PermLayer.PoliciesValid` is not a hypothesis.
* **Rule ports and container ports need not be port numbers** (`NPRule.Valid`'s first clause,
  `PodPortsValid`), **pods need not be real** (`PodsReal`): the walk only compares numbers. -/
def selAll : Selector := ⟨[], []⟩
def anpBad : ANP :=
  { name := "a2", prio := 3, subject := .nss selAll, ingress := [⟨"e", .Deny, [], none⟩], egress := [] }
def banpBad : BANP :=
  { name := "default", subject := .nss selAll, ingress := [],
    egress := [⟨"d", .Pass, [.nss selAll], none⟩] }
/-- an egress rule with a port range that is none (`90-70`) and a port that is no port number -/
def oddPorts : NetPol := egressPol "odd" [⟨[blk], [⟨none, .num 90 (some 70)⟩, ⟨none, .num 70000 none⟩]⟩]
def wa : List Obj := [.pod podA, .pod podX, .anp anpBad, .banp banpBad, .np deny, .np oddPorts]

example : ¬ PoliciesValid wa ∧ ¬ NPRulesValid wa := by decide

/-- the theorem applies to this input all the same -/
example : runEvalAll wa = runEvalAll wa.reverse :=
  eval_order_independent (List.reverse_perm wa).symm (by decide) (by decide)

end Findings

/-! ## non-vacuity: a world with every kind of object the evaluation reads -/
namespace Example

def selAll : Selector := ⟨[], []⟩
def nsDefault : NsObj := ⟨"default", [("team", "a")]⟩
/-- three replicas requested: two pods `web-1`, `web-2` of one owner and variant (they share cache
entries); `(evalall)` queries `default/web-1` -/
def web : Workload :=
  ⟨"Deployment", "default", "web", some 3, [("app", "web")], [⟨"http", .TCP, 8080⟩]⟩
/-- two Pod objects of one ReplicaSet, in a namespace without Namespace object -/
def db1 : Pod :=
  { ns := "prod", name := "db-x1", labels := [("app", "db")], ports := [⟨"pg", .TCP, 5432⟩],
    ownerKind := "ReplicaSet", ownerName := "db", variant := "map[app:db][pg/TCP/5432]$" }
def db2 : Pod := { db1 with name := "db-x2", hostIP := "10.0.0.7" }
def client : Pod := { ns := "default", name := "client", labels := [("app", "client")], ports := [] }
/-- a third owner: with `web`, `db` there are 7 pairs of owner keys, 546 cacheable queries — more
than the capacity 500 of the verdict cache, so the run evicts entries -/
def cache : Workload := ⟨"StatefulSet", "prod", "cache", some 1, [("app", "cache")], []⟩

/-- `10.0.0.0/8` except `10.1.0.0/16` -/
def blk : NPPeer := .ip ⟨0x0A000000, 8⟩ [⟨0x0A010000, 16⟩]
def fromClient : NPPeer := .sel (some ⟨[("app", "client")], []⟩) none
def toDb : NPPeer := .sel (some ⟨[("app", "db")], []⟩) (some selAll)

/-- selects `web`: ingress from `client` on the named port `http`; egress to `blk` on TCP 443 and
UDP 53, and to `db` in any namespace on the named port `pg` (a named port in an egress rule whose
peers are selectors: allowed by `NoNamedPortOnIP`) -/
def npWeb : NetPol :=
  { ns := "default", name := "web", podSel := ⟨[("app", "web")], []⟩, types := [.ingress, .egress],
    ingress := [⟨[fromClient], [⟨none, .name "http"⟩]⟩],
    egress := [⟨[blk], [⟨none, .num 443 none⟩, ⟨some .UDP, .num 53 none⟩]⟩,
      ⟨[toDb, fromClient], [⟨none, .name "pg"⟩]⟩] }
/-- the same policy with policyTypes, egress rules, peers and ports permuted -/
def npWeb' : NetPol :=
  { npWeb with
    types := [.egress, .ingress],
    egress := [⟨[fromClient, toDb], [⟨none, .name "pg"⟩]⟩,
      ⟨[blk], [⟨some .UDP, .num 53 none⟩, ⟨none, .num 443 none⟩]⟩] }
/-- a second policy selecting `web` -/
def npWeb2 : NetPol :=
  { ns := "default", name := "web-metrics", podSel := ⟨[("app", "web")], []⟩, types := [.ingress],
    ingress := [⟨[], [⟨none, .num 9090 (some 9100)⟩]⟩], egress := [] }
/-- selects `db` in `prod`: ingress from `web` pods of namespaces labelled `team=a` on `pg` -/
def npDb : NetPol :=
  { ns := "prod", name := "db", podSel := ⟨[("app", "db")], []⟩, types := [.ingress],
    ingress := [⟨[.sel (some ⟨[("app", "web")], []⟩) (some ⟨[("team", "a")], []⟩)],
      [⟨none, .name "pg"⟩]⟩], egress := [] }
def anp1 : ANP :=
  { name := "deny-dns", prio := 9, subject := .nss selAll,
    ingress := [⟨"deny-dns", .Deny, [.nss selAll], some [.num (some .UDP) 53]⟩], egress := [] }
def anp2 : ANP :=
  { name := "pass-metrics", prio := 5, subject := .nss selAll,
    ingress := [⟨"pass", .Pass, [.nss selAll], some [.range none 9090 9100]⟩], egress := [] }
def banp : BANP :=
  { name := "default", subject := .nss selAll,
    ingress := [⟨"deny-9000", .Deny, [.nss selAll], some [.range none 9000 9100]⟩], egress := [] }

def objs : List Obj :=
  [.ns nsDefault, .wl web, .pod db1, .pod client, .np npWeb, .anp anp1, .pod db2, .np npDb,
    .banp banp, .anp anp2, .np npWeb2, .wl cache]
/-- the objects reversed, then `npWeb` permuted inside -/
def objs' : List Obj :=
  [.wl cache, .np npWeb2, .anp anp2, .banp banp, .np npDb, .pod db2, .anp anp1, .np npWeb',
    .pod client, .pod db1, .wl web, .ns nsDefault]

/-- the hypotheses of `eval_order_independent` hold … -/
theorem objs_hyps : DistinctKeys objs ∧ NoEmptyRulePeer objs ∧ NoNamedPortOnIPs objs ∧
    (Engine.build objs).isOk = true := by decide

/-- … not vacuously: there are egress rules towards an IP block, and named ports -/
example : (npsOf objs).any (fun p => p.egress.any fun r => r.peers.any isIPBlock) = true ∧
    (npsOf objs).any (fun p => p.egress.any fun r => r.ports.any namedB) = true ∧
    (podsIn objs).map podKey =
      ["default/web-1", "default/web-2", "prod/db-x1", "default/client", "prod/db-x2",
        "prod/cache-1"] := by decide

theorem objs_sim : Forall₂ ObjSim objs.reverse objs' := by decide
example : npWeb ≠ npWeb' := by decide

/-- the pod names `(evalall)` queries, before sorting -/
example : objs.filterMap keyOf =
    ["default/web-1", "prod/db-x1", "default/client", "prod/db-x2", "prod/cache-1"] := by decide

/-- the theorems at work. (`#eval`: `runEvalAll objs` is a string of 10140 answers — 5 queried pods
and 11 addresses, 130 ordered pairs that are not two addresses, 3 protocols, 26 probe ports —
5627 `1`, 4513 `0`, no `e`, the same string for `objs.reverse` and `objs'`; the verdict cache ends
with 500 entries, its capacity, in all three runs.) -/
example : runEvalAll objs = runEvalAll objs.reverse :=
  eval_order_independent (List.reverse_perm objs).symm objs_hyps.1 objs_hyps.2.2.2

example : runEvalAll objs = runEvalAll objs' :=
  runEvalAll_perm_rules (List.reverse_perm objs).symm objs_sim objs_hyps.1 objs_hyps.2.1
    objs_hyps.2.2.1 ((PermLayer.build_isOk_perm (List.Perm.refl _)).mp (by
      cases h : Engine.build objs with
      | error err => have := objs_hyps.2.2.2; rw [h] at this; simp [Except.isOk, Except.toBool] at this
      | ok e => exact ⟨e, rfl⟩))

end Example

end Netpol.PermEval
