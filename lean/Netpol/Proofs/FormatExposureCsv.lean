import Netpol.Proofs.FormatExposureEngine
import Netpol.Proofs.FormatParseX
/-! The per-row conditions of the csv parse-back theorem with exposure sections (`Row.CsvXWF`: no `"`, no newline, a
non-empty connection string) hold of the rows of a computed exposure run `Format.reportX`, under input-level hypotheses
on names, selector labels and port names (all implied by Kubernetes syntax). -/
set_option linter.unusedSimpArgs false
open List
namespace Netpol
namespace Format
open Engine IngressA SelStr

section Strings

/-- neither `"` nor newline -/
def okL (l : List Char) : Prop := '"' ∉ l ∧ '\n' ∉ l

/-- a string the csv writer leaves unquoted up to commas: neither `"` nor newline -/
def Cs (s : String) : Prop := okL s.toList

instance (s : String) : Decidable (Cs s) := by unfold Cs okL; infer_instance

theorem cs_free {s : String} (h : Cs s) : Free ['"', '\n'] s := by
  intro c hc
  simp only [mem_cons, not_mem_nil, or_false] at hc
  rcases hc with rfl | rfl
  · exact h.1
  · exact h.2

theorem okL_append {a b : List Char} (ha : okL a) (hb : okL b) : okL (a ++ b) :=
  ⟨fun h => (mem_append.mp h).elim ha.1 hb.1, fun h => (mem_append.mp h).elim ha.2 hb.2⟩

theorem cs_append {a b : String} (ha : Cs a) (hb : Cs b) : Cs (a ++ b) := by
  unfold Cs; rw [String.toList_append]; exact okL_append ha hb

theorem okL_ijoin {sep : Char} (hs : sep ≠ '"' ∧ sep ≠ '\n') {vs : List (List Char)} (h : ∀ v ∈ vs, okL v) : okL (ijoin sep vs) := by
  constructor
  · intro hm
    rcases mem_ijoin hm with h1 | ⟨v, hv, h1⟩
    · exact hs.1 h1.symm
    · exact (h v hv).1 h1
  · intro hm
    rcases mem_ijoin hm with h1 | ⟨v, hv, h1⟩
    · exact hs.2 h1.symm
    · exact (h v hv).2 h1

theorem cs_intercalate_comma {l : List String} (h : ∀ s ∈ l, Cs s) : Cs (",".intercalate l) := by
  unfold Cs
  rw [String.toList_intercalate]
  show okL (ijoin ',' _)
  exact okL_ijoin (by decide) (fun v hv => by obtain ⟨s, hs, rfl⟩ := mem_map.mp hv; exact h s hs)

theorem cs_intercalate_space {l : List String} (h : ∀ s ∈ l, Cs s) : Cs (" ".intercalate l) := by
  unfold Cs
  rw [String.toList_intercalate]
  show okL (ijoin ' ' _)
  exact okL_ijoin (by decide) (fun v hv => by obtain ⟨s, hs, rfl⟩ := mem_map.mp hv; exact h s hs)

theorem okL_digits {l : List Char} (h : ∀ c ∈ l, c.isDigit = true) : okL l :=
  ⟨fun hm => absurd (h _ hm) (by decide), fun hm => absurd (h _ hm) (by decide)⟩

theorem cs_int (n : Int) : Cs (toString n) := by
  unfold Cs
  cases n with
  | ofNat m =>
    have : (toString (Int.ofNat m)).toList = Nat.toDigits 10 m := by simp [toString, Int.repr, Nat.toList_repr]
    rw [this]
    exact okL_digits fun c hc => Nat.isDigit_of_mem_toDigits (by decide) (by decide) hc
  | negSucc m =>
    have : (toString (Int.negSucc m)).toList = '-' :: Nat.toDigits 10 (m + 1) := by simp [toString, Int.repr, Nat.toList_repr]
    rw [this]
    exact okL_append (a := ['-']) (by unfold okL; decide)
      (okL_digits fun c hc => Nat.isDigit_of_mem_toDigits (by decide) (by decide) hc)

theorem cs_ne_empty_of_prefix {a b : String} (h : a ≠ "") : a ++ b ≠ "" := by
  intro he
  apply h
  have := congrArg String.toList he
  rw [String.toList_append] at this
  exact String.ext (by simpa using (append_eq_nil_iff.mp this).1)

theorem cs_proto (pr : Proto) : Cs pr.toStr ∧ pr.toStr ≠ "" := by cases pr <;> exact ⟨by decide, by decide⟩

theorem intercalate_ne_empty {a : String} {l : List String} (ha : a ≠ "") : ",".intercalate (a :: l) ≠ "" := by
  intro he
  have := congrArg String.toList he
  rw [String.toList_intercalate] at this
  have h2 : ijoin ',' (a.toList :: l.map String.toList) = [] := this
  exact ijoin_ne_nil ',' a.toList _ (toList_ne_nil ha) h2

/-- the connection string of a line of the report: neither `"` nor newline, not empty -/
theorem connStrFromProps_cs (all : Bool) (m : List (Proto × CSet)) :
    Cs (ConnSet.connStrFromProps all m) ∧ ConnSet.connStrFromProps all m ≠ "" := by
  unfold ConnSet.connStrFromProps
  split
  · exact ⟨by decide, by decide⟩
  · split
    · exact ⟨by decide, by decide⟩
    · have hitem : ∀ x : Proto × CSet, Cs (ConnSet.protoStr x.1 (",".intercalate (x.2.map fun i =>
          if i.lo != i.hi then toString i.lo ++ "-" ++ toString i.hi else toString i.lo))) := by
        intro x
        unfold ConnSet.protoStr
        refine cs_append (cs_append (cs_proto x.1).1 (by decide)) (cs_intercalate_comma ?_)
        intro s hs
        obtain ⟨i, _, rfl⟩ := mem_map.mp hs
        split
        · exact cs_append (cs_append (cs_int _) (by decide)) (cs_int _)
        · exact cs_int _
      constructor
      · apply cs_intercalate_comma
        intro s hs
        obtain ⟨x, _, rfl⟩ := mem_map.mp hs
        exact hitem x
      · cases m with
        | nil => simp at *
        | cons x m =>
          rw [map_cons]
          apply intercalate_ne_empty
          obtain ⟨pr, l⟩ := x
          simp only [ConnSet.protoStr]
          rw [String.append_assoc]
          exact cs_ne_empty_of_prefix (cs_proto pr).2

theorem iv_shortString_cs (i : Iv) : Cs i.shortString := by
  unfold Iv.shortString
  split
  · decide
  · split
    · exact cs_int _
    · exact cs_append (cs_append (cs_int _) (by decide)) (cs_int _)

theorem cset_toStr_cs (l : CSet) : Cs l.toStr := by
  unfold CSet.toStr
  split
  · decide
  · apply cs_intercalate_comma
    intro s hs
    obtain ⟨i, _, rfl⟩ := mem_map.mp hs
    exact iv_shortString_cs i

theorem portSet_toStr_cs (p : PortSet) (h : ∀ n ∈ p.named, Cs n) : Cs p.toStr := by
  unfold PortSet.toStr
  simp only
  split
  · exact cset_toStr_cs _
  · refine cs_append ?_ (cs_intercalate_comma h)
    split
    · decide
    · exact cs_append (cset_toStr_cs _) (by decide)

theorem protoStr_cs (pr : Proto) {s : String} (h : Cs s) : Cs (ConnSet.protoStr pr s) ∧ ConnSet.protoStr pr s ≠ "" := by
  unfold ConnSet.protoStr
  refine ⟨cs_append (cs_append (cs_proto pr).1 (by decide)) h, ?_⟩
  rw [String.append_assoc]
  exact cs_ne_empty_of_prefix (cs_proto pr).2

/-- `ConnectionSet.String()`: neither `"` nor newline when the named ports it holds have none; never empty -/
theorem connSet_toStr_cs (c : ConnSet) (h : ∀ pr, ∀ n ∈ c.names pr, Cs n) : Cs c.toStr ∧ c.toStr ≠ "" := by
  have hps : ∀ pr ps, c.get pr = some ps → Cs (ConnSet.protoStr pr ps.toStr) ∧ ConnSet.protoStr pr ps.toStr ≠ "" := by
    intro pr ps hg
    apply protoStr_cs
    apply portSet_toStr_cs
    intro n hn
    apply h pr n
    unfold ConnSet.names
    rw [hg]
    exact hn
  unfold ConnSet.toStr
  split
  · exact ⟨by decide, by decide⟩
  · rename_i hall
    split
    · exact ⟨by decide, by decide⟩
    · rename_i hemp
      constructor
      · apply cs_intercalate_comma
        intro s hs
        obtain ⟨pr, _, hpr⟩ := mem_filterMap.mp hs
        cases hg : c.get pr with
        | none => simp [hg] at hpr
        | some ps =>
          simp only [hg, Option.map_some, Option.some.injEq] at hpr
          subst hpr
          exact (hps pr ps hg).1
      · have hne : ∃ a l, ([Proto.SCTP, Proto.TCP, Proto.UDP].filterMap fun pr =>
            (c.get pr).map fun ps => ConnSet.protoStr pr ps.toStr) = a :: l ∧ a ≠ "" := by
          cases h1 : c.sctp with
          | some ps =>
            exact ⟨_, _, filterMap_cons_some (by simp [ConnSet.get, h1]), (hps .SCTP ps (by simp [ConnSet.get, h1])).2⟩
          | none =>
            rw [filterMap_cons_none (by simp [ConnSet.get, h1])]
            cases h2 : c.tcp with
            | some ps =>
              exact ⟨_, _, filterMap_cons_some (by simp [ConnSet.get, h2]), (hps .TCP ps (by simp [ConnSet.get, h2])).2⟩
            | none =>
              rw [filterMap_cons_none (by simp [ConnSet.get, h2])]
              cases h3 : c.udp with
              | some ps =>
                exact ⟨_, _, filterMap_cons_some (by simp [ConnSet.get, h3]), (hps .UDP ps (by simp [ConnSet.get, h3])).2⟩
              | none =>
                exfalso
                apply hemp
                simp [ConnSet.isEmpty, ConnSet.noProtos, h1, h2, h3, hall]
        obtain ⟨a, l, e, ha⟩ := hne
        rw [e]
        exact intercalate_ne_empty ha

/-- the keys and values of a selector hold neither `"` nor newline -/
def SelCs (s : Selector) : Prop :=
  (∀ kv ∈ s.matchLabels, Cs kv.1 ∧ Cs kv.2) ∧ ∀ r ∈ s.exprs, Cs r.key ∧ ∀ v ∈ r.vals, Cs v

instance (s : Selector) : Decidable (SelCs s) := by unfold SelCs; infer_instance

def OptCs (o : Option Selector) : Prop :=
  match o with
  | none => True
  | some s => SelCs s

instance (o : Option Selector) : Decidable (OptCs o) := by
  cases o with
  | none => exact isTrue trivial
  | some s => exact inferInstanceAs (Decidable (SelCs s))

theorem optCs_getD {o : Option Selector} (h : OptCs o) : SelCs (o.getD ⟨[], []⟩) := by
  cases o with
  | none => exact ⟨fun kv hkv => absurd hkv (by simp), fun r hr => absurd hr (by simp)⟩
  | some s => exact h

theorem reqString_cs (r : Req) (h : Cs r.key ∧ ∀ v ∈ r.vals, Cs v) : Cs (reqString r) := by
  unfold reqString
  have hop : Cs (match r.op with | .In => "In" | .NotIn => "NotIn" | .Exists => "Exists" | .DoesNotExist => "DoesNotExist") := by
    cases r.op <;> decide
  exact cs_append (cs_append (cs_append (cs_append (cs_append (cs_append (by decide) h.1) (by decide)) hop) (by decide))
    (cs_intercalate_space h.2)) (by decide)

theorem selString_cs (s : Selector) (h : SelCs s) : Cs (selString s) := by
  obtain ⟨hml, hex⟩ := h
  have hme : Cs (",".intercalate (sortStrings (s.exprs.map reqString))) := by
    apply cs_intercalate_comma
    intro str hstr
    rw [mem_sortStrings] at hstr
    obtain ⟨r, hr, rfl⟩ := mem_map.mp hstr
    exact reqString_cs r (hex r hr)
  have hmlb : Cs (",".intercalate ((s.matchLabels.mergeSort (fun a b => decide (a.1 ≤ b.1))).map fun kv => kv.1 ++ "=" ++ kv.2)) := by
    apply cs_intercalate_comma
    intro str hstr
    obtain ⟨kv, hkv, rfl⟩ := mem_map.mp hstr
    have hkv' := hml kv ((mergeSort_perm _ _).mem_iff.mp hkv)
    exact cs_append (cs_append hkv'.1 (by decide)) hkv'.2
  unfold selString
  simp only
  split
  · exact hme
  · split
    · exact hmlb
    · exact cs_append (cs_append hmlb (by decide)) hme

theorem bracket_cs {s : String} (h : Cs s) (t : Bool) : Cs (bracket t s) := by
  unfold bracket
  split
  · exact cs_append (cs_append (by decide) h) (by decide)
  · exact h

theorem repPodString_cs (o : Option Selector) (h : OptCs o) (t : Bool) : Cs (repPodString o t) := by
  unfold repPodString
  simp only
  split
  · exact bracket_cs (by decide) t
  · exact bracket_cs (cs_append (cs_append (by decide) (selString_cs _ (optCs_getD h))) (by decide)) t

theorem repNsString_cs (o : Option Selector) (h : OptCs o) (t : Bool) : Cs (repNsString o t) := by
  have hs := optCs_getD h
  have hgen : Cs (bracket t ("namespace with {" ++ selString (o.getD ⟨[], []⟩) ++ "}")) :=
    bracket_cs (cs_append (cs_append (by decide) (selString_cs _ hs)) (by decide)) t
  unfold repNsString
  simp only
  split
  · rename_i k v hm _
    split
    · exact (hs.1 (k, v) (by rw [hm]; exact mem_cons_self)).2
    · exact hgen
  · exact bracket_cs (by decide) t
  · exact hgen


end Strings

section Engine
open Exposure Structure

/-- input-level: namespace, name, owner name and owner kind of every pod hold neither `"` nor newline (DNS labels /
subdomains, identifiers) -/
def NamesCs (objs : List Obj) : Prop :=
  ∀ p ∈ PermLayer.podsIn objs, Cs p.ns ∧ Cs p.name ∧ Cs p.ownerName ∧ Cs p.ownerKind

instance (objs : List Obj) : Decidable (NamesCs objs) := by unfold NamesCs; infer_instance

def PeerCs (peer : NPPeer) : Prop :=
  match peer with
  | .ip .. => True
  | .sel podSel nsSel => OptCs podSel ∧ OptCs nsSel

instance (peer : NPPeer) : Decidable (PeerCs peer) := by
  cases peer with
  | ip c ex => exact isTrue trivial
  | sel podSel nsSel => exact inferInstanceAs (Decidable (OptCs podSel ∧ OptCs nsSel))

def PortCs (q : NPPort) : Prop :=
  match q.kind with
  | .name n => Cs n
  | _ => True

instance (q : NPPort) : Decidable (PortCs q) := by
  unfold PortCs
  split <;> infer_instance

/-- the namespace, the selector labels of the rule peers and the port names of the rules of a policy -/
def NetPolCs (np : NetPol) : Prop :=
  Cs np.ns ∧ ∀ r ∈ np.ingress ++ np.egress, (∀ peer ∈ r.peers, PeerCs peer) ∧ ∀ q ∈ r.ports, PortCs q

instance (np : NetPol) : Decidable (NetPolCs np) := by unfold NetPolCs; infer_instance

/-- input-level: the NetworkPolicies hold neither `"` nor newline in their namespace, in the keys and values of the
selectors of their rule peers, in their port names (DNS labels, label syntax, IANA service names) -/
def PoliciesCs (objs : List Obj) : Prop := ∀ q ∈ npsOf objs, NetPolCs q

instance (objs : List Obj) : Decidable (PoliciesCs objs) := by unfold PoliciesCs; infer_instance

theorem build_netpolCs {objs : List Obj} {x : XEngine} (h : Exposure.build objs = .ok x) (hs : PoliciesCs objs) :
    ∀ np ∈ x.eng.netpols, NetPolCs np := by
  intro np hnp
  obtain ⟨c, _⟩ := PermExposure.build_data h
  rw [c.nps, PermExposure.foldl_npStep] at hnp
  simp only [nil_append] at hnp
  obtain ⟨q, hq, rfl⟩ := mem_map.mp hnp
  obtain ⟨h1, h2⟩ := hs q hq
  refine ⟨?_, ?_⟩
  · unfold npDefaulted
    split
    · exact (by decide : Cs "default")
    · exact h1
  · rw [(PermExposure.npDefaulted_rules q).1, (PermExposure.npDefaulted_rules q).2]
    exact h2

theorem mem_npRules {np : NetPol} {d : Dir} {r : NPRule} (h : r ∈ Spec.npRules np d) : r ∈ np.ingress ++ np.egress := by
  cases d
  · exact mem_append_left _ h
  · exact mem_append_right _ h

theorem portsNamed_cs {np : NetPol} (hnp : NetPolCs np) {d : Dir} {r : NPRule} (hr : r ∈ Spec.npRules np d) {pr : Proto}
    {n : String} (h : NetPol.portsNamed r.ports pr n) : Cs n := by
  obtain ⟨q, hq, _, hk, _⟩ := h
  have := (hnp.2 r (mem_npRules hr)).2 q hq
  unfold PortCs at this
  rw [hk] at this
  exact this

theorem workloadName_cs {p : Pod} (h : Cs p.ns ∧ Cs p.name ∧ Cs p.ownerName ∧ Cs p.ownerKind) : Cs (workloadName p) := by
  obtain ⟨h1, h2, h3, h4⟩ := h
  unfold workloadName
  split
  · exact cs_append (cs_append (by decide) h2) (by decide)
  · have hn : Cs (if p.ownerName == "" then p.name else p.ownerName) := by split <;> assumption
    have hk : Cs (if p.ownerKind == "" then "Pod" else p.ownerKind) := by
      split
      · decide
      · exact h4
    exact cs_append (cs_append (cs_append (cs_append (cs_append h1 (by decide)) hn) (by decide)) hk) (by decide)

theorem ipRange_cs (r : Iv) : Cs (LPeer.ip r).str := by
  have hip : ∀ n : Int, okL (ipStr n).toList := by
    intro n
    constructor
    · intro hm
      rcases Structure.ipStr_chars hm with h | h
      · exact absurd h (by decide)
      · exact absurd h (by decide)
    · intro hm
      rcases Structure.ipStr_chars hm with h | h
      · exact absurd h (by decide)
      · exact absurd h (by decide)
  unfold Cs
  rw [Structure.ipRange_toList]
  exact okL_append (hip _) (okL_append (a := ['-']) (by unfold okL; decide) (hip _))

/-- what the csv format needs of an exposure entry -/
def XEntryCs (e : XEntry) : Prop := OptCs e.nsSel ∧ OptCs e.podSel ∧ Cs e.conn.toStr ∧ e.conn.toStr ≠ ""

theorem rep_sels_cs {objs : List Obj} {x : XEngine} (hb : Exposure.build objs = .ok x) (hs : PoliciesCs objs) :
    ∀ krp ∈ x.reps, OptCs krp.2.reprNsSel ∧ OptCs krp.2.reprPodSel := by
  intro krp hk
  obtain ⟨np, hnp, rs, hrs, rfl⟩ := (build_inv hb).1.origin krp hk
  obtain ⟨r, hr, hpeer⟩ := allSels_peer hrs
  obtain ⟨hns, hrules⟩ := build_netpolCs hb hs np hnp
  obtain ⟨h1, h2⟩ : OptCs rs.podSel ∧ OptCs rs.nsSel := (hrules r hr).1 _ hpeer
  refine ⟨?_, h1⟩
  show SelCs (nsOf np.ns rs)
  unfold nsOf
  cases hn : rs.nsSel with
  | none =>
    refine ⟨?_, fun r hr => absurd hr (by simp [nsNameSelector])⟩
    intro kv hkv
    simp only [nsNameSelector, mem_cons, not_mem_nil, or_false] at hkv
    subst hkv
    exact ⟨(by decide : Cs nsNameLabelKey), hns⟩
  | some s => rw [hn] at h2; exact h2

theorem xgressExposure_entries_cs {x : XEngine} (f : PermExposure.XFacts x) (hnp : ∀ np ∈ x.eng.netpols, NetPolCs np)
    (hreps : ∀ krp ∈ x.reps, OptCs krp.2.reprNsSel ∧ OptCs krp.2.reprPodSel) {n : String} {pod : Pod}
    (hpod : pod ∈ x.eng.pods) {i : Bool} {res : Option (Bool × List XEntry)}
    (h : xgressExposure x (.wl n pod) i = .ok res) : ∀ e ∈ (res.getD (true, [])).2, XEntryCs e := by
  obtain ⟨ns, _, hcase⟩ := xgressExposure_spec x f.valid f.repWF n pod (f.podsReal pod hpod) i res h
  rcases hcase with ⟨_, rfl⟩ | ⟨_, cw, perRep, hcw, hX, rfl⟩
  · intro e he; simp at he
  · obtain ⟨cw', hcw', _, _, hnames, _⟩ := clusterWideConn_spec x.eng f.valid pod (f.podsReal pod hpod).2 i
    rw [hcw] at hcw'
    cases hcw'
    intro e he
    split at he
    · simp at he
    · simp only [Option.getD_some, mem_append] at he
      rcases he with he | he
      · unfold general at he
        split at he
        · cases he
        · simp only [mem_cons, not_mem_nil, or_false] at he
          subst he
          refine ⟨trivial, trivial, ?_⟩
          apply connSet_toStr_cs
          intro pr nm hnm
          obtain ⟨np, r, hCW, hnamed⟩ := hnames pr nm hnm
          exact portsNamed_cs (hnp np hCW.1) hCW.2.2.1 hnamed
      · obtain ⟨krp, hkrp, c, hE, _, rfl⟩ := hX.sound e he
        refine ⟨(hreps krp hkrp).1, (hreps krp hkrp).2, ?_⟩
        apply connSet_toStr_cs
        intro pr nm hnm
        obtain ⟨_, np, r, hP, _, hnamed⟩ := hE.namesSub pr nm hnm
        exact portsNamed_cs (hnp np hP.1) hP.2.2 hnamed

end Engine

section Rows
open Exposure Structure

/-- what the csv format needs of an exposure entry as the formatters see it -/
def XDataCs (x : XData) : Prop := OptCs x.nsSel ∧ OptCs x.podSel ∧ Cs x.conn ∧ x.conn ≠ ""

instance (x : XData) : Decidable (XDataCs x) := by unfold XDataCs; infer_instance

theorem row_csvXWF {a b c : String} (ha : Cs a) (hb : Cs b) (hc : Cs c) (hne : c ≠ "") : (⟨a, b, c⟩ : Row).CsvXWF :=
  ⟨⟨cs_free ha, cs_free hb, cs_free hc⟩, hne⟩

theorem xItemRow_csvXWF {peer : String} (hp : Cs peer) (b : Bool) {x : XData} (h : XDataCs x) :
    (xItemRow peer b x).CsvXWF := by
  obtain ⟨h1, h2, h3, h4⟩ := h
  have hrep : Cs (if x.entireCluster then "entire-cluster" else repNsString x.nsSel true ++ "/" ++ repPodString x.podSel true) := by
    split
    · decide
    · exact cs_append (cs_append (repNsString_cs _ h1 true) (by decide)) (repPodString_cs _ h2 true)
  unfold xItemRow
  simp only
  split
  · exact row_csvXWF hrep hp h3 h4
  · exact row_csvXWF hp hrep h3 h4

/-- the exposure rows of a direction (one direction of `Properties.C09.mem_xRows_iff`) -/
theorem mem_xRows {conns : List Conn} {xs : List XPeerF} {b : Bool} {row : Row} (h : row ∈ xRows conns xs b) :
    ∃ p ∈ xs, row = xItemRow p.peer.str b ⟨true, none, none, "All Connections"⟩ ∨
      (∃ x ∈ p.ing ++ p.eg, row = xItemRow p.peer.str b x) ∨ ∃ c ∈ conns, row = c.row := by
  unfold xRows at h
  obtain ⟨p, hp, hrow⟩ := mem_flatMap.mp h
  refine ⟨p, hp, ?_⟩
  rcases mem_append.mp hrow with h1 | h1
  · cases b
    · simp only [Bool.false_eq_true, if_false] at h1
      split at h1
      · simp only [mem_cons, not_mem_nil, or_false] at h1
        exact Or.inl h1
      · obtain ⟨x, hx, rfl⟩ := mem_map.mp h1
        exact Or.inr (Or.inl ⟨x, mem_append_right _ hx, rfl⟩)
    · simp only [if_true] at h1
      split at h1
      · simp only [mem_cons, not_mem_nil, or_false] at h1
        exact Or.inl h1
      · obtain ⟨x, hx, rfl⟩ := mem_map.mp h1
        exact Or.inr (Or.inl ⟨x, mem_append_left _ hx, rfl⟩)
  · obtain ⟨c, hc, rfl⟩ := mem_map.mp h1
    exact Or.inr (Or.inr ⟨c, (mem_filter.mp hc).1, rfl⟩)

/-- formatter level: the rows of the csv output with exposure sections are well formed when the rows of the report, the
strings of the exposed peers and their exposure entries are -/
theorem xRows_csvXWF {conns : List Conn} {xs : List XPeerF} (hb : ∀ c ∈ conns, c.row.CsvXWF)
    (hx : ∀ p ∈ xs, Cs p.peer.str ∧ ∀ x ∈ p.ing ++ p.eg, XDataCs x) (b : Bool) : ∀ row ∈ xRows conns xs b, row.CsvXWF := by
  intro row hrow
  obtain ⟨p, hp, hcase⟩ := mem_xRows hrow
  obtain ⟨hpeer, hitems⟩ := hx p hp
  rcases hcase with rfl | ⟨x, hx', rfl⟩ | ⟨c, hc, rfl⟩
  · exact xItemRow_csvXWF hpeer b ⟨trivial, trivial, by decide, by decide⟩
  · exact xItemRow_csvXWF hpeer b (hitems x hx')
  · exact hb c hc

/-- **the rows of a computed exposure run are csv well formed**, under input-level hypotheses only -/
theorem reportX_csv_rows {objs : List Obj} {focus : String} {stop : Bool} {r : Report} {xf : List XPeerF}
    (h : reportX objs focus stop = .ok (r, xf)) (hr : PermLayer.PodsReal objs) (hpp : PermLayer.PodPortsValid objs)
    (hv : PermLayer.NPRulesValid objs) (hn : NamesCs objs) (hs : PoliciesCs objs) :
    (∀ c ∈ r.entries.map Conn.ofEntry, c.row.CsvXWF) ∧
    ∀ b, ∀ row ∈ xRows (r.entries.map Conn.ofEntry) xf b, row.CsvXWF := by
  rcases reportX_inv h with ⟨he, _, hx, _⟩ | ⟨_, _, _, he, _, hx, _⟩ |
    ⟨x, peers, owners, entries, ing, xs, hb, hp, ho, hc, hxs, hi, he, hpe, hd, hx⟩
  · subst hx; rw [he]
    exact ⟨fun c hc => absurd hc (by simp), fun b row hrow => absurd hrow (by simp [xRows])⟩
  · subst hx; rw [he]
    exact ⟨fun c hc => absurd hc (by simp), fun b row hrow => absurd hrow (by simp [xRows])⟩
  · have f := PermExposure.build_facts hr hpp hv hb
    have hnp := build_netpolCs hb hs
    have hreps := rep_sels_cs hb hs
    have hpeers : ∀ p ∈ peers, Cs p.str := by
      intro p hp'
      cases p with
      | ip rg => exact ipRange_cs rg
      | wl n pod =>
        obtain ⟨rfl, hpod⟩ := PermLayer.peersList_wl hp hp'
        exact workloadName_cs (hn pod (PermExposure.build_pods_sub hb hpod))
    have hic : Cs icPeer.str := by rw [icPeer_str]; decide
    have hsrc := ingressEntriesX_props hi
    have hbase : ∀ c ∈ r.entries.map Conn.ofEntry, c.row.CsvXWF := by
      intro c hc'
      obtain ⟨en, hen, rfl⟩ := mem_map.mp hc'
      have hends : Cs en.src.str ∧ Cs en.dst.str := by
        rw [he] at hen
        rcases mem_append.mp hen with hen | hen
        · have := xEntries_from_peers hc en hen
          exact ⟨hpeers _ this.1, hpeers _ this.2⟩
        · obtain ⟨hs', n, p, hnp', hdst⟩ := hsrc en hen
          exact ⟨hs' ▸ hic, hdst ▸ hpeers _ (owners_in_peers hp ho hnp')⟩
      obtain ⟨h1, h2⟩ := connStrFromProps_cs en.conn.allowAll en.conn.protocolsAndPorts
      simp only [Conn.row, Conn.ofEntry, ofLPeer_str]
      exact row_csvXWF hends.1 hends.2 h1 h2
    refine ⟨hbase, xRows_csvXWF hbase ?_⟩
    subst hx
    intro y hy
    obtain ⟨p, hp', lp, hlp, _, rfl⟩ := mem_xfOf hy
    obtain ⟨n, pod, ri, rg, hw, _, hri, hrg, rfl⟩ := exposedPeers_mem hxs hp'
    have hpod := (PermLayer.peersList_wl hp hw).2
    refine ⟨by rw [ofLPeer_str]; exact hpeers lp hlp, ?_⟩
    have key : ∀ e, XEntryCs e → XDataCs (XData.ofXEntry e) := fun e he' => he'
    intro d hd'
    simp only [mem_append, mem_map] at hd'
    rcases hd' with ⟨e, he', rfl⟩ | ⟨e, he', rfl⟩
    · exact key e (xgressExposure_entries_cs f hnp hreps hpod hri e he')
    · exact key e (xgressExposure_entries_cs f hnp hreps hpod hrg e he')

end Rows

section Example

/-- the input-level hypotheses hold of the example world `exXObjs` (all decidable) -/
example : PermLayer.PodsReal exXObjs ∧ PermLayer.PodPortsValid exXObjs ∧ PermLayer.NPRulesValid exXObjs ∧
    NamesCs exXObjs ∧ PoliciesCs exXObjs := by decide

/-- … so the rows of every run on it are csv well formed -/
example {focus : String} {r : Report} {xf : List XPeerF} (h : reportX exXObjs focus = .ok (r, xf)) :
    ∀ b, ∀ row ∈ xRows (r.entries.map Conn.ofEntry) xf b, row.CsvXWF :=
  (reportX_csv_rows h (by decide) (by decide) (by decide) (by decide) (by decide)).2

/-- the formatter-level lemma on exposed peers given directly (`Proofs/FormatDotX.lean`) -/
example : ∀ row ∈ xRows [] [cexA, cexB] true, row.CsvXWF :=
  xRows_csvXWF (fun c hc => absurd hc (by simp)) (by decide) true

end Example

end Format
end Netpol
