import Netpol.Proofs.Structure
import Netpol.Proofs.EngineLayer
import Netpol.Proofs.CacheLayer
import Netpol.Proofs.IngressLayer
import Netpol.Properties.C17
import Netpol.Model.WorldDriver

/-! Helper lemmas for property C08 (order independence of the modelled analysis): what the engine
model computes does not depend on the order in which the input objects are met. The property
statements are in `Netpol.Properties.C08.Engine`. Core Lean only.

Layout: A generic list facts (`upsert` on fresh keys, `find?` on lists with unique keys, sorting a
permutation, `collect`); B the insertion fold of `build`; C `podOwnersMap`; D the NetworkPolicy
layer under a permutation of the policies; E `peerConns` on equivalent engines and similar peers;
F the peers × peers loop; G the report. -/
namespace Netpol.PermLayer
open Netpol Netpol.Engine Netpol.Structure

/-! ## A. generic list facts -/

section Generic
variable {α β ε : Type}

theorem nodup_of_map (f : α → β) {l : List α} (h : (l.map f).Nodup) : l.Nodup := by
  induction l with
  | nil => exact List.nodup_nil
  | cons a l ih =>
    rw [List.map_cons, List.nodup_cons] at h
    rw [List.nodup_cons]
    exact ⟨fun hm => h.1 (List.mem_map.mpr ⟨a, hm, rfl⟩), ih h.2⟩

theorem upsert_of_not_mem (key : α → String) (x : α) (l : List α) (h : key x ∉ l.map key) :
    upsert key x l = l ++ [x] := by
  induction l with
  | nil => rfl
  | cons y ys ih =>
    have hy : key y ≠ key x := fun hh => h (by simp [hh])
    have hys : key x ∉ ys.map key := fun hh => h (by simp only [List.map_cons, List.mem_cons]; exact Or.inr hh)
    unfold upsert
    have : (key y == key x) = false := by simpa using hy
    simp only [this, Bool.false_eq_true, if_false, ih hys, List.cons_append]

/-- inserting objects with pairwise distinct fresh keys into a Go map: the association list is
the input list -/
theorem foldl_upsert_nodup (key : α → String) (l acc : List α) (h : ((acc ++ l).map key).Nodup) :
    l.foldl (fun a x => upsert key x a) acc = acc ++ l := by
  induction l generalizing acc with
  | nil => simp
  | cons x xs ih =>
    rw [List.foldl_cons]
    have hx : key x ∉ acc.map key := by
      intro hm
      rw [List.map_append, List.nodup_append] at h
      exact h.2.2 _ hm _ (by simp) rfl
    rw [upsert_of_not_mem key x acc hx]
    have : acc ++ x :: xs = (acc ++ [x]) ++ xs := by simp
    rw [this] at h ⊢
    exact ih _ h

theorem eq_of_key_eq {key : α → String} {l : List α} (hn : (l.map key).Nodup) {x y : α}
    (hx : x ∈ l) (hy : y ∈ l) (h : key x = key y) : x = y := by
  induction l with
  | nil => cases hx
  | cons z zs ih =>
    rw [List.map_cons, List.nodup_cons] at hn
    rcases List.mem_cons.mp hx with rfl | hx' <;> rcases List.mem_cons.mp hy with rfl | hy'
    · rfl
    · exact absurd (List.mem_map.mpr ⟨y, hy', h.symm⟩) hn.1
    · exact absurd (List.mem_map.mpr ⟨x, hx', h⟩) hn.1
    · exact ih hn.2 hx' hy'

/-- `find?` by key on a list with unique keys is membership -/
theorem find?_key_eq_some_iff {key : α → String} {l : List α} (hn : (l.map key).Nodup) (k : String)
    (x : α) : l.find? (fun y => key y == k) = some x ↔ x ∈ l ∧ key x = k := by
  constructor
  · intro h
    exact ⟨List.mem_of_find?_eq_some h, by simpa using List.find?_some h⟩
  · intro ⟨hx, hk⟩
    cases hf : l.find? (fun y => key y == k) with
    | none =>
      have := List.find?_eq_none.mp hf x hx
      simp [hk] at this
    | some y =>
      have hy := List.mem_of_find?_eq_some hf
      have hky : key y = k := by simpa using List.find?_some hf
      rw [eq_of_key_eq hn hy hx (hky.trans hk.symm)]

/-- looking a key up in a Go map does not depend on the iteration order -/
theorem find?_key_perm {key : α → String} {l l' : List α} (hp : l.Perm l')
    (hn : (l.map key).Nodup) (k : String) :
    l.find? (fun y => key y == k) = l'.find? (fun y => key y == k) := by
  have hn' : (l'.map key).Nodup := (hp.map key).nodup_iff.mp hn
  cases hf : l'.find? (fun y => key y == k) with
  | none =>
    rw [List.find?_eq_none] at hf ⊢
    intro x hx
    exact hf x (hp.mem_iff.mp hx)
  | some x =>
    rw [find?_key_eq_some_iff hn'] at hf
    rw [find?_key_eq_some_iff hn]
    exact ⟨hp.mem_iff.mpr hf.1, hf.2⟩

/-- sorting strings forgets the order of the input -/
theorem sortStrs_perm {l l' : List String} (hp : l.Perm l') :
    l.mergeSort (· ≤ ·) = l'.mergeSort (· ≤ ·) := by
  have tr : ∀ a b c : String, decide (a ≤ b) = true → decide (b ≤ c) = true →
      decide (a ≤ c) = true := by
    intro a b c h1 h2
    simp only [decide_eq_true_eq] at *
    exact String.le_trans h1 h2
  have tot : ∀ a b : String, (decide (a ≤ b) || decide (b ≤ a)) = true := by
    intro a b
    simp only [Bool.or_eq_true, decide_eq_true_eq]
    exact String.le_total a b
  refine List.Perm.eq_of_pairwise (le := fun a b => decide (a ≤ b) = true) ?_
    (List.pairwise_mergeSort tr tot l) (List.pairwise_mergeSort tr tot l')
    ((List.mergeSort_perm l _).trans (hp.trans (List.mergeSort_perm l' _).symm))
  intro a b _ _ h1 h2
  simp only [decide_eq_true_eq] at h1 h2
  exact String.le_antisymm h1 h2

theorem sortInts_perm {l l' : List Int} (hp : l.Perm l') :
    l.mergeSort (· ≤ ·) = l'.mergeSort (· ≤ ·) := by
  have tr : ∀ a b c : Int, decide (a ≤ b) = true → decide (b ≤ c) = true →
      decide (a ≤ c) = true := by
    intro a b c h1 h2
    simp only [decide_eq_true_eq] at *
    omega
  have tot : ∀ a b : Int, (decide (a ≤ b) || decide (b ≤ a)) = true := by
    intro a b
    simp only [Bool.or_eq_true, decide_eq_true_eq]
    omega
  refine List.Perm.eq_of_pairwise (le := fun a b => decide (a ≤ b) = true) ?_
    (List.pairwise_mergeSort tr tot l) (List.pairwise_mergeSort tr tot l')
    ((List.mergeSort_perm l _).trans (hp.trans (List.mergeSort_perm l' _).symm))
  intro a b _ _ h1 h2
  simp only [decide_eq_true_eq] at h1 h2
  omega

/-! `collect` (the shape of the peers × peers loop, `Netpol.Structure`) -/

theorem collect_error_mem {g : α → Except ε (List β)} {l : List α} {err : ε}
    (h : collect g l = .error err) : ∃ a ∈ l, g a = .error err := by
  induction l with
  | nil => cases h
  | cons a l ih =>
    unfold collect at h
    cases hg : g a with
    | error e' =>
      rw [hg] at h
      cases h
      exact ⟨a, List.mem_cons_self .., hg⟩
    | ok xs =>
      rw [hg] at h
      cases hc : collect g l with
      | error e' =>
        rw [hc] at h
        cases h
        obtain ⟨a', ha', hga'⟩ := ih hc
        exact ⟨a', List.mem_cons_of_mem _ ha', hga'⟩
      | ok r => rw [hc] at h; cases h

theorem collect_ok_of_all {g : α → Except ε (List β)} {l : List α}
    (h : ∀ a ∈ l, ∃ xs, g a = .ok xs) : ∃ r, collect g l = .ok r := by
  cases hc : collect g l with
  | ok r => exact ⟨r, rfl⟩
  | error err =>
    obtain ⟨a, ha, hga⟩ := collect_error_mem hc
    obtain ⟨xs, hxs⟩ := h a ha
    rw [hxs] at hga; cases hga

theorem collect_mem_of {g : α → Except ε (List β)} {l : List α} {r : List β}
    (h : collect g l = .ok r) {a : α} (ha : a ∈ l) {xs : List β} (hg : g a = .ok xs) {x : β}
    (hx : x ∈ xs) : x ∈ r := by
  induction l generalizing r with
  | nil => cases ha
  | cons b l ih =>
    unfold collect at h
    cases hgb : g b with
    | error err => simp [hgb] at h
    | ok ys =>
      cases hc : collect g l with
      | error err => simp [hgb, hc] at h
      | ok r' =>
        simp only [hgb, hc, Except.ok.injEq] at h
        subst h
        rcases List.mem_cons.mp ha with rfl | ha'
        · rw [hg] at hgb; cases hgb
          exact List.mem_append_left _ hx
        · exact List.mem_append_right _ (ih hc ha')

end Generic

/-! ## B. the insertion fold of `build` -/

/-- the pods the objects contribute, in input order: Pod objects and the pods generated from
workload manifests -/
def podsIn (objs : List Obj) : List Pod :=
  objs.flatMap fun o => match o with
    | .pod p => [p]
    | .wl w => podsFromWorkload w
    | _ => []

/-- the namespace objects, as the engine stores them -/
def nssIn (objs : List Obj) : List NsObj :=
  objs.filterMap fun o => match o with
    | .ns n => some (nsFromCore n)
    | _ => none

/-- a NetworkPolicy as the engine stores it (namespace defaulted) -/
def normNp (p : NetPol) : NetPol := if p.ns == "" then { p with ns := "default" } else p

theorem podsIn_cons (o : Obj) (objs : List Obj) : podsIn (o :: objs) = podsIn [o] ++ podsIn objs := by
  simp [podsIn]

theorem nssIn_cons (o : Obj) (objs : List Obj) : nssIn (o :: objs) = nssIn [o] ++ nssIn objs := by
  simp only [nssIn, List.filterMap_cons]
  split <;> simp

theorem podsIn_perm {objs objs' : List Obj} (hp : objs.Perm objs') : (podsIn objs).Perm (podsIn objs') :=
  hp.flatMap_right _

theorem nssIn_perm {objs objs' : List Obj} (hp : objs.Perm objs') : (nssIn objs).Perm (nssIn objs') :=
  hp.filterMap _

theorem insertWorkload_pods_aux (l : List Pod) (e : Engine) :
    (l.foldl insertPodObj e).pods = l.foldl (fun a p => upsert podKey p a) e.pods ∧
    (l.foldl insertPodObj e).namespaces = e.namespaces := by
  induction l generalizing e with
  | nil => exact ⟨rfl, rfl⟩
  | cons p l ih =>
    rw [List.foldl_cons, List.foldl_cons]
    exact ih (e.insertPodObj p)

/-- what a successful `insertObject` does to the pod map and the namespace map -/
theorem insertObject_data {e e' : Engine} {o : Obj} (h : e.insertObject o = .ok e') :
    e'.pods = (podsIn [o]).foldl (fun a p => upsert podKey p a) e.pods ∧
    e'.namespaces = (nssIn [o]).foldl (fun a n => upsert (·.name) n a) e.namespaces := by
  cases o with
  | ns n => simp only [insertObject, Except.ok.injEq] at h; subst h; exact ⟨rfl, rfl⟩
  | wl w =>
    simp only [insertObject, Except.ok.injEq] at h; subst h
    have := insertWorkload_pods_aux (podsFromWorkload w) e
    simp only [podsIn, nssIn, List.flatMap_cons, List.flatMap_nil, List.append_nil,
      List.filterMap_cons, List.filterMap_nil, List.foldl_nil]
    exact this
  | pod p =>
    simp only [insertObject] at h
    split at h
    · cases h
    · simp only [Except.ok.injEq] at h; subst h; exact ⟨rfl, rfl⟩
  | np p =>
    simp only [insertObject, insertNetpol] at h
    split at h <;> split at h
    all_goals (cases h <;> exact ⟨rfl, rfl⟩)
  | anp a =>
    have he := insertANP_eq (show e.insertANP a = .ok e' from h)
    subst he; exact ⟨rfl, rfl⟩
  | banp b =>
    simp only [insertObject, insertBANP] at h
    split at h
    · cases h
    split at h
    · cases h
    split at h
    · cases h
    simp only [Except.ok.injEq] at h; subst h; exact ⟨rfl, rfl⟩
  | svc _ => simp only [insertObject, Except.ok.injEq] at h; subst h; exact ⟨rfl, rfl⟩
  | ing _ => simp only [insertObject, Except.ok.injEq] at h; subst h; exact ⟨rfl, rfl⟩
  | route _ => simp only [insertObject, Except.ok.injEq] at h; subst h; exact ⟨rfl, rfl⟩

theorem foldlM_cons_ok {objs : List Obj} {o : Obj} {e0 e : Engine}
    (h : (o :: objs).foldlM insertObject e0 = .ok e) :
    ∃ e1, e0.insertObject o = .ok e1 ∧ objs.foldlM insertObject e1 = .ok e := by
  rw [List.foldlM_cons] at h
  cases h1 : e0.insertObject o with
  | error err => simp [h1, bind, Except.bind] at h
  | ok e1 =>
    simp only [h1, bind, Except.bind] at h
    exact ⟨e1, rfl, h⟩

/-- the pod map and the namespace map after the fold: the objects upserted in input order -/
theorem fold_data {objs : List Obj} {e0 e : Engine} (h : objs.foldlM insertObject e0 = .ok e) :
    e.pods = (podsIn objs).foldl (fun a p => upsert podKey p a) e0.pods ∧
    e.namespaces = (nssIn objs).foldl (fun a n => upsert (·.name) n a) e0.namespaces := by
  induction objs generalizing e0 with
  | nil => simp [pure, Except.pure] at h; subst h; exact ⟨rfl, rfl⟩
  | cons o objs ih =>
    obtain ⟨e1, h1, h2⟩ := foldlM_cons_ok h
    obtain ⟨i1, i2⟩ := ih h2
    obtain ⟨d1, d2⟩ := insertObject_data h1
    rw [podsIn_cons, nssIn_cons, List.foldl_append, List.foldl_append, ← d1, ← d2]
    exact ⟨i1, i2⟩

/-- the policy fields after the fold -/
theorem fold_policies {objs : List Obj} {e0 e : Engine} (h : objs.foldlM insertObject e0 = .ok e) :
    e.netpols = e0.netpols ++ (npsOf objs).map normNp ∧
    e.anpNames = e0.anpNames ++ (anpsOf objs).map (·.name) ∧
    e.banp.toList = e0.banp.toList ++ banpsOf objs ∧
    e.exposure = e0.exposure := by
  induction objs generalizing e0 with
  | nil => simp [pure, Except.pure] at h; subst h; simp [npsOf, anpsOf, banpsOf]
  | cons o objs ih =>
    obtain ⟨e1, h1, h2⟩ := foldlM_cons_ok h
    obtain ⟨i1, i2, i3, i4⟩ := ih h2
    have hok := insertObject_ok h1
    cases o with
    | np p =>
      obtain ⟨_, hf⟩ := hok
      have f1 : e1.netpols = _ := congrArg (·.1) hf
      have f3 : e1.anpNames = _ := congrArg (·.2.2.1) hf
      have f4 : e1.banp = _ := congrArg (·.2.2.2.1) hf
      have f5 : e1.exposure = _ := congrArg (·.2.2.2.2) hf
      simp only at f1 f3 f4 f5
      rw [f1] at i1; rw [f3] at i2; rw [f4] at i3; rw [f5] at i4
      refine ⟨?_, i2, i3, i4⟩
      rw [i1]
      simp [npsOf, normNp]
    | anp a =>
      obtain ⟨_, _, hf⟩ := hok
      have f1 : e1.netpols = _ := congrArg (·.1) hf
      have f3 : e1.anpNames = _ := congrArg (·.2.2.1) hf
      have f4 : e1.banp = _ := congrArg (·.2.2.2.1) hf
      have f5 : e1.exposure = _ := congrArg (·.2.2.2.2) hf
      simp only at f1 f3 f4 f5
      rw [f1] at i1; rw [f3] at i2; rw [f4] at i3; rw [f5] at i4
      refine ⟨i1, ?_, i3, i4⟩
      rw [i2]
      simp [anpsOf]
    | banp b =>
      obtain ⟨_, hb, _, hf⟩ := hok
      have f1 : e1.netpols = _ := congrArg (·.1) hf
      have f3 : e1.anpNames = _ := congrArg (·.2.2.1) hf
      have f4 : e1.banp = _ := congrArg (·.2.2.2.1) hf
      have f5 : e1.exposure = _ := congrArg (·.2.2.2.2) hf
      simp only at f1 f3 f4 f5
      rw [f1] at i1; rw [f3] at i2; rw [f4] at i3; rw [f5] at i4
      refine ⟨i1, i2, ?_, i4⟩
      rw [i3, hb]
      simp [banpsOf]
    | pod p =>
      have hf := hok.2
      rw [polFields_netpols hf] at i1; rw [polFields_anpNames hf] at i2
      rw [polFields_banp hf] at i3; rw [polFields_exposure hf] at i4
      exact ⟨i1, i2, i3, i4⟩
    | ns _ | wl _ | svc _ | ing _ | route _ =>
      have hf : polFields e1 = polFields e0 := hok
      rw [polFields_netpols hf] at i1; rw [polFields_anpNames hf] at i2
      rw [polFields_banp hf] at i3; rw [polFields_exposure hf] at i4
      exact ⟨i1, i2, i3, i4⟩

/-- every object of a successful fold was inserted successfully into some engine -/
theorem fold_ok_each {objs : List Obj} {e0 e : Engine} (h : objs.foldlM insertObject e0 = .ok e) :
    ∀ o ∈ objs, ∃ e1 e2 : Engine, e1.insertObject o = .ok e2 := by
  induction objs generalizing e0 with
  | nil => intro o ho; cases ho
  | cons o objs ih =>
    obtain ⟨e1, h1, h2⟩ := foldlM_cons_ok h
    intro o' ho'
    rcases List.mem_cons.mp ho' with rfl | hm
    · exact ⟨e0, e1, h1⟩
    · exact ih h2 o' hm

/-- the engine never holds two policies under one key, nor one ANP name twice -/
theorem fold_keys_nodup {objs : List Obj} {e0 e : Engine} (h : objs.foldlM insertObject e0 = .ok e)
    (h0 : (e0.netpols.map (fun q => (q.ns, q.name))).Nodup ∧ e0.anpNames.Nodup) :
    (e.netpols.map (fun q => (q.ns, q.name))).Nodup ∧ e.anpNames.Nodup := by
  refine foldlM_invariant (f := insertObject)
    (fun e => (e.netpols.map (fun q => (q.ns, q.name))).Nodup ∧ e.anpNames.Nodup) ?_ objs e0 e h0 h
  intro s o s' ⟨p1, p2⟩ hs
  have hok := insertObject_ok hs
  cases o with
  | np p =>
    obtain ⟨hno, hf⟩ := hok
    have f1 : s'.netpols = _ := congrArg (·.1) hf
    have f3 : s'.anpNames = _ := congrArg (·.2.2.1) hf
    simp only at f1 f3
    rw [f1, f3]
    refine ⟨?_, p2⟩
    rw [List.map_append, List.nodup_append]
    refine ⟨p1, by simp, ?_⟩
    intro a ha b hb hab
    subst hab
    apply hno
    obtain ⟨q, hq, hqa⟩ := List.mem_map.mp ha
    unfold hasNetpol
    rw [List.any_eq_true]
    refine ⟨q, hq, ?_⟩
    have : a = (npNs p, p.name) := by
      simp only [List.map_cons, List.map_nil, List.mem_singleton] at hb
      rw [hb]; unfold npNs; split <;> rfl
    rw [this] at hqa
    simp only [Prod.mk.injEq] at hqa
    simp [hqa.1, hqa.2]
  | anp a =>
    obtain ⟨_, hno, hf⟩ := hok
    have f1 : s'.netpols = _ := congrArg (·.1) hf
    have f3 : s'.anpNames = _ := congrArg (·.2.2.1) hf
    simp only at f1 f3
    rw [f1, f3]
    refine ⟨p1, ?_⟩
    rw [List.nodup_append]
    refine ⟨p2, by simp, ?_⟩
    intro x hx y hy hxy
    simp only [List.mem_singleton] at hy
    subst hxy; subst hy
    exact hno hx
  | banp b =>
    obtain ⟨_, _, _, hf⟩ := hok
    have f1 : s'.netpols = _ := congrArg (·.1) hf
    have f3 : s'.anpNames = _ := congrArg (·.2.2.1) hf
    simp only at f1 f3
    rw [f1, f3]; exact ⟨p1, p2⟩
  | pod p =>
    rw [polFields_netpols hok.2, polFields_anpNames hok.2]; exact ⟨p1, p2⟩
  | ns _ | wl _ | svc _ | ing _ | route _ =>
    have hf : polFields s' = polFields s := hok
    rw [polFields_netpols hf, polFields_anpNames hf]; exact ⟨p1, p2⟩

/-- the input has no conflict of keys, names or shape (`Netpol.Properties.C19`); a property of the
multiset of objects. The insertion fold also refuses a priority outside 0..1000 or held already
(`insertANP`): `fold_ok_iff` adds the two priority clauses, as `build_ok_iff` does. -/
structure ConflictFree (objs : List Obj) : Prop where
  np : ((npsOf objs).map npKey).Nodup
  anp : ((anpsOf objs).map (·.name)).Nodup
  banp : (banpsOf objs).length ≤ 1
  banpName : ∀ b ∈ banpsOf objs, b.name = "default"
  pod : ∀ p ∈ podsOf objs, p.hostIP ≠ ""

theorem npsOf_perm {objs objs' : List Obj} (hp : objs.Perm objs') : (npsOf objs).Perm (npsOf objs') :=
  hp.filterMap _
theorem anpsOf_perm {objs objs' : List Obj} (hp : objs.Perm objs') : (anpsOf objs).Perm (anpsOf objs') :=
  hp.filterMap _
theorem banpsOf_perm {objs objs' : List Obj} (hp : objs.Perm objs') : (banpsOf objs).Perm (banpsOf objs') :=
  hp.filterMap _
theorem podsOf_perm {objs objs' : List Obj} (hp : objs.Perm objs') : (podsOf objs).Perm (podsOf objs') :=
  hp.filterMap _

theorem ConflictFree.perm {objs objs' : List Obj} (hp : objs.Perm objs') (h : ConflictFree objs) :
    ConflictFree objs' where
  np := (((npsOf_perm hp).map _).nodup_iff).mp h.np
  anp := (((anpsOf_perm hp).map _).nodup_iff).mp h.anp
  banp := by rw [← (banpsOf_perm hp).length_eq]; exact h.banp
  banpName := fun b hb => h.banpName b ((banpsOf_perm hp).mem_iff.mpr hb)
  pod := fun p hp' => h.pod p ((podsOf_perm hp).mem_iff.mpr hp')

theorem map_key_normNp (l : List NetPol) :
    (l.map normNp).map (fun q => (q.ns, q.name)) = l.map npKey := by
  rw [List.map_map]
  apply List.map_congr_left
  intro p _
  simp only [Function.comp, normNp, npKey, npNs]
  split <;> rfl

/-- the insertion fold succeeds exactly on conflict-free inputs whose ANP priorities are pairwise
distinct and within 0..1000 (`insertANP` refuses the others) -/
theorem fold_ok_iff (objs : List Obj) :
    (∃ e, objs.foldlM insertObject ({} : Engine) = .ok e) ↔ ConflictFree objs ∧
      ((anpsOf objs).map (·.prio)).Nodup ∧ ∀ a ∈ anpsOf objs, a.validPriority = true := by
  constructor
  · rintro ⟨e, h⟩
    obtain ⟨f1, f2, f3, _⟩ := fold_policies h
    obtain ⟨k1, k2⟩ := fold_keys_nodup h ⟨by simp, by simp⟩
    have each := fold_ok_each h
    have hperm : e.anps.Perm (anpsOf objs) := by simpa using fold_anps_perm h
    obtain ⟨q1, q2⟩ := fold_prioInv h prioInv_empty
    refine ⟨⟨?_, ?_, ?_, ?_, ?_⟩, ((hperm.map _).nodup_iff).mp q1,
      fun a ha => q2 a (hperm.mem_iff.mpr ha)⟩
    · rw [f1] at k1
      simp only [List.nil_append] at k1
      rwa [map_key_normNp] at k1
    · rw [f2] at k2
      simpa using k2
    · have : (banpsOf objs).length = e.banp.toList.length := by rw [f3]; simp
      rw [this]
      cases e.banp <;> simp
    · intro b hb
      obtain ⟨e1, e2, h12⟩ := each _ (mem_banpsOf.mp hb)
      exact (insertObject_ok h12).2.2.1
    · intro p hp
      obtain ⟨e1, e2, h12⟩ := each _ (mem_podsOf.mp hp)
      exact (insertObject_ok h12).1
  · rintro ⟨h, hn, hv⟩
    exact fold_ok_of_conflict_free objs {} rfl (by simpa using h.np) (by simpa using h.anp)
      (by simpa using h.banp) h.banpName h.pod (by simpa using hn) hv

/-- acceptance by the insertion fold does not depend on the order of the objects -/
theorem fold_isOk_perm {objs objs' : List Obj} (hp : objs.Perm objs') :
    (∃ e, objs.foldlM insertObject ({} : Engine) = .ok e) ↔
      (∃ e, objs'.foldlM insertObject ({} : Engine) = .ok e) := by
  rw [fold_ok_iff, fold_ok_iff]
  have ha := anpsOf_perm hp
  constructor
  · rintro ⟨hc, hn, hv⟩
    exact ⟨hc.perm hp, ((ha.map _).nodup_iff).mp hn, fun a h => hv a (ha.mem_iff.mpr h)⟩
  · rintro ⟨hc, hn, hv⟩
    exact ⟨hc.perm hp.symm, ((ha.map _).nodup_iff).mpr hn, fun a h => hv a (ha.mem_iff.mp h)⟩

/-! ### `sortANPs`, `resolveMissingNamespaces`, `build` -/

theorem sortANPs_ok {e e' : Engine} (h : e.sortANPs = .ok e') :
    e' = { e with anps := e.anps.foldr insertByPrio [] } ∧
    (∀ a ∈ e.anps, a.validPriority = true) ∧ (e.anps.map (·.prio)).Nodup := by
  unfold sortANPs at h
  simp only at h
  split at h
  · cases h
  rename_i h1
  split at h
  · cases h
  rename_i h2
  cases h
  refine ⟨rfl, ?_, by simpa using h2⟩
  intro a ha
  have : (e.anps.any fun a => !a.validPriority) = false := by simpa using h1
  rw [List.any_eq_false] at this
  simpa using this a ha

/-- `build` succeeds exactly when the input is conflict-free and the ANP priorities are valid and
pairwise distinct -/
theorem build_ok_iff (objs : List Obj) :
    (∃ e, Engine.build objs = .ok e) ↔ ConflictFree objs ∧
      ((anpsOf objs).map (·.prio)).Nodup ∧ ∀ a ∈ anpsOf objs, 0 ≤ a.prio ∧ a.prio ≤ 1000 := by
  constructor
  · rintro ⟨e, h⟩
    rw [build_eq] at h
    cases hf : objs.foldlM insertObject ({} : Engine) with
    | error err => rw [hf] at h; cases h
    | ok e1 =>
      rw [hf] at h
      simp only at h
      cases hs : e1.sortANPs with
      | error err => rw [hs] at h; cases h
      | ok e2 =>
        obtain ⟨_, hv, hn⟩ := sortANPs_ok hs
        have hperm : e1.anps.Perm (anpsOf objs) := by simpa using fold_anps_perm hf
        refine ⟨((fold_ok_iff objs).mp ⟨e1, hf⟩).1, ((hperm.map _).nodup_iff).mp hn, ?_⟩
        intro a ha
        have := hv a (hperm.mem_iff.mpr ha)
        unfold ANP.validPriority at this
        simpa using this
  · rintro ⟨hc, hn, hv⟩
    obtain ⟨e1, hf⟩ := (fold_ok_iff objs).mpr ⟨hc, hn, fun a ha => by
      have := hv a ha
      unfold ANP.validPriority
      simpa using this⟩
    have hperm : e1.anps.Perm (anpsOf objs) := by simpa using fold_anps_perm hf
    obtain ⟨e2, hs⟩ := sortANPs_ok_of (e := e1)
      (fun a ha => by
        have := hv a (hperm.mem_iff.mp ha)
        unfold ANP.validPriority
        simpa using this)
      (((hperm.map _).nodup_iff).mpr hn)
    exact ⟨e2.resolveMissingNamespaces, by rw [build_eq, hf]; simp only [hs]⟩

/-- **acceptance is order-independent**: `build` succeeds on an input iff it succeeds on every
reordering of it -/
theorem build_isOk_perm {objs objs' : List Obj} (hp : objs.Perm objs') :
    (∃ e, Engine.build objs = .ok e) ↔ (∃ e, Engine.build objs' = .ok e) := by
  rw [build_ok_iff, build_ok_iff]
  have ha := anpsOf_perm hp
  constructor
  · rintro ⟨hc, hn, hv⟩
    exact ⟨hc.perm hp, ((ha.map _).nodup_iff).mp hn, fun a h => hv a (ha.mem_iff.mpr h)⟩
  · rintro ⟨hc, hn, hv⟩
    exact ⟨hc.perm hp.symm, ((ha.map _).nodup_iff).mpr hn, fun a h => hv a (ha.mem_iff.mp h)⟩

/-- the namespace `resolveMissingNamespaces` invents for a pod without namespace object -/
def defaultNs (ns : String) : NsObj := ⟨ns, [(nsNameLabelKey, ns)]⟩

/-- one step of `resolveMissingNamespaces` on the namespace map -/
def addMissing (nss : List NsObj) (ns : String) : List NsObj :=
  if (nss.find? (·.name == ns)).isSome then nss else nss ++ [defaultNs ns]

theorem resolve_eq_aux (l : List Pod) (e : Engine) :
    l.foldl (fun acc p =>
      if (acc.findNs p.ns).isSome then acc
      else { acc with namespaces := acc.namespaces ++ [⟨p.ns, [(nsNameLabelKey, p.ns)]⟩] }) e =
    { e with namespaces := (l.map (·.ns)).foldl addMissing e.namespaces } := by
  induction l generalizing e with
  | nil => rfl
  | cons p l ih =>
    rw [List.foldl_cons, ih, List.map_cons, List.foldl_cons]
    unfold addMissing findNs defaultNs
    split <;> rfl

theorem resolve_eq (e : Engine) :
    e.resolveMissingNamespaces =
      { e with namespaces := (e.pods.map (·.ns)).foldl addMissing e.namespaces } := by
  unfold resolveMissingNamespaces
  exact resolve_eq_aux e.pods e

theorem find?_name_isSome (nss : List NsObj) (ns : String) :
    (nss.find? (·.name == ns)).isSome = true ↔ ns ∈ nss.map (·.name) := by
  rw [List.find?_isSome]
  simp only [beq_iff_eq, List.mem_map]

theorem addMissing_nodup {nss : List NsObj} (h : (nss.map (·.name)).Nodup) (ns : String) :
    ((addMissing nss ns).map (·.name)).Nodup := by
  unfold addMissing
  split
  · exact h
  · rename_i hf
    rw [find?_name_isSome] at hf
    rw [List.map_append, List.nodup_append]
    refine ⟨h, by simp, ?_⟩
    intro a ha b hb hab
    simp only [List.map_cons, List.map_nil, List.mem_singleton, defaultNs] at hb
    subst hab; subst hb
    exact hf ha

theorem foldl_addMissing_nodup (l : List String) {nss : List NsObj} (h : (nss.map (·.name)).Nodup) :
    ((l.foldl addMissing nss).map (·.name)).Nodup := by
  induction l generalizing nss with
  | nil => exact h
  | cons a l ih => rw [List.foldl_cons]; exact ih (addMissing_nodup h a)

theorem mem_foldl_addMissing (l : List String) (nss : List NsObj) (x : NsObj) :
    x ∈ l.foldl addMissing nss ↔
      x ∈ nss ∨ ∃ ns ∈ l, x = defaultNs ns ∧ ns ∉ nss.map (·.name) := by
  induction l generalizing nss with
  | nil => simp
  | cons a l ih =>
    rw [List.foldl_cons, ih]
    unfold addMissing
    split
    · rename_i hf
      rw [find?_name_isSome] at hf
      constructor
      · rintro (h | ⟨ns, hns, hx, hn⟩)
        · exact Or.inl h
        · exact Or.inr ⟨ns, List.mem_cons_of_mem _ hns, hx, hn⟩
      · rintro (h | ⟨ns, hns, hx, hn⟩)
        · exact Or.inl h
        · rcases List.mem_cons.mp hns with rfl | hns'
          · exact absurd hf hn
          · exact Or.inr ⟨ns, hns', hx, hn⟩
    · rename_i hf
      rw [find?_name_isSome] at hf
      constructor
      · rintro (h | ⟨ns, hns, hx, hn⟩)
        · rcases List.mem_append.mp h with h1 | h1
          · exact Or.inl h1
          · simp only [List.mem_singleton] at h1
            exact Or.inr ⟨a, List.mem_cons_self .., h1, hf⟩
        · refine Or.inr ⟨ns, List.mem_cons_of_mem _ hns, hx, ?_⟩
          intro hm
          exact hn (by rw [List.map_append]; exact List.mem_append_left _ hm)
      · rintro (h | ⟨ns, hns, hx, hn⟩)
        · exact Or.inl (List.mem_append_left _ h)
        · by_cases hna : ns = a
          · subst hna
            exact Or.inl (List.mem_append_right _ (by simp [hx]))
          · rcases List.mem_cons.mp hns with rfl | hns'
            · exact absurd rfl hna
            · refine Or.inr ⟨ns, hns', hx, ?_⟩
              rw [List.map_append, List.mem_append]
              rintro (hm | hm)
              · exact hn hm
              · simp only [List.map_cons, List.map_nil, List.mem_singleton, defaultNs] at hm
                exact hna hm

/-- completing two equal namespace maps (up to order) for two equal pod sets (up to order) -/
theorem foldl_addMissing_perm {l l' : List String} {nss nss' : List NsObj}
    (hl : ∀ x, x ∈ l ↔ x ∈ l') (hp : nss.Perm nss') (hn : (nss.map (·.name)).Nodup) :
    (l.foldl addMissing nss).Perm (l'.foldl addMissing nss') := by
  have hn' : (nss'.map (·.name)).Nodup := ((hp.map _).nodup_iff).mp hn
  rw [List.perm_ext_iff_of_nodup (nodup_of_map _ (foldl_addMissing_nodup l hn))
    (nodup_of_map _ (foldl_addMissing_nodup l' hn'))]
  intro x
  rw [mem_foldl_addMissing, mem_foldl_addMissing, hp.mem_iff]
  have : ∀ ns, ns ∉ nss.map (·.name) ↔ ns ∉ nss'.map (·.name) := fun ns =>
    not_congr (hp.map _).mem_iff
  constructor
  · rintro (h | ⟨ns, hns, hx, hnn⟩)
    · exact Or.inl h
    · exact Or.inr ⟨ns, (hl ns).mp hns, hx, (this ns).mp hnn⟩
  · rintro (h | ⟨ns, hns, hx, hnn⟩)
    · exact Or.inl h
    · exact Or.inr ⟨ns, (hl ns).mpr hns, hx, (this ns).mpr hnn⟩

/-- every pod of the engine `build` returns has its namespace object -/
theorem mem_foldl_addMissing_name (l : List String) (nss : List NsObj) {ns : String} (h : ns ∈ l) :
    ns ∈ (l.foldl addMissing nss).map (·.name) := by
  by_cases hm : ns ∈ nss.map (·.name)
  · obtain ⟨x, hx, hxn⟩ := List.mem_map.mp hm
    exact List.mem_map.mpr ⟨x, (mem_foldl_addMissing l nss x).mpr (Or.inl hx), hxn⟩
  · exact List.mem_map.mpr ⟨defaultNs ns,
      (mem_foldl_addMissing l nss _).mpr (Or.inr ⟨ns, h, rfl, hm⟩), rfl⟩

/-! ### engines that hold the same objects -/

/-- two engines hold the same objects: the namespace map, the pod map and the NetworkPolicies
agree up to the order of the association lists (Go map iteration order), keys are unique; the
sorted ANP slice and the BANP are the same -/
structure _root_.Netpol.Engine.Equiv (e e' : Engine) : Prop where
  namespaces : e.namespaces.Perm e'.namespaces
  nsNodup : (e.namespaces.map (·.name)).Nodup
  pods : e.pods.Perm e'.pods
  podsNodup : (e.pods.map podKey).Nodup
  netpols : e.netpols.Perm e'.netpols
  anps : e.anps = e'.anps
  banp : e.banp = e'.banp

theorem _root_.Netpol.Engine.Equiv.refl {e : Engine} (h1 : (e.namespaces.map (·.name)).Nodup)
    (h2 : (e.pods.map podKey).Nodup) : e.Equiv e :=
  ⟨.refl _, h1, .refl _, h2, .refl _, rfl, rfl⟩

theorem _root_.Netpol.Engine.Equiv.symm {e e' : Engine} (h : e.Equiv e') : e'.Equiv e :=
  ⟨h.namespaces.symm, ((h.namespaces.map _).nodup_iff).mp h.nsNodup, h.pods.symm,
    ((h.pods.map _).nodup_iff).mp h.podsNodup, h.netpols.symm, h.anps.symm, h.banp.symm⟩

/-- the namespace lookup agrees -/
theorem _root_.Netpol.Engine.Equiv.findNs {e e' : Engine} (h : e.Equiv e') (n : String) :
    e.findNs n = e'.findNs n :=
  find?_key_perm (key := fun x : NsObj => x.name) h.namespaces h.nsNodup n

/-- no two objects of the input are stored under the same key of the pod map (Pod objects and the
pods generated from workloads) or of the namespace map. Otherwise the later object replaces the
earlier one, and the result depends on the order (see the counterexamples in
`Netpol.Properties.C08.Engine`). -/
structure DistinctKeys (objs : List Obj) : Prop where
  pods : ((podsIn objs).map podKey).Nodup
  nss : ((nssIn objs).map (·.name)).Nodup

theorem DistinctKeys.perm {objs objs' : List Obj} (hp : objs.Perm objs') (h : DistinctKeys objs) :
    DistinctKeys objs' :=
  ⟨(((podsIn_perm hp).map _).nodup_iff).mp h.pods, (((nssIn_perm hp).map _).nodup_iff).mp h.nss⟩

/-- the parts of a successful `build` -/
theorem build_ok_parts {objs : List Obj} {e : Engine} (h : Engine.build objs = .ok e) :
    ∃ e1, objs.foldlM insertObject ({} : Engine) = .ok e1 ∧ (e1.anps.map (·.prio)).Nodup ∧
      e = ({ e1 with anps := e1.anps.foldr insertByPrio [] } : Engine).resolveMissingNamespaces := by
  rw [build_eq] at h
  cases hf : objs.foldlM insertObject ({} : Engine) with
  | error err => rw [hf] at h; cases h
  | ok e1 =>
    rw [hf] at h
    simp only at h
    cases hs : e1.sortANPs with
    | error err => rw [hs] at h; cases h
    | ok e2 =>
      rw [hs] at h
      simp only [Except.ok.injEq] at h
      obtain ⟨h2, _, hn⟩ := sortANPs_ok hs
      exact ⟨e1, rfl, hn, by rw [← h, h2]⟩

theorem perm_length_le_one {α : Type} {l l' : List α} (hp : l.Perm l') (h : l.length ≤ 1) : l = l' := by
  match l, h with
  | [], _ => exact (List.nil_perm.mp hp).symm
  | [a], _ => exact List.singleton_perm.mp hp

theorem option_eq_of_toList {α : Type} {a b : Option α} (h : a.toList = b.toList) : a = b := by
  cases a <;> cases b <;> simp_all

/-- the engine `build` returns, with distinct keys: the objects of the input -/
theorem build_fields {objs : List Obj} {e : Engine} (hk : DistinctKeys objs)
    (h : Engine.build objs = .ok e) :
    e.pods = podsIn objs ∧
    e.namespaces = ((podsIn objs).map (·.ns)).foldl addMissing (nssIn objs) ∧
    e.netpols = (npsOf objs).map normNp ∧
    e.anps = (anpsOf objs).foldr insertByPrio [] ∧
    e.banp.toList = banpsOf objs ∧
    ((anpsOf objs).map (·.prio)).Nodup := by
  obtain ⟨e1, hf, hn, he⟩ := build_ok_parts h
  obtain ⟨d1, d2⟩ := fold_data hf
  obtain ⟨f1, _, f3, _⟩ := fold_policies hf
  have hperm : e1.anps.Perm (anpsOf objs) := by simpa using fold_anps_perm hf
  have hn' : ((anpsOf objs).map (·.prio)).Nodup := ((hperm.map _).nodup_iff).mp hn
  have p1 : e1.pods = podsIn objs := by
    rw [d1]
    simpa using foldl_upsert_nodup podKey (podsIn objs) [] (by simpa using hk.pods)
  have p2 : e1.namespaces = nssIn objs := by
    rw [d2]
    simpa using foldl_upsert_nodup (fun x : NsObj => x.name) (nssIn objs) [] (by simpa using hk.nss)
  rw [he, resolve_eq]
  refine ⟨p1, ?_, by simpa using f1, anp_order_free hperm hn, by simpa using f3, hn'⟩
  show List.foldl addMissing e1.namespaces (e1.pods.map (·.ns)) = _
  rw [p1, p2]

/-- **the engine is order-independent**: with distinct keys, `build` on a reordered input
returns an engine that holds the same objects -/
theorem build_perm {objs objs' : List Obj} (hp : objs.Perm objs') (hk : DistinctKeys objs)
    {e : Engine} (h : Engine.build objs = .ok e) :
    ∃ e', Engine.build objs' = .ok e' ∧ e.Equiv e' := by
  obtain ⟨e', h'⟩ := (build_isOk_perm hp).mp ⟨e, h⟩
  refine ⟨e', h', ?_⟩
  obtain ⟨a1, a2, a3, a4, a5, a6⟩ := build_fields hk h
  obtain ⟨b1, b2, b3, b4, b5, _⟩ := build_fields (hk.perm hp) h'
  have hpods := podsIn_perm hp
  refine ⟨?_, ?_, ?_, ?_, ?_, ?_, ?_⟩
  · rw [a2, b2]
    exact foldl_addMissing_perm (fun x => (hpods.map _).mem_iff) (nssIn_perm hp) hk.nss
  · rw [a2]; exact foldl_addMissing_nodup _ hk.nss
  · rw [a1, b1]; exact hpods
  · rw [a1]; exact hk.pods
  · rw [a3, b3]; exact (npsOf_perm hp).map _
  · rw [a4, b4]; exact anp_order_free (anpsOf_perm hp) a6
  · apply option_eq_of_toList
    rw [a5, b5]
    have hc := ((build_ok_iff objs).mp ⟨e, h⟩).1
    exact perm_length_le_one (banpsOf_perm hp) hc.banp

/-- every pod of the engine `build` returns has its namespace object -/
theorem build_pod_ns {objs : List Obj} {e : Engine} (h : Engine.build objs = .ok e) {p : Pod}
    (hp : p ∈ e.pods) : ∃ n, e.findNs p.ns = some n := by
  obtain ⟨e1, _, _, he⟩ := build_ok_parts h
  rw [he, resolve_eq] at hp ⊢
  have : p.ns ∈ (List.foldl addMissing e1.namespaces (e1.pods.map (·.ns))).map (·.name) :=
    mem_foldl_addMissing_name _ _ (List.mem_map.mpr ⟨p, hp, rfl⟩)
  rw [← find?_name_isSome] at this
  exact Option.isSome_iff_exists.mp this

/-! ## C. `podOwnersMap` -/

/-- what `createPodOwnersMap` checks between two pods: pods filed under the same owner key, both
with an owner, have the same labels (as maps) -/
def LabelsAgree (p q : Pod) : Prop :=
  ownerKey p = ownerKey q → p.ownerName ≠ "" → q.ownerName ≠ "" →
    labelsEq p.labels q.labels = true

theorem LabelsAgree.symm {p q : Pod} (h : LabelsAgree p q) : LabelsAgree q p := by
  intro hk hq hp
  rw [labelsEq_symm]
  exact h hk.symm hp hq

/-- success of the loop: the pods agree pairwise -/
theorem go_ok_pairwise {firsts res r : List (String × Pod)} {l : List Pod}
    (h : podOwnersMapOf.go firsts res l = .ok r) : l.Pairwise LabelsAgree := by
  induction l generalizing firsts res with
  | nil => exact List.Pairwise.nil
  | cons p rest ih =>
    rw [go_cons] at h
    rw [List.pairwise_cons]
    split at h
    · rename_i h1
      refine ⟨?_, ih h⟩
      intro q _ _ hp
      exact absurd (by simpa using h1) hp
    · split at h
      · rename_i hfind
        refine ⟨?_, ih h⟩
        intro q hq hk _ hqo
        cases hl : labelsEq p.labels q.labels with
        | true => rfl
        | false =>
          have hf : (firsts ++ [(ownerKey p, p)]).find? (·.1 == ownerKey q) = some (ownerKey p, p) := by
            rw [List.find?_append, ← hk, hfind]
            simp
          rw [go_first_conflict hf hq hqo hl] at h
          cases h
      · rename_i k f hfind
        split at h
        · rename_i hfp
          refine ⟨?_, ih h⟩
          intro q hq hk _ hqo
          cases hl : labelsEq p.labels q.labels with
          | true => rfl
          | false =>
            have hfq : labelsEq f.labels q.labels = false := by
              cases hfq : labelsEq f.labels q.labels with
              | false => rfl
              | true =>
                have := labelsEq_trans (by rw [labelsEq_symm]; exact hfp) hfq
                rw [hl] at this; cases this
            rw [go_first_conflict (hk ▸ hfind) hq hqo hfq] at h
            cases h
        · cases h

/-- pairwise agreement: the loop succeeds. `firsts` holds pods with an owner, under their owner
key, that agree with every pod still to come. -/
theorem go_ok_of_pairwise {firsts res : List (String × Pod)} {l : List Pod}
    (hf : ∀ kf ∈ firsts, kf.1 = ownerKey kf.2 ∧ kf.2.ownerName ≠ "" ∧ ∀ q ∈ l, LabelsAgree kf.2 q)
    (h : l.Pairwise LabelsAgree) : ∃ r, podOwnersMapOf.go firsts res l = .ok r := by
  induction l generalizing firsts res with
  | nil => exact ⟨res, by simp [podOwnersMapOf.go]⟩
  | cons p rest ih =>
    rw [List.pairwise_cons] at h
    have hf' : ∀ kf ∈ firsts, kf.1 = ownerKey kf.2 ∧ kf.2.ownerName ≠ "" ∧
        ∀ q ∈ rest, LabelsAgree kf.2 q := fun kf hkf =>
      ⟨(hf kf hkf).1, (hf kf hkf).2.1, fun q hq => (hf kf hkf).2.2 q (List.mem_cons_of_mem _ hq)⟩
    rw [go_cons]
    split
    · exact ih hf' h.2
    · rename_i h1
      have hp : p.ownerName ≠ "" := by simpa using h1
      split
      · apply ih _ h.2
        intro kf hkf
        rcases List.mem_append.mp hkf with hm | hm
        · exact hf' kf hm
        · simp only [List.mem_singleton] at hm
          subst hm
          exact ⟨rfl, hp, h.1⟩
      · rename_i k f hfind
        have hm := List.mem_of_find?_eq_some hfind
        have hk : k = ownerKey p := by simpa using List.find?_some hfind
        obtain ⟨a1, a2, a3⟩ := hf _ hm
        simp only at a1 a2 a3
        have := a3 p (List.mem_cons_self ..) (by rw [← a1, hk]) a2 hp
        rw [this]
        simp only [if_true]
        exact ih hf' h.2

/-- `podOwnersMap` succeeds exactly when the pods agree pairwise -/
theorem podOwnersMap_ok_iff (e : Engine) :
    (∃ r, e.podOwnersMap = .ok r) ↔ e.pods.Pairwise LabelsAgree := by
  rw [← (sortedPods_perm e).pairwise_iff LabelsAgree.symm]
  unfold podOwnersMap podOwnersMapOf
  constructor
  · rintro ⟨r, h⟩; exact go_ok_pairwise h
  · intro h; exact go_ok_of_pairwise (by intro kf hkf; cases hkf) h

/-- success of `podOwnersMap` does not depend on the order of the pod map -/
theorem podOwnersMap_isOk_perm {e e' : Engine} (hp : e.pods.Perm e'.pods) :
    (∃ r, e.podOwnersMap = .ok r) ↔ (∃ r, e'.podOwnersMap = .ok r) := by
  rw [podOwnersMap_ok_iff, podOwnersMap_ok_iff]
  exact hp.pairwise_iff LabelsAgree.symm

/-- every pod is represented in the result under its workload name -/
theorem go_covers {firsts res r : List (String × Pod)} {l : List Pod}
    (h : podOwnersMapOf.go firsts res l = .ok r) :
    (∀ n ∈ res.map (·.1), n ∈ r.map (·.1)) ∧ ∀ p ∈ l, workloadName p ∈ r.map (·.1) := by
  induction l generalizing firsts res with
  | nil => simp [podOwnersMapOf.go] at h; subst h; exact ⟨fun n hn => hn, fun p hp => by cases hp⟩
  | cons p rest ih =>
    rw [go_cons] at h
    have key : ∀ firsts', podOwnersMapOf.go firsts' (upsert (·.1) (workloadName p, p) res) rest = .ok r →
        (∀ n ∈ res.map (·.1), n ∈ r.map (·.1)) ∧ ∀ q ∈ p :: rest, workloadName q ∈ r.map (·.1) := by
      intro firsts' h'
      obtain ⟨i1, i2⟩ := ih h'
      have hup : ∀ n, n ∈ res.map (·.1) ∨ n = workloadName p →
          n ∈ (upsert (·.1) (workloadName p, p) res).map (·.1) := by
        intro n hn
        rw [map_key_upsert]
        split
        · rcases hn with hn | hn
          · exact hn
          · subst hn; assumption
        · rcases hn with hn | hn
          · exact List.mem_append_left _ hn
          · subst hn; exact List.mem_append_right _ (by simp)
      refine ⟨fun n hn => i1 n (hup n (Or.inl hn)), ?_⟩
      intro q hq
      rcases List.mem_cons.mp hq with rfl | hq'
      · exact i1 _ (hup _ (Or.inr rfl))
      · exact i2 q hq'
    split at h
    · exact key _ h
    · split at h
      · exact key _ h
      · split at h
        · exact key _ h
        · cases h

/-- the facts about a successful `podOwnersMap` the report depends on: distinct names, every entry
is a pod of the engine under its workload name, every pod is represented -/
theorem podOwnersMap_facts {e : Engine} {owners : List (String × Pod)}
    (h : e.podOwnersMap = .ok owners) :
    (owners.map (·.1)).Nodup ∧ (∀ x ∈ owners, x.1 = workloadName x.2 ∧ x.2 ∈ e.pods) ∧
    ∀ p ∈ e.pods, workloadName p ∈ owners.map (·.1) := by
  refine ⟨ownerPeers_names_nodup h, ?_, ?_⟩
  · unfold podOwnersMap podOwnersMapOf at h
    exact go_forall (fun x => x.1 = workloadName x.2 ∧ x.2 ∈ e.pods) (by intro x hx; cases hx)
      (fun p hp => ⟨rfl, mem_sortedPods.mp hp⟩) h
  · unfold podOwnersMap podOwnersMapOf at h
    exact fun p hp => (go_covers h).2 p (mem_sortedPods.mpr hp)

/-! ### the pods in key order: the workload peers do not depend on the order of the pod map -/

/-- two pod maps with the same entries (unique keys) have the same key-sorted pod list -/
theorem sortedPods_perm_eq {e e' : Engine} (hp : e.pods.Perm e'.pods)
    (hn : (e.pods.map podKey).Nodup) : e.sortedPods = e'.sortedPods := by
  refine List.Perm.eq_of_pairwise (le := fun a b => podKey a ≤ podKey b) ?_ (sortedPods_sorted e)
    (sortedPods_sorted e')
    ((sortedPods_perm e).trans (hp.trans (sortedPods_perm e').symm))
  intro a b ha hb h1 h2
  exact eq_of_key_eq hn (mem_sortedPods.mp ha) (hp.mem_iff.mpr (mem_sortedPods.mp hb))
    (String.le_antisymm h1 h2)

/-- **the workload peers and the pods standing for them do not depend on the order of the pod
map** (sorted iteration of `createPodOwnersMap`) -/
theorem podOwnersMap_perm {e e' : Engine} (hp : e.pods.Perm e'.pods)
    (hn : (e.pods.map podKey).Nodup) : e.podOwnersMap = e'.podOwnersMap := by
  unfold podOwnersMap; rw [sortedPods_perm_eq hp hn]

/-! ## D. the NetworkPolicy layer -/

open ConnSet in
/-- no named and no excluded ports: the connection sets computed towards real pods and IP blocks -/
def Plain (c : ConnSet) : Prop := ∀ pr ps, c.get pr = some ps → ps.named = [] ∧ ps.excluded = []

theorem plain_mk (b : Bool) : Plain (ConnSet.mk' b) := by
  intro pr ps h; simp at h

theorem plain_checkIfAll {c : ConnSet} (h : Plain c) : Plain c.checkIfAll := by
  unfold ConnSet.checkIfAll
  split
  · exact plain_mk true
  · exact h

theorem portSet_union_plain {p o : PortSet} (hn : o.named = []) (he : o.excluded = []) :
    (p.union o).named = p.named ∧ (p.union o).excluded = p.excluded := by
  simp [PortSet.union, hn, he]

theorem plain_addConnection {c : ConnSet} (hc : Plain c) (pr : Proto) {ps : PortSet}
    (hps : ps.named = [] ∧ ps.excluded = []) : Plain (c.addConnection pr ps) := by
  cases ha : c.allowAll
  case true => rw [ConnSet.addConnection_of_allowAll ha]; exact hc
  rw [ConnSet.addConnection_of_not_allowAll ha]
  apply plain_checkIfAll
  unfold ConnSet.addConnectionRaw
  split
  · exact hc
  · split
    · rename_i cur hcur
      intro pr' ps' hg
      rw [ConnSet.get_set] at hg
      split at hg
      · cases hg
        obtain ⟨u1, u2⟩ := portSet_union_plain (p := cur) hps.1 hps.2
        rw [u1, u2]
        exact hc _ _ hcur
      · exact hc _ _ hg
    · intro pr' ps' hg
      rw [ConnSet.get_set] at hg
      split at hg
      · cases hg
        exact hps
      · exact hc _ _ hg

theorem plain_union {c o : ConnSet} (hc : Plain c) (ho : Plain o) : Plain (c.union o) := by
  unfold ConnSet.union
  split
  · exact hc
  · split
    · exact plain_mk true
    · apply plain_checkIfAll
      intro pr ps hg
      rw [ConnSet.get_mapProtos] at hg
      split at hg
      · rename_i ports op h1 h2
        cases hg
        obtain ⟨u1, u2⟩ := portSet_union_plain (p := ports) (ho _ _ h2).1 (ho _ _ h2).2
        rw [u1, u2]
        exact hc _ _ h1
      · rename_i ports h1 h2
        cases hg
        exact hc _ _ h1
      · rename_i op h1 h2
        cases hg
        exact ho _ _ h2
      · cases hg

/-- canonical sets without named / excluded ports are determined by what they denote -/
theorem eq_of_den_plain {c d : ConnSet} (hc : c.Canonical) (hd : d.Canonical) (pc : Plain c)
    (pd : Plain d) (h : ∀ pr x, c.den pr x ↔ d.den pr x) : c = d := by
  have names : ∀ {c : ConnSet}, Plain c → ∀ pr, c.names pr = [] := by
    intro c pc pr
    cases hg : c.get pr with
    | none => exact ConnSet.names_of_get_none hg
    | some ps => rw [ConnSet.names_of_get hg]; exact (pc _ _ hg).1
  exact ConnSet.eq_of_den hc hd (names pc) (fun pr ps hg => (pc pr ps hg).2) (names pd)
    (fun pr ps hg => (pd pr ps hg).2) h

theorem _root_.Netpol.KPeer.DstOK.real {k : KPeer} (h : k.DstOK) : k.isRepresentative = false := by
  cases k with
  | pod p ns => exact h.1
  | ip r => rfl

/-- towards a real peer a port clause never yields a named or an excluded port -/
theorem portSetOf_plain {q : NPPort} {d : KPeer} (hd : d.isRepresentative = false) {ps : PortSet}
    (h : NetPol.portSetOf q (some d) = .ok ps) : ps.named = [] ∧ ps.excluded = [] := by
  unfold NetPol.portSetOf at h
  split at h
  · cases h; exact ⟨rfl, rfl⟩
  · cases hpr : NetPol.portsRange q (some d) with
    | error err => rw [hpr] at h; cases h
    | ok t =>
      obtain ⟨s, e, name⟩ := t
      rw [hpr] at h
      simp only [bind, Except.bind, pure, Except.pure, hd, Bool.false_and, Bool.false_eq_true,
        if_false, Except.ok.injEq] at h
      subst h
      split <;> exact ⟨rfl, rfl⟩

theorem rcFold_plain {d : KPeer} (hd : d.isRepresentative = false) (ports : List NPPort)
    {c0 c : ConnSet} (h0 : Plain c0) (h : ports.foldlM (NetPol.rcStep (some d)) c0 = .ok c) :
    Plain c := by
  induction ports generalizing c0 with
  | nil => cases h; exact h0
  | cons q rest ih =>
    rw [List.foldlM_cons] at h
    cases hps : NetPol.portSetOf q (some d) with
    | error err =>
      have : NetPol.rcStep (some d) c0 q = .error err := by simp only [NetPol.rcStep, hps]; rfl
      rw [this] at h; cases h
    | ok ps =>
      have : NetPol.rcStep (some d) c0 q = .ok (c0.addConnection (q.proto.getD .TCP) ps) := by
        simp only [NetPol.rcStep, hps]; rfl
      rw [this] at h
      exact ih (plain_addConnection h0 _ (portSetOf_plain hd hps)) h

theorem ruleConnections_plain {d : KPeer} (hd : d.isRepresentative = false) (ports : List NPPort)
    {c : ConnSet} (h : NetPol.ruleConnections ports (some d) = .ok c) : Plain c := by
  rw [NetPol.ruleConnections_eq] at h
  split at h
  · cases h; exact plain_mk true
  · exact rcFold_plain hd ports (plain_mk false) h

/-- the test of one rule peer against a peer -/
def peerSel (np : NetPol) (k : KPeer) (rp : NPPeer) : Bool :=
  match rp, k with
  | .sel podSel nsSel, .pod p nso =>
    (match nsSel with
      | none => NetPol.nsMatchNil np p
      | some s => NetPol.selectorsMatch s p.reprNsSel ((nso.map (fun n : NsObj => n.labels)).getD []) p.isRepresentative) &&
    (match podSel with
      | none => true
      | some s => NetPol.selectorsMatch s p.reprPodSel p.labels p.isRepresentative)
  | .ip c ex, .ip r => CSet.isSubset r (NetPol.ipBlockSet c ex)
  | _, _ => false

open NetPol.ruleSelectsPeer in
/-- without empty rule peers, `ruleSelectsPeer` is "some rule peer selects the peer": it never
fails and does not depend on the order of the rule peers -/
theorem ruleSelectsPeer_go_any (np : NetPol) (k : KPeer) (peers : List NPPeer)
    (hne : ∀ rp ∈ peers, rp ≠ .sel none none) :
    NetPol.ruleSelectsPeer.go np k peers = .ok (peers.any (peerSel np k)) := by
  induction peers with
  | nil => rfl
  | cons rp rest ih =>
    have ih' := ih (fun rp' h => hne rp' (List.mem_cons_of_mem _ h))
    have hrp := hne rp (List.mem_cons_self ..)
    rw [List.any_cons]
    cases rp with
    | ip c ex =>
      cases k with
      | pod p nso => rw [go_ip_pod, ih']; rfl
      | ip r =>
        rw [go_ip_ip, ih']
        simp only [peerSel]
        split <;> simp_all
    | sel podSel nsSel =>
      cases k with
      | ip r => rw [go_sel_ip np rest r podSel nsSel hrp, ih']; rfl
      | pod p nso =>
        rw [go_sel_pod np rest p nso podSel nsSel hrp, ih']
        generalize (rest.any (peerSel np (.pod p nso))) = B
        cases podSel <;> cases nsSel <;> simp only [peerSel]
        · exact absurd rfl hrp
        · generalize NetPol.selectorsMatch _ _ _ _ = X
          cases X <;> simp
        · generalize NetPol.nsMatchNil _ _ = X
          cases X
          · simp
          · simp only [Bool.not_true, Bool.false_eq_true, if_false, Bool.true_and]
            split <;> simp_all
        · generalize NetPol.selectorsMatch _ p.reprNsSel _ _ = X
          cases X
          · simp
          · simp only [Bool.not_true, Bool.false_eq_true, if_false, Bool.true_and]
            split <;> simp_all

theorem ruleSelectsPeer_any (np : NetPol) (k : KPeer) (peers : List NPPeer)
    (hne : ∀ rp ∈ peers, rp ≠ .sel none none) :
    np.ruleSelectsPeer peers k = .ok (peers.isEmpty || peers.any (peerSel np k)) := by
  unfold NetPol.ruleSelectsPeer
  cases he : peers.isEmpty
  · simp only [Bool.false_eq_true, if_false, Bool.false_or]
    exact ruleSelectsPeer_go_any np k peers hne
  · rfl

open NetPol.allowedConns in
/-- the result of `allowedConns` is canonical and plain; its only error is the named port towards
an IP block (no assumption on `other`) -/
theorem allowedConns_go_struct (np : NetPol) (other dst : KPeer) (hd : dst.DstOK)
    (rules : List NPRule) (hv : ∀ r ∈ rules, r.Valid) (res : ConnSet) (hcan : res.Canonical)
    (hpl : Plain res) :
    (∀ c, go np other dst res rules = .ok c → c.Canonical ∧ Plain c) ∧
    (∀ err, go np other dst res rules = .error err → err = .namedPortOnIP) := by
  induction rules generalizing res with
  | nil =>
    rw [NetPol.allowedConns.go_nil]
    exact ⟨fun c h => (by cases h; exact ⟨hcan, hpl⟩), fun err h => (by cases h)⟩
  | cons r rest ih =>
    have hr := hv r (List.mem_cons_self ..)
    have ih' := ih (fun r' h => hv r' (List.mem_cons_of_mem _ h))
    rw [NetPol.allowedConns.go_cons, ruleSelectsPeer_any np other r.peers hr.2]
    simp only [bind, Except.bind]
    cases hsel : (r.peers.isEmpty || r.peers.any (peerSel np other))
    · simp only [Bool.not_false, if_true]
      exact ih' res hcan hpl
    · simp only [Bool.not_true, Bool.false_eq_true, if_false]
      cases hrc : NetPol.ruleConnections r.ports (some dst) with
      | error err =>
        simp only []
        refine ⟨fun c h => (by cases h), fun err' h => ?_⟩
        cases h
        exact (NetPol.ruleConnections_dst_err r.ports dst hd hr.1 err hrc).1
      | ok rc =>
        simp only []
        obtain ⟨hw, _, _⟩ := NetPol.ruleConnections_dst_ok r.ports dst 0 hd hr.1 rc hrc
        have hcan' := ConnSet.canonical_union_wfe hcan hw
        have hpl' := plain_union hpl (ruleConnections_plain hd.real r.ports hrc)
        exact ih' _ hcan' hpl'

/-- the NetworkPolicies of an engine are as the API server accepts them -/
def NPValid (nps : List NetPol) : Prop :=
  ∀ np ∈ nps, (∀ r ∈ np.ingress, r.Valid) ∧ (∀ r ∈ np.egress, r.Valid)

theorem npStep_struct {np : NetPol} (hv : (∀ r ∈ np.ingress, r.Valid) ∧ (∀ r ∈ np.egress, r.Valid))
    (src dst : KPeer) (hd : dst.DstOK) (isIngress : Bool) :
    (∀ c, npStep src dst isIngress np = .ok c → c.Canonical ∧ Plain c) ∧
    (∀ err, npStep src dst isIngress np = .error err → err = .namedPortOnIP) := by
  cases isIngress
  · exact allowedConns_go_struct np dst dst hd np.egress hv.2 _ (ConnSet.canonical_mk false)
      (plain_mk false)
  · exact allowedConns_go_struct np src dst hd np.ingress hv.1 _ (ConnSet.canonical_mk false)
      (plain_mk false)

theorem npFold_ok_all (src dst : KPeer) (isIngress : Bool) {pols : List NetPol} {acc res : ConnSet}
    (h : pols.foldlM (npFold src dst isIngress) acc = .ok res) :
    ∀ np ∈ pols, ∃ c, npStep src dst isIngress np = .ok c := by
  induction pols generalizing acc with
  | nil => intro np hnp; cases hnp
  | cons np rest ih =>
    rw [List.foldlM_cons] at h
    cases hs : npStep src dst isIngress np with
    | error err =>
      have : npFold src dst isIngress acc np = .error err := by simp only [npFold, hs]; rfl
      rw [this] at h; cases h
    | ok c =>
      have : npFold src dst isIngress acc np = .ok (acc.union c) := by simp only [npFold, hs]; rfl
      rw [this] at h
      intro np' hnp'
      rcases List.mem_cons.mp hnp' with rfl | hm
      · exact ⟨c, hs⟩
      · exact ih h np' hm

theorem npFold_struct (src dst : KPeer) (isIngress : Bool) (pols : List NetPol)
    (hstep : ∀ np ∈ pols, ∀ c, npStep src dst isIngress np = .ok c → c.Canonical ∧ Plain c)
    (acc : ConnSet) (hacc : acc.Canonical ∧ Plain acc) {res : ConnSet}
    (h : pols.foldlM (npFold src dst isIngress) acc = .ok res) : res.Canonical ∧ Plain res := by
  induction pols generalizing acc with
  | nil => cases h; exact hacc
  | cons np rest ih =>
    rw [List.foldlM_cons] at h
    cases hs : npStep src dst isIngress np with
    | error err =>
      have : npFold src dst isIngress acc np = .error err := by simp only [npFold, hs]; rfl
      rw [this] at h; cases h
    | ok c =>
      have : npFold src dst isIngress acc np = .ok (acc.union c) := by simp only [npFold, hs]; rfl
      rw [this] at h
      obtain ⟨hc, hp⟩ := hstep np (List.mem_cons_self ..) c hs
      exact ih (fun np' h' => hstep np' (List.mem_cons_of_mem _ h')) _
        ⟨ConnSet.canonical_union hacc.1.1 hc.1 (fun _ => hacc.1.2), plain_union hacc.2 hp⟩ h

/-- the union over the selecting policies does not depend on their order: connection-set union is
commutative, associative and idempotent on canonical plain values, and all failures are of one
class -/
theorem npFold_perm (src dst : KPeer) (isIngress : Bool) {pols pols' : List NetPol}
    (hp : pols.Perm pols')
    (hstep : ∀ np ∈ pols, (∀ c, npStep src dst isIngress np = .ok c → c.Canonical ∧ Plain c) ∧
      (∀ err, npStep src dst isIngress np = .error err → err = .namedPortOnIP)) :
    pols.foldlM (npFold src dst isIngress) (ConnSet.mk' false) =
      pols'.foldlM (npFold src dst isIngress) (ConnSet.mk' false) := by
  have hstep' : ∀ np ∈ pols', (∀ c, npStep src dst isIngress np = .ok c → c.Canonical ∧ Plain c) ∧
      (∀ err, npStep src dst isIngress np = .error err → err = .namedPortOnIP) :=
    fun np h => hstep np (hp.mem_iff.mpr h)
  let P : NetPol → Proto → Int → Prop := fun np pr x =>
    ∃ c, npStep src dst isIngress np = .ok c ∧ c.den pr x
  have spec : ∀ l : List NetPol, (∀ np ∈ l,
      (∀ c, npStep src dst isIngress np = .ok c → c.Canonical ∧ Plain c) ∧
      (∀ err, npStep src dst isIngress np = .error err → err = .namedPortOnIP)) →
      (∀ res, l.foldlM (npFold src dst isIngress) (ConnSet.mk' false) = .ok res →
        res.WF ∧ ∀ pr x, res.den pr x ↔ (ConnSet.mk' false).den pr x ∨ ∃ np ∈ l, P np pr x) ∧
      (∀ err, l.foldlM (npFold src dst isIngress) (ConnSet.mk' false) = .error err →
        ∃ np ∈ l, npStep src dst isIngress np = .error err) := by
    intro l hl
    refine npFold_spec src dst isIngress P l ?_ (ConnSet.mk' false) (ConnSet.wf_mk false)
    intro np hnp c hc
    refine ⟨((hl np hnp).1 c hc).1.1, fun pr x => ?_⟩
    constructor
    · intro h; exact ⟨c, hc, h⟩
    · rintro ⟨c', hc', h⟩
      rw [hc] at hc'; cases hc'; exact h
  obtain ⟨s1, s2⟩ := spec pols hstep
  obtain ⟨s1', s2'⟩ := spec pols' hstep'
  cases h : pols.foldlM (npFold src dst isIngress) (ConnSet.mk' false) with
  | ok res =>
    cases h' : pols'.foldlM (npFold src dst isIngress) (ConnSet.mk' false) with
    | ok res' =>
      congr 1
      obtain ⟨_, d1⟩ := s1 res h
      obtain ⟨_, d2⟩ := s1' res' h'
      obtain ⟨c1, p1⟩ := npFold_struct src dst isIngress pols (fun np hnp => (hstep np hnp).1) _
        ⟨ConnSet.canonical_mk false, plain_mk false⟩ h
      obtain ⟨c2, p2⟩ := npFold_struct src dst isIngress pols' (fun np hnp => (hstep' np hnp).1) _
        ⟨ConnSet.canonical_mk false, plain_mk false⟩ h'
      apply eq_of_den_plain c1 c2 p1 p2
      intro pr x
      rw [d1, d2]
      constructor
      · rintro (hx | ⟨np, hnp, hx⟩)
        · exact Or.inl hx
        · exact Or.inr ⟨np, hp.mem_iff.mp hnp, hx⟩
      · rintro (hx | ⟨np, hnp, hx⟩)
        · exact Or.inl hx
        · exact Or.inr ⟨np, hp.mem_iff.mpr hnp, hx⟩
    | error err =>
      obtain ⟨np, hnp, herr⟩ := s2' err h'
      obtain ⟨c, hc⟩ := npFold_ok_all src dst isIngress h np (hp.mem_iff.mpr hnp)
      rw [hc] at herr; cases herr
  | error err =>
    obtain ⟨np, hnp, herr⟩ := s2 err h
    have e1 := (hstep np hnp).2 err herr
    cases h' : pols'.foldlM (npFold src dst isIngress) (ConnSet.mk' false) with
    | ok res' =>
      obtain ⟨c, hc⟩ := npFold_ok_all src dst isIngress h' np (hp.mem_iff.mp hnp)
      rw [hc] at herr; cases herr
    | error err' =>
      obtain ⟨np', hnp', herr'⟩ := s2' err' h'
      rw [e1, (hstep' np' hnp').2 err' herr']

/-- **the NetworkPolicy layer does not depend on the order of the policies** -/
theorem netpolConns_perm {e e' : Engine} (hp : e.netpols.Perm e'.netpols) (hv : NPValid e.netpols)
    (src dst : KPeer) (hd : dst.DstOK) (isIngress : Bool) :
    e.netpolConns src dst isIngress = e'.netpolConns src dst isIngress := by
  rw [netpolConns_eq, netpolConns_eq]
  have hpol : (e.policiesSelecting (selfPeer src dst isIngress) (dirOf isIngress)).Perm
      (e'.policiesSelecting (selfPeer src dst isIngress) (dirOf isIngress)) := by
    cases selfPeer src dst isIngress with
    | ip r => exact List.Perm.refl _
    | pod p ns =>
      rw [policiesSelecting_pod, policiesSelecting_pod]
      exact (sortByName_perm _).trans ((hp.filter _).trans (sortByName_perm _).symm)
  rw [hpol.isEmpty_eq]
  split
  · rfl
  · rw [npFold_perm src dst isIngress hpol]
    intro np hnp
    have hm : np ∈ e.netpols := policiesSelecting_sub hnp
    exact npStep_struct (hv np hm) src dst hd isIngress

/-! ### the policies are visited in the order of their names

`getPoliciesSelectingPod` sorts the selecting policies by name, so on two engines that hold the same
policies (unique keys) the *same list* is visited: the NetworkPolicy layer — of `list` and of
`eval` alike — is the same computation, whatever the rules are (no validity is needed). -/

theorem insertByName_sorted (p : NetPol) {l : List NetPol}
    (h : l.Pairwise (fun a b => a.name ≤ b.name)) :
    (insertByName p l).Pairwise (fun a b => a.name ≤ b.name) := by
  induction l with
  | nil => simp [insertByName]
  | cons q qs ih =>
    rw [List.pairwise_cons] at h
    unfold insertByName
    split
    · rename_i hle
      rw [List.pairwise_cons]
      refine ⟨?_, List.pairwise_cons.mpr h⟩
      intro x hx
      rcases List.mem_cons.mp hx with rfl | hx'
      · exact hle
      · exact String.le_trans hle (h.1 x hx')
    · rename_i hle
      have hqp : q.name ≤ p.name := by
        rcases String.le_total p.name q.name with h1 | h1
        · exact absurd h1 hle
        · exact h1
      rw [List.pairwise_cons]
      refine ⟨?_, ih h.2⟩
      intro x hx
      rcases List.mem_cons.mp ((insertByName_perm p qs).mem_iff.mp hx) with rfl | hx'
      · exact hqp
      · exact h.1 x hx'

theorem sortByName_sorted (l : List NetPol) :
    (sortByName l).Pairwise (fun a b => a.name ≤ b.name) := by
  induction l with
  | nil => exact List.Pairwise.nil
  | cons p l ih => exact insertByName_sorted p ih

theorem selects_ns {np : NetPol} {p : Pod} {d : Dir} (h : np.selects p d = true) : p.ns = np.ns := by
  unfold NetPol.selects at h
  split at h
  · cases h
  · rename_i hne
    simpa using hne

/-- two engines that hold the same policies (unique keys) visit the same list of policies -/
theorem policiesSelecting_perm_eq {e e' : Engine} (hp : e.netpols.Perm e'.netpols)
    (hn : (e.netpols.map (fun q => (q.ns, q.name))).Nodup) (k : KPeer) (d : Dir) :
    e.policiesSelecting k d = e'.policiesSelecting k d := by
  cases k with
  | ip r => rfl
  | pod p ns =>
    rw [policiesSelecting_pod, policiesSelecting_pod]
    refine List.Perm.eq_of_pairwise (le := fun a b => a.name ≤ b.name) ?_ (sortByName_sorted _)
      (sortByName_sorted _)
      ((sortByName_perm _).trans ((hp.filter _).trans (sortByName_perm _).symm))
    intro a b ha hb h1 h2
    have ha' := List.mem_filter.mp (mem_sortByName.mp ha)
    have hb' := List.mem_filter.mp (mem_sortByName.mp hb)
    have hb'' : b ∈ e.netpols := hp.mem_iff.mpr hb'.1
    -- same namespace (that of the pod), same name: the same key, hence the same policy
    have hkey : (a.ns, a.name) = (b.ns, b.name) := by
      rw [← selects_ns ha'.2, ← selects_ns hb'.2, String.le_antisymm h1 h2]
    clear h1 h2 ha hb
    have : ∀ l : List NetPol, (l.map (fun q => (q.ns, q.name))).Nodup → a ∈ l → b ∈ l → a = b := by
      intro l hl hal hbl
      induction l with
      | nil => cases hal
      | cons z zs ih =>
        rw [List.map_cons, List.nodup_cons] at hl
        rcases List.mem_cons.mp hal with rfl | ha2 <;> rcases List.mem_cons.mp hbl with rfl | hb2
        · rfl
        · exact absurd (List.mem_map.mpr ⟨b, hb2, hkey.symm⟩) hl.1
        · exact absurd (List.mem_map.mpr ⟨a, ha2, hkey⟩) hl.1
        · exact ih hl.2 ha2 hb2
    exact this _ hn ha'.1 hb''

/-- the NetworkPolicy layer on two engines that hold the same policies: the same computation -/
theorem netpolConns_perm_eq {e e' : Engine} (hp : e.netpols.Perm e'.netpols)
    (hn : (e.netpols.map (fun q => (q.ns, q.name))).Nodup) (src dst : KPeer) (isIngress : Bool) :
    e.netpolConns src dst isIngress = e'.netpolConns src dst isIngress := by
  rw [netpolConns_eq, netpolConns_eq, policiesSelecting_perm_eq hp hn]

/-- the policy map of the engine `build` returns has unique keys -/
theorem build_netpols_nodup {objs : List Obj} {e : Engine} (h : Engine.build objs = .ok e) :
    (e.netpols.map (fun q => (q.ns, q.name))).Nodup := by
  obtain ⟨e1, hf, _, he⟩ := build_ok_parts h
  have := (fold_keys_nodup hf ⟨by simp, by simp⟩).1
  rw [he, resolve_eq]
  exact this

/-! ## E. `peerConns` on equivalent engines and similar peers -/

theorem anpConns_equiv {e e' : Engine} (h : e.anps = e'.anps) (src dst : KPeer) (i : Bool) :
    e.anpConns src dst i = e'.anpConns src dst i := by
  unfold anpConns; rw [h]

theorem defaultConns_equiv {e e' : Engine} (h : e.banp = e'.banp) (src dst : KPeer) (i : Bool) :
    e.defaultConns src dst i = e'.defaultConns src dst i := by
  unfold defaultConns; rw [h]

theorem xgressConns_equiv {e e' : Engine} (h : e.Equiv e') (hv : NPValid e.netpols)
    (src dst : KPeer) (hd : dst.DstOK) (i : Bool) :
    e.xgressConns src dst i = e'.xgressConns src dst i := by
  unfold xgressConns
  rw [anpConns_equiv h.anps, defaultConns_equiv h.banp, netpolConns_perm h.netpols hv src dst hd]

/-- **one pair, two equivalent engines**: the same connection set or the same error -/
theorem peerConns_equiv {e e' : Engine} (h : e.Equiv e') (hv : NPValid e.netpols)
    (src dst : KPeer) (hd : dst.DstOK) : e.peerConns src dst = e'.peerConns src dst := by
  unfold peerConns
  rw [xgressConns_equiv h hv src dst hd false, xgressConns_equiv h hv src dst hd true]

/-- one pair on two equivalent engines whose policy maps have unique keys: the same computation,
whatever the rules and the destination (no validity is needed: the policies are visited in the
order of their names) -/
theorem peerConns_equiv' {e e' : Engine} (h : e.Equiv e')
    (hn : (e.netpols.map (fun q => (q.ns, q.name))).Nodup) (src dst : KPeer) :
    e.peerConns src dst = e'.peerConns src dst := by
  have hx : ∀ i, e.xgressConns src dst i = e'.xgressConns src dst i := by
    intro i
    unfold xgressConns
    rw [anpConns_equiv h.anps, defaultConns_equiv h.banp, netpolConns_perm_eq h.netpols hn]
  unfold peerConns
  rw [hx false, hx true]

theorem netpolConns_err_class {e : Engine} (hv : NPValid e.netpols) (src dst : KPeer)
    (hd : dst.DstOK) (i : Bool) {err : Err} (h : e.netpolConns src dst i = .error err) :
    err = .namedPortOnIP := by
  rw [netpolConns_eq] at h
  split at h
  · cases h
  · cases hf : (e.policiesSelecting (selfPeer src dst i) (dirOf i)).foldlM
        (npFold src dst i) (ConnSet.mk' false) with
    | ok res => rw [hf] at h; cases h
    | error err' =>
      rw [hf] at h
      cases h
      -- the failing policy
      have : ∃ np ∈ e.policiesSelecting (selfPeer src dst i) (dirOf i),
          npStep src dst i np = .error err := by
        generalize e.policiesSelecting (selfPeer src dst i) (dirOf i) = pols at hf
        generalize ConnSet.mk' false = acc at hf
        induction pols generalizing acc with
        | nil => cases hf
        | cons np rest ih =>
          rw [List.foldlM_cons] at hf
          cases hs : npStep src dst i np with
          | error err' =>
            have : npFold src dst i acc np = .error err' := by simp only [npFold, hs]; rfl
            rw [this] at hf; cases hf
            exact ⟨np, List.mem_cons_self .., hs⟩
          | ok c =>
            have : npFold src dst i acc np = .ok (acc.union c) := by simp only [npFold, hs]; rfl
            rw [this] at hf
            obtain ⟨np', h1, h2⟩ := ih _ hf
            exact ⟨np', List.mem_cons_of_mem _ h1, h2⟩
      obtain ⟨np, hnp, herr⟩ := this
      have hm : np ∈ e.netpols := policiesSelecting_sub hnp
      exact (npStep_struct (hv np hm) src dst hd i).2 err herr

/-- on valid objects the only failure of one direction is the named port towards an IP block -/
theorem xgressConns_err_class {e : Engine} (hv : e.Valid) (src dst : KPeer) (hd : dst.DstOK)
    (i : Bool) {err : Err} (h : e.xgressConns src dst i = .error err) : err = .namedPortOnIP := by
  obtain ⟨pc, cap, hanp, _⟩ := anpConns_spec e hv src dst hd.validPorts i
  obtain ⟨dd, hdflt, _⟩ := defaultConns_spec e hv src dst hd.validPorts i
  unfold xgressConns at h
  rw [hanp, hdflt] at h
  simp only [bind, Except.bind, pure, Except.pure] at h
  split at h
  · cases h
  · cases hnp : e.netpolConns src dst i with
    | error err' =>
      rw [hnp] at h
      cases h
      exact netpolConns_err_class hv.npRules src dst hd i hnp
    | ok o =>
      rw [hnp] at h
      cases o with
      | none => cases h
      | some npc =>
        simp only at h
        split at h <;> cases h

theorem peerConns_err_class {e : Engine} (hv : e.Valid) (src dst : KPeer) (hd : dst.DstOK)
    {err : Err} (h : e.peerConns src dst = .error err) : err = .namedPortOnIP := by
  unfold peerConns at h
  split at h
  · cases h
  · cases h1 : e.xgressConns src dst false with
    | error err' =>
      rw [h1] at h
      cases h
      exact xgressConns_err_class hv src dst hd false h1
    | ok res =>
      rw [h1] at h
      simp only [bind, Except.bind, pure, Except.pure] at h
      split at h
      · cases h
      · cases h2 : e.xgressConns src dst true with
        | error err' =>
          rw [h2] at h
          cases h
          exact xgressConns_err_class hv src dst hd true h2
        | ok ing => rw [h2] at h; cases h

/-! ### similar peers -/

/-- the name `isFocus` compares with the focus workload -/
def focusName (p : Pod) : String := if p.ownerName == "" then p.name else p.ownerName

/-- two pods that may stand for the same workload peer: they agree on everything the report reads
from the standing pod — namespace, labels, container ports, the name the focus option is compared
with — and are real pods. (The pod name itself may differ: replicas.) -/
structure SamePeer (p q : Pod) : Prop where
  ns : p.ns = q.ns
  labels : p.labels = q.labels
  ports : p.ports = q.ports
  fname : focusName p = focusName q
  real : p.isRepresentative = false
  real' : q.isRepresentative = false

instance (p q : Pod) : Decidable (SamePeer p q) :=
  decidable_of_iff (p.ns = q.ns ∧ p.labels = q.labels ∧ p.ports = q.ports ∧
      focusName p = focusName q ∧ p.isRepresentative = false ∧ q.isRepresentative = false)
    ⟨fun ⟨a, b, c, d, e, f⟩ => ⟨a, b, c, d, e, f⟩, fun ⟨a, b, c, d, e, f⟩ => ⟨a, b, c, d, e, f⟩⟩

theorem SamePeer.symm {p q : Pod} (h : SamePeer p q) : SamePeer q p :=
  ⟨h.ns.symm, h.labels.symm, h.ports.symm, h.fname.symm, h.real', h.real⟩

theorem SamePeer.podSim {p q : Pod} (h : SamePeer p q) : PodSim p q :=
  ⟨h.ns, h.labels, h.ports, h.real, h.real'⟩

/-- similar peers of the evaluation layer -/
inductive KSim : KPeer → KPeer → Prop
  | ip (r : CSet) : KSim (.ip r) (.ip r)
  | pod {p p' : Pod} (n : NsObj) (h : SamePeer p p') : KSim (.pod p (some n)) (.pod p' (some n))

/-- similar peers of the report -/
inductive LSim : LPeer → LPeer → Prop
  | ip (r : Iv) : LSim (.ip r) (.ip r)
  | wl (n : String) {p p' : Pod} (h : SamePeer p p') : LSim (.wl n p) (.wl n p')

theorem LSim.symm {s s' : LPeer} (h : LSim s s') : LSim s' s := by
  cases h with
  | ip r => exact .ip r
  | wl n h => exact .wl n h.symm

theorem LSim.str {s s' : LPeer} (h : LSim s s') : s.str = s'.str := by cases h <;> rfl
theorem LSim.isIP {s s' : LPeer} (h : LSim s s') : s.isIP = s'.isIP := by cases h <;> rfl

theorem LSim.isFocus {s s' : LPeer} (h : LSim s s') (f : String) : isFocus f s = isFocus f s' := by
  cases h with
  | ip r => rfl
  | wl n h =>
    have h1 := h.fname
    unfold focusName at h1
    simp only [Engine.isFocus, h1, h.ns]

/-- the destination pod of a report peer has legal container ports -/
def _root_.Netpol.Engine.LPeer.PortsOK : LPeer → Prop
  | .wl _ p => p.ValidPorts
  | .ip _ => True

/-- two report peers do not stand on the same pod (name and namespace) -/
def _root_.Netpol.Engine.LPeer.SelfFree : LPeer → LPeer → Prop
  | .wl _ p, .wl _ q => ¬ (p.name = q.name ∧ p.ns = q.ns)
  | _, _ => True

theorem toKPeer_sim {e e' : Engine} (h : e.Equiv e') {s s' : LPeer} (hs : LSim s s') :
    (e.toKPeer s = .error .missingNamespace ∧ e'.toKPeer s' = .error .missingNamespace) ∨
    ∃ ks ks', e.toKPeer s = .ok ks ∧ e'.toKPeer s' = .ok ks' ∧ KSim ks ks' := by
  cases hs with
  | ip r => exact Or.inr ⟨_, _, rfl, rfl, .ip [r]⟩
  | wl n hp =>
    rename_i p p'
    simp only [toKPeer, hp.real, hp.real', Bool.and_false, Bool.false_eq_true, if_false]
    rw [← h.findNs, ← hp.ns]
    cases e.findNs p.ns with
    | none => exact Or.inl ⟨rfl, rfl⟩
    | some ns => exact Or.inr ⟨_, _, rfl, rfl, .pod ns hp⟩

theorem toKPeer_wl_pod {e : Engine} {m : String} {q : Pod} {k : KPeer}
    (h : e.toKPeer (.wl m q) = .ok k) : ∃ a, k = .pod q a := by
  simp only [toKPeer] at h
  split at h
  · cases h; exact ⟨_, rfl⟩
  · split at h
    · cases h
    · cases h; exact ⟨_, rfl⟩

theorem isPodToItself_false_of_selfFree {s d : LPeer} (h : LPeer.SelfFree s d) {e : Engine}
    {ks kd : KPeer} (hs : e.toKPeer s = .ok ks) (hd : e.toKPeer d = .ok kd) :
    isPodToItself ks kd = false := by
  cases s with
  | ip r => cases hs; rfl
  | wl n p =>
    cases d with
    | ip r => cases hd; cases ks <;> rfl
    | wl m q =>
      have hks := toKPeer_wl_pod hs
      have hkd := toKPeer_wl_pod hd
      obtain ⟨a, rfl⟩ := hks
      obtain ⟨b, rfl⟩ := hkd
      have : ¬ (p.name = q.name ∧ p.ns = q.ns) := h
      simp only [isPodToItself, Bool.and_eq_false_iff, beq_eq_false_iff_ne, ne_eq]
      by_cases h1 : p.name = q.name
      · exact Or.inl (Or.inr (fun h2 => this ⟨h1, h2⟩))
      · exact Or.inl (Or.inl h1)

/-- **one pair, two equivalent engines, similar peers**: the same connection set or error -/
theorem peerConns_sim {e e' : Engine} (h : e.Equiv e') (hv : NPValid e.netpols)
    {ks ks' kd kd' : KPeer} (hs : KSim ks ks') (hd : KSim kd kd') (hok : kd.DstOK)
    (h1 : isPodToItself ks kd = false) (h2 : isPodToItself ks' kd' = false) :
    e.peerConns ks kd = e'.peerConns ks' kd' := by
  rw [peerConns_equiv h hv ks kd hok]
  cases hs with
  | ip r =>
    cases hd with
    | ip r2 => rfl
    | pod n hq =>
      exact (Netpol.Properties.C17.peerConns_congr (some n) hq.podSim e' (.ip r)).2 rfl
  | pod n hp =>
    cases hd with
    | ip r2 =>
      exact (Netpol.Properties.C17.peerConns_congr (some n) hp.podSim e' (.ip r2)).1 rfl
    | pod m hq =>
      exact Netpol.Properties.C17.peerConns_congr_both (some n) (some m) hp.podSim hq.podSim e'
        (h1.trans h2.symm)

/-- what the report prints of an entry -/
def entryKey (x : Entry) : String × String × ConnSet := (x.src.str, x.dst.str, x.conn)

/-- **one pair of the loop**: the same contribution (up to the standing pods) or the same error -/
theorem pairEntry_sim {e e' : Engine} (h : e.Equiv e') (hv : NPValid e.netpols) (focus : String)
    {s s' d d' : LPeer} (hs : LSim s s') (hd : LSim d d') (hok : d.PortsOK)
    (hf : s.str ≠ d.str → LPeer.SelfFree s d) (hf' : s.str ≠ d.str → LPeer.SelfFree s' d') :
    (pairEntry e focus s d).map (·.map entryKey) = (pairEntry e' focus s' d').map (·.map entryKey) := by
  unfold pairEntry
  rw [← hs.isIP, ← hd.isIP, ← hs.str, ← hd.str, ← hs.isFocus, ← hd.isFocus]
  split
  · rfl
  split
  · rfl
  rename_i hne
  have hne' : s.str ≠ d.str := by simpa using hne
  split
  · rfl
  rcases toKPeer_sim h hs with ⟨a1, a2⟩ | ⟨ks, ks', a1, a2, a3⟩
  · rw [a1, a2]
  rw [a1, a2]
  simp only
  rcases toKPeer_sim h hd with ⟨b1, b2⟩ | ⟨kd, kd', b1, b2, b3⟩
  · rw [b1, b2]
  rw [b1, b2]
  simp only
  have hdok : kd.DstOK := by
    cases b3 with
    | ip r => trivial
    | pod n hq =>
      cases d with
      | ip r => cases b1
      | wl m q =>
        have hkd := toKPeer_wl_pod b1
        obtain ⟨a, ha⟩ := hkd
        cases ha
        exact ⟨hq.real, hok⟩
  rw [peerConns_sim h hv a3 b3 hdok (isPodToItself_false_of_selfFree (hf hne') a1 b1)
    (isPodToItself_false_of_selfFree (hf' hne') a2 b2)]
  cases e'.peerConns ks' kd' with
  | error err => rfl
  | ok c =>
    simp only
    split
    · rfl
    · simp [Except.map, entryKey, hs.str, hd.str]

/-! ## F. the peers × peers loop -/

section Collect2
variable {α β ε : Type}

/-- the double loop -/
def collect2 (g : α → α → Except ε (List β)) (l : List α) : Except ε (List β) :=
  collect (fun s => collect (g s) l) l

theorem collect2_ok_all {g : α → α → Except ε (List β)} {l : List α} {r : List β}
    (h : collect2 g l = .ok r) : ∀ s ∈ l, ∀ d ∈ l, ∃ xs, g s d = .ok xs := by
  intro s hs d hd
  obtain ⟨ys, hys⟩ := collect_ok_all h s hs
  exact collect_ok_all hys d hd

theorem collect2_mem_iff {g : α → α → Except ε (List β)} {l : List α} {r : List β}
    (h : collect2 g l = .ok r) (x : β) :
    x ∈ r ↔ ∃ s ∈ l, ∃ d ∈ l, ∃ xs, g s d = .ok xs ∧ x ∈ xs := by
  constructor
  · intro hx
    obtain ⟨s, hs, ys, hys, hxy⟩ := collect_mem h hx
    obtain ⟨d, hd, xs, hxs, hxx⟩ := collect_mem hys hxy
    exact ⟨s, hs, d, hd, xs, hxs, hxx⟩
  · rintro ⟨s, hs, d, hd, xs, hxs, hx⟩
    obtain ⟨ys, hys⟩ := collect_ok_all h s hs
    exact collect_mem_of h hs hys (collect_mem_of hys hd hxs hx)

theorem collect2_error {g : α → α → Except ε (List β)} {l : List α} {err : ε}
    (h : collect2 g l = .error err) : ∃ s ∈ l, ∃ d ∈ l, g s d = .error err := by
  obtain ⟨s, hs, hgs⟩ := collect_error_mem h
  obtain ⟨d, hd, hgd⟩ := collect_error_mem hgs
  exact ⟨s, hs, d, hd, hgd⟩

end Collect2

/-- the outcome of two runs agrees: the same error, or the same entries up to order -/
def ExPerm {α : Type} : Except Err (List α) → Except Err (List α) → Prop
  | .ok a, .ok b => a.Perm b
  | .error x, .error y => x = y
  | _, _ => False

/-- two peers lists that name the same peers, with similar standing pods -/
structure PeersSim (peers peers' : List LPeer) : Prop where
  nodup : (peers.map (·.str)).Nodup
  nodup' : (peers'.map (·.str)).Nodup
  fwd : ∀ s ∈ peers, ∃ s' ∈ peers', LSim s s'
  bwd : ∀ s' ∈ peers', ∃ s ∈ peers, LSim s s'

theorem map_ok_inv {α β : Type} {f : α → β} {x : Except Err α} {b : β}
    (h : x.map f = .ok b) : ∃ a, x = .ok a ∧ f a = b := by
  cases x with
  | error err => cases h
  | ok a => exact ⟨a, rfl, by cases h; rfl⟩

theorem map_error_inv {α β : Type} {f : α → β} {x : Except Err α} {err : Err}
    (h : x.map f = .error err) : x = .error err := by
  cases x with
  | error err' => cases h; rfl
  | ok a => cases h

theorem entries_keys_nodup {e : Engine} {peers : List LPeer} {focus : String} {es : List Entry}
    (hn : (peers.map (·.str)).Nodup) (h : e.connsBetweenPeers peers focus = .ok es) :
    (es.map entryKey).Nodup := by
  have := (entries_pairs_sublist h).nodup (nodup_product hn peers hn)
  apply nodup_of_map (fun k : String × String × ConnSet => (k.1, k.2.1))
  rw [List.map_map]
  exact this

/-- **the loop**: on equivalent engines and similar peers lists, the same error or the same
entries up to order -/
theorem connsBetweenPeers_sim {e e' : Engine} (h : e.Equiv e') (hv : NPValid e.netpols)
    (focus : String) {peers peers' : List LPeer} (hp : PeersSim peers peers')
    (hok : ∀ d ∈ peers, d.PortsOK)
    (hf : ∀ s ∈ peers, ∀ d ∈ peers, s.str ≠ d.str → LPeer.SelfFree s d)
    (hf' : ∀ s ∈ peers', ∀ d ∈ peers', s.str ≠ d.str → LPeer.SelfFree s d)
    (herr : ∀ s ∈ peers, ∀ d ∈ peers, ∀ err, pairEntry e focus s d = .error err →
      err = .namedPortOnIP) :
    ExPerm ((e.connsBetweenPeers peers focus).map (·.map entryKey))
      ((e'.connsBetweenPeers peers' focus).map (·.map entryKey)) := by
  -- corresponding pairs contribute the same
  have pair : ∀ s ∈ peers, ∀ s' ∈ peers', LSim s s' → ∀ d ∈ peers, ∀ d' ∈ peers', LSim d d' →
      (pairEntry e focus s d).map (·.map entryKey) =
        (pairEntry e' focus s' d').map (·.map entryKey) := by
    intro s hs s' hs' hss d hd d' hd' hdd
    exact pairEntry_sim h hv focus hss hdd (hok d hd) (hf s hs d hd)
      (fun hne => hf' s' hs' d' hd' (by rw [← hss.str, ← hdd.str]; exact hne))
  have hce := connsBetweenPeers_eq e peers focus
  have hce' := connsBetweenPeers_eq e' peers' focus
  cases hr : e.connsBetweenPeers peers focus with
  | ok es =>
    have hc : collect2 (pairEntry e focus) peers = .ok es := by rw [← hr, hce]; rfl
    cases hr' : e'.connsBetweenPeers peers' focus with
    | ok es' =>
      have hc' : collect2 (pairEntry e' focus) peers' = .ok es' := by rw [← hr', hce']; rfl
      show ((es.map entryKey)).Perm (es'.map entryKey)
      rw [List.perm_ext_iff_of_nodup (entries_keys_nodup hp.nodup hr)
        (entries_keys_nodup hp.nodup' hr')]
      intro k
      simp only [List.mem_map]
      constructor
      · rintro ⟨x, hx, rfl⟩
        obtain ⟨s, hs, d, hd, xs, hxs, hxx⟩ := (collect2_mem_iff hc x).mp hx
        obtain ⟨s', hs', hss⟩ := hp.fwd s hs
        obtain ⟨d', hd', hdd⟩ := hp.fwd d hd
        have := pair s hs s' hs' hss d hd d' hd' hdd
        rw [hxs] at this
        obtain ⟨xs', h1, h2⟩ := map_ok_inv this.symm
        have : entryKey x ∈ xs'.map entryKey := by rw [h2]; exact List.mem_map.mpr ⟨x, hxx, rfl⟩
        obtain ⟨x', hx', hk⟩ := List.mem_map.mp this
        exact ⟨x', (collect2_mem_iff hc' x').mpr ⟨s', hs', d', hd', xs', h1, hx'⟩, hk⟩
      · rintro ⟨x', hx', rfl⟩
        obtain ⟨s', hs', d', hd', xs', hxs', hxx'⟩ := (collect2_mem_iff hc' x').mp hx'
        obtain ⟨s, hs, hss⟩ := hp.bwd s' hs'
        obtain ⟨d, hd, hdd⟩ := hp.bwd d' hd'
        have := pair s hs s' hs' hss d hd d' hd' hdd
        rw [hxs'] at this
        obtain ⟨xs, h1, h2⟩ := map_ok_inv this
        have : entryKey x' ∈ xs.map entryKey := by rw [h2]; exact List.mem_map.mpr ⟨x', hxx', rfl⟩
        obtain ⟨x, hx, hk⟩ := List.mem_map.mp this
        exact ⟨x, (collect2_mem_iff hc x).mpr ⟨s, hs, d, hd, xs, h1, hx⟩, hk⟩
    | error err' =>
      have hc' : collect2 (pairEntry e' focus) peers' = .error err' := by rw [← hr', hce']; rfl
      obtain ⟨s', hs', d', hd', hg⟩ := collect2_error hc'
      obtain ⟨s, hs, hss⟩ := hp.bwd s' hs'
      obtain ⟨d, hd, hdd⟩ := hp.bwd d' hd'
      have := pair s hs s' hs' hss d hd d' hd' hdd
      rw [hg] at this
      have := map_error_inv this
      obtain ⟨xs, hxs⟩ := collect2_ok_all hc s hs d hd
      rw [hxs] at this; cases this
  | error err =>
    have hc : collect2 (pairEntry e focus) peers = .error err := by rw [← hr, hce]; rfl
    obtain ⟨s, hs, d, hd, hg⟩ := collect2_error hc
    have e1 := herr s hs d hd err hg
    cases hr' : e'.connsBetweenPeers peers' focus with
    | ok es' =>
      have hc' : collect2 (pairEntry e' focus) peers' = .ok es' := by rw [← hr', hce']; rfl
      obtain ⟨s', hs', hss⟩ := hp.fwd s hs
      obtain ⟨d', hd', hdd⟩ := hp.fwd d hd
      have := pair s hs s' hs' hss d hd d' hd' hdd
      rw [hg] at this
      have := map_error_inv this.symm
      obtain ⟨xs, hxs⟩ := collect2_ok_all hc' s' hs' d' hd'
      rw [hxs] at this; cases this
    | error err' =>
      have hc' : collect2 (pairEntry e' focus) peers' = .error err' := by rw [← hr', hce']; rfl
      obtain ⟨s', hs', d', hd', hg'⟩ := collect2_error hc'
      obtain ⟨s2, hs2, hss⟩ := hp.bwd s' hs'
      obtain ⟨d2, hd2, hdd⟩ := hp.bwd d' hd'
      have := pair s2 hs2 s' hs' hss d2 hd2 d' hd' hdd
      rw [hg'] at this
      have e2 := herr s2 hs2 d2 hd2 err' (map_error_inv this)
      show err = err'
      rw [e1, e2]

/-! ## G. the peers list and the report -/

theorem partition_perm {b b' : List Iv} (h : b.Perm b') : partition b = partition b' := by
  unfold partition
  simp only []
  rw [sortInts_perm ((h.flatMap_right _).append_right _)]

/-- the IP peers do not depend on the order of the policies -/
theorem disjointIPBlocks_perm {e e' : Engine} (hp : e.netpols.Perm e'.netpols) :
    e.disjointIPBlocks = e'.disjointIPBlocks := by
  unfold disjointIPBlocks
  exact partition_perm ((hp.flatMap_right _).append_right _)

/-- the pods that share a workload name may stand for one another -/
def UniformPods (pods : List Pod) : Prop :=
  ∀ p ∈ pods, ∀ q ∈ pods, workloadName p = workloadName q → SamePeer p q

instance (pods : List Pod) : Decidable (UniformPods pods) := by unfold UniformPods; infer_instance

theorem UniformPods.perm {l l' : List Pod} (hp : l.Perm l') (h : UniformPods l) : UniformPods l' :=
  fun p hp' q hq' => h p (hp.mem_iff.mpr hp') q (hp.mem_iff.mpr hq')

theorem peers_fwd {e e' : Engine} (hpods : e.pods.Perm e'.pods) (hnp : e.netpols.Perm e'.netpols)
    (hu : UniformPods e.pods) {peers peers' : List LPeer} (hpl : e.peersList = .ok peers)
    (hpl' : e'.peersList = .ok peers') : ∀ s ∈ peers, ∃ s' ∈ peers', LSim s s' := by
  obtain ⟨owners, ho, rfl⟩ := peersList_eq hpl
  obtain ⟨owners', ho', rfl⟩ := peersList_eq hpl'
  obtain ⟨_, f2, _⟩ := podOwnersMap_facts ho
  obtain ⟨_, g2, g3⟩ := podOwnersMap_facts ho'
  intro s hs
  rcases List.mem_append.mp hs with h1 | h1
  · obtain ⟨r, hr, rfl⟩ := List.mem_map.mp h1
    refine ⟨.ip r, List.mem_append_left _ (List.mem_map.mpr ⟨r, ?_, rfl⟩), .ip r⟩
    rw [← disjointIPBlocks_perm hnp]; exact hr
  · obtain ⟨⟨n, p⟩, hnp', rfl⟩ := List.mem_map.mp h1
    obtain ⟨a1, a2⟩ := f2 _ hnp'
    simp only at a1 a2
    have := g3 p (hpods.mem_iff.mp a2)
    obtain ⟨⟨n', p'⟩, hm, hn'⟩ := List.mem_map.mp this
    simp only at hn'
    obtain ⟨b1, b2⟩ := g2 _ hm
    simp only at b1 b2
    have hsame : SamePeer p p' := hu p a2 p' (hpods.mem_iff.mpr b2) (by rw [← hn', b1])
    refine ⟨.wl n' p', List.mem_append_right _ (List.mem_map.mpr ⟨(n', p'), hm, rfl⟩), ?_⟩
    rw [a1, ← hn']
    exact .wl _ hsame

/-- **the peers list**: equivalent engines with uniform pods list the same peers, with similar
standing pods -/
theorem peersList_sim {e e' : Engine} (h : e.Equiv e') (hu : UniformPods e.pods)
    {peers peers' : List LPeer} (hpl : e.peersList = .ok peers) (hpl' : e'.peersList = .ok peers') :
    PeersSim peers peers' where
  nodup := peers_names_nodup hpl
  nodup' := peers_names_nodup hpl'
  fwd := peers_fwd h.pods h.netpols hu hpl hpl'
  bwd := fun s' hs' => by
    obtain ⟨s, hs, hss⟩ := peers_fwd h.pods.symm h.netpols.symm (hu.perm h.pods) hpl' hpl s' hs'
    exact ⟨s, hs, hss.symm⟩

theorem peersList_isOk_perm {e e' : Engine} (hp : e.pods.Perm e'.pods) :
    (∃ r, e.peersList = .ok r) ↔ (∃ r, e'.peersList = .ok r) := by
  have key : ∀ e : Engine, (∃ r, e.peersList = .ok r) ↔ (∃ r, e.podOwnersMap = .ok r) := by
    intro e
    unfold peersList
    cases e.podOwnersMap with
    | error err => constructor <;> (rintro ⟨r, hr⟩; cases hr)
    | ok o => exact ⟨fun _ => ⟨o, rfl⟩, fun _ => ⟨_, rfl⟩⟩
  rw [key, key]
  exact podOwnersMap_isOk_perm hp

theorem peersList_error {e : Engine} {err : Err} (h : e.peersList = .error err) :
    err = .ownerLabels := by
  unfold peersList at h
  cases ho : e.podOwnersMap with
  | error err' =>
    rw [ho] at h
    cases h
    unfold podOwnersMap at ho
    exact go_error ho
  | ok o => rw [ho] at h; cases h

/-- every peer of the list stands on a pod of the engine under its workload name -/
theorem peersList_wl {e : Engine} {peers : List LPeer} (h : e.peersList = .ok peers) {n : String}
    {p : Pod} (hm : LPeer.wl n p ∈ peers) : n = workloadName p ∧ p ∈ e.pods := by
  obtain ⟨owners, ho, rfl⟩ := peersList_eq h
  obtain ⟨_, f2, _⟩ := podOwnersMap_facts ho
  rcases List.mem_append.mp hm with h1 | h1
  · obtain ⟨r, _, hr⟩ := List.mem_map.mp h1; cases hr
  · obtain ⟨⟨n', p'⟩, hnp', hr⟩ := List.mem_map.mp h1
    cases hr
    exact f2 _ hnp'

/-! ### validity of the input objects -/

/-- the policies are as the API server accepts them: legal rule ports and no empty rule peer in
NetworkPolicies; admin rules with at least one peer and legal ports; no `Pass` rule in the BANP.
(The clauses of `Engine.Valid` on the input objects.) -/
def PoliciesValid (objs : List Obj) : Prop :=
  (∀ p ∈ npsOf objs, (∀ r ∈ p.ingress, r.Valid) ∧ (∀ r ∈ p.egress, r.Valid)) ∧
  (∀ a ∈ anpsOf objs, ARule.ListValid a.ingress ∧ ARule.ListValid a.egress) ∧
  (∀ b ∈ banpsOf objs, ARule.ListValid b.ingress ∧ ARule.ListValid b.egress ∧
    (∀ r ∈ b.ingress, r.action ≠ .Pass) ∧ (∀ r ∈ b.egress, r.action ≠ .Pass))

instance (objs : List Obj) : Decidable (PoliciesValid objs) := by
  unfold PoliciesValid; infer_instance

theorem PoliciesValid.perm {objs objs' : List Obj} (hp : objs.Perm objs') (h : PoliciesValid objs) :
    PoliciesValid objs' :=
  ⟨fun p hm => h.1 p ((npsOf_perm hp).mem_iff.mpr hm),
   fun a hm => h.2.1 a ((anpsOf_perm hp).mem_iff.mpr hm),
   fun b hm => h.2.2 b ((banpsOf_perm hp).mem_iff.mpr hm)⟩

/-- the policy fields of the engine `build` returns (no assumption on keys) -/
theorem build_policies {objs : List Obj} {e : Engine} (h : Engine.build objs = .ok e) :
    e.netpols = (npsOf objs).map normNp ∧ e.anps.Perm (anpsOf objs) ∧
    e.banp.toList = banpsOf objs := by
  obtain ⟨e1, hf, _, he⟩ := build_ok_parts h
  obtain ⟨f1, _, f3, _⟩ := fold_policies hf
  have hperm : e1.anps.Perm (anpsOf objs) := by simpa using fold_anps_perm hf
  rw [he, resolve_eq]
  exact ⟨by simpa using f1, (foldr_insertByPrio_perm _).trans hperm, by simpa using f3⟩

theorem normNp_rules (p : NetPol) : (normNp p).ingress = p.ingress ∧ (normNp p).egress = p.egress := by
  unfold normNp; split <;> exact ⟨rfl, rfl⟩

/-- valid input objects make a valid engine -/
theorem build_valid {objs : List Obj} {e : Engine} (h : Engine.build objs = .ok e)
    (hv : PoliciesValid objs) : e.Valid := by
  obtain ⟨p1, p2, p3⟩ := build_policies h
  refine ⟨?_, ?_, ?_, build_sorted h⟩
  · intro np hnp
    rw [p1] at hnp
    obtain ⟨q, hq, rfl⟩ := List.mem_map.mp hnp
    rw [(normNp_rules q).1, (normNp_rules q).2]
    exact hv.1 q hq
  · intro a ha
    exact hv.2.1 a (p2.mem_iff.mp ha)
  · intro b hb
    apply hv.2.2 b
    rw [← p3, hb]
    simp

/-! ### the loop on two builds -/

/-- container ports of all pods are legal port numbers -/
def PodPortsValid (objs : List Obj) : Prop := ∀ p ∈ podsIn objs, p.ValidPorts

instance (objs : List Obj) : Decidable (PodPortsValid objs) := by
  unfold PodPortsValid; infer_instance

theorem selfFree_of_keys {e : Engine} (hn : (e.pods.map podKey).Nodup) {peers : List LPeer}
    (hpl : e.peersList = .ok peers) :
    ∀ s ∈ peers, ∀ d ∈ peers, s.str ≠ d.str → LPeer.SelfFree s d := by
  intro s hs d hd hne
  cases s with
  | ip r => trivial
  | wl n p =>
    cases d with
    | ip r => trivial
    | wl m q =>
      obtain ⟨a1, a2⟩ := peersList_wl hpl hs
      obtain ⟨b1, b2⟩ := peersList_wl hpl hd
      rintro ⟨h1, h2⟩
      have : p = q := eq_of_key_eq hn a2 b2 (by unfold podKey; rw [h1, h2])
      subst this
      exact hne (by show n = m; rw [a1, b1])

/-- on a valid engine whose peers have their namespace objects, a pair of the loop can only fail
with the named port towards an IP block -/
theorem pairEntry_err_class {e : Engine} (hv : e.Valid) (focus : String) {s d : LPeer}
    (hs : ∃ ks, e.toKPeer s = .ok ks) (hd : ∃ kd, e.toKPeer d = .ok kd)
    (hreal : ∀ m q, d = .wl m q → q.isRepresentative = false ∧ q.ValidPorts) {err : Err}
    (h : pairEntry e focus s d = .error err) : err = .namedPortOnIP := by
  obtain ⟨ks, hks⟩ := hs
  obtain ⟨kd, hkd⟩ := hd
  unfold pairEntry at h
  split at h
  · cases h
  split at h
  · cases h
  split at h
  · cases h
  rw [hks, hkd] at h
  simp only at h
  cases hc : e.peerConns ks kd with
  | ok c => rw [hc] at h; simp only at h; split at h <;> cases h
  | error err' =>
    rw [hc] at h
    cases h
    apply peerConns_err_class hv ks kd _ hc
    cases d with
    | ip r => cases hkd; trivial
    | wl m q =>
      obtain ⟨a, rfl⟩ := toKPeer_wl_pod hkd
      exact hreal m q rfl

theorem toKPeer_ok_of_ns {e : Engine} {s : LPeer}
    (h : ∀ n p, s = .wl n p → ∃ ns, e.findNs p.ns = some ns) : ∃ ks, e.toKPeer s = .ok ks := by
  cases s with
  | ip r => exact ⟨_, rfl⟩
  | wl n p =>
    obtain ⟨ns, hns⟩ := h n p rfl
    simp only [toKPeer, hns]
    split <;> exact ⟨_, rfl⟩

/-- no pod of the input is the representative pod of the exposure analysis (the parser never
produces one) -/
def PodsReal (objs : List Obj) : Prop := ∀ p ∈ podsIn objs, p.isRepresentative = false

instance (objs : List Obj) : Decidable (PodsReal objs) := by unfold PodsReal; infer_instance

/-- the rules of the NetworkPolicies are as the API server accepts them: legal rule ports, no rule
peer without selector and ipBlock (the NetworkPolicy clause of `PoliciesValid`) -/
def NPRulesValid (objs : List Obj) : Prop :=
  ∀ p ∈ npsOf objs, (∀ r ∈ p.ingress, r.Valid) ∧ (∀ r ∈ p.egress, r.Valid)

instance (objs : List Obj) : Decidable (NPRulesValid objs) := by unfold NPRulesValid; infer_instance

theorem npRulesValid_of_policiesValid {objs : List Obj} (h : PoliciesValid objs) :
    NPRulesValid objs := h.1

theorem PodsReal.perm {objs objs' : List Obj} (hp : objs.Perm objs') (h : PodsReal objs) :
    PodsReal objs' := fun p hm => h p ((podsIn_perm hp).mem_iff.mpr hm)

theorem NPRulesValid.perm {objs objs' : List Obj} (hp : objs.Perm objs') (h : NPRulesValid objs) :
    NPRulesValid objs' := fun p hm => h p ((npsOf_perm hp).mem_iff.mpr hm)

theorem PodPortsValid.perm {objs objs' : List Obj} (hp : objs.Perm objs') (h : PodPortsValid objs) :
    PodPortsValid objs' := fun p hm => h p ((podsIn_perm hp).mem_iff.mpr hm)

/-- the NetworkPolicies of the engine `build` returns are valid when those of the input are -/
theorem build_npValid {objs : List Obj} {e : Engine} (h : Engine.build objs = .ok e)
    (hv : NPRulesValid objs) : NPValid e.netpols := by
  obtain ⟨p1, _, _⟩ := build_policies h
  intro np hnp
  rw [p1] at hnp
  obtain ⟨q, hq, rfl⟩ := List.mem_map.mp hnp
  rw [(normNp_rules q).1, (normNp_rules q).2]
  exact hv q hq

/-- the hypotheses on the input of the order-independence theorems: keys are distinct, pods are
real pods, ports and policies are valid. (With the sorted iteration of `createPodOwnersMap` the pods
of one workload need not be interchangeable any more.) -/
structure WellFormed (objs : List Obj) : Prop where
  keys : DistinctKeys objs
  real : PodsReal objs
  ports : PodPortsValid objs
  policies : PoliciesValid objs

theorem WellFormed.perm {objs objs' : List Obj} (hp : objs.Perm objs') (h : WellFormed objs) :
    WellFormed objs' :=
  ⟨h.keys.perm hp, h.real.perm hp, h.ports.perm hp, h.policies.perm hp⟩

/-- the pod map of the engine `build` returns has unique keys (it is a map) -/
theorem build_pods_nodup {objs : List Obj} {e : Engine} (h : Engine.build objs = .ok e) :
    (e.pods.map podKey).Nodup := by
  obtain ⟨e1, hf, _, he⟩ := build_ok_parts h
  obtain ⟨d1, _⟩ := fold_data hf
  have hn : (e1.pods.map podKey).Nodup := by
    rw [d1]
    generalize podsIn objs = l
    have : ∀ acc : List Pod, (acc.map podKey).Nodup →
        ((l.foldl (fun a p => upsert podKey p a) acc).map podKey).Nodup := by
      induction l with
      | nil => exact fun acc h => h
      | cons p l ih => exact fun acc h => ih _ (nodup_upsert podKey p h)
    exact this _ (by simp)
  rw [he, resolve_eq]
  exact hn

/-- on the engine `build` returns, `podOwnersMap` is the `decide`-friendly `podOwnersMapD` -/
theorem podOwnersMap_build {objs : List Obj} {e : Engine} (h : Engine.build objs = .ok e) :
    e.podOwnersMap = podOwnersMapD e := podOwnersMap_eq_D (build_pods_nodup h)

/-! ### equivalent engines: the same peers list, the same loop -/

/-- equivalent engines list the same peers, in the same order, standing on the same pods -/
theorem peersList_equiv {e e' : Engine} (h : e.Equiv e') : e.peersList = e'.peersList := by
  unfold peersList
  rw [podOwnersMap_perm h.pods h.podsNodup, disjointIPBlocks_perm h.netpols]

theorem toKPeer_equiv {e e' : Engine} (h : e.Equiv e') (s : LPeer) : e.toKPeer s = e'.toKPeer s := by
  cases s with
  | ip r => rfl
  | wl n p => simp only [toKPeer, h.findNs]

/-- the destination pod of a report peer is a real pod with legal container ports -/
def _root_.Netpol.Engine.LPeer.DstOK : LPeer → Prop
  | .wl _ p => p.isRepresentative = false ∧ p.ValidPorts
  | .ip _ => True

/-- one pair of the loop on two equivalent engines: the same contribution or the same error -/
theorem pairEntry_equiv {e e' : Engine} (h : e.Equiv e') (hv : NPValid e.netpols) (focus : String)
    (s d : LPeer) (hd : d.DstOK) : pairEntry e focus s d = pairEntry e' focus s d := by
  unfold pairEntry
  rw [← toKPeer_equiv h s, ← toKPeer_equiv h d]
  split
  · rfl
  split
  · rfl
  split
  · rfl
  cases e.toKPeer s with
  | error err => rfl
  | ok ks =>
    simp only
    cases hkd : e.toKPeer d with
    | error err => rfl
    | ok kd =>
      simp only
      have hdok : kd.DstOK := by
        cases d with
        | ip r => cases hkd; trivial
        | wl m q =>
          obtain ⟨a, rfl⟩ := toKPeer_wl_pod hkd
          exact hd
      rw [peerConns_equiv h hv ks kd hdok]

theorem collect_congr {α β ε : Type} {g g' : α → Except ε (List β)} {l : List α}
    (h : ∀ a ∈ l, g a = g' a) : collect g l = collect g' l := by
  induction l with
  | nil => rfl
  | cons a l ih =>
    unfold collect
    rw [h a (List.mem_cons_self ..), ih (fun b hb => h b (List.mem_cons_of_mem _ hb))]

/-- **the loop on two equivalent engines**: the same entries in the same order, or the same error -/
theorem connsBetweenPeers_equiv {e e' : Engine} (h : e.Equiv e') (hv : NPValid e.netpols)
    (focus : String) (peers : List LPeer) (hok : ∀ d ∈ peers, d.DstOK) :
    e.connsBetweenPeers peers focus = e'.connsBetweenPeers peers focus := by
  rw [connsBetweenPeers_eq, connsBetweenPeers_eq]
  apply collect_congr
  intro s _
  apply collect_congr
  intro d hd
  exact pairEntry_equiv h hv focus s d (hok d hd)

/-- one pair of the loop on two equivalent engines with unique policy keys: no validity needed -/
theorem pairEntry_equiv' {e e' : Engine} (h : e.Equiv e')
    (hn : (e.netpols.map (fun q => (q.ns, q.name))).Nodup) (focus : String) (s d : LPeer) :
    pairEntry e focus s d = pairEntry e' focus s d := by
  unfold pairEntry
  rw [← toKPeer_equiv h s, ← toKPeer_equiv h d]
  split
  · rfl
  split
  · rfl
  split
  · rfl
  cases e.toKPeer s with
  | error err => rfl
  | ok ks =>
    simp only
    cases e.toKPeer d with
    | error err => rfl
    | ok kd =>
      simp only
      rw [peerConns_equiv' h hn ks kd]

/-- **the loop on two equivalent engines with unique policy keys**: the same entries in the same
order, or the same error — whatever the rules and the pods -/
theorem connsBetweenPeers_equiv' {e e' : Engine} (h : e.Equiv e')
    (hn : (e.netpols.map (fun q => (q.ns, q.name))).Nodup) (focus : String) (peers : List LPeer) :
    e.connsBetweenPeers peers focus = e'.connsBetweenPeers peers focus := by
  rw [connsBetweenPeers_eq, connsBetweenPeers_eq]
  apply collect_congr
  intro s _
  apply collect_congr
  intro d _
  exact pairEntry_equiv' h hn focus s d

/-- the peers of the list `build` returns stand on real pods with legal ports -/
theorem peers_dstOK {objs : List Obj} {e : Engine} (hk : DistinctKeys objs) (hr : PodsReal objs)
    (hpp : PodPortsValid objs) (hb : Engine.build objs = .ok e) {peers : List LPeer}
    (hpl : e.peersList = .ok peers) : ∀ d ∈ peers, d.DstOK := by
  have hpods : e.pods = podsIn objs := (build_fields hk hb).1
  intro d hd
  cases d with
  | ip r => trivial
  | wl m q =>
    have := (peersList_wl hpl hd).2
    rw [hpods] at this
    exact ⟨hr q this, hpp q this⟩

/-- **the computed relation is order-independent**: on an input with distinct keys, real pods,
valid ports and valid NetworkPolicy rules, and any reordering of it, the two engines list the same
peers (same order, same standing pods), and the loop returns the same entries in the same order,
or the same error -/
theorem list_relation_perm {objs objs' : List Obj} (hp : objs.Perm objs') (hk : DistinctKeys objs)
    (hr : PodsReal objs) (hpp : PodPortsValid objs) (hv : NPRulesValid objs)
    {e e' : Engine} (hb : Engine.build objs = .ok e) (hb' : Engine.build objs' = .ok e')
    (focus : String) :
    e.peersList = e'.peersList ∧ e.podOwnersMap = e'.podOwnersMap ∧
    ∀ peers, e.peersList = .ok peers →
      e.connsBetweenPeers peers focus = e'.connsBetweenPeers peers focus := by
  obtain ⟨e2, hb2, heq⟩ := build_perm hp hk hb
  rw [hb'] at hb2
  cases hb2
  refine ⟨peersList_equiv heq, podOwnersMap_perm heq.pods heq.podsNodup, fun peers hpl => ?_⟩
  exact connsBetweenPeers_equiv heq (build_npValid hb hv) focus peers (peers_dstOK hk hr hpp hb hpl)

/-- **the computed relation is order-independent, from distinct keys alone**: the NetworkPolicies
that select a pod are visited in the order of their names and the pods in the order of their keys,
so the two runs are the same computation — no validity of rules, ports or pods is needed -/
theorem list_relation_perm' {objs objs' : List Obj} (hp : objs.Perm objs') (hk : DistinctKeys objs)
    {e e' : Engine} (hb : Engine.build objs = .ok e) (hb' : Engine.build objs' = .ok e')
    (focus : String) :
    e.peersList = e'.peersList ∧ e.podOwnersMap = e'.podOwnersMap ∧
    ∀ peers, e.connsBetweenPeers peers focus = e'.connsBetweenPeers peers focus := by
  obtain ⟨e2, hb2, heq⟩ := build_perm hp hk hb
  rw [hb'] at hb2
  cases hb2
  exact ⟨peersList_equiv heq, podOwnersMap_perm heq.pods heq.podsNodup,
    fun peers => connsBetweenPeers_equiv' heq (build_netpols_nodup hb) focus peers⟩

/-! ### the report -/

open WorldDriver Sexp

/-- the line of an entry, from what `entryKey` keeps of it -/
def lineOfKey (k : String × String × ConnSet) : String :=
  k.1 ++ " " ++ k.2.1 ++ " " ++ us (ConnSet.connStrFromProps k.2.2.allowAll k.2.2.protocolsAndPorts)

/-- the report from the peer names, the entries and the blocked peers: all three are sorted, so
only their contents matter -/
def render (peerStrs : List String) (keys : List (String × String × ConnSet))
    (blocked : List String) : Sexp :=
  .list ([.atom "ok", .list (.atom "peers" :: (sortStrs peerStrs).map .atom)] ++
    ((sortStrs (keys.map lineOfKey)).map fun l => .list (.atom "e" :: (l.splitOn " ").map .atom)) ++
    (if blocked.isEmpty then [] else [.list (.atom "blocked" :: (sortStrs blocked).map .atom)]))

theorem render_perm {a a' : List String} {k k' : List (String × String × ConnSet)}
    {b b' : List String} (h1 : a.Perm a') (h2 : k.Perm k') (h3 : b.Perm b') :
    render a k b = render a' k' b' := by
  unfold render sortStrs
  rw [sortStrs_perm h1, sortStrs_perm (h2.map lineOfKey), sortStrs_perm h3, h3.isEmpty_eq]

/-- `focusExists` of `runList` as a function of what it reads: the focus string, whether the
ingress analysis found something, whether some peer is the focus workload. (The one place where
the proofs spell that expression; they use only that it is a function of these three.) -/
def focusExists (focus : String) (hasIngress peersAny : Bool) : Bool :=
  focus == "" || (focus == "ingress-controller" && hasIngress) || peersAny

/-- the `ok` branch of `runList`, in terms of `render` -/
theorem runList_ok {objs : List Obj} {focus : String} {eng : Engine} {peers : List LPeer}
    {owners : List (String × Pod)} {entries ing : List Entry} {blocked : List String}
    (hb : Engine.build objs = .ok eng) (hne : eng.pods.isEmpty = false)
    (hpl : eng.peersList = .ok peers) (ho : eng.podOwnersMap = .ok owners)
    (hfocus : focusExists focus (IngressA.allowedIngress objs owners).isSome
      (peers.any (Engine.isFocus focus)) = true)
    (hc : eng.connsBetweenPeers peers focus = .ok entries)
    (hi : IngressA.ingressEntries eng objs owners focus = .ok (ing, blocked)) :
    runList objs focus = render (peers.map (·.str)) ((entries ++ ing).map entryKey) blocked := by
  unfold focusExists at hfocus
  unfold runList render
  simp only [hb, hne, hpl, ho, hfocus, hc, hi, Bool.false_eq_true, if_false, Bool.not_true,
    List.map_map]
  rfl

theorem targets_perm {objs objs' : List Obj} (hp : objs.Perm objs') :
    (IngressA.targets objs).Perm (IngressA.targets objs') := hp.filterMap _

theorem allowedIngress_none {objs : List Obj} (h : IngressA.targets objs = [])
    (owners : List (String × Pod)) : IngressA.allowedIngress objs owners = none := by
  unfold IngressA.allowedIngress
  simp [h]

theorem ingressEntries_none {objs : List Obj} (h : IngressA.targets objs = []) (eng : Engine)
    (owners : List (String × Pod)) (focus : String) :
    IngressA.ingressEntries eng objs owners focus = .ok ([], []) := by
  unfold IngressA.ingressEntries
  rw [allowedIngress_none h]

theorem any_isFocus_sim {peers peers' : List LPeer} (h : PeersSim peers peers') (focus : String) :
    peers.any (Engine.isFocus focus) = peers'.any (Engine.isFocus focus) := by
  rw [Bool.eq_iff_iff, List.any_eq_true, List.any_eq_true]
  constructor
  · rintro ⟨s, hs, hf⟩
    obtain ⟨s', hs', hss⟩ := h.fwd s hs
    exact ⟨s', hs', by rw [← hss.isFocus]; exact hf⟩
  · rintro ⟨s', hs', hf⟩
    obtain ⟨s, hs, hss⟩ := h.bwd s' hs'
    exact ⟨s, hs, by rw [hss.isFocus]; exact hf⟩

theorem peerStrs_perm {peers peers' : List LPeer} (h : PeersSim peers peers') :
    (peers.map (·.str)).Perm (peers'.map (·.str)) := by
  rw [List.perm_ext_iff_of_nodup h.nodup h.nodup']
  intro n
  simp only [List.mem_map]
  constructor
  · rintro ⟨s, hs, rfl⟩
    obtain ⟨s', hs', hss⟩ := h.fwd s hs
    exact ⟨s', hs', hss.str.symm⟩
  · rintro ⟨s', hs', rfl⟩
    obtain ⟨s, hs, hss⟩ := h.bwd s' hs'
    exact ⟨s, hs, hss.str⟩

/-- **the `list` report is order-independent** (inputs without Ingress / Route targets): on an
input with distinct keys, real pods, valid ports and valid NetworkPolicy rules that `build` accepts,
every reordering of the objects yields the same report -/
theorem runList_perm_noIngress {objs objs' : List Obj} (hp : objs.Perm objs')
    (hk : DistinctKeys objs) (hr : PodsReal objs) (hpp : PodPortsValid objs)
    (hv : NPRulesValid objs) (hok : ∃ e, Engine.build objs = .ok e)
    (htg : IngressA.targets objs = []) (focus : String) :
    runList objs focus = runList objs' focus := by
  obtain ⟨e, hb⟩ := hok
  obtain ⟨e', hb', heq⟩ := build_perm hp hk hb
  have htg' : IngressA.targets objs' = [] := List.perm_nil.mp ((targets_perm hp).symm.trans (by rw [htg]))
  obtain ⟨h1, h2, h3⟩ := list_relation_perm hp hk hr hpp hv hb hb' focus
  unfold runList
  simp only [hb, hb']
  rw [← heq.pods.isEmpty_eq, ← h1, ← h2]
  split
  · rfl
  cases hpl : e.peersList with
  | error err => rfl
  | ok peers =>
    cases ho : e.podOwnersMap with
    | error err => rfl
    | ok owners =>
      simp only
      rw [← h3 peers hpl, allowedIngress_none htg, allowedIngress_none htg',
        ingressEntries_none htg, ingressEntries_none htg']

/-- **the `list` report is order-independent, from distinct keys alone** (inputs without Ingress /
Route targets): on an input `build` accepts, whose pods and namespaces have distinct keys, every
reordering of the objects yields the same report or the same error — whatever the policies say -/
theorem runList_perm_noIngress' {objs objs' : List Obj} (hp : objs.Perm objs')
    (hk : DistinctKeys objs) (hok : ∃ e, Engine.build objs = .ok e)
    (htg : IngressA.targets objs = []) (focus : String) :
    runList objs focus = runList objs' focus := by
  obtain ⟨e, hb⟩ := hok
  obtain ⟨e', hb', heq⟩ := build_perm hp hk hb
  have htg' : IngressA.targets objs' = [] := List.perm_nil.mp ((targets_perm hp).symm.trans (by rw [htg]))
  obtain ⟨h1, h2, h3⟩ := list_relation_perm' hp hk hb hb' focus
  unfold runList
  simp only [hb, hb']
  rw [← heq.pods.isEmpty_eq, ← h1, ← h2]
  split
  · rfl
  cases hpl : e.peersList with
  | error err => rfl
  | ok peers =>
    cases ho : e.podOwnersMap with
    | error err => rfl
    | ok owners =>
      simp only
      rw [← h3 peers, allowedIngress_none htg, allowedIngress_none htg',
        ingressEntries_none htg, ingressEntries_none htg']

end Netpol.PermLayer
